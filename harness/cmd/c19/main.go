// c19 replays behaviours of spec/Docs.tla (printed by TLC) on the real document engine
// (embedded/document.Engine over a real store) and compares, after every step, what the engine returns
// with what the specification says.
//
// Every behaviour is replayed on three twin collections that differ only in their non-unique indexes:
//
//	cs  the indexes of the behaviour,
//	cn  no non-unique index at all,
//	cf  additionally a single-field index on every declared field,
//
// so every query runs with and without an index on the filtered fields; all three must equal the spec.
// The oracle is thin: abstract values are concretised to JSON (structpb) per class, results are projected
// back to abstract document numbers and compared with the sets/sequences TLC printed.
package main

import (
	"context"
	"encoding/json"
	"errors"
	"flag"
	"fmt"
	"io"
	"math"
	"os"
	"path/filepath"
	"runtime"
	"sort"
	"strings"
	"sync"
	"time"

	"github.com/codenotary/immudb/embedded/document"
	"github.com/codenotary/immudb/embedded/logger"
	"github.com/codenotary/immudb/embedded/sql"
	"github.com/codenotary/immudb/embedded/store"
	"github.com/codenotary/immudb/pkg/api/protomodel"
	"google.golang.org/protobuf/proto"
	"google.golang.org/protobuf/types/known/structpb"

	"verifharness/vh"
)

var ctx = context.Background()

// ---------------------------------------------------------------------------------------------------------
// behaviours as printed by TLC

type cmpT struct {
	F  string `json:"f"`
	Op string `json:"op"`
	C  int    `json:"c"`
}
type ordT struct {
	F    string `json:"f"`
	Desc bool   `json:"desc"`
}
type ixdT struct {
	Fs []string `json:"fs"`
	Uq bool     `json:"uq"`
}
type docSt struct {
	Live  bool           `json:"live"`
	N     int            `json:"n"`
	Vals  map[string]int `json:"vals"`
	Stamp int            `json:"stamp"`
}
type atomT struct {
	F    string  `json:"f"`
	Lt   [][]int `json:"lt"`
	Eq   [][]int `json:"eq"`
	Like [][]int `json:"like"`
}
type stT struct {
	Decl  []string `json:"decl"`
	Ix    []ixdT   `json:"ix"`
	Docs  []docSt  `json:"docs"`
	Stale []string `json:"stale"`
	Atoms []atomT  `json:"atoms"`
}
type auditE struct {
	Rev   int            `json:"rev"`
	Del   bool           `json:"del"`
	Vals  map[string]int `json:"vals"`
	Stamp int            `json:"stamp"`
}
type getRes struct {
	R     string         `json:"r"`
	Vals  map[string]int `json:"vals"`
	Stamp int            `json:"stamp"`
	Rev   int            `json:"rev"`
}
type step struct {
	Op       string          `json:"op"`
	Ok       bool            `json:"ok"`
	Want     *bool           `json:"want,omitempty"`
	Fields   []string        `json:"fields,omitempty"`
	F        string          `json:"f,omitempty"`
	Ixd      *ixdT           `json:"ixd,omitempty"`
	Exists   bool            `json:"exists,omitempty"`
	Dup      bool            `json:"dup,omitempty"`
	Vals     map[string]int  `json:"vals,omitempty"`
	Stamp    int             `json:"stamp,omitempty"`
	Id       int             `json:"id,omitempty"`
	Q        [][]cmpT        `json:"q,omitempty"`
	Ob       []ordT          `json:"ob,omitempty"`
	Lim      int             `json:"lim,omitempty"`
	Off      int             `json:"off,omitempty"`
	Byid     int             `json:"byid,omitempty"`
	Sel      []int           `json:"sel,omitempty"`
	Revs     [][]int         `json:"revs,omitempty"`
	Ids      []int           `json:"ids,omitempty"`
	Desc     bool            `json:"desc,omitempty"`
	Nonempty bool            `json:"nonempty,omitempty"`
	Res      json.RawMessage `json:"res,omitempty"`
	Count    int             `json:"count,omitempty"`
	Total    int             `json:"total,omitempty"`
	Same     *bool           `json:"same,omitempty"`
	St       *stT            `json:"st,omitempty"`
}
type behaviour struct {
	Ops    []step   `json:"ops"`
	K      int      `json:"k"`
	Fields []string `json:"fields"`
	Origin string   `json:"origin"`
}
type inputFile struct {
	Behaviours []*behaviour `json:"behaviours"`
	Selftest   bool         `json:"selftest"`
}

// nesting depth 1: s i d b; 2: n.x; 3 (the engine's default maximum): n.y.z; tooDeep has depth 4 and must be refused
const (
	maxDepthField = "n.y.z"
	tooDeep       = "n.y.z.w"
)

func typeOf(f string) string {
	switch f {
	case "s", "n.y.z", tooDeep:
		return "STRING"
	case "i", "n.x":
		return "INTEGER"
	case "d":
		return "DOUBLE"
	case "b":
		return "BOOLEAN"
	case "_id":
		return "ID"
	}
	vh.Fatalf("unknown field %q", f)
	return ""
}
func protoType(f string) protomodel.FieldType {
	switch typeOf(f) {
	case "STRING":
		return protomodel.FieldType_STRING
	case "INTEGER":
		return protomodel.FieldType_INTEGER
	case "DOUBLE":
		return protomodel.FieldType_DOUBLE
	}
	return protomodel.FieldType_BOOLEAN
}
func nvals(f string, k int) int {
	if typeOf(f) == "BOOLEAN" {
		return 2
	}
	return k
}

// ---------------------------------------------------------------------------------------------------------
// concretisation classes

type class struct {
	name    string
	prefix  string     // common prefix of every STRING value (no %, _ or backslash)
	sym     [3]string  // the two symbols (one character each), sym[1] < sym[2]
	ints    [5]float64 // INTEGER values 1..4, ascending
	dbls    [5]float64 // DOUBLE values 1..4, ascending
	negzero bool       // the DOUBLE value that is zero is written -0.0 by documents with an odd stamp
	text    []string   // payload texts
}

func classes() []*class {
	return []*class{
		{name: "plain", prefix: "", sym: [3]string{"", "a", "b"}, ints: [5]float64{0, 1, 2, 3, 4}, dbls: [5]float64{0, 1.5, 2.5, 3.5, 4.5},
			text: []string{"alpha", "beta", "gamma"}},
		{name: "unicode", prefix: "k-", sym: [3]string{"", "é", "日"}, ints: [5]float64{0, -(1 << 53), -1, 1 << 53, 9.2e18},
			dbls: [5]float64{0, -math.MaxFloat64, -math.SmallestNonzeroFloat64, math.SmallestNonzeroFloat64, math.MaxFloat64},
			text: []string{"Zürich ↯ 東京", "ünï cödé 😀", "‮abc", "line1\nline2\ttab \"quoted\" \\"}},
		{name: "edge", prefix: strings.Repeat("x", 200) + "/", sym: [3]string{"", "A", "a"}, ints: [5]float64{0, -9.2e18, 0, 9.2e18, 9.21e18},
			dbls: [5]float64{0, -1e300, 0, 1e-300, 1e300}, negzero: true,
			text: []string{"", " ", strings.Repeat("long ", 400)}},
		{name: "newline", prefix: "", sym: [3]string{"", "\n", "b"}, ints: [5]float64{0, 10, 20, 30, 40}, dbls: [5]float64{0, -2.5, 1e21, 1e22, 1e23},
			text: []string{"x"}},
	}
}

// StrOf of the specification: 1 -> <<1>>, 2 -> <<1,2>>, 3 -> <<2>>, v -> <<2,v>>
func (c *class) str(v int) string {
	switch v {
	case 1:
		return c.prefix + c.sym[1]
	case 2:
		return c.prefix + c.sym[1] + c.sym[2]
	case 3:
		return c.prefix + c.sym[2]
	}
	return c.prefix + c.sym[2] + fmt.Sprint(v)
}

// Patterns of the specification (8 = %, 9 = _)
var patterns = [][]int{{1, 8}, {8, 2}, {9}, {1, 9}, {8}, {1, 2}, {9, 8}, {}}

func (c *class) pattern(p int) string {
	if p < 1 || p > len(patterns) {
		vh.Fatalf("pattern %d out of range", p)
	}
	s := c.prefix
	for _, x := range patterns[p-1] {
		switch x {
		case 8:
			s += "%"
		case 9:
			s += "_"
		default:
			s += c.sym[x]
		}
	}
	return s
}

// value of field f for abstract value v (1..K); parity selects the sign of a zero DOUBLE in class negzero
func (c *class) value(f string, v int, parity int) *structpb.Value {
	switch typeOf(f) {
	case "STRING":
		return structpb.NewStringValue(c.str(v))
	case "INTEGER":
		return structpb.NewNumberValue(c.ints[v])
	case "DOUBLE":
		x := c.dbls[v]
		if x == 0 && c.negzero && parity%2 == 1 {
			x = math.Copysign(0, -1)
		}
		return structpb.NewNumberValue(x)
	case "BOOLEAN":
		return structpb.NewBoolValue(v == 2)
	}
	vh.Fatalf("value of %q", f)
	return nil
}

func mustStruct(m map[string]interface{}) *structpb.Struct {
	s, err := structpb.NewStruct(m)
	vh.Must(err, "structpb.NewStruct")
	return s
}

// the JSON document of an abstract content (vals, stamp): typed fields (missing / null / value), the nested path,
// and a payload derived from the stamp
func (c *class) doc(vals map[string]int, stamp int) *structpb.Struct {
	fs := map[string]*structpb.Value{}
	for f, v := range vals {
		if strings.HasPrefix(f, "n.") {
			continue
		}
		switch {
		case v == -1:
		case v == 0:
			fs[f] = structpb.NewNullValue()
		default:
			fs[f] = c.value(f, v, stamp)
		}
	}
	// the object n holds the nested paths n.x (depth 2) and n.y.z (depth 3)
	nf := map[string]*structpb.Value{}
	if v, has := vals["n.x"]; has {
		switch {
		case v == 0:
			nf["x"] = structpb.NewNullValue()
		case v > 0:
			nf["x"] = c.value("n.x", v, stamp)
		}
	}
	if v, has := vals[maxDepthField]; has {
		switch {
		case v == 0:
			nf["y"] = structpb.NewStructValue(&structpb.Struct{Fields: map[string]*structpb.Value{"z": structpb.NewNullValue(), "q": structpb.NewNumberValue(float64(stamp))}})
		case v > 0:
			nf["y"] = structpb.NewStructValue(&structpb.Struct{Fields: map[string]*structpb.Value{"z": c.value(maxDepthField, v, stamp),
				"zz": structpb.NewStringValue("sibling"), "w": structpb.NewStructValue(mustStruct(map[string]interface{}{"z": "deeper"}))}})
		default: // seven ways not to have n.y.z below an object n: no y, an object without z, a non-object at the intermediate level
			switch (stamp / 2) % 7 {
			case 1:
				nf["y"] = structpb.NewStructValue(mustStruct(map[string]interface{}{}))
			case 2:
				nf["y"] = structpb.NewStructValue(mustStruct(map[string]interface{}{"zz": "a", "Z": "a", "w": map[string]interface{}{"z": "a"}}))
			case 3:
				nf["y"] = structpb.NewNumberValue(7)
			case 4:
				nf["y"] = structpb.NewStringValue(c.str(1))
			case 5:
				nf["y"] = structpb.NewListValue(&structpb.ListValue{Values: []*structpb.Value{structpb.NewStructValue(mustStruct(map[string]interface{}{"z": "a"}))}})
			case 6:
				nf["y"] = structpb.NewNullValue()
			}
		}
	}
	_, hasX := vals["n.x"]
	_, hasZ := vals[maxDepthField]
	if hasX || hasZ {
		if len(nf) == 0 {
			switch stamp % 4 { // four ways not to have an object n with anything in it
			case 1:
				fs["n"] = structpb.NewStructValue(mustStruct(map[string]interface{}{}))
			case 2:
				fs["n"] = structpb.NewStructValue(mustStruct(map[string]interface{}{"xx": 1, "y.z": "dotted key, not a path", "z": "a"}))
			case 3:
				fs["n"] = structpb.NewNumberValue(5)
			}
		} else {
			nf["t"] = structpb.NewListValue(&structpb.ListValue{Values: []*structpb.Value{structpb.NewStringValue(c.text[stamp%len(c.text)])}})
			fs["n"] = structpb.NewStructValue(&structpb.Struct{Fields: nf})
		}
	}
	// payload: everything else a document may carry
	fs["p_stamp"] = structpb.NewNumberValue(float64(stamp))
	fs["p_txt"] = structpb.NewStringValue(c.text[stamp%len(c.text)])
	fs["p_num"] = structpb.NewNumberValue([]float64{1e-7, 1e21, 3, -0.5, math.MaxFloat64, 123456789.125}[stamp%6])
	fs["p_arr"] = structpb.NewListValue(&structpb.ListValue{Values: []*structpb.Value{structpb.NewNumberValue(float64(stamp)), structpb.NewStringValue("é"),
		structpb.NewNullValue(), structpb.NewBoolValue(stamp%2 == 0), structpb.NewStructValue(mustStruct(map[string]interface{}{"k": true}))}})
	fs["p_obj"] = structpb.NewStructValue(mustStruct(map[string]interface{}{"l1": map[string]interface{}{"l2": map[string]interface{}{"l3": []interface{}{1.0, "two", nil}}},
		"s": "i", "": "empty-key", "a.b": "dotted"}))
	if stamp%3 == 0 {
		fs["s.t"] = structpb.NewStringValue("dotted top-level name") // not a declared path
	}
	return &structpb.Struct{Fields: fs}
}

// bit-exact equality of JSON values (field order is irrelevant: maps)
func eqValue(a, b *structpb.Value) bool {
	if a == nil || b == nil {
		return a == nil && b == nil
	}
	switch x := a.Kind.(type) {
	case *structpb.Value_NullValue:
		_, ok := b.Kind.(*structpb.Value_NullValue)
		return ok
	case *structpb.Value_NumberValue:
		y, ok := b.Kind.(*structpb.Value_NumberValue)
		return ok && math.Float64bits(x.NumberValue) == math.Float64bits(y.NumberValue)
	case *structpb.Value_StringValue:
		y, ok := b.Kind.(*structpb.Value_StringValue)
		return ok && x.StringValue == y.StringValue
	case *structpb.Value_BoolValue:
		y, ok := b.Kind.(*structpb.Value_BoolValue)
		return ok && x.BoolValue == y.BoolValue
	case *structpb.Value_StructValue:
		y, ok := b.Kind.(*structpb.Value_StructValue)
		return ok && eqStruct(x.StructValue, y.StructValue)
	case *structpb.Value_ListValue:
		y, ok := b.Kind.(*structpb.Value_ListValue)
		if !ok || len(x.ListValue.GetValues()) != len(y.ListValue.GetValues()) {
			return false
		}
		for i := range x.ListValue.GetValues() {
			if !eqValue(x.ListValue.Values[i], y.ListValue.Values[i]) {
				return false
			}
		}
		return true
	}
	return false
}
func eqStruct(a, b *structpb.Struct) bool {
	if a == nil || b == nil {
		return a == nil && b == nil
	}
	if len(a.GetFields()) != len(b.GetFields()) {
		return false
	}
	for k, v := range a.Fields {
		w, ok := b.Fields[k]
		if !ok || !eqValue(v, w) {
			return false
		}
	}
	return true
}

// ---------------------------------------------------------------------------------------------------------
// one replay

const (
	kindSpec = iota // cs
	kindNone        // cn
	kindFull        // cf
)

type coll struct {
	name  string
	kind  int
	ids   []string // abstract id - 1 -> document id (hex)
	byHex map[string]int
	auto  map[string]bool // cf: single-field indexes created by the harness
}

type violation struct {
	sig, text string
	detail    map[string]interface{}
}

type run struct {
	b      *behaviour
	cl     *class
	dir    string
	a      api
	viaDB  bool
	colls  []*coll
	prev   *stT // abstract collection before the step
	cnt    map[string]int
	vs     []*violation
	stop   string
	si     int
	nquery int
}

func (r *run) count(k string) { r.cnt[k]++ }

var quiet = logger.NewSimpleLoggerWithLevel("c19", io.Discard, logger.LogError)

func storeOpts() *store.Options {
	o := store.DefaultOptions().WithMultiIndexing(true).WithLogger(quiet).WithMaxTxEntries(512).WithMaxValueLen(1 << 18).WithMaxConcurrency(10).
		WithWriteBufferSize(1 << 16).WithTxLogCacheSize(50).WithVLogCacheSize(0).WithMaxActiveTransactions(50).WithMaxWaitees(100)
	o.WithIndexOptions(o.IndexOpts.WithCacheSize(200).WithFlushBufferSize(1 << 16).WithMaxBufferedDataSize(1 << 18).WithMaxGlobalBufferedDataSize(1 << 20))
	o.WithAHTOptions(o.AHTOpts.WithWriteBufferSize(1 << 14))
	return o
}

func (r *run) open() error {
	var err error
	if r.viaDB {
		r.a, err = openDB(r.dir, r)
	} else {
		r.a, err = openEngine(r.dir)
	}
	return err
}
func (r *run) close() error {
	if r.a == nil {
		return nil
	}
	err := r.a.Close()
	r.a = nil
	return err
}

// all indexes caught up with the last committed transaction (the engine's write paths use possibly stale index
// snapshots; replays are sequential and deterministic, the race is exercised by the probe)
func (r *run) settle() { r.a.Settle() }

func (r *run) violate(sig, text string, detail map[string]interface{}) {
	r.vs = append(r.vs, &violation{sig: sig, text: text, detail: detail})
}

func errClass(err error) string {
	switch {
	case err == nil:
		return "ok"
	case errors.Is(err, document.ErrConflict):
		return "conflict"
	case errors.Is(err, document.ErrLimitedIndexCreation):
		return "limited-index-creation"
	case errors.Is(err, document.ErrFieldDoesNotExist):
		return "field-does-not-exist"
	case errors.Is(err, document.ErrFieldAlreadyExists):
		return "field-already-exists"
	case errors.Is(err, sql.ErrIndexAlreadyExists):
		return "index-already-exists"
	case errors.Is(err, sql.ErrCannotDropColumn) || strings.Contains(err.Error(), "cannot drop column"):
		return "column-in-use"
	case errors.Is(err, document.ErrDocumentNotFound):
		return "document-not-found"
	}
	s := err.Error()
	if len(s) > 60 {
		s = s[:60]
	}
	return "error:" + s
}

// ---- concretisation of queries

var unknownID = "00112233445566778899aabbccddeeff"

func (r *run) cmpValue(c *coll, cm cmpT, parity int) *structpb.Value {
	if cm.F == "_id" {
		if cm.C >= 1 && cm.C <= len(c.ids) {
			return structpb.NewStringValue(c.ids[cm.C-1])
		}
		return structpb.NewStringValue(unknownID)
	}
	if cm.Op == "LIKE" || cm.Op == "NOT_LIKE" {
		return structpb.NewStringValue(r.cl.pattern(cm.C))
	}
	if cm.C == 0 {
		return structpb.NewNullValue()
	}
	return r.cl.value(cm.F, cm.C, parity)
}

var opOf = map[string]protomodel.ComparisonOperator{"EQ": protomodel.ComparisonOperator_EQ, "NE": protomodel.ComparisonOperator_NE,
	"LT": protomodel.ComparisonOperator_LT, "LE": protomodel.ComparisonOperator_LE, "GT": protomodel.ComparisonOperator_GT,
	"GE": protomodel.ComparisonOperator_GE, "LIKE": protomodel.ComparisonOperator_LIKE, "NOT_LIKE": protomodel.ComparisonOperator_NOT_LIKE}

func (r *run) query(c *coll, q [][]cmpT, ob []ordT, lim int) *protomodel.Query {
	pq := &protomodel.Query{CollectionName: c.name, Limit: uint32(lim)}
	for _, g := range q {
		ex := &protomodel.QueryExpression{}
		for _, cm := range g {
			// (the sign of a zero constant depends on the step only: the selection check of a write and the write use the same constants)
			ex.FieldComparisons = append(ex.FieldComparisons, &protomodel.FieldComparison{Field: cm.F, Operator: opOf[cm.Op], Value: r.cmpValue(c, cm, r.si)})
		}
		pq.Expressions = append(pq.Expressions, ex)
	}
	for _, o := range ob {
		pq.OrderBy = append(pq.OrderBy, &protomodel.OrderByClause{Field: o.F, Desc: o.Desc})
	}
	return pq
}

type hit struct {
	id  int // abstract id, 0 = unknown document
	hex string
	doc *structpb.Struct
}

func (r *run) search(c *coll, pq *protomodel.Query, off int) ([]hit, error) {
	r.nquery++
	rd, err := r.a.Search(pq, off)
	if err != nil {
		return nil, err
	}
	defer rd.Close()
	var out []hit
	for {
		d, err := rd.Read(ctx)
		if errors.Is(err, document.ErrNoMoreDocuments) {
			return out, nil
		}
		if err != nil {
			return out, err
		}
		out = append(out, hit{id: c.byHex[d.DocumentId], hex: d.DocumentId, doc: d.Document})
		if len(out) > 10000 {
			return out, fmt.Errorf("reader does not end")
		}
	}
}

// expected JSON of abstract document id in state st, as stored in collection c
func (r *run) expDoc(c *coll, st *stT, id int) *structpb.Struct {
	d := st.Docs[id-1]
	s := r.cl.doc(d.Vals, d.Stamp)
	s.Fields[document.DefaultDocumentIDField] = structpb.NewStringValue(c.ids[id-1])
	return s
}

// ---- classification of a wrong search result (names the finding; every mismatch is a violation)

func nonASCII(s string) bool {
	for i := 0; i < len(s); i++ {
		if s[i] >= 0x80 {
			return true
		}
	}
	return false
}

func (r *run) classify(st *stT, q [][]cmpT, ob []ordT, differ bool) string {
	stale := map[string]bool{}
	for _, f := range st.Stale {
		stale[f] = true
	}
	var fields []string
	for _, g := range q {
		for _, cm := range g {
			fields = append(fields, cm.F)
		}
	}
	for _, o := range ob {
		fields = append(fields, o.F)
	}
	for _, f := range fields {
		if stale[f] {
			return "Search:field-added-to-non-empty-collection:stored-documents-not-searchable-by-it"
		}
	}
	for _, g := range q {
		for _, cm := range g {
			if cm.Op == "LIKE" || cm.Op == "NOT_LIKE" {
				p := r.cl.pattern(cm.C)
				if nonASCII(p) {
					return "Search:LIKE:non-ascii-character-in-pattern-never-matches"
				}
				if strings.Contains(r.cl.sym[1]+r.cl.sym[2]+r.cl.prefix, "\n") && strings.ContainsAny(p, "%_") {
					return "Search:LIKE:wildcard-does-not-match-newline"
				}
			}
		}
	}
	if r.cl.negzero {
		// a comparison of a DOUBLE field with the constant zero (written 0.0 or -0.0)
		for _, g := range q {
			for _, cm := range g {
				if cm.F != "_id" && typeOf(cm.F) == "DOUBLE" && cm.C > 0 && r.cl.dbls[cm.C] == 0 {
					return "Search:index-on-DOUBLE-field:negative-zero-not-found-by-zero"
				}
			}
		}
	}
	if differ {
		return "Search:result-depends-on-indexes"
	}
	ops := map[string]bool{}
	for _, g := range q {
		for _, cm := range g {
			if cm.F == "_id" {
				ops["ID:"+cm.Op] = true
			} else {
				ops[typeOf(cm.F)+":"+cm.Op] = true
			}
		}
	}
	var l []string
	for k := range ops {
		l = append(l, k)
	}
	sort.Strings(l)
	if len(ob) > 0 {
		l = append(l, "ORDERBY")
	}
	if len(l) > 2 {
		l = l[:2]
	}
	if len(l) == 0 {
		return "Search:wrong-result:unfiltered"
	}
	return "Search:wrong-result:" + strings.Join(l, "+")
}

// runs one search on every twin collection and compares with the expectation: res = admissible abstract ids per
// position.  Returns false when a violation was recorded.
func (r *run) checkSearch(st *stT, what string, q [][]cmpT, ob []ordT, off, lim int, res [][]int, count int, withCount bool) bool {
	type outcome struct {
		ids  []int
		bad  string
		errs string
	}
	outs := make([]outcome, len(r.colls))
	anyBad := false
	for ci, c := range r.colls {
		pq := r.query(c, q, ob, lim)
		hits, err := r.search(c, pq, off)
		o := &outs[ci]
		if err != nil {
			o.bad, o.errs = "error: "+err.Error(), err.Error()
			anyBad = true
			continue
		}
		seen := map[int]bool{}
		for p, h := range hits {
			o.ids = append(o.ids, h.id)
			if o.bad != "" {
				continue
			}
			switch {
			case h.id == 0:
				o.bad = fmt.Sprintf("position %d: unknown document %s", p+1, h.hex)
			case seen[h.id]:
				o.bad = fmt.Sprintf("document %d returned twice", h.id)
			case p >= len(res):
				o.bad = fmt.Sprintf("%d documents returned, %d expected", len(hits), len(res))
			case !contains(res[p], h.id):
				o.bad = fmt.Sprintf("position %d: document %d, expected one of %v", p+1, h.id, res[p])
			case !st.Docs[h.id-1].Live:
				o.bad = fmt.Sprintf("deleted document %d returned", h.id)
			case !eqStruct(h.doc, r.expDoc(c, st, h.id)):
				o.bad = fmt.Sprintf("document %d returned altered: %s", h.id, compact(h.doc))
			}
			seen[h.id] = true
		}
		if o.bad == "" && len(hits) != len(res) {
			o.bad = fmt.Sprintf("%d documents returned, %d expected", len(hits), len(res))
		}
		if o.bad == "" && withCount {
			n, err := r.a.Count(pq)
			r.nquery++
			if err != nil {
				o.bad = "CountDocuments: " + err.Error()
			} else if int(n) != count {
				o.bad = fmt.Sprintf("CountDocuments = %d, expected %d", n, count)
			}
		}
		if o.bad != "" {
			anyBad = true
		}
	}
	if len(res) > 0 {
		for _, g := range q {
			for _, cm := range g {
				if cm.F == maxDepthField {
					r.count("maxdepth:search-returns-documents:" + cm.Op)
				}
			}
		}
		for _, o := range ob {
			if o.F == maxDepthField {
				r.count("maxdepth:orderby")
			}
		}
	}
	if !anyBad {
		return true
	}
	differ := false
	for ci := range outs {
		if (outs[ci].bad == "") != (outs[0].bad == "") || fmt.Sprint(outs[ci].ids) != fmt.Sprint(outs[0].ids) {
			differ = true
		}
	}
	sig := r.classify(st, q, ob, differ)
	var parts []string
	det := map[string]interface{}{"query": q, "orderBy": ob, "offset": off, "limit": lim, "expected": res, "what": what}
	for ci, c := range r.colls {
		parts = append(parts, fmt.Sprintf("%s: got %v %s", c.name, outs[ci].ids, outs[ci].bad))
		det["got_"+c.name] = outs[ci].ids
	}
	r.violate(sig, fmt.Sprintf("%s %s orderBy=%v offset=%d limit=%d (class %s): expected %v; %s", what, describeQ(r, q), ob, off, lim, r.cl.name, res,
		strings.Join(parts, "; ")), det)
	return false
}

var osStat = os.Stat

func contains2(l []string, x string) bool {
	for _, y := range l {
		if y == x {
			return true
		}
	}
	return false
}

func contains(l []int, x int) bool {
	for _, y := range l {
		if y == x {
			return true
		}
	}
	return false
}
func compact(s *structpb.Struct) string {
	b, _ := json.Marshal(s.AsMap())
	if len(b) > 300 {
		return string(b[:300]) + "..."
	}
	return string(b)
}
func describeQ(r *run, q [][]cmpT) string {
	if len(q) == 0 {
		return "(no filter)"
	}
	var gs []string
	for _, g := range q {
		var cs []string
		for _, cm := range g {
			var v string
			switch {
			case cm.F == "_id":
				v = fmt.Sprintf("id(doc %d)", cm.C)
			case cm.Op == "LIKE" || cm.Op == "NOT_LIKE":
				v = fmt.Sprintf("%q", r.cl.pattern(cm.C))
			case cm.C == 0:
				v = "null"
			default:
				v = compactValue(r.cl.value(cm.F, cm.C, 0))
			}
			if len(v) > 40 {
				v = v[:40] + "..."
			}
			cs = append(cs, fmt.Sprintf("%s %s %s", cm.F, cm.Op, v))
		}
		gs = append(gs, "("+strings.Join(cs, " AND ")+")")
	}
	return strings.Join(gs, " OR ")
}
func compactValue(v *structpb.Value) string {
	b, err := json.Marshal(v.AsInterface())
	if err != nil {
		return fmt.Sprint(v.AsInterface())
	}
	return string(b)
}

// ---- id lookup, audit

// decodes the row value the engine returns for an id lookup (same layout document.Engine and VerifyDocument use)
func decodeRow(enc []byte) (*structpb.Struct, error) {
	voff := sql.EncLenLen + sql.EncIDLen
	if len(enc) < voff {
		return nil, fmt.Errorf("short row")
	}
	_, n, err := sql.DecodeValue(enc[voff:], sql.BLOBType)
	if err != nil {
		return nil, err
	}
	voff += n + sql.EncIDLen
	if len(enc) < voff {
		return nil, fmt.Errorf("short row")
	}
	v, _, err := sql.DecodeValue(enc[voff:], sql.BLOBType)
	if err != nil {
		return nil, err
	}
	d := &structpb.Struct{}
	if err := proto.Unmarshal(v.RawValue().([]byte), d); err != nil {
		return nil, err
	}
	return d, nil
}

// GetById on every collection: content, stamp (= the whole document) and revision number, or not found
func (r *run) checkGet(st *stT, id int, what string) bool {
	ok := true
	for _, c := range r.colls {
		if id > len(c.ids) {
			// never inserted: a lookup of an unknown id must not find anything
			_, _, err := r.a.Get(c.name, unknownID)
			if !errors.Is(err, document.ErrDocumentNotFound) {
				r.violate("GetById:unknown-id:found", fmt.Sprintf("%s: lookup of an id that was never generated returned %v", what, err), nil)
				ok = false
			}
			continue
		}
		d := st.Docs[id-1]
		got, rev, err := r.a.Get(c.name, c.ids[id-1])
		if !d.Live {
			if !errors.Is(err, document.ErrDocumentNotFound) {
				r.violate("GetById:deleted-document:returned", fmt.Sprintf("%s: %s: lookup of deleted document %d: %v", what, c.name, id, err), map[string]interface{}{"doc": id})
				ok = false
			}
			continue
		}
		if err != nil {
			r.violate("GetById:stored-document:not-returned", fmt.Sprintf("%s: %s: lookup of document %d: %v", what, c.name, id, err), map[string]interface{}{"doc": id})
			ok = false
			continue
		}
		if !eqStruct(got, r.expDoc(c, st, id)) {
			r.violate("GetById:stored-document:returned-altered", fmt.Sprintf("%s: %s (class %s): document %d: got %s, stored %s", what, c.name, r.cl.name, id,
				compactOrNil(got), compact(r.expDoc(c, st, id))), map[string]interface{}{"doc": id})
			ok = false
			continue
		}
		if int(rev) != d.N {
			r.violate("GetById:revision-number", fmt.Sprintf("%s: %s: document %d has revision %d, lookup says %d", what, c.name, id, d.N, rev), map[string]interface{}{"doc": id})
			ok = false
		}
	}
	return ok
}
func compactOrNil(s *structpb.Struct) string {
	if s == nil {
		return "<nil>"
	}
	return compact(s)
}

func (r *run) checkAudit(id int, desc bool, off, lim int, exp []auditE, what string) bool {
	ok := true
	for _, c := range r.colls {
		revs, err := r.a.Audit(c.name, c.ids[id-1], desc, off, lim)
		if errors.Is(err, errNotPageAligned) {
			r.count("audit:not-page-aligned-skipped")
			continue
		}
		if err != nil && len(exp) == 0 {
			continue // an offset at or beyond the number of revisions: an error or an empty page
		}
		bad := ""
		if err != nil {
			bad = "error: " + err.Error()
		} else if len(revs) != len(exp) {
			bad = fmt.Sprintf("%d revisions listed, %d expected", len(revs), len(exp))
		} else {
			for i, e := range exp {
				g := revs[i]
				switch {
				case int(g.Revision) != e.Rev:
					bad = fmt.Sprintf("entry %d is revision %d, expected %d", i+1, g.Revision, e.Rev)
				case g.GetMetadata().GetDeleted() != e.Del:
					bad = fmt.Sprintf("revision %d: deleted=%v, expected %v", e.Rev, g.GetMetadata().GetDeleted(), e.Del)
				case e.Del && g.Document != nil && len(g.Document.Fields) > 0:
					bad = fmt.Sprintf("revision %d is a deletion but carries a document", e.Rev)
				case g.DocumentId != c.ids[id-1]:
					bad = fmt.Sprintf("revision %d carries id %s", e.Rev, g.DocumentId)
				case !e.Del:
					want := r.cl.doc(e.Vals, e.Stamp)
					want.Fields[document.DefaultDocumentIDField] = structpb.NewStringValue(c.ids[id-1])
					if !eqStruct(g.Document, want) {
						bad = fmt.Sprintf("revision %d altered: got %s stored %s", e.Rev, compactOrNil(g.Document), compact(want))
					}
				}
				if bad != "" {
					break
				}
			}
		}
		if bad != "" {
			r.violate("AuditDocument:revisions-differ-from-write-history", fmt.Sprintf("%s: %s: audit(doc %d, desc=%v, offset=%d, limit=%d): %s", what, c.name, id, desc, off, lim, bad),
				map[string]interface{}{"doc": id, "desc": desc, "offset": off, "limit": lim, "expected": exp})
			ok = false
		}
	}
	return ok
}

// ---- the abstract collection after a step

func union(a, b []int) []int {
	m := map[int]bool{}
	for _, x := range a {
		m[x] = true
	}
	for _, x := range b {
		m[x] = true
	}
	return setOf(m)
}
func minus(a, b []int) []int {
	m := map[int]bool{}
	for _, x := range a {
		m[x] = true
	}
	for _, x := range b {
		delete(m, x)
	}
	return setOf(m)
}
func setOf(m map[int]bool) []int {
	var l []int
	for x := range m {
		l = append(l, x)
	}
	sort.Ints(l)
	return l
}
func anyOrder(ids []int) [][]int {
	res := make([][]int, len(ids))
	for i := range res {
		res[i] = ids
	}
	return res
}

// compares the real collections with the abstract collection: every document by id, the unfiltered search, and
// the table of atomic comparisons (all of it when full, else the rows of one field chosen by the step number)
func (r *run) checkState(st *stT, what string, full bool) bool {
	ok := true
	var live []int
	for i, d := range st.Docs {
		if !r.checkGet(st, i+1, what) {
			ok = false
		}
		if d.Live {
			live = append(live, i+1)
		}
	}
	if !r.checkSearch(st, what+": all documents", nil, nil, 0, 0, anyOrder(live), len(live), true) {
		ok = false
	}
	if !ok {
		return false
	}
	// from here on a mismatch is a wrong search result, not a different collection: the replay goes on
	for ai, a := range st.Atoms {
		if !full && ai != r.si%len(st.Atoms) {
			continue
		}
		for c := 0; c < len(a.Eq); c++ {
			lt, eq := a.Lt[c], a.Eq[c]
			gt := minus(live, union(lt, eq))
			for _, t := range []struct {
				op  string
				ids []int
			}{{"EQ", eq}, {"NE", union(lt, gt)}, {"LT", lt}, {"LE", union(lt, eq)}, {"GT", gt}, {"GE", union(eq, gt)}} {
				r.count("atom:" + typeOf(a.F) + ":" + t.op)
				r.checkSearch(st, what+": atom", [][]cmpT{{{F: a.F, Op: t.op, C: c}}}, nil, 0, 0, anyOrder(t.ids), len(t.ids), c == 1)
			}
		}
		for p := range a.Like {
			r.count("atom:LIKE")
			r.checkSearch(st, what+": atom", [][]cmpT{{{F: a.F, Op: "LIKE", C: p + 1}}}, nil, 0, 0, anyOrder(a.Like[p]), len(a.Like[p]), false)
			nl := minus(live, a.Like[p])
			r.checkSearch(st, what+": atom", [][]cmpT{{{F: a.F, Op: "NOT_LIKE", C: p + 1}}}, nil, 0, 0, anyOrder(nl), len(nl), false)
		}
	}
	return ok
}

// ---- schema helpers

// the content has the value zero in a DOUBLE field of a unique index, in the class that writes zero as 0.0 and -0.0
func (r *run) negzeroKey(st *stT, vals map[string]int) bool {
	if !r.cl.negzero || st == nil {
		return false
	}
	for _, x := range st.Ix {
		if !x.Uq {
			continue
		}
		for _, f := range x.Fs {
			if v := vals[f]; typeOf(f) == "DOUBLE" && v > 0 && r.cl.dbls[v] == 0 {
				return true
			}
		}
	}
	return false
}

func fsKey(fs []string) string { return strings.Join(fs, ",") }

func (r *run) hasIndex(st *stT, fs []string) (bool, bool) {
	if st == nil {
		return false, false
	}
	for _, x := range st.Ix {
		if fsKey(x.Fs) == fsKey(fs) {
			return true, x.Uq
		}
	}
	return false, false
}

func withID(q [][]cmpT, byid int) [][]cmpT {
	if byid == 0 {
		return q
	}
	idc := cmpT{F: "_id", Op: "EQ", C: byid}
	if len(q) == 0 {
		return [][]cmpT{{idc}}
	}
	out := make([][]cmpT, len(q))
	for i, g := range q {
		out[i] = append([]cmpT{idc}, g...)
	}
	return out
}

// ---- execution of one step.  r.stop != "" ends the replay of this behaviour.

func (r *run) exec(s *step) {
	what := fmt.Sprintf("step %d %s", r.si+1, s.Op)
	r.count("op:" + s.Op)
	if !s.Ok {
		r.count("rejected:" + s.Op)
	}
	switch s.Op {
	case "create":
		for _, c := range r.colls {
			var fields []*protomodel.Field
			for _, f := range s.Fields {
				fields = append(fields, &protomodel.Field{Name: f, Type: protoType(f)})
			}
			var ixs []*protomodel.Index
			have := map[string]bool{}
			for _, x := range s.St.Ix {
				if c.kind == kindNone && !x.Uq {
					continue
				}
				ixs = append(ixs, &protomodel.Index{Fields: x.Fs, IsUnique: x.Uq})
				have[fsKey(x.Fs)] = true
			}
			if c.kind == kindFull {
				for _, f := range s.Fields {
					if !have[f] {
						ixs = append(ixs, &protomodel.Index{Fields: []string{f}})
						c.auto[f] = true
					}
				}
			}
			if err := r.a.CreateCollection(c.name, fields, ixs); err != nil {
				r.violate("CreateCollection:unexpected-error", fmt.Sprintf("%s: %s: %v", what, c.name, err), nil)
				r.stop = "violation"
				return
			}
		}
	case "addfield":
		if s.F == tooDeep {
			// nested deeper than the engine's maximum: to be refused; an engine that accepts it is put back in step here
			// (the directed probe shows what the accepted field does to searches)
			for _, c := range r.colls {
				err := r.a.AddField(c.name, &protomodel.Field{Name: s.F, Type: protoType(s.F)})
				if err == nil {
					r.count("toodeep:addfield-accepted")
					vh.Must(r.a.RemoveField(c.name, s.F), "remove the too deep field")
				} else {
					r.count("toodeep:addfield-refused")
				}
			}
			return
		}
		for _, c := range r.colls {
			err := r.a.AddField(c.name, &protomodel.Field{Name: s.F, Type: protoType(s.F)})
			if err == nil && c.kind == kindFull {
				err = r.a.CreateIndex(c.name, []string{s.F}, false)
				c.auto[s.F] = true
			}
			if err != nil {
				r.violate("AddField:unexpected-error", fmt.Sprintf("%s: %s: %v", what, c.name, err), nil)
				r.stop = "violation"
				return
			}
		}
		if s.Nonempty {
			r.count("addfield:non-empty-collection")
		}
	case "removefield":
		for _, c := range r.colls {
			if !s.Ok && c.kind != kindSpec {
				continue // the index that needs the column exists in cs (and is not the harness's business elsewhere)
			}
			if s.Ok && c.kind == kindFull && c.auto[s.F] {
				vh.Must(r.a.DeleteIndex(c.name, []string{s.F}), "delete auto index")
				delete(c.auto, s.F)
			}
			err := r.a.RemoveField(c.name, s.F)
			if (err == nil) != s.Ok {
				r.count("stopped:decision-differs:removefield")
				r.stop = fmt.Sprintf("RemoveField(%s) on %s: %v, the model says ok=%v", s.F, c.name, err, s.Ok)
				return
			}
		}
	case "createindex":
		x := s.Ixd
		want := s.Ok
		if s.Want != nil {
			want = *s.Want
		}
		var real []bool
		for _, c := range r.colls {
			if s.Exists && c.kind != kindSpec {
				continue
			}
			if c.kind == kindNone && !x.Uq {
				continue
			}
			dropped := false
			if c.kind == kindFull && len(x.Fs) == 1 && c.auto[x.Fs[0]] {
				vh.Must(r.a.DeleteIndex(c.name, x.Fs), "delete auto index")
				delete(c.auto, x.Fs[0])
				dropped = true
			}
			err := r.a.CreateIndex(c.name, x.Fs, x.Uq)
			real = append(real, err == nil)
			r.count("createindex:" + errClass(err))
			if err != nil && dropped {
				vh.Must(r.a.CreateIndex(c.name, x.Fs, false), "re-create auto index")
				c.auto[x.Fs[0]] = true
			}
		}
		for _, a := range real {
			if a != real[0] {
				r.count("stopped:decision-differs:createindex")
				r.stop = "CreateIndex accepted on some twin collections only"
				return
			}
		}
		if len(real) > 0 && real[0] != want {
			if real[0] && x.Uq && s.Dup {
				cls := "other"
				if s.Ok {
					cls = "first-document-deleted-counts-as-empty"
				}
				r.violate("CreateIndex:unique:accepted-on-collection-with-duplicates:"+cls,
					fmt.Sprintf("%s: unique index on %v accepted although live documents agree on these fields", what, x.Fs), nil)
			} else if real[0] {
				r.count("createindex:accepted-where-the-design-rejects-without-duplicates")
			}
		}
		if len(real) > 0 && real[0] != s.Ok {
			r.count("stopped:decision-differs:createindex")
			r.stop = fmt.Sprintf("CreateIndex(%v, unique=%v): accepted=%v, the model says %v", x.Fs, x.Uq, real[0], s.Ok)
			return
		}
	case "deleteindex":
		x := s.Ixd
		for _, c := range r.colls {
			if c.kind == kindNone && !x.Uq {
				continue
			}
			if err := r.a.DeleteIndex(c.name, x.Fs); err != nil {
				r.violate("DeleteIndex:unexpected-error", fmt.Sprintf("%s: %s: %v", what, c.name, err), nil)
				r.stop = "violation"
				return
			}
			if c.kind == kindFull && len(x.Fs) == 1 {
				vh.Must(r.a.CreateIndex(c.name, x.Fs, false), "create auto index")
				c.auto[x.Fs[0]] = true
			}
		}
	case "insert":
		want := *s.Want
		var real []bool
		var ids []string
		for _, c := range r.colls {
			id, err := r.a.Insert(c.name, r.cl.doc(s.Vals, s.Stamp))
			r.count("insert:" + errClass(err))
			if err != nil && !errors.Is(err, document.ErrConflict) {
				r.violate("InsertDocument:unexpected-error", fmt.Sprintf("%s: %s (class %s): %v", what, c.name, r.cl.name, err), nil)
				r.stop = "violation"
				return
			}
			real = append(real, err == nil)
			ids = append(ids, id)
		}
		for _, a := range real {
			if a != real[0] {
				r.violate("InsertDocument:acceptance-depends-on-non-unique-indexes", fmt.Sprintf("%s: accepted %v on the twin collections", what, real), nil)
				r.stop = "violation"
				return
			}
		}
		if real[0] && !want {
			cls := "other"
			if s.Ok {
				cls = "first-index-entry-of-the-key-is-a-deletion-mark"
			} else if r.negzeroKey(r.prev, s.Vals) {
				cls = "negative-zero-and-zero-are-different-keys"
			}
			r.violate("InsertDocument:unique-index:duplicate-admitted:"+cls,
				fmt.Sprintf("%s: a document with the key of a live document was accepted by the unique index (class %s)", what, r.cl.name), nil)
		}
		if !real[0] && want {
			r.count("insert:rejected-where-the-design-accepts")
		}
		if !real[0] && !want && r.prev != nil {
			for _, x := range r.prev.Ix {
				if x.Uq && contains2(x.Fs, maxDepthField) {
					r.count("maxdepth:unique-index-refused-duplicate")
				}
			}
		}
		if real[0] != s.Ok {
			r.count("stopped:decision-differs:insert")
			r.stop = fmt.Sprintf("InsertDocument accepted=%v, the model says %v", real[0], s.Ok)
			if real[0] {
				r.stop += " (duplicate admitted)"
			}
			return
		}
		if real[0] {
			for ci, c := range r.colls {
				c.ids = append(c.ids, ids[ci])
				c.byHex[ids[ci]] = len(c.ids)
			}
		}
	case "replace", "delete":
		// the engine must select what the specification selects; a write is executed only then
		sel := s.Sel
		q := withID(s.Q, s.Byid)
		if s.Op == "delete" {
			sel, q = s.Ids, s.Q
		}
		exp := make([][]int, len(sel))
		if len(s.Ob) > 0 && s.Lim > 0 {
			// deterministic selection; the order inside the selection is not checked here
			for i := range exp {
				exp[i] = sel
			}
		} else {
			exp = anyOrder(sel)
		}
		if !r.checkSearch(r.prev, what+": selection", q, s.Ob, 0, s.Lim, exp, len(sel), false) {
			r.stop = "violation"
			return
		}
		for _, c := range r.colls {
			pq := r.query(c, s.Q, s.Ob, s.Lim)
			if s.Op == "delete" {
				if err := r.a.Delete(pq); err != nil {
					r.violate("DeleteDocuments:unexpected-error", fmt.Sprintf("%s: %s: %v", what, c.name, err), nil)
					r.stop = "violation"
					return
				}
				continue
			}
			d := r.cl.doc(s.Vals, s.Stamp)
			if s.Byid > 0 {
				d.Fields[document.DefaultDocumentIDField] = structpb.NewStringValue(c.ids[s.Byid-1])
			}
			revs, err := r.a.Replace(pq, d)
			r.count("replace:" + errClass(err))
			if err != nil && !errors.Is(err, document.ErrConflict) {
				r.violate("ReplaceDocuments:unexpected-error", fmt.Sprintf("%s: %s (class %s): %v", what, c.name, r.cl.name, err), nil)
				r.stop = "violation"
				return
			}
			if (err == nil) != s.Ok {
				if err == nil {
					cls := "other"
					if r.negzeroKey(r.prev, s.Vals) {
						cls = "negative-zero-and-zero-are-different-keys"
					}
					r.violate("ReplaceDocuments:unique-index:duplicate-admitted:"+cls, fmt.Sprintf("%s: %s (class %s): replacement creates a duplicate key of a unique index and was accepted", what, c.name, r.cl.name), nil)
				} else {
					r.count("replace:rejected-where-the-design-accepts")
				}
				r.count("stopped:decision-differs:replace")
				r.stop = fmt.Sprintf("ReplaceDocuments: %v, the model says ok=%v", err, s.Ok)
				return
			}
			if err == nil {
				got := map[string]bool{}
				for _, rv := range revs {
					got[fmt.Sprintf("%d/%d", c.byHex[rv.DocumentId], rv.Revision)] = true
				}
				bad := len(got) != len(s.Revs) || len(revs) != len(s.Revs)
				for _, e := range s.Revs {
					if !got[fmt.Sprintf("%d/%d", e[0], e[1])] {
						bad = true
					}
				}
				if bad {
					r.violate("ReplaceDocuments:returned-revisions", fmt.Sprintf("%s: %s: returned revisions %v, expected (document, revision) %v", what, c.name, got, s.Revs), nil)
				}
			}
		}
	case "reopen":
		if err := r.close(); err != nil {
			r.violate("Close:error", fmt.Sprintf("%s: %v", what, err), nil)
			r.stop = "violation"
			return
		}
		if err := r.open(); err != nil {
			r.violate("Reopen:error", fmt.Sprintf("%s: %v", what, err), nil)
			r.stop = "violation"
			return
		}
	case "search":
		var res [][]int
		vh.Must(json.Unmarshal(s.Res, &res), "search result")
		if s.Same != nil && !*s.Same {
			r.count("search:pinned-code-model-differs")
		}
		if len(s.Ob) > 0 {
			r.count("search:orderby")
		}
		if s.Off > 0 || s.Lim > 0 {
			r.count("search:paged")
		}
		if len(res) > 0 {
			r.count("search:non-empty")
		}
		r.checkSearch(s.St, what, s.Q, s.Ob, s.Off, s.Lim, res, s.Count, true)
	case "audit":
		var exp []auditE
		vh.Must(json.Unmarshal(s.Res, &exp), "audit result")
		r.checkAudit(s.Id, s.Desc, s.Off, s.Lim, exp, what)
	case "get":
		r.checkGet(s.St, s.Id, what)
	default:
		vh.Fatalf("unknown op %q", s.Op)
	}
}

func isRead(op string) bool { return op == "search" || op == "audit" || op == "get" }

// replays behaviour b under class cl in dir; returns violations (with the step they occurred at), counters, steps done
func runOne(b *behaviour, cl *class, dir string, viaDB bool) (vs []*violation, cnt map[string]int, steps int, queries int, stopped string) {
	os.RemoveAll(dir)
	vh.Must(os.MkdirAll(dir, 0o755), "mkdir")
	r := &run{b: b, cl: cl, dir: dir, cnt: map[string]int{}, viaDB: viaDB}
	for i, n := range []string{"cs", "cn", "cf"} {
		r.colls = append(r.colls, &coll{name: n, kind: i, byHex: map[string]int{}, auto: map[string]bool{}})
	}
	vh.Must(r.open(), "open store")
	defer func() {
		r.close()
		os.RemoveAll(dir)
	}()
	for si := range b.Ops {
		s := &b.Ops[si]
		r.si = si
		if s.St == nil {
			vh.Fatalf("behaviour without the abstract collection after step %d", si+1)
		}
		nv := len(r.vs)
		r.settle()
		r.exec(s)
		steps++
		if r.stop == "" && len(r.vs) == nv && !(isRead(s.Op) && si != len(b.Ops)-1) {
			// after every step that can change something (and after the last one): the whole abstract collection
			r.settle()
			full := si == len(b.Ops)-1 || s.Op == "reopen" || s.Op == "addfield" || s.Op == "createindex" || si%6 == 5
			if !r.checkState(s.St, fmt.Sprintf("after step %d (%s)", si+1, s.Op), full) && r.stop == "" {
				// the collection is not what the specification says: later steps would only repeat it
				r.stop = "violation"
			}
		}
		for _, v := range r.vs[nv:] {
			if v.detail == nil {
				v.detail = map[string]interface{}{}
			}
			v.detail["step"] = si + 1
		}
		r.prev = s.St
		if r.stop != "" {
			break
		}
	}
	return r.vs, r.cnt, steps, r.nquery, r.stop
}

// ---------------------------------------------------------------------------------------------------------
// directed probes (no TLC behaviour needed: the expectation is the property itself on a two line history)

func probe(dir string, res *vh.Result, pairs int) {
	os.RemoveAll(dir)
	vh.Must(os.MkdirAll(dir, 0o755), "mkdir")
	st, err := store.Open(dir, storeOpts())
	vh.Must(err, "open")
	defer func() { st.Close(); os.RemoveAll(dir) }()
	e, err := document.NewEngine(st, document.DefaultOptions().WithPrefix([]byte{3}))
	vh.Must(err, "engine")
	one := func(f string, op protomodel.ComparisonOperator, v *structpb.Value) *protomodel.Query {
		return &protomodel.Query{CollectionName: "p", Expressions: []*protomodel.QueryExpression{{FieldComparisons: []*protomodel.FieldComparison{{Field: f, Operator: op, Value: v}}}}}
	}
	count := func(q *protomodel.Query) int64 {
		n, err := e.CountDocuments(ctx, q, 0)
		vh.Must(err, "count")
		return n
	}
	// (1) INTEGER field: numbers that are not int64 values
	vh.Must(e.CreateCollection(ctx, "c19", "p", "", []*protomodel.Field{{Name: "i", Type: protomodel.FieldType_INTEGER}}, nil), "create")
	_, _, err = e.InsertDocument(ctx, "c19", "p", mustStruct(map[string]interface{}{"i": 1.5}))
	if err == nil {
		res.Count("probe:integer-field:non-integral-accepted", 1)
		if n := count(one("i", protomodel.ComparisonOperator_EQ, structpb.NewNumberValue(1))); n != 0 {
			res.Violate("InsertDocument:INTEGER-field:non-integral-number-silently-truncated",
				fmt.Sprintf("document {i: 1.5} (i declared INTEGER) is returned by the search i = 1 (%d documents)", n),
				map[string]interface{}{"probe": "integer", "doc": map[string]interface{}{"i": 1.5}, "query": "i EQ 1"})
		}
	} else {
		res.Count("probe:integer-field:non-integral-rejected", 1)
	}
	_, _, err = e.InsertDocument(ctx, "c19", "p", mustStruct(map[string]interface{}{"i": 1e19}))
	if err == nil {
		if n := count(one("i", protomodel.ComparisonOperator_LT, structpb.NewNumberValue(0))); n != 0 {
			res.Violate("InsertDocument:INTEGER-field:out-of-range-number-wraps",
				fmt.Sprintf("document {i: 1e19} (i declared INTEGER) is returned by the search i < 0 (%d documents)", n),
				map[string]interface{}{"probe": "integer", "doc": map[string]interface{}{"i": 1e19}, "query": "i LT 0"})
		}
	} else {
		res.Count("probe:integer-field:out-of-range-rejected", 1)
	}
	res.Evaluations += 2
	// (1b) a non-finite number survives InsertDocument; ReplaceDocuments must store the same value
	vh.Must(e.CreateCollection(ctx, "c19", "f", "", []*protomodel.Field{{Name: "i", Type: protomodel.FieldType_INTEGER}}, nil), "create")
	inf := &structpb.Struct{Fields: map[string]*structpb.Value{"i": structpb.NewNumberValue(1), "x": structpb.NewNumberValue(math.Inf(1))}}
	_, fid, err := e.InsertDocument(ctx, "c19", "f", proto.Clone(inf).(*structpb.Struct))
	vh.Must(err, "insert")
	rep := &structpb.Struct{Fields: map[string]*structpb.Value{"i": structpb.NewNumberValue(2), "x": structpb.NewNumberValue(math.Inf(1))}}
	_, err = e.ReplaceDocuments(ctx, "c19", &protomodel.Query{CollectionName: "f"}, proto.Clone(rep).(*structpb.Struct))
	vh.Must(err, "replace")
	revs, err := e.AuditDocument(ctx, "f", fid, false, 0, 10, true)
	vh.Must(err, "audit")
	res.Evaluations++
	if len(revs) == 2 {
		_, insOK := revs[0].Document.Fields["x"].GetKind().(*structpb.Value_NumberValue)
		if _, repOK := revs[1].Document.Fields["x"].GetKind().(*structpb.Value_NumberValue); insOK && !repOK {
			res.Violate("ReplaceDocuments:non-finite-number:stored-as-string",
				fmt.Sprintf("document {x: +Inf} is stored unchanged by InsertDocument but ReplaceDocuments stores x = %s", compactValue(revs[1].Document.Fields["x"])),
				map[string]interface{}{"probe": "non-finite"})
		}
	} else {
		vh.Fatalf("probe: %d revisions", len(revs))
	}
	// (1c) nested paths at the depth boundary: a field with the maximum number of levels (3) is a column like any other;
	// a field one level deeper must be refused, not accepted and never extracted
	deepDoc := func(v float64) *structpb.Struct {
		return mustStruct(map[string]interface{}{"a": map[string]interface{}{"b": map[string]interface{}{"c": v, "cc": map[string]interface{}{"d": v}, "c.d": "dotted key"}}})
	}
	qd := func(coll, f string, v float64) *protomodel.Query {
		q := one(f, protomodel.ComparisonOperator_EQ, structpb.NewNumberValue(v))
		q.CollectionName = coll
		return q
	}
	vh.Must(e.CreateCollection(ctx, "c19", "m3", "", []*protomodel.Field{{Name: "a.b.c", Type: protomodel.FieldType_INTEGER}},
		[]*protomodel.Index{{Fields: []string{"a.b.c"}, IsUnique: true}}), "create collection with a 3-level field")
	_, _, err = e.InsertDocument(ctx, "c19", "m3", deepDoc(7))
	vh.Must(err, "insert")
	vh.Must(st.WaitForIndexingUpto(ctx, st.LastPrecommittedTxID()), "wait")
	res.Evaluations += 2
	if n, err := e.CountDocuments(ctx, qd("m3", "a.b.c", 7), 0); err != nil || n != 1 {
		res.Violate("Search:field-of-maximum-nesting-depth:not-extracted", fmt.Sprintf("field a.b.c (3 levels = the maximum), document {a:{b:{c:7}}}: a.b.c = 7 counts %d documents (%v)", n, err),
			map[string]interface{}{"probe": "depth"})
	} else {
		res.Count("maxdepth:probe-search-finds-document", 1)
	}
	if _, _, err = e.InsertDocument(ctx, "c19", "m3", deepDoc(7)); err == nil {
		res.Violate("InsertDocument:unique-index-on-field-of-maximum-nesting-depth:duplicate-admitted", "unique index on a.b.c: {a:{b:{c:7}}} accepted twice", map[string]interface{}{"probe": "depth"})
	} else {
		res.Count("maxdepth:probe-unique-index-refuses-duplicate", 1)
	}
	tooDeepCheck := func(coll, how string) {
		_, _, err := e.InsertDocument(ctx, "c19", coll, mustStruct(map[string]interface{}{"a": map[string]interface{}{"b": map[string]interface{}{"c": map[string]interface{}{"d": 7}}}}))
		vh.Must(err, "insert")
		if n, err := e.CountDocuments(ctx, qd(coll, "a.b.c.d", 7), 0); err != nil || n != 1 {
			res.Violate(how+":field-deeper-than-maximum-nesting:accepted-but-never-extracted",
				fmt.Sprintf("%s accepts the field a.b.c.d (4 levels, maximum 3); document {a:{b:{c:{d:7}}}} is then not found by a.b.c.d = 7 (%d documents, %v)", how, n, err),
				map[string]interface{}{"probe": "depth"})
		}
	}
	if err = e.CreateCollection(ctx, "c19", "m4", "", []*protomodel.Field{{Name: "a.b.c.d", Type: protomodel.FieldType_INTEGER}}, nil); err == nil {
		res.Count("toodeep:probe-createcollection-accepted", 1)
		tooDeepCheck("m4", "CreateCollection")
	} else {
		res.Count("toodeep:probe-createcollection-refused", 1)
	}
	vh.Must(e.CreateCollection(ctx, "c19", "m5", "", nil, nil), "create")
	if err = e.AddField(ctx, "c19", "m5", &protomodel.Field{Name: "a.b.c.d", Type: protomodel.FieldType_INTEGER}); err == nil {
		res.Count("toodeep:probe-addfield-accepted", 1)
		tooDeepCheck("m5", "AddField")
	} else {
		res.Count("toodeep:probe-addfield-refused", 1)
	}
	res.Evaluations += 2
	// (2) unique index, sequential inserts of the same key without waiting for the indexer
	vh.Must(e.CreateCollection(ctx, "c19", "u", "", []*protomodel.Field{{Name: "i", Type: protomodel.FieldType_INTEGER}},
		[]*protomodel.Index{{Fields: []string{"i"}, IsUnique: true}}), "create")
	dups := 0
	first := -1
	for k := 0; k < pairs; k++ {
		_, _, e1 := e.InsertDocument(ctx, "c19", "u", mustStruct(map[string]interface{}{"i": float64(k), "n": 1}))
		_, _, e2 := e.InsertDocument(ctx, "c19", "u", mustStruct(map[string]interface{}{"i": float64(k), "n": 2}))
		if e1 == nil && e2 == nil {
			dups++
			if first < 0 {
				first = k
			}
		}
		res.Evaluations++
	}
	res.Count("probe:unique-race:pairs", pairs)
	res.Count("probe:unique-race:duplicates", dups)
	if dups > 0 {
		q := &protomodel.Query{CollectionName: "u", Expressions: []*protomodel.QueryExpression{{FieldComparisons: []*protomodel.FieldComparison{{Field: "i",
			Operator: protomodel.ComparisonOperator_EQ, Value: structpb.NewNumberValue(float64(first))}}}}}
		n := count(q)
		res.Violate("InsertDocuments:unique-index:check-on-stale-index-snapshot:duplicate-admitted",
			fmt.Sprintf("%d of %d pairs of consecutive InsertDocument calls with the same value of a unique-indexed field were both accepted; i = %d is now held by %d documents", dups, pairs, first, n),
			map[string]interface{}{"probe": "unique-race", "pairs": pairs, "duplicates": dups})
	}
}

// ---------------------------------------------------------------------------------------------------------

func main() {
	in := flag.String("in", "", "behaviours (JSON)")
	dir := flag.String("dir", "", "scratch directory")
	seed := flag.Int64("seed", 1, "seed")
	only := flag.String("classes", "", "comma separated class names (default: plain + one rotating class per behaviour)")
	all := flag.Bool("allclasses", false, "replay every behaviour under every class")
	workers := flag.Int("workers", 0, "parallel replays")
	doProbe := flag.Int("probe", 0, "run the directed probes with this many insert pairs")
	dbMode := flag.Int("db", 0, "replay this many behaviours through pkg/database (document API, proofs)")
	flag.Parse()
	if *dir == "" {
		vh.Fatalf("usage: c19 -in behaviours.json -dir scratch")
	}
	res := vh.NewResult()
	if *doProbe > 0 {
		probe(filepath.Join(*dir, "probe"), res, *doProbe)
	}
	if *in == "" {
		res.Emit()
		return
	}
	var f inputFile
	vh.ReadJSON(*in, &f)
	cls := classes()
	w := *workers
	if w <= 0 {
		w = runtime.NumCPU() / 2
	}
	if w < 1 {
		w = 1
	}
	type job struct {
		bi    int
		cl    *class
		viaDB bool
	}
	var jobs []job
	for bi := range f.Behaviours {
		if *only != "" {
			for _, c := range cls {
				if strings.Contains(","+*only+",", ","+c.name+",") {
					jobs = append(jobs, job{bi, c, false})
				}
			}
			continue
		}
		if *all {
			for _, c := range cls {
				jobs = append(jobs, job{bi, c, false})
			}
			continue
		}
		jobs = append(jobs, job{bi, cls[0], false}, job{bi, cls[1+(bi+int(*seed))%(len(cls)-1)], false})
	}
	// through pkg/database (document API of a database, proofs): the first -db behaviours, classes rotating
	for bi := 0; bi < *dbMode && bi < len(f.Behaviours); bi++ {
		jobs = append(jobs, job{bi, cls[(bi+int(*seed))%len(cls)], true})
	}
	if len(jobs) == 0 {
		vh.Fatalf("nothing to replay")
	}
	ch := make(chan job)
	var wg sync.WaitGroup
	var mu sync.Mutex
	complete, stoppedDrift, stoppedViol := 0, 0, 0
	distinct := map[string]bool{}
	for wi := 0; wi < w; wi++ {
		wg.Add(1)
		go func(wi int) {
			defer wg.Done()
			for j := range ch {
				b := f.Behaviours[j.bi]
				var vs []*violation
				var cnt map[string]int
				var steps, queries int
				var stopped string
				panicked, hung, msg := vh.Guard(10*time.Minute, func() {
					vs, cnt, steps, queries, stopped = runOne(b, j.cl, filepath.Join(*dir, fmt.Sprintf("w%d", wi)), j.viaDB)
				})
				if panicked || hung {
					vh.Fatalf("replay of behaviour %d (%s) class %s: %s", j.bi, b.Origin, j.cl.name, msg)
				}
				mu.Lock()
				res.Traces++
				res.Evaluations += steps
				for k, v := range cnt {
					res.Count(k, v)
				}
				res.Count("queries", queries)
				res.Count("class:"+j.cl.name, 1)
				if j.viaDB {
					res.Count("replays:through-pkg-database", 1)
				}
				switch {
				case stopped == "":
					complete++
				case stopped == "violation":
					stoppedViol++
				default:
					stoppedDrift++
					if len(res.Drift) < 10 {
						res.Drift = append(res.Drift, fmt.Sprintf("%s class %s step %d: %s", b.Origin, j.cl.name, steps, stopped))
					}
				}
				for i := 0; i < steps && i < len(b.Ops); i++ {
					distinct[b.Ops[i].Op+fmt.Sprint(b.Ops[i].Ok)] = true
				}
				mu.Unlock()
				for _, v := range vs {
					stepNo, _ := v.detail["step"].(int)
					if stepNo <= 0 || stepNo > len(b.Ops) {
						stepNo = len(b.Ops)
					}
					v.detail["class"] = j.cl.name
					v.detail["via"] = map[bool]string{false: "embedded/document.Engine", true: "pkg/database"}[j.viaDB]
					v.detail["origin"] = b.Origin
					v.detail["behaviour"] = &behaviour{Ops: b.Ops[:stepNo], K: b.K, Fields: b.Fields, Origin: b.Origin}
					if strings.HasPrefix(b.Origin, "tlc-counterexample") {
						res.Count("reproduced:"+b.Origin, 1)
					}
					res.Violate(v.sig, v.text, v.detail)
				}
				if len(vs) == 0 && stopped == "" {
					res.Sample(map[string]interface{}{"origin": b.Origin, "class": j.cl.name, "steps": steps, "queries": queries}, 4)
				}
			}
		}(wi)
	}
	for _, j := range jobs {
		ch <- j
	}
	close(ch)
	wg.Wait()
	res.Count("replays:complete", complete)
	res.Count("replays:stopped-at-violation", stoppedViol)
	res.Count("replays:stopped-decision-differs", stoppedDrift)
	res.Distinct = len(distinct)
	res.Emit()
}
