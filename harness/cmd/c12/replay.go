package main

import (
	"fmt"
	"path/filepath"
	"sort"
	"strings"
	"sync"

	"verifharness/vh"
)

// One step of a behaviour printed by TLC from spec/SQLTx.tla: the statement and what the design says a client observes.
type step struct {
	S    int             `json:"s"`
	K    string          `json:"k"`
	Id   int             `json:"id"`
	U    string          `json:"u"`
	V    string          `json:"v"`
	Out  string          `json:"out"` // ok | err | conflict
	Res  [][]interface{} `json:"res"`
	Cnt  int             `json:"cnt"`
	Pk   int             `json:"pk"`
	Tbl  [][]interface{} `json:"tbl"` // committed table after the step
	St   string          `json:"st"`  // session state after the step: idle | tx | closed
	Must bool            `json:"must"`
	May  bool            `json:"may"`
}

type behaviour struct {
	Origin string `json:"origin"`
	Steps  []step `json:"steps"`
}

type behaviourFile struct {
	UIdx       bool        `json:"uidx"` // the unique index exists from the start
	Behaviours []behaviour `json:"behaviours"`
}

// what the real engine did in one step (same shape as the expectation)
type observed struct {
	S   int        `json:"s"`
	K   string     `json:"k"`
	Id  int        `json:"id"`
	U   string     `json:"u"`
	V   string     `json:"v"`
	Out string     `json:"out"`
	Err string     `json:"err,omitempty"`
	Res [][]string `json:"res"`
	Cnt int        `json:"cnt"`
	Pk  int        `json:"pk"`
	Tbl [][]string `json:"tbl"`
	St  string     `json:"st"`

	commit uint64
}

type deviation struct {
	B        int        `json:"b"`
	Origin   string     `json:"origin"`
	Step     int        `json:"step"`
	Field    string     `json:"field"`
	Class    string     `json:"class"`
	Kind     string     `json:"kind"`
	Text     string     `json:"text"`
	Expected step       `json:"expected"`
	Observed []observed `json:"observed"` // steps 0..Step as executed on the real engine
	SQL      []string   `json:"sql"`
}

func lit(x string) string {
	if x == "NULL" {
		return "NULL"
	}
	return "'" + x + "'"
}

// sqlOf concretises an abstract statement.
func sqlOf(st step) (text string, isQuery bool) {
	switch st.K {
	case "begin":
		return "BEGIN TRANSACTION", false
	case "commit":
		return "COMMIT", false
	case "rollback":
		return "ROLLBACK", false
	case "sp":
		return "SAVEPOINT " + st.U, false
	case "rbto":
		return "ROLLBACK TO SAVEPOINT " + st.U, false
	case "rel":
		return "RELEASE SAVEPOINT " + st.U, false
	case "insA":
		return fmt.Sprintf("INSERT INTO t(u,v) VALUES (%s,%s)", lit(st.U), lit(st.V)), false
	case "insE":
		return fmt.Sprintf("INSERT INTO t(id,u,v) VALUES (%d,%s,%s)", st.Id, lit(st.U), lit(st.V)), false
	case "insN":
		return fmt.Sprintf("INSERT INTO t(id,u,v) VALUES (%d,%s,%s) ON CONFLICT DO NOTHING", st.Id, lit(st.U), lit(st.V)), false
	case "ups":
		return fmt.Sprintf("UPSERT INTO t(id,u,v) VALUES (%d,%s,%s)", st.Id, lit(st.U), lit(st.V)), false
	case "updU":
		return fmt.Sprintf("UPDATE t SET u=%s WHERE id=%d", lit(st.U), st.Id), false
	case "updV":
		return fmt.Sprintf("UPDATE t SET v=%s WHERE id=%d", lit(st.V), st.Id), false
	case "updAllV":
		return fmt.Sprintf("UPDATE t SET v=%s", lit(st.V)), false
	case "del":
		return fmt.Sprintf("DELETE FROM t WHERE id=%d", st.Id), false
	case "delAll":
		return "DELETE FROM t", false
	case "crIdx":
		return "CREATE UNIQUE INDEX ON t(u)", false
	case "selAll":
		return "SELECT id,u,v FROM t", true
	case "selPk":
		return fmt.Sprintf("SELECT id,u,v FROM t WHERE id=%d", st.Id), true
	case "selU":
		return fmt.Sprintf("SELECT id FROM t WHERE u=%s", lit(st.U)), true
	}
	vh.Fatalf("unknown statement kind %q", st.K)
	return "", false
}

const createTable = "CREATE TABLE t (id INTEGER AUTO_INCREMENT, u VARCHAR[4] NOT NULL, v VARCHAR[2] NOT NULL, CHECK (v <> 'x'), PRIMARY KEY id)"
const createIndex = "CREATE UNIQUE INDEX ON t(u)"

func norm(rows [][]interface{}) [][]string {
	out := make([][]string, len(rows))
	for i, r := range rows {
		out[i] = make([]string, len(r))
		for j, c := range r {
			switch x := c.(type) {
			case nil:
				out[i][j] = "NULL"
			case float64:
				out[i][j] = fmt.Sprintf("%d", int64(x))
			default:
				out[i][j] = fmt.Sprint(x)
			}
		}
	}
	return out
}

func eqRows(a, b [][]string) bool {
	if len(a) != len(b) {
		return false
	}
	for i := range a {
		if strings.Join(a[i], "\x00") != strings.Join(b[i], "\x00") {
			return false
		}
	}
	return true
}

func sorted(rows [][]string) [][]string {
	out := append([][]string(nil), rows...)
	sort.SliceStable(out, func(i, j int) bool {
		if len(out[i][0]) != len(out[j][0]) {
			return len(out[i][0]) < len(out[j][0])
		}
		return out[i][0] < out[j][0]
	})
	return out
}

// scan reads the whole table in a fresh read-only transaction.
func (e *env) scan() [][]string {
	rows, err := e.query(-1, "SELECT id,u,v FROM t")
	if err != nil {
		vh.Fatalf("full scan: %v", err)
	}
	out := sorted(norm(rows))
	if out == nil {
		out = [][]string{}
	}
	return out
}

// breach evaluates the declared constraints on a real table (property C12, directly on the observation).
func breach(tbl [][]string, uidx bool) string {
	ids, us := map[string]bool{}, map[string]bool{}
	for _, r := range tbl {
		if ids[r[0]] {
			return "duplicate primary key " + r[0]
		}
		ids[r[0]] = true
		if uidx && us[r[1]] {
			return "duplicate value '" + r[1] + "' in the unique index on u"
		}
		us[r[1]] = true
		if r[1] == "NULL" || r[2] == "NULL" {
			return "NULL in a NOT NULL column (row " + r[0] + ")"
		}
		if r[2] == "x" {
			return "CHECK (v <> 'x') is false (row " + r[0] + ")"
		}
		if len(r[1]) > 4 || len(r[2]) > 2 {
			return "value longer than the declared length (row " + r[0] + ")"
		}
	}
	return ""
}

func outOf(class string) string {
	switch class {
	case "ok":
		return "ok"
	case "conflict":
		return "conflict"
	}
	return "err" // which error a failed statement returns is not part of the properties
}

// runStep executes one abstract step on the real engine and observes everything a client can see.
func (e *env) runStep(st step, last bool) observed {
	o := observed{S: st.S, K: st.K, Id: st.Id, U: st.U, V: st.V, Res: [][]string{}}
	if st.K == "close" {
		if err := e.cancel(st.S); err != nil {
			o.Out, o.Err = "err", err.Error()
		} else {
			o.Out = "ok"
		}
		o.St = "closed"
		o.Tbl = e.scan()
		return o
	}
	text, isQuery := sqlOf(st)
	if isQuery {
		rows, err := e.query(st.S, text)
		if err != nil {
			o.Out, o.Err = "err", err.Error()
		} else {
			o.Out = "ok"
			o.Res = norm(rows)
			if st.K == "selU" {
				o.Res = sorted(o.Res)
			}
		}
	} else {
		x := e.exec(st.S, text)
		o.Out = outOf(x.Class)
		if x.Err != nil {
			o.Err = x.Err.Error()
		}
		if x.Class == "panic" {
			o.Out = "panic"
		}
		o.Cnt = x.Updated
		if st.K == "insA" && x.Err == nil {
			o.Pk = int(x.LastPK)
		}
	}
	if tx := e.sess[st.S+1]; tx != nil && !tx.Closed() {
		o.St = "tx"
	} else {
		o.St = "idle"
	}
	// full scan in a fresh read after every step that ends outside a transaction (autocommit statement, COMMIT,
	// ROLLBACK, failed statement, failed COMMIT) and at the end of the behaviour
	if o.St != "tx" || last {
		o.Tbl = e.scan()
	}
	return o
}

var dmlKinds = map[string]bool{"insA": true, "insE": true, "insN": true, "ups": true, "updU": true, "updV": true, "updAllV": true,
	"del": true, "delAll": true, "crIdx": true}
var qryKinds = map[string]bool{"selAll": true, "selPk": true, "selU": true}

// compare returns the first field in which the real observation differs from the design ("" = conforms).
func compare(exp step, o observed) string {
	if exp.Out != o.Out {
		return "out"
	}
	if exp.St != o.St {
		return "st"
	}
	if o.Out == "ok" && qryKinds[exp.K] && !eqRows(norm(exp.Res), o.Res) {
		return "res"
	}
	if o.Out == "ok" && dmlKinds[exp.K] && exp.Cnt != o.Cnt {
		return "cnt"
	}
	if o.Out == "ok" && exp.K == "insA" && exp.Pk != o.Pk {
		return "pk"
	}
	if o.Tbl != nil && !eqRows(norm(exp.Tbl), o.Tbl) {
		return "tbl"
	}
	return ""
}

func runReplay(path string, dir string, selftest bool, par int, res *vh.Result) {
	var bf behaviourFile
	vh.ReadJSON(path, &bf)
	var mu sync.Mutex
	var devs []deviation
	evals, traces := 0, 0
	jobs := make(chan int)
	var wg sync.WaitGroup
	for w := 0; w < par; w++ {
		wg.Add(1)
		go func() {
			defer wg.Done()
			for bi := range jobs {
				d, n := replayOne(bi, bf.Behaviours[bi], bf.UIdx, filepath.Join(dir, fmt.Sprintf("b%d", bi)), selftest, res)
				mu.Lock()
				evals += n
				traces++
				if d != nil {
					devs = append(devs, *d)
				}
				mu.Unlock()
			}
		}()
	}
	for bi := range bf.Behaviours {
		jobs <- bi
	}
	close(jobs)
	wg.Wait()
	sort.Slice(devs, func(i, j int) bool { return devs[i].B < devs[j].B })
	res.Evaluations += evals
	res.Traces += traces
	res.Distinct += len(bf.Behaviours)
	res.Extra["deviations"] = devs
	res.Count("deviations", len(devs))
}

// replayOne runs one behaviour on a fresh store; returns its first deviation from the design (nil = conforms).
func replayOne(bi int, b behaviour, uidx0 bool, dir string, selftest bool, res *vh.Result) (*deviation, int) {
	e := newEnv(dir)
	defer e.close()
	if x := e.exec(0, createTable); x.Err != nil {
		vh.Fatalf("create table: %v", x.Err)
	}
	if uidx0 {
		if x := e.exec(0, createIndex); x.Err != nil {
			vh.Fatalf("create index: %v", x.Err)
		}
	}
	uidx := uidx0
	var obs []observed
	var sqls []string
	n := 0
	defer func() {
		if bi < 2 {
			res.Sample(map[string]interface{}{"origin": b.Origin, "sql": sqls}, 6)
		}
	}()
	for si, st := range b.Steps {
		if selftest && len(st.Tbl) > 0 && ((st.K == "commit" && st.Out == "ok") || st.Out == "err") {
			// binding self-test: corrupt one expected value per behaviour (the committed table after a successful
			// COMMIT or after a failed statement); the replay must report it
			st.Tbl = st.Tbl[1:]
			selftest = false
		}
		text, _ := sqlOf2(st)
		sqls = append(sqls, fmt.Sprintf("s%d: %s", st.S, text))
		o := e.runStep(st, si == len(b.Steps)-1)
		obs = append(obs, o)
		n++
		res.Count("stmt:"+st.K+":"+o.Out, 1)
		if st.K == "crIdx" && o.Out == "ok" {
			uidx = true
		}
		if o.Out == "panic" {
			return &deviation{B: bi, Origin: b.Origin, Step: si, Field: "out", Class: "panic", Kind: st.K,
				Text: fmt.Sprintf("%s panicked or hung: %s", text, o.Err), Expected: st, Observed: obs, SQL: sqls}, n
		}
		why := ""
		if o.Tbl != nil {
			why = breach(o.Tbl, uidx)
		}
		field := compare(st, o)
		if field == "" && why == "" {
			continue
		}
		// COMMIT outcome: a read conflict is always an allowed outcome for a transaction that raced with a commit,
		// and a commit the transcribed read-set would refuse is fine as long as no constraint breaks
		if st.K == "commit" && why == "" && field == "out" && (st.Out == "conflict" || o.Out == "conflict") {
			if o.Out == "conflict" && !st.May {
				res.Count("drift:conflict-without-concurrent-commit", 1)
			} else if o.Out == "conflict" {
				res.Count("drift:conflict-not-predicted", 1)
			} else if !st.Must {
				res.Count("drift:predicted-conflict-did-not-happen", 1)
			}
			if !(o.Out == "ok" && st.Must) {
				res.DriftNote(fmt.Sprintf("COMMIT of s%d after %v: model %s, engine %s", st.S, sqls, st.Out, o.Out))
				return nil, n // the rest of the behaviour assumed the other outcome
			}
		}
		d := &deviation{B: bi, Origin: b.Origin, Step: si, Field: field, Kind: st.K, Expected: st, Observed: obs, SQL: sqls}
		// a statement the design refuses was accepted inside a transaction: commit it and look at the table
		if why == "" && field == "out" && st.Out == "err" && o.Out == "ok" && o.St == "tx" {
			probe := step{S: st.S, K: "commit"}
			po := e.runStep(probe, true)
			if w2 := breach(po.Tbl, uidx); w2 != "" && po.Out == "ok" {
				d.Observed = append(d.Observed, po)
				d.SQL = append(d.SQL, fmt.Sprintf("s%d: COMMIT", st.S))
				sqls = d.SQL
				o = po
				why = w2
			}
		}
		switch {
		case why != "":
			d.Class = "constraint-breach"
			d.Text = fmt.Sprintf("committed table %v violates a declared constraint: %s", o.Tbl, why)
		case field == "out" && st.Out == "ok":
			d.Class = "spurious-failure"
			d.Text = fmt.Sprintf("%q fails with %q; the design executes it", text, o.Err)
		case field == "out" && o.Out == "ok":
			d.Class = "violating-statement-accepted"
			d.Text = fmt.Sprintf("%q succeeds; the design refuses it (%s)", text, st.Out)
		case field == "out":
			d.Class = "outcome"
			d.Text = fmt.Sprintf("%q: engine %s (%s), design %s", text, o.Out, o.Err, st.Out)
		case field == "st":
			d.Class = "tx-state"
			d.Text = fmt.Sprintf("after %q the session is %q, design %q", text, o.St, st.St)
		case field == "res":
			d.Class = "query-result"
			d.Text = fmt.Sprintf("%q returns %v, design %v", text, o.Res, norm(st.Res))
		case field == "cnt":
			d.Class = "count"
			d.Text = fmt.Sprintf("%q reports %d affected rows, design %d", text, o.Cnt, st.Cnt)
		case field == "pk":
			d.Class = "generated-key"
			d.Text = fmt.Sprintf("%q reports generated key %d, design %d", text, o.Pk, st.Pk)
		case st.Out != "ok":
			d.Class = "failed-statement-effect"
			d.Text = fmt.Sprintf("after the failed %q the committed table is %v, design %v", text, o.Tbl, norm(st.Tbl))
		default:
			d.Class = "table"
			d.Text = fmt.Sprintf("after %q the committed table is %v, design %v", text, o.Tbl, norm(st.Tbl))
		}
		d.Text = fmt.Sprintf("%s  [history: %s]", d.Text, strings.Join(sqls, "; "))
		return d, n
	}
	return nil, n
}

func sqlOf2(st step) (string, bool) {
	if st.K == "close" {
		return "-- close session", false
	}
	return sqlOf(st)
}
