package main

import (
	"context"
	"errors"
	"fmt"
	"path/filepath"
	"sort"
	"strings"
	"sync"

	"github.com/codenotary/immudb/embedded/sql"

	"verifharness/vh"
)

// Transactional DDL isolation (behaviours of spec/SQLDdl.tla): DDL inside explicit transactions of one sql.Engine,
// mixed with DML, committed or rolled back, interleaved with other sessions whose statements depend on the catalog.
// Observation of the committed state (rows of k and k2, catalog incl. the CHECK constraint) through a throw-away
// second engine over the same store, as in cat.go; what the engine under test enforces and shows is observed by the
// model-scheduled statements themselves.

type dFlags struct {
	Warm         bool `json:"warm"`
	Ddl          bool `json:"ddl"`
	OtherOpenDdl bool `json:"otherOpenDdl"`
}
type dStep struct {
	S     int             `json:"s"`
	K     string          `json:"k"`
	Id    int             `json:"id"`
	U     string          `json:"u"`
	W     int             `json:"w"`
	Out   string          `json:"out"`
	Res   [][]interface{} `json:"res"`
	Seen  []interface{}   `json:"seen"`
	Cnt   int             `json:"cnt"`
	Rows  [][]interface{} `json:"rows"`
	Rows2 []int           `json:"rows2"`
	Cat   []interface{}   `json:"cat"`
	Flags dFlags          `json:"flags"`
}
type dBehaviour struct {
	Origin string  `json:"origin"`
	Steps  []dStep `json:"steps"`
}
type dFile struct {
	Behaviours []dBehaviour `json:"behaviours"`
}

func dSQL(st dStep) string {
	switch st.K {
	case "begin":
		return "BEGIN TRANSACTION"
	case "commit":
		return "COMMIT"
	case "rollback":
		return "ROLLBACK"
	case "ins":
		return fmt.Sprintf("INSERT INTO k(id,u,w) VALUES (%d,'%s',%d)", st.Id, st.U, st.W)
	case "insx":
		return fmt.Sprintf("INSERT INTO k(id,u,w,x) VALUES (%d,'%s',%d,7)", st.Id, st.U, st.W)
	case "ins2":
		return fmt.Sprintf("INSERT INTO k2(id) VALUES (%d)", st.Id)
	case "updw":
		return fmt.Sprintf("UPDATE k SET w=%d WHERE id=%d", st.W, st.Id)
	case "dropChk":
		return "ALTER TABLE k DROP CONSTRAINT ck"
	case "crUIdx":
		return "CREATE UNIQUE INDEX ON k(u)"
	case "dropUIdx":
		return "DROP INDEX ON k(u)"
	case "crWIdx":
		return "CREATE INDEX ON k(w)"
	case "dropWIdx":
		return "DROP INDEX ON k(w)"
	case "addCol":
		return "ALTER TABLE k ADD COLUMN x INTEGER"
	case "renCol":
		return "ALTER TABLE k RENAME COLUMN x TO y"
	case "dropCol":
		return "ALTER TABLE k DROP COLUMN %COL%"
	case "crT2":
		return "CREATE TABLE k2 (id INTEGER, PRIMARY KEY id)"
	case "dropT2":
		return "DROP TABLE k2"
	case "sel":
		return "SELECT id,u,w FROM k"
	case "showcat":
		return "-- catalog of a fresh read-only transaction"
	}
	vh.Fatalf("ddl: unknown statement %q", st.K)
	return ""
}

// dCat projects a real catalog to <<chk (unknown here), uidx, widx, col, t2>>.
func dCat(c *sql.Catalog) (uidx, widx bool, col string, t2 bool) {
	for _, t := range c.GetTables() {
		if t.Name() == "k2" {
			t2 = true
		}
		if t.Name() != "k" {
			continue
		}
		for _, cl := range t.Cols() {
			if cl.Name() == "x" || cl.Name() == "y" {
				col = cl.Name()
			}
		}
		for _, idx := range t.GetIndexes() {
			if idx.IsPrimary() {
				continue
			}
			var names []string
			for _, cl := range idx.Cols() {
				names = append(names, cl.Name())
			}
			switch strings.Join(names, ",") {
			case "u":
				uidx = uidx || idx.IsUnique()
			case "w":
				widx = true
			}
		}
	}
	return
}

type dObs struct {
	chk, uidx, widx, t2 bool
	col                 string
	rows                [][]string
	rows2               []int
}

// observeDdl reads the committed state through a fresh engine over the same store. Whether the CHECK constraint is
// part of the committed catalog is probed with a violating insert in a transaction that is rolled back.
func (e *env) observeDdl() dObs {
	ctx := context.Background()
	obs, err := sql.NewEngine(e.st, sql.DefaultOptions().WithPrefix(sqlPrefix))
	vh.Must(err, "observer engine")
	cat, err := obs.Catalog(ctx, nil)
	vh.Must(err, "observer catalog")
	var o dObs
	o.uidx, o.widx, o.col, o.t2 = dCat(cat)
	stmts, err := sql.ParseSQLString("BEGIN TRANSACTION; INSERT INTO k(id,u,w) VALUES (999,'zz9',-1); ROLLBACK;")
	vh.Must(err, "parse probe")
	_, _, err = obs.ExecPreparedStmts(ctx, nil, stmts, nil)
	switch {
	case err == nil:
		o.chk = false
	case errors.Is(err, sql.ErrCheckConstraintViolation):
		o.chk = true
	default:
		vh.Fatalf("check-constraint probe: %v", err)
	}
	q := func(text string) [][]string {
		rd, err := obs.Query(ctx, nil, text, nil)
		vh.Must(err, "observer query "+text)
		defer rd.Close()
		rs, err := sql.ReadAllRows(ctx, rd)
		vh.Must(err, "observer rows")
		out := [][]string{}
		for _, r := range rs {
			row := make([]string, len(r.ValuesByPosition))
			for i, v := range r.ValuesByPosition {
				row[i] = fmt.Sprint(v.RawValue())
			}
			out = append(out, row)
		}
		return sorted(out)
	}
	o.rows = q("SELECT id,u,w FROM k")
	o.rows2 = []int{}
	if o.t2 {
		for _, r := range q("SELECT id FROM k2") {
			var n int
			fmt.Sscan(r[0], &n)
			o.rows2 = append(o.rows2, n)
		}
		sort.Ints(o.rows2)
	}
	return o
}

func dBreach(o dObs) string {
	seen := map[string]string{}
	for _, r := range o.rows {
		if o.chk && strings.HasPrefix(r[2], "-") {
			return fmt.Sprintf("row %s holds w=%s although CHECK (w >= 0) is part of the committed catalog", r[0], r[2])
		}
		if other, ok := seen[r[1]]; ok && o.uidx {
			return fmt.Sprintf("rows %s and %s both hold u='%s' under the committed unique index", other, r[0], r[1])
		}
		seen[r[1]] = r[0]
	}
	return ""
}

func ddlOne(bi int, b dBehaviour, dir string, res *vh.Result) *deviation {
	e := newEnv(dir)
	defer e.close()
	if x := e.exec(0, "CREATE TABLE k (id INTEGER, u VARCHAR[4] NOT NULL, w INTEGER, CONSTRAINT ck CHECK (w >= 0), PRIMARY KEY id)"); x.Err != nil {
		vh.Fatalf("create table k: %v", x.Err)
	}
	var sqls []string
	rolledBackDdl, droppedChkRolledBack := false, false
	openDrop := map[int]bool{}
	for si, st := range b.Steps {
		text := dSQL(st)
		if st.K == "dropCol" {
			name := st.U // the model names the column as the session's catalog has it; none: the statement must fail
			if name == "" {
				name = "x"
			}
			text = strings.Replace(text, "%COL%", name, 1)
		}
		sqls = append(sqls, fmt.Sprintf("s%d: %s", st.S, text))
		dev := func(class, msg string) *deviation {
			return &deviation{B: bi, Origin: b.Origin, Step: si, Class: class, Kind: st.K, SQL: sqls,
				Text: fmt.Sprintf("%s  [history: %s]", msg, strings.Join(sqls, "; "))}
		}
		out, errText, cnt := "ok", "", 0
		var seen []interface{}
		var res2 [][]string
		switch st.K {
		case "showcat":
			c, err := e.eng.Catalog(context.Background(), nil)
			if err != nil {
				out, errText = "err", err.Error()
			} else {
				u, w, cl, t2 := dCat(c)
				seen = []interface{}{nil, u, w, cl, t2}
			}
		case "sel":
			rows, err := e.query(st.S, text)
			if err != nil {
				out, errText = "err", err.Error()
			} else {
				res2 = sorted(norm(rows))
			}
		default:
			x := e.exec(st.S, text)
			out = outOf(x.Class)
			if x.Class == "panic" {
				return dev("panic", text+" panicked or hung: "+x.Err.Error())
			}
			if x.Err != nil {
				errText = x.Err.Error()
			}
			cnt = x.Updated
		}
		res.Count("ddl:"+st.K+":"+out, 1)
		// vacuity bookkeeping
		if st.K == "dropChk" && out == "ok" && st.Flags.Warm {
			openDrop[st.S] = true
		}
		if st.K == "rollback" && st.Flags.Ddl {
			rolledBackDdl = true
			if openDrop[st.S] {
				droppedChkRolledBack = true
			}
			openDrop[st.S] = false
		}
		if st.K == "commit" {
			openDrop[st.S] = false
		}
		if st.Flags.OtherOpenDdl && (st.K == "ins" || st.K == "insx" || st.K == "ins2" || st.K == "updw") {
			res.Count("ddl:pattern:write-while-other-session-has-uncommitted-ddl", 1)
		}
		if rolledBackDdl && (st.K == "ins" || st.K == "updw") {
			res.Count("ddl:pattern:write-after-rolled-back-ddl", 1)
		}
		if droppedChkRolledBack && (st.K == "ins" || st.K == "updw") && st.W < 0 && st.Out == "err" {
			res.Count("ddl:pattern:drop-constraint-rolled-back-then-violating-write-must-be-refused", 1)
		}
		o := e.observeDdl()
		if why := dBreach(o); why != "" {
			return dev("ddl-isolation", fmt.Sprintf("after %q the committed state violates a committed constraint: %s", text, why))
		}
		if st.K == "commit" && out != st.Out && (out == "conflict" || st.Out == "conflict") {
			res.Count("drift:ddl-commit-outcome", 1)
			res.DriftNote(fmt.Sprintf("ddl behaviour: COMMIT of s%d: model %s, engine %s (%s) after %v", st.S, st.Out, out, errText, sqls))
			return nil
		}
		cat := []interface{}{o.chk, o.uidx, o.widx, o.col, o.t2}
		switch {
		case out != st.Out && out == "ok":
			if tx := e.sess[st.S+1]; tx != nil && !tx.Closed() { // accepted inside a transaction: commit and look
				e.exec(st.S, "COMMIT")
				sqls = append(sqls, fmt.Sprintf("s%d: COMMIT", st.S))
				if why := dBreach(e.observeDdl()); why != "" {
					return dev("ddl-isolation", fmt.Sprintf("%q was accepted and committed: %s", text, why))
				}
			}
			return dev("ddl-isolation", fmt.Sprintf("%q succeeds; the design refuses it (a session works on the committed catalog; other sessions' uncommitted or rolled-back DDL must be invisible)", text))
		case out != st.Out:
			return dev("spurious-failure", fmt.Sprintf("%q: engine %s (%s), design %s", text, out, errText, st.Out))
		case st.K == "showcat" && fmt.Sprint(seen[1:]) != fmt.Sprint(st.Seen[1:]):
			return dev("stale-catalog", fmt.Sprintf("a fresh read-only transaction of the engine sees the catalog <<uidx,widx,col,t2>> = %v, the committed one is %v", seen[1:], st.Seen[1:]))
		case st.K == "sel" && !eqRows(norm(st.Res), res2):
			return dev("query-result", fmt.Sprintf("%q returns %v, design %v", text, res2, norm(st.Res)))
		case out == "ok" && (st.K == "ins" || st.K == "insx" || st.K == "ins2" || st.K == "updw") && cnt != st.Cnt:
			return dev("count", fmt.Sprintf("%q reports %d rows, design %d", text, cnt, st.Cnt))
		case fmt.Sprint(cat) != fmt.Sprint(st.Cat):
			return dev("catalog-mismatch", fmt.Sprintf("after %q the committed catalog <<chk,uidx,widx,col,t2>> is %v, design %v", text, cat, st.Cat))
		case !eqRows(norm(st.Rows), o.rows) || fmt.Sprint(st.Rows2) != fmt.Sprint(o.rows2):
			cl := "table"
			if st.Out != "ok" || st.K == "rollback" {
				cl = "failed-statement-effect"
			}
			return dev(cl, fmt.Sprintf("after %q the committed rows are k=%v k2=%v, design k=%v k2=%v", text, o.rows, o.rows2, norm(st.Rows), st.Rows2))
		}
	}
	return nil
}

func runDdl(path, dir string, par int, res *vh.Result) {
	var df dFile
	vh.ReadJSON(path, &df)
	var mu sync.Mutex
	devs := []deviation{}
	jobs := make(chan int)
	var wg sync.WaitGroup
	for w := 0; w < par; w++ {
		wg.Add(1)
		go func() {
			defer wg.Done()
			for bi := range jobs {
				d := ddlOne(bi, df.Behaviours[bi], filepath.Join(dir, fmt.Sprintf("q%d", bi)), res)
				mu.Lock()
				res.Evaluations += len(df.Behaviours[bi].Steps)
				res.Traces++
				if d != nil {
					devs = append(devs, *d)
				}
				mu.Unlock()
			}
		}()
	}
	for bi := range df.Behaviours {
		jobs <- bi
	}
	close(jobs)
	wg.Wait()
	sort.Slice(devs, func(i, j int) bool { return devs[i].B < devs[j].B })
	res.Distinct += len(df.Behaviours)
	res.Extra["deviations"] = devs
	res.Count("deviations", len(devs))
}
