// Command c12 binds spec/SQLTx.tla (properties C12 and C13) to the real embedded/sql engine.
//
//	c12 -replay f.json   replay TLC behaviours step by step, compare every observation with the design
//	c12 -free t.ndjson   seeded concurrent sessions run freely; every statement is logged (trace validation)
//	c12 -script f.json   run an ad-hoc script of (session, sql) steps and print what the engine does (repro tool)
package main

import (
	"encoding/json"
	"flag"
	"fmt"
	"os"
	"path/filepath"
	"strings"
	"time"

	"verifharness/vh"
)

var guardDeadline = 180 * time.Second // generous: the box may be heavily loaded; a real hang still ends the run

type scriptStep struct {
	S     int    `json:"s"`
	SQL   string `json:"sql"`
	Query string `json:"query"`
	Close bool   `json:"close"`
}

func runScript(path, dir string) {
	var steps []scriptStep
	vh.ReadJSON(path, &steps)
	e := newEnv(filepath.Join(dir, "script"))
	defer e.close()
	enc := json.NewEncoder(os.Stdout)
	for _, st := range steps {
		switch {
		case st.Close:
			err := e.cancel(st.S)
			enc.Encode(map[string]interface{}{"s": st.S, "close": true, "err": fmt.Sprint(err)})
		case st.Query != "":
			rows, err := e.query(st.S, st.Query)
			enc.Encode(map[string]interface{}{"s": st.S, "query": st.Query, "rows": rows, "err": fmt.Sprint(err)})
		default:
			o := e.exec(st.S, st.SQL)
			enc.Encode(map[string]interface{}{"s": st.S, "sql": st.SQL, "class": o.Class, "err": fmt.Sprint(o.Err), "updated": o.Updated,
				"lastpk": o.LastPK, "intx": o.InTx, "committx": o.CommitTx, "ncommitted": o.Committed})
		}
	}
}

func main() {
	script := flag.String("script", "", "ad-hoc script (JSON list of {s, sql|query|close})")
	dir := flag.String("dir", "", "scratch directory for stores")
	replay := flag.String("replay", "", "behaviours printed by TLC (JSON) to replay on the real engine")
	free := flag.String("free", "", "run free concurrent sessions and write their ndjson trace to this file")
	seed := flag.Int64("seed", 1, "seed of the free-running workload")
	runs := flag.Int("runs", 8, "free: number of independent runs (fresh store each)")
	workers := flag.Int("workers", 3, "free: concurrent sessions per run")
	units := flag.Int("units", 10, "free: program units (autocommit statement or transaction) per session")
	uniq := flag.String("uniq", "", "comma separated case files written by TLC from spec/SQLUniq.tla (composite unique indexes)")
	catf := flag.String("cat", "", "behaviours printed by TLC from spec/SQLCat.tla (catalog visibility across sessions)")
	ddlf := flag.String("ddl", "", "behaviours printed by TLC from spec/SQLDdl.tla (transactional DDL isolation)")
	par := flag.Int("par", 6, "behaviours replayed in parallel (each on its own store)")
	selftest := flag.Bool("selftest", false, "corrupt one expected value (binding self-test)")
	flag.Parse()
	if *dir == "" {
		vh.Fatalf("-dir required")
	}
	if *script != "" {
		runScript(*script, *dir)
		return
	}
	res := vh.NewResult()
	switch {
	case *replay != "":
		runReplay(*replay, *dir, *selftest, *par, res)
	case *uniq != "":
		runUniq(strings.Split(*uniq, ","), *dir, res)
	case *catf != "":
		runCat(*catf, *dir, *par, res)
	case *ddlf != "":
		runDdl(*ddlf, *dir, *par, res)
	case *free != "":
		runFree(*free, *dir, *seed, *runs, *workers, *units, res)
	default:
		vh.Fatalf("nothing to do")
	}
	res.Emit()
}
