package main

import (
	"context"
	"errors"
	"fmt"
	"os"
	"sort"
	"strings"

	"io"

	"github.com/codenotary/immudb/embedded/logger"
	"github.com/codenotary/immudb/embedded/sql"
	"github.com/codenotary/immudb/embedded/store"

	"verifharness/vh"
)

// env is one real store + SQL engine; sessions are explicit SQLTx objects.
type env struct {
	dir  string
	st   *store.ImmuStore
	eng  *sql.Engine
	sess sessTab // per session: the open transaction, nil = none (autocommit)
}

// sessTab holds one slot per session id (-1..30); different goroutines use different slots
type sessTab [32]*sql.SQLTx

var sqlPrefix = []byte{2}

func newEnv(dir string) *env {
	vh.Must(os.MkdirAll(dir, 0o755), "mkdir")
	st, err := store.Open(dir, store.DefaultOptions().WithMultiIndexing(true).WithSynced(false).
		WithLogger(logger.NewSimpleLoggerWithLevel("c12", io.Discard, logger.LogError)))
	vh.Must(err, "store.Open")
	eng, err := sql.NewEngine(st, sql.DefaultOptions().WithPrefix(sqlPrefix))
	vh.Must(err, "sql.NewEngine")
	return &env{dir: dir, st: st, eng: eng}
}

func (e *env) close() {
	for _, tx := range e.sess {
		if tx != nil && !tx.Closed() {
			tx.Cancel()
		}
	}
	e.st.Close()
	os.RemoveAll(e.dir)
}

// outcome of one SQL text executed in a session
type execOut struct {
	Err       error
	Class     string // ok | constraint | conflict | notx | other
	Updated   int    // rows reported as affected by this statement
	LastPK    int64  // last inserted pk reported for table t (0 = none)
	InTx      bool   // session still has an open transaction after the call
	CommitTx  uint64 // id of the store transaction committed by this call (0 = none)
	Committed int    // number of store transactions committed by this call
}

func classify(err error) string {
	if err == nil {
		return "ok"
	}
	switch {
	case errors.Is(err, store.ErrTxReadConflict):
		return "conflict"
	case errors.Is(err, store.ErrKeyAlreadyExists),
		errors.Is(err, sql.ErrNotNullableColumnCannotBeNull),
		errors.Is(err, sql.ErrCheckConstraintViolation),
		errors.Is(err, sql.ErrMaxLengthExceeded),
		errors.Is(err, sql.ErrPKCanNotBeNull),
		errors.Is(err, sql.ErrLimitedIndexCreation),
		errors.Is(err, sql.ErrInvalidValue),
		errors.Is(err, sql.ErrIndexAlreadyExists):
		return "constraint"
	case errors.Is(err, sql.ErrNoOngoingTx), errors.Is(err, store.ErrAlreadyClosed):
		return "notx"
	case strings.Contains(err.Error(), "savepoint") && strings.Contains(err.Error(), "does not exist"):
		return "nosavepoint"
	}
	return "other"
}

// exec runs one SQL text in session s exactly the way pkg/database does: ExecPreparedStmts with the
// session's ongoing transaction (nil when the session is not inside a transaction).
func (e *env) exec(s int, text string) execOut {
	ctx := context.Background()
	stmts, err := sql.ParseSQLString(text)
	if err != nil {
		vh.Fatalf("parse %q: %v", text, err)
	}
	cur := e.sess[s+1]
	before := 0
	if cur != nil && !cur.Closed() {
		before = cur.UpdatedRows()
	} else {
		cur = nil
	}
	var ntx *sql.SQLTx
	var ctxs []*sql.SQLTx
	pan, hung, msg := vh.Guard(guardDeadline, func() {
		ntx, ctxs, err = e.eng.ExecPreparedStmts(ctx, cur, stmts, nil)
	})
	if pan || hung {
		return execOut{Err: fmt.Errorf("panic/hang: %s", msg), Class: "panic"}
	}
	out := execOut{Err: err, Class: classify(err)}
	for _, c := range ctxs {
		if h := c.TxHeader(); h != nil {
			out.CommitTx = h.ID
			out.Committed++
		}
	}
	if err != nil {
		// the engine cancels the transaction of a failed statement (execPreparedStmts); if it did not, keep it
		e.sess[s+1] = nil
		if cur != nil && !cur.Closed() {
			e.sess[s+1] = cur
			out.InTx = true
		}
		return out
	}
	if ntx != nil && !ntx.Closed() {
		e.sess[s+1] = ntx
		out.InTx = true
		out.Updated = ntx.UpdatedRows()
		if ntx == cur {
			out.Updated -= before
		}
		out.LastPK = ntx.LastInsertedPKs()["t"]
		return out
	}
	e.sess[s+1] = nil
	if len(ctxs) > 0 {
		lastTx := ctxs[len(ctxs)-1]
		out.Updated = lastTx.UpdatedRows()
		if lastTx == cur {
			out.Updated -= before
		}
		out.LastPK = lastTx.LastInsertedPKs()["t"]
	}
	return out
}

// cancel closes the session's transaction without COMMIT (session close / connection drop).
func (e *env) cancel(s int) error {
	tx := e.sess[s+1]
	e.sess[s+1] = nil
	if tx == nil || tx.Closed() {
		return nil
	}
	return tx.Cancel()
}

// query runs a SELECT in session s (inside its transaction if it has one, else on a fresh read-only tx)
// and returns the rows as [][]interface{} (int64 / string / nil).
func (e *env) query(s int, text string) ([][]interface{}, error) {
	ctx := context.Background()
	cur := e.sess[s+1]
	if cur != nil && cur.Closed() {
		cur = nil
	}
	var rows []*sql.Row
	var err error
	pan, hung, msg := vh.Guard(guardDeadline, func() {
		var rd sql.RowReader
		rd, err = e.eng.Query(ctx, cur, text, nil)
		if err != nil {
			return
		}
		defer rd.Close()
		rows, err = sql.ReadAllRows(ctx, rd)
	})
	if pan || hung {
		return nil, fmt.Errorf("panic/hang: %s", msg)
	}
	if err != nil {
		return nil, err
	}
	out := make([][]interface{}, len(rows))
	for i, r := range rows {
		out[i] = make([]interface{}, len(r.ValuesByPosition))
		for j, v := range r.ValuesByPosition {
			if v.IsNull() {
				out[i][j] = nil
			} else {
				out[i][j] = v.RawValue()
			}
		}
	}
	return out, nil
}

func sortRows(rows [][]interface{}) {
	sort.Slice(rows, func(i, j int) bool { return fmt.Sprint(rows[i]) < fmt.Sprint(rows[j]) })
}
