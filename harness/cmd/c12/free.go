package main

import (
	"encoding/json"
	"fmt"
	"math/rand"
	"os"
	"path/filepath"
	"runtime"
	"sync"
	"time"

	"verifharness/vh"
)

// Free-running concurrent sessions against one real engine (trace validation, code -> spec).
// Every statement is logged when it returns: (run, worker, unit, statement, outcome, result, count, key, commit tx id).
// checks/C12.py serialises the committed units in the order of their commit tx ids and lets spec/TraceSQLTx.tla
// decide whether every logged observation is what the design gives in that serial order.

type freeEvent struct {
	Run    int        `json:"run"`
	W      int        `json:"w"`    // worker = session
	Seq    int        `json:"seq"`  // global order of returns
	Unit   int        `json:"unit"` // program unit of the worker (one autocommit statement or one transaction)
	K      string     `json:"k"`
	Id     int        `json:"id"`
	U      string     `json:"u"`
	V      string     `json:"v"`
	Out    string     `json:"out"`
	Err    string     `json:"err,omitempty"`
	Res    [][]string `json:"res"`
	Cnt    int        `json:"cnt"`
	Pk     int        `json:"pk"`
	Commit uint64     `json:"commit"` // id of the store transaction this statement committed (0 = none)
	St     string     `json:"st"`
	Scan   [][]string `json:"scan"`
	Final  bool       `json:"final,omitempty"`
}

type freeLog struct {
	mu  sync.Mutex
	seq int
	enc *json.Encoder
}

func (l *freeLog) put(ev freeEvent) {
	l.mu.Lock()
	l.seq++
	ev.Seq = l.seq
	if err := l.enc.Encode(ev); err != nil {
		vh.Fatalf("write trace: %v", err)
	}
	l.mu.Unlock()
}

var freeU = []string{"a", "b", "c"}
var freeV = []string{"p", "q"}

func runFree(out string, dir string, seed int64, runs, workers, units int, res *vh.Result) {
	f, err := os.Create(out)
	vh.Must(err, "create trace")
	defer f.Close()
	lg := &freeLog{enc: json.NewEncoder(f)}
	for run := 0; run < runs; run++ {
		e := newEnv(filepath.Join(dir, fmt.Sprintf("free%d", run)))
		if x := e.exec(0, createTable); x.Err != nil {
			vh.Fatalf("create table: %v", x.Err)
		}
		if x := e.exec(0, createIndex); x.Err != nil {
			vh.Fatalf("create index: %v", x.Err)
		}
		var wg sync.WaitGroup
		var hi int64 = 1 // rough high-water mark of ids, only to aim statements at existing rows
		var himu sync.Mutex
		stop := make(chan struct{})
		scans := 0
		var swg sync.WaitGroup
		swg.Add(1)
		go func() { // scanner: every committed state it sees must satisfy the constraints
			defer swg.Done()
			for {
				select {
				case <-stop:
					return
				case <-time.After(3 * time.Millisecond):
					lg.put(freeEvent{Run: run, W: -1, K: "scan", Scan: e.scan()})
					scans++
				}
			}
		}()
		for w := 1; w <= workers; w++ {
			wg.Add(1)
			go func(w int) {
				defer wg.Done()
				rng := rand.New(rand.NewSource(seed*1000003 + int64(run)*1009 + int64(w)))
				pick := func() step {
					himu.Lock()
					h := int(hi)
					himu.Unlock()
					id := 1 + rng.Intn(h+1)
					u, v := freeU[rng.Intn(len(freeU))], freeV[rng.Intn(len(freeV))]
					switch x := rng.Intn(100); {
					case x < 30:
						if rng.Intn(12) == 0 {
							return step{K: "insA", U: u, V: []string{"NULL", "x", "lll"}[rng.Intn(3)]}
						}
						return step{K: "insA", U: u, V: v}
					case x < 40:
						return step{K: "ups", Id: id, U: u, V: v}
					case x < 52:
						return step{K: "updU", Id: id, U: u}
					case x < 62:
						return step{K: "updV", Id: id, V: v}
					case x < 76:
						return step{K: "del", Id: id}
					case x < 80:
						return step{K: "insN", Id: id, U: u, V: v}
					case x < 90:
						return step{K: "selAll"}
					case x < 95:
						return step{K: "selU", U: u}
					default:
						return step{K: "selPk", Id: id}
					}
				}
				do := func(unit int, st step) observed {
					st.S = w
					o := e.runStepNoScan(st)
					ev := freeEvent{Run: run, W: w, Unit: unit, K: st.K, Id: st.Id, U: st.U, V: st.V, Out: o.Out, Err: o.Err, Res: o.Res,
						Cnt: o.Cnt, Pk: o.Pk, Commit: o.commit, St: o.St}
					lg.put(ev)
					res.Count("free:"+st.K+":"+o.Out, 1)
					if o.Pk > 0 {
						himu.Lock()
						if int64(o.Pk) > hi {
							hi = int64(o.Pk)
						}
						himu.Unlock()
					}
					return o
				}
				for unit := 0; unit < units; unit++ {
					if rng.Intn(100) < 45 {
						do(unit, pick())
						continue
					}
					if o := do(unit, step{K: "begin"}); o.Out != "ok" {
						continue
					}
					n := 1 + rng.Intn(3)
					alive := true
					for i := 0; i < n && alive; i++ {
						if rng.Intn(3) == 0 {
							runtime.Gosched()
							time.Sleep(time.Duration(rng.Intn(400)) * time.Microsecond)
						}
						o := do(unit, pick())
						alive = o.St == "tx"
					}
					if !alive {
						continue
					}
					if rng.Intn(100) < 85 {
						do(unit, step{K: "commit"})
					} else {
						do(unit, step{K: "rollback"})
					}
				}
			}(w)
		}
		wg.Wait()
		close(stop)
		swg.Wait()
		lg.put(freeEvent{Run: run, W: -1, K: "scan", Scan: e.scan(), Final: true})
		res.Count("free:scans", scans+1)
		res.Traces++
		e.close()
	}
}

// runStepNoScan is runStep without the full scan (free-running sessions must not be serialised by it);
// it also reports the id of the store transaction the call committed.
func (e *env) runStepNoScan(st step) observed {
	o := observed{S: st.S, K: st.K, Id: st.Id, U: st.U, V: st.V, Res: [][]string{}}
	text, isQuery := sqlOf(st)
	if isQuery {
		rows, err := e.query(st.S, text)
		if err != nil {
			o.Out, o.Err = "err", err.Error()
		} else {
			o.Out = "ok"
			o.Res = norm(rows)
			if st.K == "selU" {
				o.Res = sorted(o.Res)
			}
		}
	} else {
		x := e.exec(st.S, text)
		o.Out = outOf(x.Class)
		if x.Err != nil {
			o.Err = x.Err.Error()
		}
		if x.Class == "panic" {
			o.Out = "panic"
		}
		o.Cnt = x.Updated
		if st.K == "insA" && x.Err == nil {
			o.Pk = int(x.LastPK)
		}
		o.commit = x.CommitTx
	}
	if tx := e.sess[st.S+1]; tx != nil && !tx.Closed() {
		o.St = "tx"
	} else {
		o.St = "idle"
	}
	return o
}
