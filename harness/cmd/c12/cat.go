package main

import (
	"context"
	"fmt"
	"path/filepath"
	"sort"
	"strings"
	"sync"

	"github.com/codenotary/immudb/embedded/sql"

	"verifharness/vh"
)

// Catalog visibility across the sessions of ONE sql.Engine (behaviours of spec/SQLCat.tla).
// The sessions' transactions are interleaved deterministically on the main engine (its catalog cache is what is
// under test).  After every step the committed state is read through a second, throw-away sql.Engine over the same
// store (own cache, always loads the catalog from the store), so observing never touches the cache of the engine
// under test: rows of k and the catalog (tables, columns, indexes incl. uniqueness) projected to the model's flags.

type cFlags struct {
	Cold     bool `json:"cold"`
	DdlSince bool `json:"ddlSince"`
	Empty    bool `json:"empty"`
}
type cStep struct {
	S     int             `json:"s"`
	K     string          `json:"k"`
	Id    int             `json:"id"`
	U     string          `json:"u"`
	Out   string          `json:"out"`
	Res   [][]interface{} `json:"res"`
	Seen  []bool          `json:"seen"`
	Rows  [][]interface{} `json:"rows"`
	Cat   []bool          `json:"cat"`
	Flags cFlags          `json:"flags"`
}
type cBehaviour struct {
	Origin string  `json:"origin"`
	Steps  []cStep `json:"steps"`
}
type cFile struct {
	Behaviours []cBehaviour `json:"behaviours"`
}

func cSQL(st cStep) string {
	switch st.K {
	case "begin":
		return "BEGIN TRANSACTION"
	case "commit":
		return "COMMIT"
	case "rollback":
		return "ROLLBACK"
	case "ins":
		return fmt.Sprintf("INSERT INTO k(id,u) VALUES (%d,'%s')", st.Id, st.U)
	case "crUIdx":
		return "CREATE UNIQUE INDEX ON k(u)"
	case "crWIdx":
		return "CREATE INDEX ON k(w)"
	case "addCol":
		return "ALTER TABLE k ADD COLUMN x INTEGER"
	case "crT2":
		return "CREATE TABLE k2 (id INTEGER, PRIMARY KEY id)"
	case "sel":
		return "SELECT id,u FROM k"
	case "showcat":
		return "-- catalog of a fresh read-only transaction"
	}
	vh.Fatalf("cat: unknown statement %q", st.K)
	return ""
}

// catFlags projects a real catalog to the model's flags <<uidx, widx, colx, t2>>.
func catFlags(c *sql.Catalog) []bool {
	f := []bool{false, false, false, false}
	for _, t := range c.GetTables() {
		if t.Name() == "k2" {
			f[3] = true
		}
		if t.Name() != "k" {
			continue
		}
		for _, col := range t.Cols() {
			if col.Name() == "x" {
				f[2] = true
			}
		}
		for _, idx := range t.GetIndexes() {
			if idx.IsPrimary() {
				continue
			}
			var names []string
			for _, col := range idx.Cols() {
				names = append(names, col.Name())
			}
			switch strings.Join(names, ",") {
			case "u":
				if idx.IsUnique() {
					f[0] = true
				}
			case "w":
				f[1] = true
			}
		}
	}
	return f
}

func eqBools(a, b []bool) bool {
	if len(a) != len(b) {
		return false
	}
	for i := range a {
		if a[i] != b[i] {
			return false
		}
	}
	return true
}

// observe reads the committed rows and catalog through a fresh engine over the same store.
func (e *env) observe() (rows [][]string, flags []bool) {
	ctx := context.Background()
	obs, err := sql.NewEngine(e.st, sql.DefaultOptions().WithPrefix(sqlPrefix))
	vh.Must(err, "observer engine")
	cat, err := obs.Catalog(ctx, nil)
	vh.Must(err, "observer catalog")
	flags = catFlags(cat)
	rd, err := obs.Query(ctx, nil, "SELECT id,u FROM k", nil)
	vh.Must(err, "observer query")
	defer rd.Close()
	rs, err := sql.ReadAllRows(ctx, rd)
	vh.Must(err, "observer rows")
	rows = [][]string{}
	for _, r := range rs {
		rows = append(rows, []string{fmt.Sprint(r.ValuesByPosition[0].RawValue()), fmt.Sprint(r.ValuesByPosition[1].RawValue())})
	}
	return sorted(rows), flags
}

func dupU(rows [][]string) string {
	seen := map[string]string{}
	for _, r := range rows {
		if o, ok := seen[r[1]]; ok {
			return fmt.Sprintf("rows %s and %s both hold u='%s'", o, r[0], r[1])
		}
		seen[r[1]] = r[0]
	}
	return ""
}

func catOne(bi int, b cBehaviour, dir string, res *vh.Result) *deviation {
	e := newEnv(dir)
	defer e.close()
	if x := e.exec(0, "CREATE TABLE k (id INTEGER, u VARCHAR[4] NOT NULL, w INTEGER, PRIMARY KEY id)"); x.Err != nil {
		vh.Fatalf("create table k: %v", x.Err)
	}
	var sqls []string
	cold, pattern := map[int]bool{}, 0 // pattern: 1 = a tx opened cold saw a concurrent DDL commit and committed empty
	for si, st := range b.Steps {
		text := cSQL(st)
		sqls = append(sqls, fmt.Sprintf("s%d: %s", st.S, text))
		dev := func(class, msg string) *deviation {
			return &deviation{B: bi, Origin: b.Origin, Step: si, Class: class, Kind: st.K, SQL: sqls,
				Text: fmt.Sprintf("%s  [history: %s]", msg, strings.Join(sqls, "; "))}
		}
		out, errText := "ok", ""
		var seen []bool
		var res2 [][]string
		switch st.K {
		case "showcat":
			c, err := e.eng.Catalog(context.Background(), nil)
			if err != nil {
				out, errText = "err", err.Error()
			} else {
				seen = catFlags(c)
			}
		case "sel":
			rows, err := e.query(st.S, text)
			if err != nil {
				out, errText = "err", err.Error()
			} else {
				res2 = sorted(norm(rows))
			}
		default:
			x := e.exec(st.S, text)
			out = outOf(x.Class)
			if x.Class == "panic" {
				return dev("panic", text+" panicked or hung: "+x.Err.Error())
			}
			if x.Err != nil {
				errText = x.Err.Error()
			}
		}
		res.Count("cat:"+st.K+":"+out, 1)
		if st.K == "begin" {
			cold[st.S] = st.Flags.Cold
		}
		if st.K == "commit" && st.Flags.Cold && st.Flags.DdlSince && st.Flags.Empty && out == "ok" {
			pattern = 1
			res.Count("cat:pattern:cold-open+concurrent-ddl+empty-commit", 1)
		}
		if pattern == 1 && st.K == "ins" {
			pattern = 2
			res.Count("cat:pattern:...then-insert", 1)
		}
		rows, flags := e.observe()
		if flags[0] {
			if why := dupU(rows); why != "" {
				return dev("constraint-breach", fmt.Sprintf("after %q the committed table violates the committed unique index on u: %s", text, why))
			}
		}
		if st.K == "commit" && out != st.Out && (out == "conflict" || st.Out == "conflict") {
			res.Count("drift:cat-commit-outcome", 1)
			res.DriftNote(fmt.Sprintf("catalog behaviour: COMMIT of s%d: model %s, engine %s (%s) after %v", st.S, st.Out, out, errText, sqls))
			return nil
		}
		switch {
		case out != st.Out && out == "ok":
			if tx := e.sess[st.S+1]; tx != nil && !tx.Closed() { // accepted inside a transaction: commit and look
				e.exec(st.S, "COMMIT")
				sqls = append(sqls, fmt.Sprintf("s%d: COMMIT", st.S))
				if r2, f2 := e.observe(); f2[0] && dupU(r2) != "" {
					return dev("constraint-breach", fmt.Sprintf("%q was accepted and committed under the committed unique index on u: %s", text, dupU(r2)))
				}
			}
			return dev("violating-statement-accepted", fmt.Sprintf("%q succeeds; the design refuses it", text))
		case out != st.Out:
			return dev("spurious-failure", fmt.Sprintf("%q: engine %s (%s), design %s", text, out, errText, st.Out))
		case st.K == "showcat" && !eqBools(seen, st.Seen):
			return dev("stale-catalog", fmt.Sprintf("a fresh read-only transaction of the engine sees the catalog <<uidx,widx,colx,t2>> = %v, the committed one is %v", seen, st.Seen))
		case st.K == "sel" && !eqRows(norm(st.Res), res2):
			return dev("query-result", fmt.Sprintf("%q returns %v, design %v", text, res2, norm(st.Res)))
		case !eqBools(flags, st.Cat):
			return dev("catalog-mismatch", fmt.Sprintf("after %q the committed catalog <<uidx,widx,colx,t2>> is %v, design %v", text, flags, st.Cat))
		case !eqRows(norm(st.Rows), rows):
			cl := "table"
			if st.Out != "ok" {
				cl = "failed-statement-effect"
			}
			return dev(cl, fmt.Sprintf("after %q the committed rows are %v, design %v", text, rows, norm(st.Rows)))
		}
	}
	return nil
}

func runCat(path, dir string, par int, res *vh.Result) {
	var cf cFile
	vh.ReadJSON(path, &cf)
	var mu sync.Mutex
	devs := []deviation{}
	jobs := make(chan int)
	var wg sync.WaitGroup
	for w := 0; w < par; w++ {
		wg.Add(1)
		go func() {
			defer wg.Done()
			for bi := range jobs {
				d := catOne(bi, cf.Behaviours[bi], filepath.Join(dir, fmt.Sprintf("c%d", bi)), res)
				mu.Lock()
				res.Evaluations += len(cf.Behaviours[bi].Steps)
				res.Traces++
				if d != nil {
					devs = append(devs, *d)
				}
				mu.Unlock()
			}
		}()
	}
	for bi := range cf.Behaviours {
		jobs <- bi
	}
	close(jobs)
	wg.Wait()
	sort.Slice(devs, func(i, j int) bool { return devs[i].B < devs[j].B })
	res.Distinct += len(cf.Behaviours)
	res.Extra["deviations"] = devs
	res.Count("deviations", len(devs))
}
