package main

import (
	"fmt"
	"path/filepath"
	"strings"

	"verifharness/vh"
)

// Composite unique indexes: cases written by TLC from spec/SQLUniq.tla (every non-empty subset of the indexed
// columns changed by UPDATE / UPSERT towards a colliding and towards a free tuple, after several histories).
// All cases of one index variant run in one table of one store; a case owns the ids and the values of column a
// in [base, base+10), so cases cannot collide with each other.

type uStep struct {
	K    string          `json:"k"`
	Id   int             `json:"id"`
	A    int             `json:"a"`
	B    string          `json:"b"`
	D    string          `json:"d"`
	Mask []string        `json:"mask"`
	Out  string          `json:"out"`
	Cnt  int             `json:"cnt"`
	InTx bool            `json:"intx"`
	Tbl  [][]interface{} `json:"tbl"`
}
type uCase struct {
	Kind    string   `json:"kind"`
	Hist    string   `json:"hist"`
	Mask    []string `json:"mask"`
	Collide bool     `json:"collide"`
	InTx    bool     `json:"intx"`
	Target  int      `json:"target"` // 1-based index of the target statement
	Steps   []uStep  `json:"steps"`
}
type uFile struct {
	Idx   []string `json:"idx"`
	Cases []uCase  `json:"cases"`
}

func uval(col string, st uStep, base int) string {
	switch col {
	case "a":
		return fmt.Sprint(base + st.A)
	case "b":
		return lit(st.B)
	default:
		switch st.D {
		case "T":
			return "true"
		case "F":
			return "false"
		}
		return "NULL"
	}
}

func uSQL(t string, st uStep, base int) string {
	switch st.K {
	case "begin":
		return "BEGIN TRANSACTION"
	case "commit":
		return "COMMIT"
	case "ins", "ups":
		verb := "INSERT"
		if st.K == "ups" {
			verb = "UPSERT"
		}
		return fmt.Sprintf("%s INTO %s(id,a,b,d) VALUES (%d,%s,%s,%s)", verb, t, base+st.Id, uval("a", st, base), uval("b", st, base), uval("d", st, base))
	case "upd":
		var sets []string
		for _, c := range st.Mask {
			sets = append(sets, c+"="+uval(c, st, base))
		}
		return fmt.Sprintf("UPDATE %s SET %s WHERE id=%d", t, strings.Join(sets, ", "), base+st.Id)
	case "del":
		return fmt.Sprintf("DELETE FROM %s WHERE id=%d", t, base+st.Id)
	}
	vh.Fatalf("uniq: unknown statement %q", st.K)
	return ""
}

// rows of the case as the model writes them: [id, a, b, d] with id and a relative to base
func (e *env) uScan(t string, base int) [][]string {
	rows, err := e.query(-1, fmt.Sprintf("SELECT id,a,b,d FROM %s WHERE id >= %d AND id < %d", t, base, base+10))
	if err != nil {
		vh.Fatalf("uniq scan: %v", err)
	}
	out := [][]string{}
	for _, r := range rows {
		row := make([]string, 4)
		row[0] = fmt.Sprint(r[0].(int64) - int64(base))
		row[1] = fmt.Sprint(r[1].(int64) - int64(base))
		row[2] = "NULL"
		if r[2] != nil {
			row[2] = fmt.Sprint(r[2])
		}
		switch x := r[3].(type) {
		case bool:
			row[3] = map[bool]string{true: "T", false: "F"}[x]
		default:
			row[3] = "NULL"
		}
		out = append(out, row)
	}
	return sorted(out)
}

// duplicate indexed tuple among live rows; nullFree tells whether the duplicated tuple has no NULL
func uBreach(rows [][]string, idx []string) (dup bool, nullFree bool, what string) {
	pos := map[string]int{"a": 1, "b": 2, "d": 3}
	seen := map[string]string{}
	for _, r := range rows {
		var parts []string
		nf := true
		for _, c := range idx {
			parts = append(parts, r[pos[c]])
			if r[pos[c]] == "NULL" {
				nf = false
			}
		}
		key := strings.Join(parts, "|")
		if other, ok := seen[key]; ok {
			return true, nf, fmt.Sprintf("rows %s and %s both hold (%s) = (%s)", other, r[0], strings.Join(idx, ","), strings.Join(parts, ","))
		}
		seen[key] = r[0]
	}
	return false, false, ""
}

func runUniq(paths []string, dir string, res *vh.Result) {
	e := newEnv(filepath.Join(dir, "uniq"))
	defer e.close()
	devs := []deviation{}
	for _, path := range paths {
		var uf uFile
		vh.ReadJSON(path, &uf)
		name := strings.Join(uf.Idx, "")
		t := "cu_" + name
		if x := e.exec(0, fmt.Sprintf("CREATE TABLE %s (id INTEGER, a INTEGER NOT NULL, b VARCHAR[4], d BOOLEAN, w INTEGER, PRIMARY KEY id)", t)); x.Err != nil {
			vh.Fatalf("create table: %v", x.Err)
		}
		if x := e.exec(0, fmt.Sprintf("CREATE UNIQUE INDEX ON %s(%s)", t, strings.Join(uf.Idx, ","))); x.Err != nil {
			// the table was committed by the statement before: a following transaction of the same engine must see it
			devs = append(devs, deviation{Origin: "SQLUniq " + name + " set-up", Class: "catalog-mismatch", Kind: "crIdx",
				Text: fmt.Sprintf("CREATE UNIQUE INDEX ON %s(..) right after the committed CREATE TABLE %s fails: %v", t, t, x.Err)})
			continue
		}
		for ci, c := range uf.Cases {
			base := (ci + 1) * 10
			res.Traces++
			var sqls []string
			tag := fmt.Sprintf("%s:%s:%s:%s", name, c.Kind, strings.Join(c.Mask, ""), map[bool]string{true: "collide", false: "free"}[c.Collide])
			for si, st := range c.Steps {
				text := uSQL(t, st, base)
				sqls = append(sqls, text)
				x := e.exec(1, text)
				res.Evaluations++
				out := outOf(x.Class)
				intx := e.sess[2] != nil && !e.sess[2].Closed()
				if si+1 == c.Target {
					res.Count("uniq:target:"+tag, 1)
					res.Count("uniq:target-outcome:"+name+":"+map[bool]string{true: "collide", false: "free"}[c.Collide]+":"+out, 1)
				}
				var rows [][]string
				if !intx {
					rows = e.uScan(t, base)
				}
				dev := func(class, text string) {
					devs = append(devs, deviation{B: ci, Origin: "SQLUniq " + tag, Step: si, Class: class, Kind: st.K,
						Text: fmt.Sprintf("%s  [index (%s); history %q: %s]", text, strings.Join(uf.Idx, ","), c.Hist, strings.Join(sqls, "; ")), SQL: sqls})
				}
				if rows != nil {
					if dup, nullFree, what := uBreach(rows, uf.Idx); dup {
						if nullFree {
							dev("constraint-breach", "composite unique index violated after "+text+": "+what)
						} else {
							dev("null-duplicate", "duplicate tuple containing NULL after "+text+": "+what+" (the engine treats NULL as a key value)")
						}
						break
					}
				}
				if out == "panic" {
					dev("panic", text+" panicked: "+x.Err.Error())
					break
				}
				if out != st.Out {
					if out == "ok" {
						if intx { // accepted inside a transaction: commit and look
							e.exec(1, "COMMIT")
							sqls = append(sqls, "COMMIT")
							if dup, nullFree, what := uBreach(e.uScan(t, base), uf.Idx); dup && nullFree {
								dev("constraint-breach", "composite unique index violated: "+text+" was accepted and committed: "+what)
								break
							}
						}
						dev("violating-statement-accepted", fmt.Sprintf("%q succeeds; the design refuses it", text))
					} else {
						dev("spurious-failure", fmt.Sprintf("%q fails with %q; the design executes it", text, x.Err))
					}
					break
				}
				if intx != st.InTx {
					dev("tx-state", fmt.Sprintf("after %q the session is in a transaction: %v, design %v", text, intx, st.InTx))
					break
				}
				if out == "ok" && (st.K == "upd" || st.K == "ups" || st.K == "del") && x.Updated != st.Cnt {
					dev("count", fmt.Sprintf("%q reports %d rows, design %d", text, x.Updated, st.Cnt))
					break
				}
				if rows != nil && !eqRows(norm(st.Tbl), rows) {
					cl := "table"
					if st.Out != "ok" {
						cl = "failed-statement-effect"
					}
					dev(cl, fmt.Sprintf("after %q the rows are %v, design %v", text, rows, norm(st.Tbl)))
					break
				}
			}
			if tx := e.sess[2]; tx != nil && !tx.Closed() {
				e.cancel(1)
			}
		}
		res.Distinct += len(uf.Cases)
	}
	res.Extra["deviations"] = devs
	res.Count("deviations", len(devs))
}
