// c01: replays the TLC-enumerated proof cases (spec/ProofCases.tla over spec/Proofs.tla) on the real code:
// real stores with the enumerated binary-linking shapes (built through store.ReplicateTx with synthesised
// exported transactions), real store.DualProof generation on the honest and the forked history, the
// enumerated mixtures / single alterations applied to the real proof structs, real store.VerifyDualProof
// in the client flow (new state := Alh of the returned header, verified against the trusted state).
package main

import (
	"bytes"
	"context"
	"crypto/sha256"
	"encoding/binary"
	"flag"
	"fmt"
	"os"
	"path/filepath"
	"reflect"
	"strings"
	"time"

	"github.com/codenotary/immudb/embedded/ahtree"
	"github.com/codenotary/immudb/embedded/htree"
	"github.com/codenotary/immudb/embedded/logger"
	"github.com/codenotary/immudb/embedded/store"

	"verifharness/storetrace"
	"verifharness/vh"
)

type caseRec struct {
	Shape, F, Q, I, J int
	Kind, Comp, Op    string
	Pos               int
	Go, Truth         bool
}

type casesFile struct {
	N      int
	Shapes [][]int
	Cases  []caseRec
}

type hist struct {
	st   *store.ImmuStore
	hdrs []*store.TxHeader
	alhs [][sha256.Size]byte
}

func junk(seed int64, k int) (d [sha256.Size]byte) {
	copy(d[:], vh.Bytes(seed, "junk", k, 32))
	return
}

func exportBytes(hdr *store.TxHeader, key, val []byte) []byte {
	var buf bytes.Buffer
	hb, err := hdr.Bytes()
	vh.Must(err, "hdr.Bytes")
	var b4 [4]byte
	var b2 [2]byte
	binary.BigEndian.PutUint32(b4[:], uint32(len(hb)))
	buf.Write(b4[:])
	buf.Write(hb)
	binary.BigEndian.PutUint16(b2[:], uint16(len(key)))
	buf.Write(b2[:])
	buf.Write(key)
	binary.BigEndian.PutUint16(b2[:], 0) // no kv metadata
	buf.Write(b2[:])
	binary.BigEndian.PutUint32(b4[:], uint32(len(val)))
	buf.Write(b4[:])
	buf.Write(val)
	binary.BigEndian.PutUint16(b2[:], 1)
	buf.Write(b2[:])
	buf.WriteByte(0)
	return buf.Bytes()
}

// build creates a real store whose tx k has BlTxID shape[k-1] and content variant 2 from tx f on.
func build(dir string, shape []int, f int, res *vh.Result) *hist {
	opts := store.DefaultOptions().WithSynced(false).WithMaxConcurrency(4).WithMaxTxEntries(4).WithMaxKeyLen(16).WithMaxValueLen(64).
		WithWriteBufferSize(1 << 14).WithLogger(logger.NewMemoryLoggerWithLevel(logger.LogError))
	opts.WithIndexOptions(opts.IndexOpts.WithFlushBufferSize(1 << 14).WithCacheSize(16))
	opts.WithAHTOptions(opts.AHTOpts.WithWriteBufferSize(1 << 14))
	st, err := store.Open(dir, opts)
	vh.Must(err, "store.Open")
	h := &hist{st: st}
	prev := storetrace.Genesis
	for k := 1; k <= len(shape); k++ {
		variant := 1
		if k >= f {
			variant = 2
		}
		key := []byte(fmt.Sprintf("k%d", k))
		val := []byte(fmt.Sprintf("v%d-%d", k, variant))
		ver := k % 2
		dg, err := store.EntrySpecDigestFor(ver)
		vh.Must(err, "EntrySpecDigestFor")
		ed := dg(&store.EntrySpec{Key: key, Value: val})
		ht, _ := htree.New(1)
		vh.Must(ht.BuildWith([][sha256.Size]byte{ed}), "BuildWith")
		hdr := &store.TxHeader{ID: uint64(k), Ts: int64(100 + k), Version: ver, NEntries: 1, Eh: ht.Root(), PrevAlh: prev, BlTxID: uint64(shape[k-1])}
		if hdr.BlTxID > 0 {
			hdr.BlRoot = storetrace.RefRoot(h.alhs[:hdr.BlTxID])
		}
		got, err := st.ReplicateTx(context.Background(), exportBytes(hdr, key, val), false, false)
		if err != nil {
			vh.Fatalf("ReplicateTx of tx %d (shape %v): %v", k, shape, err)
		}
		if got.Alh() != hdr.Alh() {
			res.Violate("store.ReplicateTx:header-differs-from-exported", fmt.Sprintf("tx %d shape %v", k, shape), nil)
		}
		h.hdrs = append(h.hdrs, got)
		h.alhs = append(h.alhs, got.Alh())
		prev = got.Alh()
	}
	return h
}

// ---- split-view histories (spec/Proofs.tla HistPoison) -------------------------------------------------------
// A real store cannot hold them (it appends its own Alh to its own tree), so the headers are built by hand over a
// real ahtree whose leaf p is foreign, and the dual proof is assembled the way ImmuStore.DualProof assembles it
// (mirror below; checked against the real ImmuStore.DualProof on every unpoisoned history it is used with).

func innerHash(h *store.TxHeader) [sha256.Size]byte {
	var b []byte
	var u8 [8]byte
	var u4 [4]byte
	var u2 [2]byte
	binary.BigEndian.PutUint64(u8[:], uint64(h.Ts))
	b = append(b, u8[:]...)
	binary.BigEndian.PutUint16(u2[:], uint16(h.Version))
	b = append(b, u2[:]...)
	switch h.Version {
	case 0:
		binary.BigEndian.PutUint16(u2[:], uint16(h.NEntries))
		b = append(b, u2[:]...)
	case 1:
		var md []byte
		if h.Metadata != nil {
			md = h.Metadata.Bytes()
		}
		binary.BigEndian.PutUint16(u2[:], uint16(len(md)))
		b = append(b, u2[:]...)
		b = append(b, md...)
		binary.BigEndian.PutUint32(u4[:], uint32(h.NEntries))
		b = append(b, u4[:]...)
	}
	b = append(b, h.Eh[:]...)
	binary.BigEndian.PutUint64(u8[:], h.BlTxID)
	b = append(b, u8[:]...)
	b = append(b, h.BlRoot[:]...)
	return sha256.Sum256(b)
}

type phist struct {
	hdrs  []*store.TxHeader
	alhs  [][sha256.Size]byte
	aht   *ahtree.AHtree // the tree the server answers from (leaf p foreign)
	clean *ahtree.AHtree // the honest tree (headers before q embed its roots)
}

func foreignLeaf(seed int64) [sha256.Size]byte { return junk(seed, 99) }

// buildPoison: chain of the same transactions build() commits; tree leaf p (0: none) is foreign in the tree whose roots the
// headers embed from transaction q on.
func buildPoison(dir string, shape []int, p, q int, seed int64) *phist {
	vh.Must(os.MkdirAll(dir, 0755), "mkdir")
	aht, err := ahtree.Open(filepath.Join(dir, "p"), ahtree.DefaultOptions())
	vh.Must(err, "ahtree.Open")
	clean, err := ahtree.Open(filepath.Join(dir, "c"), ahtree.DefaultOptions())
	vh.Must(err, "ahtree.Open")
	h := &phist{aht: aht, clean: clean}
	prev := storetrace.Genesis
	for k := 1; k <= len(shape); k++ {
		key := []byte(fmt.Sprintf("k%d", k))
		val := []byte(fmt.Sprintf("v%d-%d", k, 1))
		ver := k % 2
		dg, err := store.EntrySpecDigestFor(ver)
		vh.Must(err, "EntrySpecDigestFor")
		ed := dg(&store.EntrySpec{Key: key, Value: val})
		ht, _ := htree.New(1)
		vh.Must(ht.BuildWith([][sha256.Size]byte{ed}), "BuildWith")
		hdr := &store.TxHeader{ID: uint64(k), Ts: int64(100 + k), Version: ver, NEntries: 1, Eh: ht.Root(), PrevAlh: prev, BlTxID: uint64(shape[k-1])}
		if ver == 1 {
			hdr.Metadata = store.NewTxMetadata()
		}
		if hdr.BlTxID > 0 {
			if k >= q {
				hdr.BlRoot, err = aht.RootAt(hdr.BlTxID)
			} else {
				hdr.BlRoot, err = clean.RootAt(hdr.BlTxID)
			}
			vh.Must(err, "RootAt")
		}
		alh := hdr.Alh()
		leaf := alh
		if k == p {
			leaf = foreignLeaf(seed)
		}
		_, _, err = aht.Append(leaf[:])
		vh.Must(err, "aht.Append")
		_, _, err = clean.Append(alh[:])
		vh.Must(err, "aht.Append")
		h.hdrs = append(h.hdrs, hdr)
		h.alhs = append(h.alhs, alh)
		prev = alh
	}
	return h
}

// mirrorDual assembles a dual proof over (chain headers, tree) like ImmuStore.DualProof / LinearProof / LinearAdvanceProof.
func (h *phist) mirrorDual(src, tgt int, tblFromTree bool, p int, seed int64) *store.DualProof {
	S, T := h.hdrs[src-1], h.hdrs[tgt-1]
	pr := &store.DualProof{SourceTxHeader: cloneHdr(S), TargetTxHeader: cloneHdr(T)}
	var err error
	if S.ID < T.BlTxID {
		pr.InclusionProof, err = h.aht.InclusionProof(S.ID, T.BlTxID)
		vh.Must(err, "InclusionProof")
	}
	if S.BlTxID > 0 {
		pr.ConsistencyProof, err = h.aht.ConsistencyProof(S.BlTxID, T.BlTxID)
		vh.Must(err, "ConsistencyProof")
	}
	if T.BlTxID > 0 {
		pr.TargetBlTxAlh = h.alhs[T.BlTxID-1]
		if tblFromTree && int(T.BlTxID) == p {
			pr.TargetBlTxAlh = foreignLeaf(seed)
		}
		pr.LastInclusionProof, err = h.aht.InclusionProof(T.BlTxID, T.BlTxID)
		vh.Must(err, "LastInclusionProof")
	}
	ls := S.ID
	if T.BlTxID > ls {
		ls = T.BlTxID
	}
	lp := &store.LinearProof{SourceTxID: ls, TargetTxID: T.ID, Terms: [][sha256.Size]byte{h.alhs[ls-1]}}
	for id := ls + 1; id <= T.ID; id++ {
		lp.Terms = append(lp.Terms, innerHash(h.hdrs[id-1]))
	}
	pr.LinearProof = lp
	as, at := S.BlTxID, S.ID
	if T.BlTxID < at {
		at = T.BlTxID
	}
	if at > as+1 {
		la := &store.LinearAdvanceProof{LinearProofTerms: [][sha256.Size]byte{h.alhs[as]}, InclusionProofs: make([][][sha256.Size]byte, at-as-1)}
		for id := as + 1; id < at; id++ {
			la.InclusionProofs[id-as-1], err = h.aht.InclusionProof(id, T.BlTxID)
			vh.Must(err, "ladv InclusionProof")
			la.LinearProofTerms = append(la.LinearProofTerms, innerHash(h.hdrs[id]))
		}
		pr.LinearAdvanceProof = la
	}
	return pr
}

func cloneHdr(h *store.TxHeader) *store.TxHeader { c := *h; return &c }
func cloneSeq(s [][sha256.Size]byte) [][sha256.Size]byte {
	return append([][sha256.Size]byte(nil), s...)
}
func cloneProof(p *store.DualProof) *store.DualProof {
	c := *p
	c.SourceTxHeader = cloneHdr(p.SourceTxHeader)
	c.TargetTxHeader = cloneHdr(p.TargetTxHeader)
	c.InclusionProof = cloneSeq(p.InclusionProof)
	c.ConsistencyProof = cloneSeq(p.ConsistencyProof)
	c.LastInclusionProof = cloneSeq(p.LastInclusionProof)
	if p.LinearProof != nil {
		l := *p.LinearProof
		l.Terms = cloneSeq(p.LinearProof.Terms)
		c.LinearProof = &l
	}
	if p.LinearAdvanceProof != nil {
		l := *p.LinearAdvanceProof
		l.LinearProofTerms = cloneSeq(p.LinearAdvanceProof.LinearProofTerms)
		l.InclusionProofs = nil
		for _, ip := range p.LinearAdvanceProof.InclusionProofs {
			l.InclusionProofs = append(l.InclusionProofs, cloneSeq(ip))
		}
		c.LinearAdvanceProof = &l
	}
	return &c
}

func alterHdr(h *store.TxHeader, fld string, seed int64) {
	switch fld {
	case "id":
		h.ID++
	case "prev":
		h.PrevAlh = junk(seed, 1)
	case "ts":
		h.Ts++
	case "ver":
		h.Version = 1 - h.Version
	case "nent":
		h.NEntries++
	case "eh":
		h.Eh = junk(seed, 2)
	case "bl":
		h.BlTxID++
	case "blroot":
		h.BlRoot = junk(seed, 3)
	default:
		vh.Fatalf("unknown header field %q", fld)
	}
}

func alterSeq(s [][sha256.Size]byte, op string, k int, seed int64) [][sha256.Size]byte {
	if k < 1 || k > len(s) {
		vh.Fatalf("alteration position %d out of range (len %d): the real proof has a different length than the specification's", k, len(s))
	}
	switch op {
	case "drop":
		return append(append([][sha256.Size]byte(nil), s[:k-1]...), s[k:]...)
	case "junk":
		s[k-1] = junk(seed, 10+k)
		return s
	case "dup":
		out := append([][sha256.Size]byte(nil), s[:k-1]...)
		out = append(out, s[k-1])
		return append(out, s[k-1:]...)
	}
	vh.Fatalf("unknown seq op %q", op)
	return nil
}

func ladv(p *store.DualProof) *store.LinearAdvanceProof {
	if p.LinearAdvanceProof == nil {
		p.LinearAdvanceProof = &store.LinearAdvanceProof{}
	}
	return p.LinearAdvanceProof
}

func apply(p *store.DualProof, c caseRec, seed int64) {
	switch {
	case strings.HasPrefix(c.Comp, "srcHdr."):
		alterHdr(p.SourceTxHeader, strings.TrimPrefix(c.Comp, "srcHdr."), seed)
	case strings.HasPrefix(c.Comp, "tgtHdr."):
		alterHdr(p.TargetTxHeader, strings.TrimPrefix(c.Comp, "tgtHdr."), seed)
	case c.Comp == "incl":
		p.InclusionProof = alterSeq(p.InclusionProof, c.Op, c.Pos, seed)
	case c.Comp == "cons":
		p.ConsistencyProof = alterSeq(p.ConsistencyProof, c.Op, c.Pos, seed)
	case c.Comp == "last":
		p.LastInclusionProof = alterSeq(p.LastInclusionProof, c.Op, c.Pos, seed)
	case c.Comp == "linterms":
		p.LinearProof.Terms = alterSeq(p.LinearProof.Terms, c.Op, c.Pos, seed)
	case c.Comp == "ladvterms":
		ladv(p).LinearProofTerms = alterSeq(ladv(p).LinearProofTerms, c.Op, c.Pos, seed)
	case c.Comp == "tblAlh":
		p.TargetBlTxAlh = junk(seed, 4)
	case c.Comp == "lin.src":
		p.LinearProof.SourceTxID++
	case c.Comp == "lin.tgt":
		p.LinearProof.TargetTxID++
	case c.Comp == "ladvincls" && c.Op == "drop":
		l := ladv(p)
		if c.Pos < 1 || c.Pos > len(l.InclusionProofs) {
			vh.Fatalf("ladvincls position out of range")
		}
		l.InclusionProofs = append(append([][][sha256.Size]byte(nil), l.InclusionProofs[:c.Pos-1]...), l.InclusionProofs[c.Pos:]...)
	case c.Comp == "ladvincls" && c.Op == "junkfirst":
		l := ladv(p)
		if c.Pos < 1 || c.Pos > len(l.InclusionProofs) || len(l.InclusionProofs[c.Pos-1]) == 0 {
			vh.Fatalf("ladvincls junkfirst position out of range")
		}
		l.InclusionProofs[c.Pos-1][0] = junk(seed, 5)
	default:
		vh.Fatalf("unknown alteration %+v", c)
	}
}

func mix(r, o *store.DualProof, comp string) {
	switch comp {
	case "srcHdr":
		r.SourceTxHeader = o.SourceTxHeader
	case "tgtHdr":
		r.TargetTxHeader = o.TargetTxHeader
	case "incl":
		r.InclusionProof = o.InclusionProof
	case "cons":
		r.ConsistencyProof = o.ConsistencyProof
	case "tblAlh":
		r.TargetBlTxAlh = o.TargetBlTxAlh
	case "last":
		r.LastInclusionProof = o.LastInclusionProof
	case "lin":
		r.LinearProof = o.LinearProof
	case "ladv":
		r.LinearAdvanceProof = o.LinearAdvanceProof
	default:
		vh.Fatalf("unknown component %q", comp)
	}
}

func main() {
	casesPath := flag.String("cases", "", "JSON written by TLC from ProofCases.tla (may be given several times, comma separated)")
	seed := flag.Int64("seed", 1, "seed")
	dir := flag.String("dir", "", "scratch directory")
	flag.Parse()
	res := vh.NewResult()
	os.RemoveAll(*dir)
	os.MkdirAll(*dir, 0755)
	for _, cp := range strings.Split(*casesPath, ",") {
		var cf casesFile
		vh.ReadJSON(cp, &cf)
		hists := map[[2]int]*hist{}
		get := func(si, f int) *hist {
			k := [2]int{si, f}
			if h, ok := hists[k]; ok {
				return h
			}
			h := build(filepath.Join(*dir, fmt.Sprintf("s%d_f%d", si, f)), cf.Shapes[si-1], f, res)
			hists[k] = h
			return h
		}
		phists := map[[3]int]*phist{}
		getP := func(si, p, q int) *phist {
			k := [3]int{si, p, q}
			if h, ok := phists[k]; ok {
				return h
			}
			h := buildPoison(filepath.Join(*dir, fmt.Sprintf("p%d_%d_%d", si, p, q)), cf.Shapes[si-1], p, q, *seed)
			phists[k] = h
			return h
		}
		mirrorChecked := map[int]bool{}
		for _, c := range cf.Cases {
			if c.Kind == "poison" {
				if !mirrorChecked[c.Shape] {
					// the mirror must produce exactly what the real store produces on the unpoisoned history
					mirrorChecked[c.Shape] = true
					H, M := get(c.Shape, cf.N+1), getP(c.Shape, 0, 1)
					for a := 1; a <= cf.N; a++ {
						for b := a; b <= cf.N; b++ {
							rp, err := H.st.DualProof(H.hdrs[a-1], H.hdrs[b-1])
							vh.Must(err, "DualProof")
							mp := M.mirrorDual(a, b, false, 0, *seed)
							if rp.SourceTxHeader.Alh() != mp.SourceTxHeader.Alh() || rp.TargetTxHeader.Alh() != mp.TargetTxHeader.Alh() ||
								!reflect.DeepEqual(rp.InclusionProof, mp.InclusionProof) || !reflect.DeepEqual(rp.ConsistencyProof, mp.ConsistencyProof) ||
								rp.TargetBlTxAlh != mp.TargetBlTxAlh || !reflect.DeepEqual(rp.LastInclusionProof, mp.LastInclusionProof) ||
								!reflect.DeepEqual(rp.LinearProof, mp.LinearProof) || !reflect.DeepEqual(rp.LinearAdvanceProof, mp.LinearAdvanceProof) {
								vh.Fatalf("harness mirror of ImmuStore.DualProof differs from the real one: shape %v %d->%d\nreal   %+v\nmirror %+v", cf.Shapes[c.Shape-1], a, b, rp, mp)
							}
							res.Count("mirror-equals-real-DualProof", 1)
						}
					}
				}
				P := getP(c.Shape, c.F, c.Q)
				p := P.mirrorDual(c.I, c.J, c.Comp == "tblFromTree", c.F, *seed)
				trusted := P.alhs[c.I-1]
				var real bool
				pn, hung, msg := vh.Guard(10*time.Second, func() {
					real = store.VerifyDualProof(p, uint64(c.I), uint64(c.J), trusted, p.TargetTxHeader.Alh())
				})
				res.Evaluations++
				res.Count("kind:poison", 1)
				if pn || hung {
					res.Violate("store.VerifyDualProof:panic-or-hang:poison", msg, c)
					continue
				}
				if real != c.Go {
					res.DriftNote(fmt.Sprintf("VerifyDualProof real=%v transcription=%v case=%+v", real, c.Go, c))
				}
				if real && !c.Truth {
					S, T := P.hdrs[c.I-1], P.hdrs[c.J-1]
					cls := "foreign-leaf-between-source-tree-and-source"
					if c.F == c.I {
						cls = "foreign-leaf-at-source"
					} else if uint64(c.F) <= S.BlTxID {
						cls = "foreign-leaf-inside-source-tree" // the trusted header embeds the honest tree, the target a tree that differs inside it
					}
					switch {
					case uint64(c.I) < T.BlTxID:
						cls += ":source-below-target-tree"
					case uint64(c.I) == T.BlTxID:
						cls += ":source-is-last-of-target-tree"
					default:
						cls += ":source-beyond-target-tree"
					}
					if uint64(c.F) == T.BlTxID {
						cls += ":foreign-leaf-is-last-of-target-tree"
					} else {
						cls += ":foreign-leaf-inside-target-tree"
					}
					res.Violate("store.VerifyDualProof:accepts-split-view:"+cls,
						fmt.Sprintf("client trusting tx %d (BlTxID %d) accepted tx %d (BlTxID %d) whose binary-linking tree holds a foreign leaf at position %d (embedded from tx %d on), a transaction the client already holds in its chain (shape %v, %s)",
							c.I, S.BlTxID, c.J, T.BlTxID, c.F, c.Q, cf.Shapes[c.Shape-1], c.Comp), c)
				}
				if !real && !c.Truth {
					res.Count("split-view-refused", 1)
				}
				continue
			}
			H := get(c.Shape, cf.N+1)
			lo, hi := c.I, c.J
			if lo > hi {
				lo, hi = hi, lo
			}
			hp, err := H.st.DualProof(H.hdrs[lo-1], H.hdrs[hi-1])
			if err != nil {
				res.Violate("store.DualProof:error-on-honest-history", fmt.Sprintf("DualProof(%d,%d) shape %v: %v", lo, hi, cf.Shapes[c.Shape-1], err), c)
				continue
			}
			var p *store.DualProof
			switch c.Kind {
			case "honest":
				p = cloneProof(hp)
			case "alt":
				p = cloneProof(hp)
				apply(p, c, *seed)
			case "forkall", "mix", "mixr":
				F := get(c.Shape, c.F)
				fp, err := F.st.DualProof(F.hdrs[lo-1], F.hdrs[hi-1])
				if err != nil {
					res.Violate("store.DualProof:error-on-honest-history", fmt.Sprintf("DualProof(%d,%d) forked shape %v: %v", lo, hi, cf.Shapes[c.Shape-1], err), c)
					continue
				}
				switch c.Kind {
				case "forkall":
					p = cloneProof(fp)
				case "mix":
					p = cloneProof(hp)
					mix(p, cloneProof(fp), c.Comp)
				case "mixr":
					p = cloneProof(fp)
					mix(p, cloneProof(hp), c.Comp)
				}
			default:
				vh.Fatalf("unknown case kind %q", c.Kind)
			}
			trusted := H.alhs[c.I-1]
			var real bool
			var newAlh [sha256.Size]byte
			var newID uint64
			pn, hung, msg := vh.Guard(10*time.Second, func() {
				var srcAlh, tgtAlh [sha256.Size]byte
				if c.I <= c.J {
					newAlh, newID = p.TargetTxHeader.Alh(), p.TargetTxHeader.ID
					srcAlh, tgtAlh = trusted, newAlh
				} else {
					newAlh, newID = p.SourceTxHeader.Alh(), p.SourceTxHeader.ID
					srcAlh, tgtAlh = newAlh, trusted
				}
				real = store.VerifyDualProof(p, uint64(lo), uint64(hi), srcAlh, tgtAlh)
			})
			res.Evaluations++
			res.Count("kind:"+c.Kind, 1)
			if pn || hung {
				res.Violate("store.VerifyDualProof:panic-or-hang:"+c.Kind+":"+c.Comp, msg, c)
				continue
			}
			_ = newID
			if real != c.Go {
				res.DriftNote(fmt.Sprintf("VerifyDualProof real=%v transcription=%v case=%+v", real, c.Go, c))
			}
			if real && !c.Truth {
				res.Violate(fmt.Sprintf("store.VerifyDualProof:accepts-unlinked-state:%s:%s:%s", c.Kind, c.Comp, c.Op),
					fmt.Sprintf("client trusting tx %d accepted a response about tx %d whose new state is not linked to the trusted one: %+v (shape %v)", c.I, c.J, c, cf.Shapes[c.Shape-1]), c)
			}
			if !real && c.Kind == "honest" {
				res.Violate("store.VerifyDualProof:rejects-honest-proof", fmt.Sprintf("honest dual proof %d->%d rejected, shape %v", lo, hi, cf.Shapes[c.Shape-1]), c)
			}
			if real && c.Kind != "honest" {
				res.Count("accepted-nonhonest-but-linked", 1)
			}
		}
		for _, h := range hists {
			h.st.Close()
		}
		for _, h := range phists {
			h.aht.Close()
			h.clean.Close()
		}
		res.Distinct += len(cf.Cases)
		res.Traces += len(cf.Cases)
		if len(cf.Cases) > 0 {
			res.Sample(cf.Cases[len(cf.Cases)/3], 6)
			res.Sample(cf.Cases[2*len(cf.Cases)/3], 6)
		}
		os.RemoveAll(*dir)
		os.MkdirAll(*dir, 0755)
	}
	res.Emit()
}
