#!/usr/bin/env python3
"""C02 - committed history is append-only and immutable.
(1) TLC checks spec/MCStore.tla exhaustively: every interleaving of the commit-pipeline actions of
    spec/Store.tla keeps the history dense, chained, append-only and durable-when-acknowledged.
(2) harness/cmd/c02 drives the real store (concurrent committers, failing/cancelled commits, discards,
    allowance, index maintenance, clean restarts; every configuration class) with the verif hooks on and
    re-reads the whole committed history through three read paths after every acknowledged commit;
    TLC validates every recorded execution against Store.tla (spec/TraceStore.tla)."""
import json, os, sys, concurrent.futures as cf
sys.path.insert(0, os.path.join(os.path.dirname(os.path.abspath(__file__)), "..", "lib"))
import vlib
from vlib import MachineryFault

MC_CFG = """CONSTANTS
  Genesis = 0
  Unavailable = 999999
  MaxTx = %d
  MaxGen = %d
  MaxActive = 2
SPECIFICATION MCSpec
INVARIANTS StoreInv AckedDurable
PROPERTIES MCAppendOnly
VIEW MCView
CHECK_DEADLOCK FALSE
"""


def split_segments(lines):
    segs, cur = [], []
    for ln in lines:
        if '"ev":"Reset"' in ln and cur:
            segs.append(cur)
            cur = []
        cur.append(ln)
    if cur:
        segs.append(cur)
    return segs


def validate(segs, wd, tag, spec="TraceStore", cfg="TraceStore.cfg"):
    """Validate a list of trace segments (concatenated) with TLC; returns (ok, res, rejected_line_index)."""
    sub = os.path.join(wd, "tv_" + tag)
    os.makedirs(sub, exist_ok=True)
    tf = os.path.join(sub, "trace.ndjson")
    with open(tf, "w") as fh:
        for s in segs:
            fh.writelines(s)
    res = vlib.run_tlc(spec, cfg, workdir=sub, workers=1, timeout=1500, env={"VERIF_TRACE": tf}, tag="tv")
    if res.error and not res.postcondition_failed and not res.violation:
        raise MachineryFault("trace validation (%s): %s" % (tag, res.error))
    if res.violation or res.postcondition_failed:
        import re
        m = re.search(r'"TRACE-REJECTED-AT-LINE",\s*(\d+)', res.out)
        line = int(m.group(1)) if m else None
        if line is None:
            # invariant violated: the number of states in the error trace is the line reached
            line = len(re.findall(r"^State \d+:", res.out, re.M)) - 1
        return False, res, line
    return True, res, None


def report_live_bad(chk, res, flat):
    """Precommit events whose embedded BlRoot is not the reference Merkle root over the earlier Alhs (collected by the trace spec)."""
    for b in vlib.printed_json(res.out):
        for item in b["bad"]:
            if item["mode"] != "live":
                continue
            ev = json.loads(flat[item["line"] - 1])
            start = max(i for i in range(item["line"]) if '"ev":"Reset"' in flat[i])
            pre = flat[start:item["line"]]
            cfg0 = json.loads(flat[start]).get("cfg") or ""
            if any('"ev":"Discard"' in x for x in pre) and any('"ev":"Opened"' in x for x in pre):
                sig = "live:precommit-embeds-stale-binary-linking-root-after-discard-and-restart"
            elif "second-level" in cfg0 and "Ext:true" in cfg0:
                # continuation on a crash image of a workload that discarded precommitted txs: the hash tree recovered with stale leaves
                sig = "recovery:binary-linking-inconsistent-after-discarded-precommits"
            elif "second-level" in cfg0:
                # continuation on a crash image: a precommitted tx lost in the crash left its leaf / digests in the hash tree's files (rolled
                # back logically only); the tx that took its id embeds a root computed over the stale digests
                sig = "recovery:binary-linking-inconsistent-after-repeated-crash"
            else:
                sig = "live:precommit-embeds-wrong-binary-linking-root"
            chk.violation(sig, "tx %d was precommitted with a BlRoot that is not the Merkle root over the accumulated hashes of txs 1..%d (config %s)"
                          % (ev["id"], ev["bl"], json.loads(flat[start]).get("cfg")),
                          {"config": json.loads(flat[start]).get("cfg"), "event": ev,
                           "logical_trace_prefix": [json.loads(x) for x in pre if '"Observed"' not in x and '"Recovered"' not in x][-80:]})


W_CFG = """CONSTANTS
  Waiters = {1, 2, 3}
  MaxT = %d
  MaxWaiting = 2
  MaxOps = %d
  EmitDepth = %d
SPECIFICATION Spec
INVARIANTS %s
%s
CHECK_DEADLOCK FALSE
"""


def run_watchers(chk, wd, thorough):
    """embedded/watchers (the wait/notify hub every commit acknowledgement goes through): spec/Watchers.tla model-checked and its
    behaviours replayed on the real hub with one goroutine per WaitFor call."""
    mc = vlib.run_tlc("Watchers", "w.cfg", workers=6, timeout=1200,
                      files=[("w.cfg", W_CFG % (3, 8 if thorough else 7, 0, "NoLostWakeup WithinLimit", "PROPERTIES OkMeansDone\nVIEW View"))], tag="C02w")
    vlib.tlc_must_pass(mc, "Watchers")
    chk.add_tlc(mc, "Watchers (wait/notify hub)")
    num = 1500 if thorough else 250
    sm = vlib.run_tlc("Watchers", "w.cfg", workers=1, timeout=900, extra=["-simulate", "num=%d" % num, "-depth", "14", "-seed", str(chk.seed)],
                      files=[("w.cfg", W_CFG % (4, 12, 12, "Emit", ""))], tag="C02w")
    if sm.error or sm.violation:
        raise MachineryFault("Watchers simulation: %s %s" % (sm.error, sm.violation))
    bs = vlib.printed_json(sm.out)
    if len(bs) < num // 2:
        raise MachineryFault("Watchers simulation printed only %d behaviours" % len(bs))
    bp = os.path.join(wd, "watchers.json")
    json.dump({"maxWaiting": 2, "behaviours": bs}, open(bp, "w"))
    out, _ = vlib.run_harness(vlib.go_build("x01"), ["-behaviours", bp], timeout=900)
    vlib.absorb(chk, json.loads(out))


def run(chk, args):
    thorough = chk.tier == "thorough"
    wd = vlib.scratch("C02")
    binp = vlib.go_build("c02")
    # (1) exhaustive model checking of the pipeline
    mt, mg = (4, 5) if thorough else (3, 4)
    mc = vlib.run_tlc("MCStore", "mc.cfg", workers=8, timeout=2400, files=[("mc.cfg", MC_CFG % (mt, mg))], tag="C02mc")
    vlib.tlc_must_pass(mc, "MCStore")
    chk.add_tlc(mc, "MCStore MaxTx=%d MaxGen=%d" % (mt, mg))
    # (2) real executions
    runs = 60 if thorough else 14
    tf = os.path.join(wd, "trace.ndjson")
    dd = os.path.join(wd, "d")
    os.makedirs(dd)
    out, _ = vlib.run_harness(binp, ["-seed", str(chk.seed), "-runs", str(runs), "-dir", dd, "-out", tf, "-repo", vlib.REPO], timeout=1500)
    r = json.loads(out)
    segs = split_segments(open(tf).readlines())
    if len(segs) != runs:
        raise MachineryFault("expected %d trace segments, got %d" % (runs, len(segs)))
    # (3) TLC validates every execution (segments spread over parallel TLC runs)
    k = 6
    groups = [segs[i::k] for i in range(k)]
    gidx = [list(range(len(segs)))[i::k] for i in range(k)]
    with cf.ThreadPoolExecutor(k) as ex:
        results = list(ex.map(lambda a: validate(a[1], wd, "g%d" % a[0]), [(i, g) for i, g in enumerate(groups) if g]))
    nev = 0
    for gi, (ok, res, line) in enumerate(results):
        chk.add_tlc(res, "TraceStore group %d" % gi)
        nev += res.distinct
        if not ok:
            # locate the segment, re-validate it alone (deterministic reproduction), report
            cnt, seg_i = 0, None
            for si, s in enumerate(groups[gi]):
                if line is not None and cnt < line <= cnt + len(s):
                    seg_i = si
                    break
                cnt += len(s)
            seg = groups[gi][seg_i] if seg_i is not None else groups[gi][0]
            ok2, res2, line2 = validate([seg], wd, "repro%d" % gi)
            if ok2:
                raise MachineryFault("trace rejected in a group but accepted alone (line %s)" % line)
            ev = json.loads(seg[line2 - 1]) if line2 and line2 <= len(seg) else {"ev": "?"}
            what = res2.violation or "not-explained"
            sig = "store-trace:%s:%s" % (ev.get("ev"), what)
            if ev.get("ev") == "Observed":
                sig += ":" + str(ev.get("via"))
            chk.violation(sig, "real execution of the store is not a behaviour of Store.tla: event %s at line %d of the run "
                          "(config %s) %s" % (json.dumps(ev), line2, json.loads(seg[0]).get("cfg"),
                                              "violates invariant " + res2.violation if res2.violation else "cannot be explained by any action (guard false)"),
                          {"trace": [json.loads(x) for x in seg[:line2 + 2]], "rejected_line": line2})
        report_live_bad(chk, res, [x for s in groups[gi] for x in s])
    r["traces"] = len(segs)
    vlib.absorb(chk, r)
    chk.cov["trace_events_validated"] = nev
    # (4) binding self-test: a corrupted field and a dropped hook event must be rejected
    if thorough or os.environ.get("VERIF_SELFTEST"):
        base = next(s for s in segs if '"synced":true' in s[0] and any('"TxLogSynced"' in x for x in s))
        dropped = [x for x in base]
        i = next(i for i, x in enumerate(dropped) if '"TxLogSynced"' in x)
        del dropped[i]
        ok_d, _, _ = validate([dropped], wd, "self_drop")
        corrupted = [x for x in base]
        j = max(i for i, x in enumerate(corrupted) if '"ev":"Observed"' in x and '"via":"ReadTx"' in x)
        e = json.loads(corrupted[j])
        e["alh"] = e["alh"] + 1000
        corrupted[j] = json.dumps(e) + "\n"
        ok_c, _, _ = validate([corrupted], wd, "self_corrupt")
        if ok_d or ok_c:
            raise MachineryFault("binding self-test failed: dropped-hook accepted=%s corrupted-field accepted=%s" % (ok_d, ok_c))
        chk.cov["binding_selftest"] = "trace without one TxLogSynced event rejected; trace with one altered Observed.alh rejected"
    run_watchers(chk, wd, thorough)
    chk.cov["rule"] = ("one trace per driver run (configuration class rotates with the run index: synced/unsynced, external allowance, embedded values, "
                       "prealloc, header version, IO concurrency, file size, max active txs, write-buffer size); distinct = runs")
    chk.assumptions += ["hook events are emitted under the lock protecting the state they describe (embedded/verifhook call sites)",
                        "MC bounds: MaxTx=%d, MaxGen=%d" % (mt, mg)]


if __name__ == "__main__":
    vlib.main(run, "C02", "model_checking")
