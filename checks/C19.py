#!/usr/bin/env python3
"""C19 - document collections store and find documents faithfully.

spec/Docs.tla is the state machine of one collection: declared typed fields (STRING, INTEGER, DOUBLE, BOOLEAN,
a nested path), indexes (one or two fields, unique or not), documents as id -> sequence of revisions over a finite
field/value universe (missing, null, 1..K), the write operations (create, add/remove field, create/delete index,
insert, replace by query, delete by query) and the reads with DEFINED results (id lookup, search = AND groups OR-ed,
order by, offset/limit, count, audit).  The meaning of a comparison with a missing/null field is the engine's (NULL =
NULL, NULL below every value, LIKE false / NOT_LIKE true on NULL).

TLC
  * proves Faithful, IndexIndependent, UniqueHolds, AuditComplete exhaustively on small constants for the design,
  * finds the counterexamples of the two decisions transcribed from the pinned code (AddField does not fill the new
    column for stored documents; the uniqueness decision looks at the first index entry only),
  * prints -simulate behaviours with the expected result of every read, the abstract collection and the table of every
    atomic comparison after every step.
harness/cmd/c19 replays all of them on the real embedded/document.Engine (three twin collections: the behaviour's
indexes / no non-unique index / an index on every field; four concretisation classes) and a part of them through the
document API of pkg/database with document proofs (pkg/verification.VerifyDocument; altered documents must not verify).
Level: exploration (generator + oracle)."""
import concurrent.futures as cf, json, os, re, sys
sys.path.insert(0, os.path.join(os.path.dirname(os.path.abspath(__file__)), "..", "lib"))
import vlib
from vlib import MachineryFault

CFG = """CONSTANTS
  Fields = %(fields)s
  K = %(k)d
  MaxDocs = %(docs)d
  MaxRevs = %(revs)d
  MaxOps = %(ops)d
  MaxFail = %(fail)d
  Composite = %(composite)s
  AddFieldQuirk = %(addq)s
  UniqueQuirk = %(uniq)s
  ReadOps = %(readops)s
  Sim = %(sim)s
  SeedSpace = %(seedspace)d
  EmitDepth = %(emit)d
  Rich = %(rich)s
  KeepSt = %(keepst)s
SPECIFICATION Spec
INVARIANTS %(inv)s
%(view)s
CHECK_DEADLOCK FALSE
"""
INV = "TypeOK Faithful IndexIndependent UniqueHolds AuditComplete"
ALL_FIELDS = '{"s", "i", "d", "b", "n.x", "n.y.z"}'
NESTED_FIELDS = '{"n.x", "n.y.z"}'          # simulations that concentrate on the nested paths (depth 2 and 3 = the maximum)


def cfg(**kw):
    d = dict(fields='{"i"}', k=2, docs=2, revs=2, ops=0, fail=1, composite="FALSE", addq="FALSE", uniq="FALSE", readops="FALSE",
             sim="FALSE", seedspace=1, emit=0, rich="FALSE", keepst="FALSE", inv=INV, view="VIEW View")
    d.update(kw)
    return CFG % d


def tlc(name, text, workers, timeout, extra=()):
    return name, vlib.run_tlc("Docs", "c19.cfg", workers=workers, timeout=timeout, extra=list(extra), files=[("c19.cfg", text)], tag="C19" + name)


def run(chk, args):
    thorough = chk.tier == "thorough"
    binp = vlib.go_build("c19")
    wd = vlib.scratch("C19")
    if args.replay:
        return replay_file(chk, binp, wd, args.replay)
    addfield_is_code = vlib.model_flag("C19_AddFieldQuirk", True)
    # the uniqueness decision of the pinned code (first index entry only) was repaired by a fix: commit of the SQL layer
    unique_is_code = vlib.model_flag("C19_UniqueQuirk", "uniq_tombstone_first" not in (vlib.model_flag("SQLTx_fixed_quirks", []) or []))

    # ---- TLC jobs -------------------------------------------------------------------------------------------------
    jobs = []
    # the design: every invariant, to the fixpoint (no depth bound)
    if thorough:
        jobs.append(("mc-one-field", cfg(fields='{"i"}', k=2, docs=2, revs=3, rich="TRUE"), 4, 2400, ()))
        jobs.append(("mc-two-fields", cfg(fields='{"i", "s"}', k=1, docs=1, revs=3, composite="TRUE"), 4, 2400, ()))
        jobs.append(("mc-three-docs", cfg(fields='{"i"}', k=1, docs=3, revs=2), 4, 2400, ()))
    else:
        jobs.append(("mc-one-field", cfg(fields='{"i"}', k=2, docs=2, revs=2), 3, 900, ()))
        jobs.append(("mc-two-fields", cfg(fields='{"i", "s"}', k=1, docs=1, revs=2, composite="TRUE"), 3, 900, ()))
    # the two decisions as the pinned code takes them: a counterexample is a candidate, replayed below
    jobs.append(("mc-addfield-code", cfg(fields='{"i"}', k=1, docs=2, revs=2, addq="TRUE", keepst="TRUE"), 1, 900, ()))
    jobs.append(("mc-unique-code", cfg(fields='{"i"}', k=1, docs=3, revs=2, uniq="TRUE", keepst="TRUE"), 2, 900, ()))
    nsim, per, depth = (8, 120, 30) if thorough else (4, 24, 24)
    for i in range(nsim):
        nested = i % 2 == 1
        jobs.append(("sim-%d" % i,
                     cfg(fields=NESTED_FIELDS if nested else ALL_FIELDS, k=2 if nested else 3, docs=6, revs=5, ops=depth, fail=4,
                         composite="FALSE" if nested else "TRUE",
                         addq="TRUE" if addfield_is_code else "FALSE", uniq="TRUE" if unique_is_code else "FALSE",
                         readops="TRUE", sim="TRUE", seedspace=4000, emit=depth, rich="TRUE", keepst="TRUE", inv="TypeOK Emit", view=""),
                     1, 1500, ("-simulate", "num=%d" % per, "-depth", str(depth + 2), "-seed", str(chk.seed * 1000 + i))))

    with cf.ThreadPoolExecutor(len(jobs)) as ex:
        results = dict(ex.map(lambda j: tlc(*j), jobs))

    vlib.log("[C19] TLC: %d jobs, slowest %.0fs" % (len(jobs), max(r.wall for r in results.values())))
    behaviours = []
    for name, res in results.items():
        if name.endswith("-code"):
            continue
        vlib.tlc_must_pass(res, "Docs[%s]" % name)
        chk.add_tlc(res, "Docs " + name)
        if name.startswith("sim-"):
            bs = vlib.printed_json(res.out)
            m = re.search(r"The number of states generated: (\d+)", res.out)      # simulation mode prints no distinct count
            if m and not res.generated:
                chk.cov["transitions"] += int(m.group(1))
                chk.cov["tlc_runs"][-1]["generated"] = int(m.group(1))
            if len(bs) < per:
                raise MachineryFault("Docs[%s] printed %d behaviours, expected %d" % (name, len(bs), per))
            for k, b in enumerate(bs):
                b["origin"] = "%s/%d" % (name, k)
            behaviours += bs
        elif res.distinct < 1000:
            raise MachineryFault("Docs[%s]: only %d states" % (name, res.distinct))

    # ---- the pinned-code models: counterexamples become behaviours ----------------------------------------------------
    expect = {"mc-addfield-code": ("Faithful", addfield_is_code, "C19_AddFieldQuirk"),
              "mc-unique-code": ("UniqueHolds", unique_is_code, "C19_UniqueQuirk")}
    cex_origins = {}
    for name, (inv, is_code, flag) in expect.items():
        cm = results[name]
        if cm.error:
            raise MachineryFault("Docs[%s]: %s" % (name, cm.error))
        chk.add_tlc(cm, "Docs %s (counterexample expected: %s)" % (name, cm.violation))
        if not cm.violation:
            raise MachineryFault("Docs[%s]: the transcribed decision no longer violates %s in the model" % (name, inv))
        if not is_code:
            # the decision has been repaired in the code: the counterexample stays in the replay as a regression test (its
            # last step must now be decided as the design decides it: the replay stops there without a violation)
            chk.notes.append({"regression": "%s: counterexample of the former decision replayed; it must not reproduce" % name})
        st = vlib.error_trace_last_state(cm.out)
        if not st or not isinstance(st.get("hist"), list) or len(st["hist"]) < 2:
            raise MachineryFault("cannot parse the Docs counterexample of " + name)
        fix_tla_json(st["hist"])
        origin = "tlc-counterexample:%s:%s" % (name, cm.violation)
        cex_origins[name] = origin
        behaviours.append({"ops": st["hist"], "k": 1, "fields": ["i"], "origin": origin})

    if os.environ.get("VERIF_SELFTEST") == "1":
        # binding self-test: one expected value is corrupted; the check must report a violation
        b = next(x for x in behaviours if x["origin"].startswith("sim-") and any(o["op"] == "insert" and o["ok"] for o in x["ops"][:6]))
        o = next(o for o in b["ops"] if o["op"] == "insert" and o["ok"])
        o["st"]["docs"][o["id"] - 1]["stamp"] += 1
        vlib.log("[selftest] corrupted the expected content of document %d after step %d of %s" % (o["id"], b["ops"].index(o) + 1, b["origin"]))

    # ---- replay on the real engine ---------------------------------------------------------------------------------------
    inp = os.path.join(wd, "behaviours.json")
    json.dump({"behaviours": behaviours}, open(inp, "w"))
    ddir = os.path.join(wd, "d")
    os.makedirs(ddir)
    ndb = 40 if thorough else 8
    hargs = ["-in", inp, "-dir", ddir, "-seed", str(chk.seed), "-workers", "10", "-db", str(ndb), "-probe", "400" if thorough else "150"]
    if thorough:
        hargs.append("-allclasses")
    out, _ = vlib.run_harness(binp, hargs, timeout=3000)
    r = json.loads(out)
    vlib.absorb(chk, r)
    ctr = r.get("counters") or {}
    vlib.log("[C19] replay: %d behaviours, %d replays, %d steps, %d queries, %d complete" % (len(behaviours), r.get("traces", 0),
             r.get("evaluations", 0), ctr.get("queries", 0), ctr.get("replays:complete", 0)))

    # the counterexamples of the pinned-code models must show up on the real code (or the model flag is stale)
    for name, origin in cex_origins.items():
        if expect[name][1] and ctr.get("reproduced:" + origin, 0) == 0:
            chk.notes.append({"model-drift": "the counterexample of %s did not reproduce on the real engine: set %s=false in "
                                             "spec/model_flags.json" % (name, expect[name][2])})

    # non-vacuity: every kind of operation and result reached the real code
    need = ["op:create", "op:addfield", "op:removefield", "op:createindex", "op:deleteindex", "op:insert", "op:replace", "op:delete",
            "op:reopen", "op:search", "op:audit", "op:get", "rejected:insert", "rejected:createindex", "insert:conflict",
            "search:non-empty", "search:orderby", "search:paged", "addfield:non-empty-collection",
            "atom:STRING:EQ", "atom:INTEGER:LT", "atom:DOUBLE:GE", "atom:BOOLEAN:NE", "atom:LIKE",
            "class:plain", "class:unicode", "class:edge", "class:newline",
            "replays:through-pkg-database", "proof:verified", "proof:altered-rejected", "probe:unique-race:pairs",
            # nested paths at the depth boundary: searches on the 3-level field that must return documents (replayed behaviours and
            # probe), a unique index on it refusing a duplicate, ORDER BY on it, the 4-level field offered to AddField
            "maxdepth:search-returns-documents:EQ", "maxdepth:search-returns-documents:LT", "maxdepth:search-returns-documents:GT",
            "maxdepth:search-returns-documents:LIKE", "maxdepth:orderby",
            "maxdepth:probe-search-finds-document", "maxdepth:probe-unique-index-refuses-duplicate"]
    missing = [k for k in need if ctr.get(k, 0) == 0]
    if missing and chk.violations:
        # a defect may starve the counters (a probe that finds its defect does not count its success): the verdict is the violation
        chk.notes.append({"not-reached-because-of-violations": missing})
    elif missing:
        raise MachineryFault("vacuous replay, never reached: %s" % ", ".join(missing))
    if ctr.get("toodeep:addfield-accepted", 0) + ctr.get("toodeep:addfield-refused", 0) == 0 and not chk.violations:
        raise MachineryFault("vacuous replay: no field deeper than the maximum nesting was offered to AddField")
    rare = ["maxdepth:unique-index-refused-duplicate", "rejected:removefield", "rejected:replace", "createindex:limited-index-creation", "replace:conflict"]
    if [k for k in rare if ctr.get(k, 0) == 0]:
        chk.notes.append({"not-reached-in-this-run": [k for k in rare if ctr.get(k, 0) == 0]})
    total = r.get("traces", 0)
    if ctr.get("replays:complete", 0) * 3 < total and not chk.violations:
        raise MachineryFault("only %d of %d replays ran to the end of their behaviour" % (ctr.get("replays:complete", 0), total))
    if ctr.get("replays:stopped-decision-differs", 0) * 5 > total:
        chk.notes.append({"model-drift": "%d of %d replays stopped because the engine decided differently from the model (see drift notes)"
                                         % (ctr.get("replays:stopped-decision-differs", 0), total)})

    chk.cov["rule"] = ("behaviours = TLC -simulate walks of spec/Docs.tla (6 typed fields incl. nested paths of depth 2 and 3 = the maximum; every "
                       "other walk over the nested fields only; a 4-level field offered and refused; 3 values + null + missing per "
                       "field, up to 6 documents, random AND/OR queries, ORDER BY, offset/limit, writes by query) plus the counterexamples of "
                       "the pinned-code models; each is replayed on 3 twin collections (indexes of the behaviour / none / all) under 2 of 4 "
                       "concretisation classes (4 of 4 in the thorough tier) and partly through pkg/database with proofs; after every "
                       "step: every document by id, the unfiltered search and the atomic comparisons of one field (all fields after schema "
                       "changes, restarts and at the end) are compared with the abstract collection; non-trivial = distinct (operation, outcome)")
    chk.cov["exhaustive"] = False
    chk.cov["behaviours"] = len(behaviours)
    chk.assumptions += ["one writer, operations issued sequentially; before every write the harness waits until every index has caught up "
                        "(the stale-snapshot race of the insert path is exercised by a separate probe)",
                        "field universe s:STRING i:INTEGER d:DOUBLE b:BOOLEAN n.x:INTEGER n.y.z:STRING (3 levels = document.DefaultDocumentMaxNestedFields); values are order-preserving concretisations of 1..K "
                        "(ASCII / multi-byte / 200-byte-prefix / newline strings; small, +-2^53 and +-9.2e18 integers; doubles up to "
                        "+-MaxFloat64, denormals, -0.0); non-finite numbers and non-integral INTEGER values only in directed probes",
                        "restart = Close + Open (crash durability is C03/C04's subject)",
                        "search results do not carry a revision number (document_reader.go leaves Revision 0): the revision is checked "
                        "on id lookup, replace results and the audit trail"]


def fix_tla_json(hist):
    """error-trace values parsed from TLC's text output: records with a dotted field name and empty functions"""
    for o in hist:
        for key in ("q", "ob", "revs", "sel", "ids", "fields"):
            if key in o and isinstance(o[key], dict):
                o[key] = []


def replay_file(chk, binp, wd, path):
    """re-run a saved replay file (one behaviour prefix under one class, or the probes)"""
    rp = json.load(open(path))["replay"]
    ddir = os.path.join(wd, "d")
    os.makedirs(ddir)
    if "probe" in rp:
        out, _ = vlib.run_harness(binp, ["-dir", ddir, "-probe", "400"])
    else:
        inp = os.path.join(wd, "behaviours.json")
        json.dump({"behaviours": [rp["behaviour"]]}, open(inp, "w"))
        hargs = ["-in", inp, "-dir", ddir, "-classes", rp["class"]]
        if rp.get("via") == "pkg/database":
            hargs = ["-in", inp, "-dir", ddir, "-classes", "none", "-db", "1", "-seed", str(["plain", "unicode", "edge", "newline"].index(rp["class"]))]
        out, _ = vlib.run_harness(binp, hargs)
    vlib.absorb(chk, json.loads(out))


if __name__ == "__main__":
    vlib.main(run, "C19", "exploration")
