#!/usr/bin/env python3
"""C13 - SQL transactions are atomic and isolated, incl. rollback and savepoints.
Same specification (spec/SQLTx.tla, spec/TraceSQLTx.tla), harness (harness/cmd/c12) and pipeline as C12
(checks/C12.py: exhaustive TLC on the design, exhaustive TLC on the code as transcribed, simulated behaviours
replayed step by step on the real engine, deviations attributed by trace validation, free-running sessions
validated against the serial order of their commit tx ids); the profile differs: programs with savepoints
(nesting, re-use of names), rollback, failed statements, closed sessions, queries through both access paths,
and the deviation classes that C13 forbids."""
import os, sys
sys.path.insert(0, os.path.dirname(os.path.abspath(__file__)))
sys.path.insert(0, os.path.join(os.path.dirname(os.path.abspath(__file__)), "..", "lib"))
import vlib
import C12


def run(chk, args):
    C12.run_sqltx(chk, args)
    chk.assumptions += ["one table (auto-increment PK, unique NOT NULL column, CHECK, max length), values from small domains",
                        "engine API only (sql.Engine.ExecPreparedStmts / Query with explicit SQLTx objects); see docs/C13.md for the wire front-end"]


if __name__ == "__main__":
    vlib.main(run, "C13", "model_checking")
