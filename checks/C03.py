#!/usr/bin/env python3
"""C03 - crash durability: acknowledged commits survive; recovery is a consistent prefix.
harness/cmd/c03 runs workloads on the real store (Synced) recording every physical file operation through
the verif hooks (file create / write at offset / fsync / remove / rename), materialises a crash image for
every point between two operations (process kill; power loss with per-file prefixes of the un-fsynced
writes and torn last writes), lets the real store.Open recover each image and measures the outcome
(history read back, chain against a reference Merkle root, values, dual proofs from acknowledged states,
index lookups, a fresh commit).  Each outcome is inserted as a Recovered event at the crash position of the
logical trace; TLC (spec/TraceStore.tla + action RecoveredVerdict of spec/Store.tla) validates the execution
itself (write-ordering guards: a commit-log entry only after the tx record and values are durable) and
judges every image against the specification state at that instant."""
import json, os, sys, concurrent.futures as cf
sys.path.insert(0, os.path.join(os.path.dirname(os.path.abspath(__file__)), "..", "lib"))
import time
import vlib
from vlib import MachineryFault
sys.path.insert(0, os.path.dirname(os.path.abspath(__file__)))
from C02 import split_segments, validate, MC_CFG, report_live_bad


def signature(ev, verdict, had_discard, second_level=False):
    mode = "kill" if ev["mode"].startswith("kill") and "power" not in ev["mode"] else "power-loss"
    if not verdict["opens"]:
        return "recovery:%s:open-fails" % mode
    if not ev.get("linkOk", True):
        return "recovery:%s:linear-chain-broken" % mode
    if second_level and verdict["opens"] and verdict["survives"] and verdict["values"] and (not verdict["proofs"] or not verdict["extension"]) and "ReadTx" not in ev.get("detail", ""):
        # a tx lost in the first crash left its leaf/digests in the hash tree's files (rolled back logically only); the tx that took
        # its id after recovery is committed, and after the next crash the tree still holds (part of) the old entry
        return "recovery:binary-linking-inconsistent-after-repeated-crash"
    failed = [k for k in ("opens", "survives", "extension", "values", "proofs", "index", "accepts") if not verdict[k]]
    if not verdict["opens"]:
        return "recovery:%s:open-fails" % mode
    if not verdict["survives"]:
        return "recovery:%s:committed-tx-lost-or-changed" % mode
    if (not verdict["extension"] or not verdict["proofs"]) and had_discard and "ReadTx" not in ev.get("detail", ""):
        # chain (BlRoot vs reference root) or proofs broken in an execution that discarded precommitted txs
        return "recovery:binary-linking-inconsistent-after-discarded-precommits"
    return "recovery:%s:%s" % (mode, "+".join(failed))


def run(chk, args):
    thorough = chk.tier == "thorough"
    wd = vlib.scratch("C03")
    binp = vlib.go_build("c03")
    # the pipeline model (shared with C02) is the specification the traces are validated against
    mc = vlib.run_tlc("MCStore", "mc.cfg", workers=8, timeout=2400, files=[("mc.cfg", MC_CFG % (3, 4))], tag="C03mc")
    vlib.tlc_must_pass(mc, "MCStore")
    chk.add_tlc(mc, "MCStore MaxTx=3 MaxGen=4")
    runs = 13 if thorough else 7  # the last one is the directed stale-suffix workload
    tf = os.path.join(wd, "trace.ndjson")
    dd = os.path.join(wd, "d")
    os.makedirs(dd)
    hargs = ["-seed", str(chk.seed), "-runs", str(runs), "-dir", dd, "-out", tf]
    if thorough:
        hargs.append("-thorough")
    t0 = time.time()
    out, _ = vlib.run_harness(binp, hargs, timeout=6000)
    vlib.log("[C03] free-running workloads + crash images: %.0fs" % (time.time() - t0))
    r = json.loads(out)
    segs = split_segments(open(tf).readlines())
    if len(segs) < runs:
        raise MachineryFault("expected at least %d trace segments, got %d" % (runs, len(segs)))
    nfree = len(segs)
    t0 = time.time()
    r2 = store_crash(chk, wd, binp, thorough)
    vlib.log("[C03] StoreCrash model checking + script replay: %.0fs" % (time.time() - t0))
    segs += split_segments(open(os.path.join(wd, "script_trace.ndjson")).readlines())
    k = 8
    groups = [segs[i::k] for i in range(k)]
    with cf.ThreadPoolExecutor(k) as ex:
        results = list(ex.map(lambda a: validate(a[1], wd, "g%d" % a[0], cfg="TraceCrash.cfg"), list(enumerate(groups))))
    images = judged_bad = 0
    for gi, (ok, res, line) in enumerate(results):
        chk.add_tlc(res, "TraceStore+Recovered group %d" % gi)
        flat = [x for s in groups[gi] for x in s]
        if not ok:
            ev = json.loads(flat[line - 1]) if line and line <= len(flat) else {"ev": "?"}
            what = res.violation or "not-explained"
            chk.violation("store-trace:%s:%s" % (ev.get("ev"), what),
                          "real execution is not a behaviour of Store.tla: event %s (line %s) %s" % (json.dumps(ev)[:300], line, what),
                          {"trace_prefix": [json.loads(x) for x in flat[max(0, (line or 1) - 40):(line or 1) + 1]]})
            continue
        images += sum(1 for x in flat if '"ev":"Recovered"' in x)
        report_live_bad(chk, res, flat)
        for b in vlib.printed_json(res.out):
            for item in b["bad"]:
                if item["mode"] == "live":
                    continue
                judged_bad += 1
                ev = json.loads(flat[item["line"] - 1])
                # did this execution discard precommitted txs before the crash point?
                start = max(i for i in range(item["line"]) if '"ev":"Reset"' in flat[i])
                cfg0 = json.loads(flat[start]).get("cfg") or ""
                had_discard = any('"ev":"Discard"' in x for x in flat[start:item["line"]]) or ("second-level" in cfg0 and "Ext:true" in cfg0)
                sig = signature(ev, item["verdict"], had_discard, "second-level" in cfg0)
                chk.violation(sig, "crash image (%s, before physical op %d) recovers to a state the specification rejects: verdict %s; %s; config %s"
                              % (ev["mode"], ev["k"], json.dumps(item["verdict"]), ev.get("detail", ""), json.loads(flat[start]).get("cfg")),
                              {"config": json.loads(flat[start]).get("cfg"), "seed": chk.seed, "crash_point": ev["k"], "mode": ev["mode"],
                               "recovered": ev, "logical_trace_prefix": [json.loads(x) for x in flat[start:item["line"]] if '"Recovered"' not in x][-60:]})
    # server level: the durability options that pkg/server / pkg/database hand to every database's store, and crash images of those stores
    import C03srv
    t0 = time.time()
    C03srv.server_phase(chk, wd, thorough)
    vlib.log("[C03] server-level phase: %.0fs" % (time.time() - t0))
    # index tree: persistence protocol and recovery of embedded/tbtree (spec/IndexCrash.tla)
    import C03idx
    t0 = time.time()
    C03idx.index_phase(chk, wd, thorough)
    vlib.log("[C03] index crash phase: %.0fs" % (time.time() - t0))
    chk.cov["second_level_segments"] = nfree - runs
    chk.cov["script_segments"] = len(segs) - nfree
    r["traces"] = nfree
    vlib.absorb(chk, r)
    r2["traces"] = len(segs) - nfree
    vlib.absorb(chk, r2)
    chk.cov["crash_images_judged_by_tlc"] = images
    chk.cov["crash_images_rejected"] = judged_bad
    chk.cov["rule"] = ("one crash image per (workload, point between two physical file operations, crash mode); modes: kill (all issued writes), "
                       "power0 (only fsynced content), power1 (all but the last un-fsynced write per file), powerR (random per-file prefix, torn last write), powerF (per file all or none of the un-fsynced writes); "
                       "quick: kill + one power mode per point; thorough: all five; distinct = images")
    chk.assumptions += ["power-loss model: per-file prefix of un-fsynced writes + torn last write; no reordering inside a file; created/removed files durable once the "
                        "directory was synced (what the code assumes)", "repeated crashes: a sample of first-level images (6 per workload quick / 16 thorough, preferring points with a precommitted backlog) is continued with three commits and "
                        "every crash point of that continuation, including the recovery run itself, is enumerated (kill and fsynced-only)"]


SC_CFG = """CONSTANTS
  MaxTx = %d
  MaxGen = %d
  MaxCrash = %d
  MaxActive = %d
  AutoFlush = %s
  PrevChecked = %s
  ValuesChecked = %s
  EmitOn = %s
SPECIFICATION %s
INVARIANT %s
%s
CHECK_DEADLOCK FALSE
"""


def store_crash(chk, wd, binp, thorough):
    """spec/StoreCrash.tla: exhaustive check of the physical pipeline + recovery, the two anchor defects, and replay of simulated
    behaviours on the real store (harness/cmd/c03 -scripts)."""
    def cfg(maxtx, maxgen, maxcrash, auto, prev, vals, emit, spec, inv, view=True):
        b = lambda x: "TRUE" if x else "FALSE"
        return SC_CFG % (maxtx, maxgen, maxcrash, 4, b(auto), b(prev), b(vals), b(emit), spec, inv, "VIEW MCView" if view else "")
    jobs = {
        "design": ("StoreCrash", cfg(3, 4, 2 if thorough else 1, True, True, True, False, "Spec", "CrashInv"), []),
        "anchor-values": ("StoreCrash", cfg(3, 3, 1, True, True, False, False, "Spec", "CrashInv"), []),
        "sim": ("StoreCrash", cfg(4, 6, 2, False, True, True, True, "SimSpec", "CrashInv Emit", view=False),
                ["-simulate", "num=%d" % (900 if thorough else 160), "-depth", "40", "-seed", str(chk.seed)]),
    }
    if thorough:
        jobs["anchor-prev"] = ("StoreCrash", cfg(3, 4, 2, False, False, True, False, "Spec", "CrashInv"), [])

    def one(name):
        mod, c, extra = jobs[name]
        return name, vlib.run_tlc(mod, "sc_%s.cfg" % name, workers=1 if name == "sim" else 4, timeout=3000, files=[("sc_%s.cfg" % name, c)], extra=extra, tag="C03sc_" + name)
    with cf.ThreadPoolExecutor(len(jobs)) as ex:
        results = dict(ex.map(one, list(jobs)))
    vlib.tlc_must_pass(results["design"], "StoreCrash (design)")
    chk.add_tlc(results["design"], "StoreCrash MaxTx=3 MaxGen=4 MaxCrash=%d AutoFlush" % (2 if thorough else 1))
    for name in [n for n in jobs if n.startswith("anchor")]:
        res = results[name]
        if not res.violation:
            raise MachineryFault("StoreCrash %s: the model does not find the defect it was built to find (vacuous model)" % name)
        chk.cov.setdefault("model_facts", {})[name] = "violated as expected: " + str(res.violation)
    vlib.tlc_must_pass(results["sim"], "StoreCrash (simulation)")
    vals = [v["ops"] for v in vlib.printed_json(results["sim"].out)]
    keys = set(json.dumps(v) for v in vals)
    maximal, seen = [], set()
    for v in vals:
        k = json.dumps(v)
        if k in seen or any(o != k and o.startswith(k[:-1] + ",") for o in keys):
            continue
        seen.add(k)
        maximal.append(v)
    maximal = maximal[:600 if thorough else 70]
    if len(maximal) < 20:
        raise MachineryFault("StoreCrash simulation produced only %d behaviours" % len(maximal))
    sf = os.path.join(wd, "scripts.json")
    json.dump({"scripts": maximal}, open(sf, "w"))
    dd = os.path.join(wd, "ds")
    os.makedirs(dd)
    t0 = time.time()
    out, _ = vlib.run_harness(binp, ["-scripts", sf, "-dir", dd, "-out", os.path.join(wd, "script_trace.ndjson")], timeout=3000)
    vlib.log("[C03] script replay of %d behaviours: %.0fs" % (len(maximal), time.time() - t0))
    r2 = json.loads(out)
    ctr = r2.get("counters") or {}
    for need in ("script-frontier-as-predicted", "script-images:inside-sync", "script-recoveries-with-reloaded-backlog", "script-images:power", "script-images:kill"):
        if not ctr.get(need):
            raise MachineryFault("script replay is vacuous: counter %s is zero" % need)
    if ctr.get("script-frontier-differs", 0) + ctr.get("script-identity-differs", 0) > 0:
        chk.notes.append("StoreCrash predicted a different recovered frontier than the real OpenWith reached in %d of %d recoveries (the images are judged by the Store.tla oracle either way)"
                         % (ctr.get("script-frontier-differs", 0) + ctr.get("script-identity-differs", 0), ctr.get("script-recoveries", 0)))
    chk.cov["script_replay"] = {k: v for k, v in ctr.items() if k.startswith("script")}
    return r2


if __name__ == "__main__":
    vlib.main(run, "C03", "model_checking")
