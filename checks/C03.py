#!/usr/bin/env python3
"""C03 - crash durability: acknowledged commits survive; recovery is a consistent prefix.
harness/cmd/c03 runs workloads on the real store (Synced) recording every physical file operation through
the verif hooks (file create / write at offset / fsync / remove / rename), materialises a crash image for
every point between two operations (process kill; power loss with per-file prefixes of the un-fsynced
writes and torn last writes), lets the real store.Open recover each image and measures the outcome
(history read back, chain against a reference Merkle root, values, dual proofs from acknowledged states,
index lookups, a fresh commit).  Each outcome is inserted as a Recovered event at the crash position of the
logical trace; TLC (spec/TraceStore.tla + action RecoveredVerdict of spec/Store.tla) validates the execution
itself (write-ordering guards: a commit-log entry only after the tx record and values are durable) and
judges every image against the specification state at that instant."""
import json, os, sys, concurrent.futures as cf
sys.path.insert(0, os.path.join(os.path.dirname(os.path.abspath(__file__)), "..", "lib"))
import vlib
from vlib import MachineryFault
sys.path.insert(0, os.path.dirname(os.path.abspath(__file__)))
from C02 import split_segments, validate, MC_CFG, report_live_bad


def signature(ev, verdict, had_discard, second_level=False):
    mode = "kill" if ev["mode"].startswith("kill") and "power" not in ev["mode"] else "power-loss"
    if not ev.get("linkOk", True):
        return "recovery:%s:linear-chain-broken" % mode
    if second_level and verdict["opens"] and verdict["survives"] and verdict["values"] and (not verdict["proofs"] or not verdict["extension"]) and "ReadTx" not in ev.get("detail", ""):
        # a tx lost in the first crash left its leaf/digests in the hash tree's files (rolled back logically only); the tx that took
        # its id after recovery is committed, and after the next crash the tree still holds (part of) the old entry
        return "recovery:binary-linking-inconsistent-after-repeated-crash"
    failed = [k for k in ("opens", "survives", "extension", "values", "proofs", "index", "accepts") if not verdict[k]]
    if not verdict["opens"]:
        return "recovery:%s:open-fails" % mode
    if not verdict["survives"]:
        return "recovery:%s:committed-tx-lost-or-changed" % mode
    if (not verdict["extension"] or not verdict["proofs"]) and had_discard and "ReadTx" not in ev.get("detail", ""):
        # chain (BlRoot vs reference root) or proofs broken in an execution that discarded precommitted txs
        return "recovery:binary-linking-inconsistent-after-discarded-precommits"
    return "recovery:%s:%s" % (mode, "+".join(failed))


def run(chk, args):
    thorough = chk.tier == "thorough"
    wd = vlib.scratch("C03")
    binp = vlib.go_build("c03")
    # the pipeline model (shared with C02) is the specification the traces are validated against
    mc = vlib.run_tlc("MCStore", "mc.cfg", workers=8, timeout=2400, files=[("mc.cfg", MC_CFG % (3, 4))], tag="C03mc")
    vlib.tlc_must_pass(mc, "MCStore")
    chk.add_tlc(mc, "MCStore MaxTx=3 MaxGen=4")
    runs = 25 if thorough else 7  # the last one is the directed stale-suffix workload
    tf = os.path.join(wd, "trace.ndjson")
    dd = os.path.join(wd, "d")
    os.makedirs(dd)
    hargs = ["-seed", str(chk.seed), "-runs", str(runs), "-dir", dd, "-out", tf]
    if thorough:
        hargs.append("-thorough")
    out, _ = vlib.run_harness(binp, hargs, timeout=3000)
    r = json.loads(out)
    segs = split_segments(open(tf).readlines())
    if len(segs) < runs:
        raise MachineryFault("expected at least %d trace segments, got %d" % (runs, len(segs)))
    k = 8
    groups = [segs[i::k] for i in range(k)]
    with cf.ThreadPoolExecutor(k) as ex:
        results = list(ex.map(lambda a: validate(a[1], wd, "g%d" % a[0], cfg="TraceCrash.cfg"), list(enumerate(groups))))
    images = judged_bad = 0
    for gi, (ok, res, line) in enumerate(results):
        chk.add_tlc(res, "TraceStore+Recovered group %d" % gi)
        flat = [x for s in groups[gi] for x in s]
        if not ok:
            ev = json.loads(flat[line - 1]) if line and line <= len(flat) else {"ev": "?"}
            what = res.violation or "not-explained"
            chk.violation("store-trace:%s:%s" % (ev.get("ev"), what),
                          "real execution is not a behaviour of Store.tla: event %s (line %s) %s" % (json.dumps(ev)[:300], line, what),
                          {"trace_prefix": [json.loads(x) for x in flat[max(0, (line or 1) - 40):(line or 1) + 1]]})
            continue
        images += sum(1 for x in flat if '"ev":"Recovered"' in x)
        report_live_bad(chk, res, flat)
        for b in vlib.printed_json(res.out):
            for item in b["bad"]:
                if item["mode"] == "live":
                    continue
                judged_bad += 1
                ev = json.loads(flat[item["line"] - 1])
                # did this execution discard precommitted txs before the crash point?
                start = max(i for i in range(item["line"]) if '"ev":"Reset"' in flat[i])
                cfg0 = json.loads(flat[start]).get("cfg") or ""
                had_discard = any('"ev":"Discard"' in x for x in flat[start:item["line"]]) or ("second-level" in cfg0 and "Ext:true" in cfg0)
                sig = signature(ev, item["verdict"], had_discard, "second-level" in cfg0)
                chk.violation(sig, "crash image (%s, before physical op %d) recovers to a state the specification rejects: verdict %s; %s; config %s"
                              % (ev["mode"], ev["k"], json.dumps(item["verdict"]), ev.get("detail", ""), json.loads(flat[start]).get("cfg")),
                              {"config": json.loads(flat[start]).get("cfg"), "seed": chk.seed, "crash_point": ev["k"], "mode": ev["mode"],
                               "recovered": ev, "logical_trace_prefix": [json.loads(x) for x in flat[start:item["line"]] if '"Recovered"' not in x][-60:]})
    chk.cov["second_level_segments"] = len(segs) - runs
    r["traces"] = len(segs)
    vlib.absorb(chk, r)
    chk.cov["crash_images_judged_by_tlc"] = images
    chk.cov["crash_images_rejected"] = judged_bad
    chk.cov["rule"] = ("one crash image per (workload, point between two physical file operations, crash mode); modes: kill (all issued writes), "
                       "power0 (only fsynced content), power1 (all but the last un-fsynced write per file), powerR (random per-file prefix, torn last write), powerF (per file all or none of the un-fsynced writes); "
                       "quick: kill + one power mode per point; thorough: all five; distinct = images")
    chk.assumptions += ["power-loss model: per-file prefix of un-fsynced writes + torn last write; no reordering inside a file; created/removed files durable once the "
                        "directory was synced (what the code assumes)", "repeated crashes: a sample of first-level images (6 per workload quick / 30 thorough, preferring points with a precommitted backlog) is continued with three commits and "
                        "every crash point of that continuation, including the recovery run itself, is enumerated (kill and fsynced-only)"]


if __name__ == "__main__":
    vlib.main(run, "C03", "model_checking")
