#!/usr/bin/env python3
"""C05 - read-write transactions are serializable in commit order (MVCC).
spec/MVCC.tla: two indexes with index time and reusable flushed root, lazily taken per-index snapshots, own-write
overlay, read-set of point reads and full scans, transcription of checkPreconditions.  TLC checks Serializable
exhaustively (design: the loop over the snapshots continues; code-as-transcribed variant selected by
spec/model_flags.json) and produces schedules (counterexamples of the other variant + simulated behaviours).
harness/cmd/c05 executes the schedules deterministically on the real store (staleness is controlled through
per-index snapshots that dump the root) and additionally runs free concurrent read-write transactions; all real
reads / write sets / commit ids are validated by TLC against spec/TraceMVCC.tla (each read of a committed tx equals
the read on the state produced by all txs with smaller ids)."""
import json, os, sys
sys.path.insert(0, os.path.join(os.path.dirname(os.path.abspath(__file__)), "..", "lib"))
import vlib
from vlib import MachineryFault

CFG = """CONSTANTS
  Txs = %s
  MaxCommit = %d
  MaxReads = %d
  EarlyReturn = %s
  AlwaysIndexed = %s
  AllowStale = %s
  EmitDepth = %d
SPECIFICATION Spec
INVARIANTS %s
%s
CHECK_DEADLOCK FALSE
"""


def run(chk, args):
    thorough = chk.tier == "thorough"
    wd = vlib.scratch("C05")
    binp = vlib.go_build("c05")
    code_early = vlib.model_flag("C05_EarlyReturn", True)      # what the code under test does (for drift notes only)
    tf = lambda b: "TRUE" if b else "FALSE"
    behaviours = []
    # (1) design: with the loop continuing, every interleaving (incl. a lagging indexer and stale roots) is serializable
    mc, mr = (3, 2) if thorough else (2, 2)
    d = vlib.run_tlc("MVCC", "mv.cfg", workers=8, timeout=3000,
                     files=[("mv.cfg", CFG % ("{1}", mc, mr, "FALSE", "FALSE", "TRUE", 0, "Serializable", "VIEW View"))], tag="C05mc")
    vlib.tlc_must_pass(d, "MVCC design (EarlyReturn=FALSE)")
    chk.add_tlc(d, "MVCC EarlyReturn=FALSE AllowStale lagging-indexer MaxCommit=%d MaxReads=%d" % (mc, mr))
    # (2) the other variant of the snapshot loop: its counterexample is a schedule worth executing on the real code
    c = vlib.run_tlc("MVCC", "mv.cfg", workers=4, timeout=1200,
                     files=[("mv.cfg", CFG % ("{1}", 2, 2, "TRUE", "TRUE", "TRUE", 0, "Serializable", "VIEW View"))], tag="C05mc")
    if c.error:
        raise MachineryFault("MVCC (EarlyReturn=TRUE): " + c.error)
    chk.add_tlc(c, "MVCC EarlyReturn=TRUE (early return on an up-to-date snapshot): %s" % (c.violation or "no violation"))
    if c.violation:
        st = vlib.error_trace_last_state(c.out)
        if not st or "hist" not in st:
            raise MachineryFault("cannot parse MVCC counterexample")
        behaviours.append({"ops": st["hist"], "origin": "tlc-counterexample"})
    else:
        raise MachineryFault("the early-return variant has no counterexample: the model lost its teeth")
    # (3) simulated schedules of the variant the code implements
    num = 3000 if thorough else 500
    sm = vlib.run_tlc("MVCC", "mv.cfg", workers=1, timeout=1500, extra=["-simulate", "num=%d" % num, "-depth", "18", "-seed", str(chk.seed)],
                      files=[("mv.cfg", CFG % ("{1, 2}", 6, 3, tf(code_early), "TRUE", "TRUE", 14, "Emit", ""))], tag="C05sim")
    if sm.error or sm.violation:
        raise MachineryFault("MVCC simulation: %s %s" % (sm.error, sm.violation))
    bs = vlib.printed_json(sm.out)
    if len(bs) < num // 2:
        raise MachineryFault("MVCC simulation printed only %d behaviours" % len(bs))
    behaviours += bs
    bp = os.path.join(wd, "beh.json")
    json.dump({"behaviours": behaviours}, open(bp, "w"))
    tp = os.path.join(wd, "trace.ndjson")
    runs = 120 if thorough else 25
    out, _ = vlib.run_harness(binp, ["-behaviours", bp, "-trace", tp, "-runs", str(runs), "-seed", str(chk.seed), "-dir", os.path.join(wd, "d")], timeout=2400)
    r = json.loads(out)
    # (4) TLC judges the real observations
    lines = open(tp).readlines()
    res = vlib.run_tlc("TraceMVCC", "TraceMVCC.cfg", workers=1, timeout=1500, env={"VERIF_TRACE": tp}, tag="C05tv")
    if res.error or res.violation or res.postcondition_failed:
        raise MachineryFault("TraceMVCC: trace not consumable (%s %s): commit ids not dense?\n%s" % (res.error, res.violation, res.out[-1500:]))
    chk.add_tlc(res, "TraceMVCC (%d lines)" % len(lines))
    for b in vlib.printed_json(res.out):
        for item in b["bad"]:
            start = max(i for i in range(item["line"]) if '"ev":"Reset"' in lines[i])
            reset = json.loads(lines[start])
            seg = [json.loads(x) for x in lines[start:item["line"]]]
            multi = len({rd.get("x") or rd["k"][:1] for rd in item["reads"]} | {w[:1] for w in seg[-1]["writes"]}) > 1
            stale = seg[-1].get("stale")
            if multi and stale:
                sig = "mvcc:non-serializable-commit:stale-snapshot-on-another-index-not-validated"
            else:
                sig = "mvcc:non-serializable-commit"
            chk.violation(sig, "tx %d committed although a read it made is not what the state produced by txs 1..%d gives: reads %s, latest versions %s%s"
                          % (item["id"], item["id"] - 1, json.dumps(item["reads"]), json.dumps(item["state"]),
                             "; schedule " + json.dumps(reset.get("schedule")) if reset.get("schedule") else " (free-running concurrent run %s)" % reset.get("run")),
                          {"run": reset, "commits": seg[1:]})
    vlib.absorb(chk, r)
    chk.cov["rule"] = "one trace per executed schedule (TLC counterexample / simulated behaviour) or free concurrent run; distinct = schedules + runs"
    chk.assumptions += ["keys a1,a2 (index a) and b1 (index b); reads = point gets and full index scans; staleness through the reusable flushed root; "
                        "the indexer is caught up before every step of a replayed schedule (free in the concurrent runs)"]


if __name__ == "__main__":
    vlib.main(run, "C05", "model_checking")
