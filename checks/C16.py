#!/usr/bin/env python3
"""C16 - decoders / parsers are total.
TLC evaluates spec/Wire.tla (enumeration module): every binary format as a list of field descriptors, small instance
shapes, and for each shape EVERY truncation point and every (field, operator) mutation (length/count := 0, -1, +1, /2,
remaining+1, max; tag := every other valid, first invalid; group element dropped / duplicated with and without count
adjustment; string terminator removed), plus the post-condition of the stateful decoder (error => no effect).
harness/cmd/c16 builds the valid bytes of each shape with the real encoder, checks that the layout TLC printed
describes those bytes, applies each mutation and calls the real decoder under recover + deadline + allocation
accounting (the allocation-driven decoders in a child process with an address-space limit)."""
import json, os, sys
sys.path.insert(0, os.path.join(os.path.dirname(os.path.abspath(__file__)), "..", "lib"))
import vlib
from vlib import MachineryFault

CFG = """CONSTANTS
  OutFile = "%s"
INIT Init
NEXT Next
CHECK_DEADLOCK FALSE
"""


def run(chk, args):
    replay = None
    if args.replay:
        replay = json.load(open(args.replay))
        chk.seed = int(replay.get("seed", chk.seed))
        chk.tier = replay.get("tier", chk.tier)
    binp = vlib.go_build("c16")
    wd = vlib.scratch("C16")
    out = os.path.join(wd, "wire.json")
    os.makedirs(os.path.join(wd, "tlc"))
    res = vlib.run_tlc("Wire", "wire.cfg", workdir=os.path.join(wd, "tlc"), workers=1, timeout=900,
                       files=[("wire.cfg", CFG % out)])
    vlib.tlc_must_pass(res, "Wire")
    chk.add_tlc(res, "Wire")
    facts = {}
    for line in res.out.splitlines():
        line = line.strip()
        if line.startswith("<<\"") and line.endswith(">>"):
            v = vlib.parse_tla(line)
            facts[v[0]] = v[1:]
    for k in ["WellFormed", "PostCondition"]:
        if facts.get(k) != [True]:
            raise MachineryFault("model fact %s is %r" % (k, facts.get(k)))
    chk.cov["model_facts"] = facts
    if not os.path.exists(out):
        raise MachineryFault("TLC did not write %s" % out)
    cases = json.load(open(out))
    per_fmt, per_op = {}, {}
    for s in cases["shapes"]:
        d = per_fmt.setdefault(s["fmt"], {"shapes": 0, "mutations": 0, "truncations": 0})
        d["shapes"] += 1
        d["mutations"] += len(s["muts"])
        for m in s["muts"]:
            if m["op"] == "trunc":
                d["truncations"] += 1
            key = m["op"] if m["op"] in ("trunc", "none") else m["op"] + ":" + m["how"]
            per_op[key] = per_op.get(key, 0) + 1
    chk.cov["enumerated"] = {"formats": per_fmt, "operators": per_op, "proof_message_mutations": len(cases["proofs"])}
    for f in ["TxMetadata", "KVMetadata", "TxHeader", "ExportedTx", "AppMetadata", "AppFile", "PgParse", "PgBind", "PgDescribe",
              "PgExecute", "PgPassword", "PgQuery", "PgFrame", "Stream"]:
        if per_fmt.get(f, {}).get("mutations", 0) == 0:
            raise MachineryFault("Wire.tla enumerated no mutations for format %s" % f)
    ddir = os.path.join(wd, "d")
    os.makedirs(ddir)
    # the content bytes of keys / values / payloads are seeded: thorough runs three content variants
    seeds = [chk.seed] if chk.tier == "quick" else [chk.seed, chk.seed + 1000, chk.seed + 2000]
    for sd in seeds:
        sdir = os.path.join(ddir, str(sd))
        os.makedirs(sdir)
        hargs = ["-cases", out, "-seed", str(sd), "-dir", sdir]
        if os.environ.get("VERIF_SELFTEST"):
            hargs.append("-selftest")
        o, _ = vlib.run_harness(binp, hargs, timeout=1500)
        r = json.loads(o)
        ctr = r.get("counters") or {}
        for f in per_fmt:
            if not ctr.get("layout-bound:" + f):
                raise MachineryFault("no shape of format %s was bound to the real encoder" % f)
            if not any(ctr.get("%s:%s" % (f, k)) for k in ("error", "value")):
                raise MachineryFault("the decoder of %s was never reached" % f)
        if not ctr.get("replica-built"):
            raise MachineryFault("ReplicateTx was not exercised on a real store")
        vlib.absorb(chk, r)
    chk.cov["rule"] = ("cases = for every instance shape of every format: each truncation point 0..len-1 and each (field, operator) "
                       "mutation enumerated by TLC, applied to the encoding produced by the real encoder; for protobuf proof messages "
                       "each (field, structural operator); distinct_nontrivial = number of distinct (entry point, input bytes) pairs "
                       "executed on the real code")
    chk.cov["exhaustive"] = False
    chk.assumptions += [
        "structure-aware single mutations of small instances only; SQL text and purely random byte strings are not covered",
        "the PostgreSQL startup packet parser and the byte decoder of KVMetadata are not exported: the first is not covered, the "
        "second is reached through ReplicateTx",
        "allocation is judged per call: more than 256 MiB (or exhausting a 3 GiB address space in the decoder child process) for "
        "inputs of at most a few hundred bytes is a runaway allocation"]
    if replay:
        want = replay.get("signature")
        chk.violations = [v for v in chk.violations if v[0] == want]


if __name__ == "__main__":
    vlib.main(run, "C16", "exploration")
