#!/usr/bin/env python3
"""C03 (server-level slice) - every write acknowledged by a server running in its default, synced mode survives a process
kill / power loss, for every database, whichever way that database's store came to be opened.

spec/ServerLifecycle.tla models how pkg/server + pkg/database hand options to the store (server options -> dbOptions ->
settings stored in systemdb -> entry of the database manager -> store.Open on first use) over the life cycle of the databases
(create, write, unload, load, update settings, promote a replica, restart, eviction with MaxActiveDatabases = 1).  TLC checks
the invariant EffectiveSynced (and an anchor variant that must violate it), then prints behaviours (-simulate) which
harness/cmd/c03srv replays on a REAL in-process server through a real client session: after every step the stores the model
says are open / were opened by the step are compared with the database manager, the effective options of every (re)opened
store with the model's expectation, every acknowledged write becomes an Ack of its store's trace; finally crash images of every
database directory (kill, power loss) are recovered by store.Open.  Each store's trace (hook events + Acks + Recovered events)
is validated by TLC against spec/Store.tla through spec/TraceStore.tla, exactly as checks/C03.py does for a bare store.

checks/C03.py calls server_phase(chk, wd, thorough); alone: python3 checks/C03srv.py --tier quick"""
import json, os, sys, time, concurrent.futures as cf
sys.path.insert(0, os.path.join(os.path.dirname(os.path.abspath(__file__)), "..", "lib"))
import vlib
from vlib import MachineryFault
sys.path.insert(0, os.path.dirname(os.path.abspath(__file__)))
from C02 import split_segments, validate, report_live_bad
from C03 import signature

LC_CFG = """CONSTANTS
  UserDBs = %s
  ServerSynced = TRUE
  Caps = {0, 1}
  Kinds = %s
  Profiles = %s
  DefaultProfileDBs = {"a"}
  Fields = %s
  MaxUpd = %d
  MaxRestart = %d
  MaxBurst = %d
  SyncedFromStored = %s
  EmitLen = %d
SPECIFICATION %s
INVARIANTS %s
%s
CHECK_DEADLOCK FALSE
"""
INVS = "EffectiveSynced OpenOnlyLoaded WithinCapacity EntryAsStored ProfileKept"
ALL_KINDS = '{"set", "setall", "vset", "sql", "burst"}'
ALL_PROFILES = '{"default", "small", "embedded", "replica"}'
ALL_FIELDS = '{"sf", "wb", "ix", "auto"}'


def mc_cfg(anchor, thorough):
    upd, restarts = (2, 2) if thorough and not anchor else (1, 2) if not anchor else (1, 1)
    return LC_CFG % ('{"a", "b"}', '{"set"}', '{"small", "replica"}', '{"sf", "auto"}', upd, restarts, 1000000,
                     "TRUE" if anchor else "FALSE", 0, "Spec", INVS, "VIEW MCView")


def sim_cfg(length):
    return LC_CFG % ('{"a", "b", "c"}', ALL_KINDS, ALL_PROFILES, ALL_FIELDS, 4, 2, 2, "FALSE", length, "SimSpec", INVS + " Emit", "")


def features(s):
    """what a schedule exercises: (how-opened x kind of write), (how-opened x profile), evictions, promotions"""
    f = set()
    prof, promoted, auto = {"defaultdb": "default"}, set(), {}
    for o in s["ops"]:
        d = o["db"]
        if o["op"] == "create":
            prof[d] = o["arg"]
        if o["op"] == "update" and o["arg"] == "auto":
            auto[d] = not auto.get(d, True)
        if o["op"] == "promote":
            promoted.add(d)
        if o["op"] == "write":
            how = o["how"][d]
            f.add(("how-kind", how, o["arg"]))
            f.add(("how-profile", how, prof[d]))
            f.add(("how", how))
            if d in promoted:
                f.add(("write-after-promotion", how))
            if o["eff"][d]["sf"] or o["eff"][d]["wb"] or o["eff"][d]["ix"]:
                f.add(("write-with-updated-settings", how))
        if o["op"] == "load" and not auto.get(d, True):
            f.add(("load-with-autoload-off",))
    return f


MUST = [("how", "created"), ("how", "startup"), ("how", "reloaded"), ("how", "evicted")]


def missing(covered):
    m = [f for f in MUST if f not in covered]
    if not any(f[0] == "how" and f[1].endswith("+updated") for f in covered):
        m.append(("how", "*+updated"))
    if not any(f[0] == "write-after-promotion" for f in covered):
        m.append(("write-after-promotion",))
    return m


def select(cands, n):
    """greedy cover of the features by n schedules (a few more when a way of opening a store is still uncovered);
    schedules with MaxActiveDatabases = 1 and = default alternate"""
    chosen, covered = [], set()
    pool = [(c, features(c)) for c in cands]
    while pool and (len(chosen) < n or (missing(covered) and len(chosen) < n + 4)):
        want_cap = len(chosen) % 2
        best = max(pool, key=lambda cf_: (len(cf_[1] - covered) + (0.5 if cf_[0]["cap"] == want_cap else 0), sum(1 for o in cf_[0]["ops"] if o["op"] == "write")))
        pool.remove(best)
        chosen.append(best[0])
        covered |= best[1]
    return chosen, covered


def ops_of(s):
    return ["%s:%s%s" % (o["op"], o["db"], (":" + o["arg"]) if o["arg"] else "") for o in s["ops"]]


def server_phase(chk, wd, thorough):
    t_all = time.time()
    wd = os.path.join(wd, "srv")
    os.makedirs(wd, exist_ok=True)
    nsched = 18 if thorough else 6
    length = 30 if thorough else 22
    with cf.ThreadPoolExecutor(6) as ex:
        f_build = ex.submit(vlib.go_build, "c03srv")
        f_mc = ex.submit(vlib.run_tlc, "ServerLifecycle", "lc_mc.cfg", None, 2, 1500, (), None, [("lc_mc.cfg", mc_cfg(False, thorough))], None, False, "C03srv_mc")
        f_an = ex.submit(vlib.run_tlc, "ServerLifecycle", "lc_an.cfg", None, 1, 600, (), None, [("lc_an.cfg", mc_cfg(True, thorough))], None, False, "C03srv_an")
        nsim = 3
        f_sims = [ex.submit(vlib.run_tlc, "ServerLifecycle", "lc_sim.cfg", None, 1, 1500,
                            ["-simulate", "num=%d" % (80 if thorough else 16), "-depth", str(length + 6), "-seed", str(chk.seed * nsim + i)], None,
                            [("lc_sim.cfg", sim_cfg(length))], None, False, "C03srv_sim") for i in range(nsim)]
        # the simulator evaluates the invariant on every successor: one behaviour per distinct prefix
        cands, seen, simwall = [], set(), 0
        for f in f_sims:
            sim = f.result()
            if sim.error or sim.violation:
                raise MachineryFault("ServerLifecycle simulation: %s %s\n%s" % (sim.error, sim.violation, sim.out[-2000:]))
            simwall = max(simwall, sim.wall)
            for v in vlib.printed_json(sim.out):
                k = json.dumps(v["ops"][:-1])
                if k not in seen:
                    seen.add(k)
                    cands.append(v)
        if len(cands) < nsched * 3:
            raise MachineryFault("ServerLifecycle simulation printed only %d behaviours" % len(cands))
        scheds, covered = select(cands, nsched)
        for i, sc in enumerate(scheds):
            sc["id"] = i
        hows = set(f[1] for f in covered if f[0] == "how")
        if missing(covered):
            raise MachineryFault("the selected schedules do not cover every way a store is opened: missing %s" % missing(covered))
        vlib.log("[C03srv] %d behaviours simulated (%.0fs), %d selected, %d (how-opened x kind) combinations, classes %s"
                 % (len(cands), simwall, len(scheds), sum(1 for f in covered if f[0] == "how-kind"), sorted(hows)))
        binp = f_build.result()
        # ---- replay on the real server: a few harness processes side by side (the hook sink is process-wide)
        procs = 3
        groups = [list(range(len(scheds)))[i::procs] for i in range(procs)]

        def replay(gi):
            sf = os.path.join(wd, "sched%d.json" % gi)
            json.dump({"schedules": [scheds[i] for i in groups[gi]]}, open(sf, "w"))
            dd = os.path.join(wd, "d%d" % gi)
            os.makedirs(dd, exist_ok=True)
            tf = os.path.join(wd, "trace%d.ndjson" % gi)
            args = ["-schedules", sf, "-dir", dd, "-out", tf, "-seed", str(chk.seed), "-workers", "2", "-maxpoints", "0" if thorough else "24", "-maxpoints-default", "60" if thorough else "8"]
            out, _ = vlib.run_harness(binp, args, timeout=3000 if thorough else 900, env={"GOMAXPROCS": "3"})
            return json.loads(out), open(tf).readlines()
        t0 = time.time()
        f_repro = ex.submit(lambda: json.loads(vlib.run_harness(binp, ["-repro", "-dir", os.path.join(wd, "repro")], timeout=300)[0]))
        reps = list(ex.map(replay, range(procs)))
        vlib.log("[C03srv] replay on the real server + crash images: %.0fs" % (time.time() - t0))
        mc, an = f_mc.result(), f_an.result()
    vlib.tlc_must_pass(mc, "ServerLifecycle")
    chk.add_tlc(mc, "ServerLifecycle (2 user databases, MaxActiveDatabases 100 / 1, %d settings update(s), 2 restarts)" % (2 if thorough else 1))
    vlib.log("[C03srv] ServerLifecycle model checking: %d distinct states, %.0fs (in parallel)" % (mc.distinct, mc.wall))
    if an.violation != "EffectiveSynced":
        raise MachineryFault("ServerLifecycle anchor (Synced taken from the stored settings): expected a violation of EffectiveSynced, got %s %s" % (an.violation, an.error))
    chk.cov.setdefault("model_facts", {})["server-lifecycle-anchor"] = "SyncedFromStored = TRUE violates EffectiveSynced as expected"
    # minimal reproductions of this slice's findings (reported through the same verdict path: known finding or violation)
    rr = f_repro.result()
    rr["traces"] = 0
    vlib.absorb(chk, rr)
    # ---- harness results
    segs = []
    for gi, (r, lines) in enumerate(reps):
        r["traces"] = 0
        vlib.absorb(chk, r)
        for s in split_segments(lines):
            segs.append((json.loads(s[0])["sched"], s))
    if not segs:
        raise MachineryFault("no trace segments")
    # ---- TLC validates every store's trace and judges every crash image
    k = 4
    tgroups = [segs[i::k] for i in range(k)]
    t0 = time.time()
    with cf.ThreadPoolExecutor(k) as ex:
        results = list(ex.map(lambda a: validate([s for _, s in a[1]], wd, "g%d" % a[0], cfg="TraceCrash.cfg"), list(enumerate(tgroups))))
    vlib.log("[C03srv] trace validation of %d store traces: %.0fs" % (len(segs), time.time() - t0))
    todo = []
    for gi, (ok, res, line) in enumerate(results):
        chk.add_tlc(res, "TraceStore+Recovered (server) group %d" % gi)
        if ok:
            todo.append((tgroups[gi], res))
        else:
            # a rejected segment hides the following ones: validate the segments of this group one by one
            for si, (sched, seg) in enumerate(tgroups[gi]):
                ok1, res1, line1 = validate([seg], wd, "g%d_%d" % (gi, si), cfg="TraceCrash.cfg")
                if ok1:
                    todo.append(([(sched, seg)], res1))
                    continue
                ev = json.loads(seg[line1 - 1]) if line1 and line1 <= len(seg) else {"ev": "?"}
                what = res1.violation or "not-explained"
                chk.violation("server:%s:store-trace:%s:%s" % (ev.get("how", "?"), ev.get("ev"), what),
                              "real execution of the store of database %s under the server is not a behaviour of Store.tla with Synced = TRUE: event %s (line %s) %s; the store had been opened: %s"
                              % (ev.get("store"), json.dumps(ev)[:300], line1, what, ev.get("how")),
                              {"schedule": ops_of(scheds[sched]), "maxActiveDatabases": scheds[sched]["cap"], "seed": chk.seed,
                               "trace_prefix": [json.loads(x) for x in seg[max(0, (line1 or 1) - 40):(line1 or 1) + 1] if '"Recovered"' not in x]})
    images = judged_bad = 0
    for group, res in todo:
        flat = [x for _, s in group for x in s]
        owner = [sched for sched, s in group for _ in s]
        images += sum(1 for x in flat if '"ev":"Recovered"' in x)
        for b in vlib.printed_json(res.out):
            for item in b["bad"]:
                ev = json.loads(flat[item["line"] - 1])
                sched = owner[item["line"] - 1]
                if item["mode"] == "live":
                    if ev.get("store") == "systemdb" and ev.get("how") == "created":
                        continue  # the tracer's baseline of the first incarnation of systemdb is incomplete (docs/C03srv.md)
                    chk.violation("server:%s:live:precommit-embeds-wrong-binary-linking-root" % ev.get("how"),
                                  "database %s: tx %d was precommitted with a BlRoot that is not the Merkle root over the accumulated hashes of txs 1..%d" % (ev.get("store"), ev["id"], ev["bl"]),
                                  {"schedule": ops_of(scheds[sched]), "event": ev})
                    continue
                judged_bad += 1
                start = max(i for i in range(item["line"]) if '"ev":"Reset"' in flat[i])
                sig = "server:%s:%s" % (ev.get("how", "?"), signature(ev, item["verdict"], False))
                v = item["verdict"]
                if ev.get("cause") and v["opens"] and v["survives"] and v["extension"] and v["values"] and v["proofs"] and not v["index"]:
                    # the harness recovered the same image once more without the index's TIMESTAMP file and the index agreed
                    sig = "server:recovery:index:%s:%s:%s" % (ev["cause"], "kill" if ev["mode"] == "kill" else "power-loss", ev.get("how", "?"))
                chk.violation(sig, "database %s (store opened: %s): crash image (%s, after %d physical operations of this store) recovers to a state the specification rejects: verdict %s; %s; %s"
                              % (ev.get("store"), ev.get("how"), ev["mode"], ev["k"], json.dumps(item["verdict"]), ev.get("detail", ""), json.loads(flat[start]).get("cfg")),
                              {"schedule": ops_of(scheds[sched]), "maxActiveDatabases": scheds[sched]["cap"], "seed": chk.seed, "database": ev.get("store"),
                               "crash_point": ev["k"], "mode": ev["mode"], "recovered": ev,
                               "logical_trace_prefix": [json.loads(x) for x in flat[start:item["line"]] if '"Recovered"' not in x][-60:]})
    chk.cov["traces_validated_against_impl"] += len(segs)
    # ---- vacuity guards
    ctr = {}
    for r, _ in reps:      # this phase's own counters (checks/C03.py folds other harness results into chk.cov too)
        for k_, v in (r.get("counters") or {}).items():
            ctr[k_] = ctr.get(k_, 0) + v

    def total(prefix, pred=lambda k: True):
        return sum(v for k_, v in ctr.items() if k_.startswith(prefix) and pred(k_[len(prefix):]))
    guards = {
        "acknowledged writes after a reload": total("acks:reloaded"),
        "acknowledged writes after a restart": total("acks:startup"),
        "acknowledged writes after a settings update took effect": total("acks:", lambda s: "+updated" in s),
        "acknowledged writes after an eviction": total("acks:evicted"),
        "crash images of stores opened at creation": ctr.get("images:how:created", 0),
        "crash images of stores opened at start-up": total("images:how:startup"),
        "crash images of reloaded stores": total("images:how:reloaded"),
        "crash images of stores opened after a settings update": total("images:how:", lambda s: "+updated" in s),
        "crash images of stores re-opened after an eviction": ctr.get("images:how:evicted", 0),
        "crash images judged by TLC": images,
    }
    for what, n in guards.items():
        if not n:
            raise MachineryFault("server phase is vacuous: no %s" % what)
    chk.cov["server_phase"] = {"schedules": len(scheds), "store_traces": len(segs), "crash_images_judged_by_tlc": images, "crash_images_rejected": judged_bad,
                               "guards": guards, "features_covered": len(covered), "wall_s": round(time.time() - t_all, 1)}
    chk.sample({"server_schedule": ops_of(scheds[0]), "maxActiveDatabases": scheds[0]["cap"]})
    chk.assumptions += ["server phase: a store's trace is cut per database directory: crash images are per store (the consistency between systemdb's settings record and the "
                        "database directory across a crash is not examined); crash modes kill and power0 (only fsynced content)",
                        "server phase: quick tier samples 24 crash points per store and schedule, 8 for stores with the default limits (always the first point after each acknowledgement and the last one); thorough: every point, 60 for stores with the default limits"]
    if thorough or os.environ.get("VERIF_SELFTEST"):
        selftest(chk, wd, binp, scheds, segs)
    return scheds


def selftest(chk, wd, binp, scheds, segs):
    """binding self-test: (1) one corrupted expectation of the effective options must be reported by the harness,
    (2) a trace without one TxLogSynced event must be rejected, (3) a Recovered event that lost the last committed tx must be judged bad"""
    i = next((i for i, s in enumerate(scheds) if any(o["op"] == "write" and o["how"][o["db"]].startswith("reloaded") and o["opened"][o["db"]] for o in s["ops"])), None)
    if i is None:
        raise MachineryFault("self-test: no schedule with a write that opens a reloaded store")
    sf = os.path.join(wd, "self.json")
    json.dump({"schedules": [scheds[i]]}, open(sf, "w"))
    dd = os.path.join(wd, "dself")
    os.makedirs(dd, exist_ok=True)
    out, _ = vlib.run_harness(binp, ["-schedules", sf, "-dir", dd, "-out", os.path.join(wd, "self.ndjson"), "-selftest", "-maxpoints", "2", "-maxpoints-default", "2", "-workers", "2"], timeout=900)
    sigs = [v["sig"] for v in json.loads(out).get("violations") or []]
    if not any(s.startswith("server-lifecycle:store-opened-with-wrong-durability:reloaded") for s in sigs):
        raise MachineryFault("self-test: corrupted expectation of the effective options was not reported (%s)" % sigs)
    base = next(s for _, s in segs if sum(1 for x in s if '"TxLogSynced"' in x) >= 2 and any('"ev":"Recovered"' in x and '"c":0' not in x for x in s))
    dropped = list(base)
    del dropped[next(i for i, x in enumerate(dropped) if '"TxLogSynced"' in x)]
    ok_d, _, _ = validate([dropped], wd, "self_drop", cfg="TraceCrash.cfg")
    lost = list(base)
    j = max(i for i, x in enumerate(lost) if '"ev":"Recovered"' in x and '"c":0' not in x)
    e = json.loads(lost[j])
    e["c"] -= 1
    e["alhs"] = e["alhs"][:-1]
    lost[j] = json.dumps(e, separators=(",", ":")) + "\n"
    ok_l, res_l, _ = validate([lost], wd, "self_lost", cfg="TraceCrash.cfg")
    bad = [it for b in vlib.printed_json(res_l.out) for it in b["bad"] if it["mode"] != "live" and it["line"] == j + 1]
    if ok_d or not ok_l or not bad or bad[0]["verdict"]["survives"]:
        raise MachineryFault("self-test of the trace binding failed: trace without TxLogSynced accepted=%s, image without its last committed tx judged bad=%s" % (ok_d, bool(bad)))
    chk.cov["server_binding_selftest"] = "corrupted option expectation reported; trace without one TxLogSynced rejected; image that lost its last committed tx judged 'survives = false'"


def run(chk, args):
    wd = vlib.scratch("C03srv")
    server_phase(chk, wd, chk.tier == "thorough")
    chk.cov["rule"] = ("server phase only: one trace per (schedule, database store); one crash image per (store, sampled point between two physical file operations of "
                       "that store after its first acknowledged write, mode in {kill, power0}); distinct = images + option comparisons")


if __name__ == "__main__":
    # alone, the evidence of this slice must not replace the evidence of the whole C03 check
    vlib.EVIDENCE = os.path.join(vlib.SCRATCH_ROOT, "C03srv-evidence")
    vlib.main(run, "C03", "model_checking")
