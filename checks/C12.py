#!/usr/bin/env python3
"""C12 - SQL integrity constraints hold in every reachable state.
(Shared machinery for C12 and C13: checks/C13.py imports this module.)

spec/SQLTx.tla is the state machine of sessions, transactions, savepoints and constraint checks; one operator
Exec(Q, ..) gives the semantics of a statement, Q = {} being the design (the property oracle) and Q = a set of
transcribed deviations of the pinned code.
  1. TLC exhaustive, design (Quirks = {}): all invariants/action properties over every interleaving in the bounds.
  2. TLC exhaustive, code as transcribed (one quirk at a time): prints the property violation the code admits;
     its statement sequence is added to the behaviours to replay.
  3. TLC -simulate (design): random behaviours with the design's observation after every step.
  4. harness/cmd/c12 replays all behaviours on the real embedded/sql engine and compares every observation.
  5. every deviation is attributed by trace validation (spec/TraceSQLTx.tla): which single transcribed quirk
     explains the real observations step by step?  -> specific signature (known finding) / unexplained (violation).
  6. trace validation of free-running concurrent sessions: committed transactions serialised by commit tx id.
"""
import json, os, re, sys, concurrent.futures as cf
sys.path.insert(0, os.path.join(os.path.dirname(os.path.abspath(__file__)), "..", "lib"))
import vlib
from vlib import MachineryFault

ALLQ = ["sp_keeps_writes", "uniq_tombstone_first", "lazy_usnap", "uidx_no_own_removal", "auto_ignores_explicit",
        "pk_get_sees_own_deleted", "ddl_first_pk_only"]
ALLKINDS = ["begin", "commit", "rollback", "close", "sp", "rbto", "rel", "insA", "insAbad", "insE", "insN", "ups", "updU", "updV",
            "updAllV", "del", "delAll", "selAll", "selPk", "selU", "crIdx"]
INVS = ["ConstraintsHold", "OwnWritesVisible", "NoDirtyReads", "IndexViewConsistent", "NoQuirkFired"]
PROPS = ["NoDirtyReadsAct", "FailedStatementNoEffect", "AllOrNothing", "CountsMatchApplied", "RollbackToUndoesExactlySuffix"]

# which kinds of deviation from the design each property forbids (the others are reported as out-of-scope notes)
RELEVANT = {
    "C12": {"constraint-breach", "failed-statement-effect", "panic"},
    "C13": {"spurious-failure", "violating-statement-accepted", "outcome", "tx-state", "query-result", "count", "generated-key",
            "table", "failed-statement-effect", "panic", "serial-order"},
}


def tla(v):
    if isinstance(v, bool):
        return "TRUE" if v else "FALSE"
    if isinstance(v, int):
        return str(v)
    if isinstance(v, str):
        return '"%s"' % v
    if isinstance(v, (set, frozenset, list, tuple)):
        return "{" + ", ".join(tla(x) for x in sorted(v, key=str)) + "}"
    raise ValueError(v)


def consts(**kw):
    c = dict(NS=2, MaxId=3, UVals={"a", "b"}, VVals={"p", "q"}, MaxStmts=3, SpNames={"s1", "s2"}, Kinds=set(ALLKINDS) - {"crIdx"},
             ExplIds={1, 2, 3}, TxSessions={1, 2}, Quirks=set(), InitUIdx=True, EmitDepth=0)
    c.update(kw)
    c["TxSessions"] = {s for s in c["TxSessions"] if s <= c["NS"]}
    return c


def cfg(c, spec="Spec", invs=(), props=(), view=True, post=None):
    out = "CONSTANTS\n" + "".join("  %s = %s\n" % (k, tla(v)) for k, v in c.items())
    out += "SPECIFICATION %s\n" % spec
    if invs:
        out += "INVARIANTS " + " ".join(invs) + "\n"
    if props:
        out += "PROPERTIES " + " ".join(props) + "\n"
    if view:
        out += "VIEW View\n"
    if post:
        out += "POSTCONDITION %s\n" % post
    return out + "CHECK_DEADLOCK FALSE\n"


# ------------------------------------------------------------------ TLC runs
def mc_design(name, c, workers, timeout=900):
    res = vlib.run_tlc("SQLTx", "mc.cfg", workers=workers, timeout=timeout, files=[("mc.cfg", cfg(c, invs=INVS, props=PROPS))], tag="sqltx-mc")
    vlib.tlc_must_pass(res, "SQLTx design model [%s]" % name)
    return res


def trace_states(out):
    """All states of a TLC error trace as {var: value}."""
    blocks = re.split(r"\nState \d+: <[^\n]*>\n", out)
    sts = []
    for blk in blocks[1:]:
        blk = blk.split("\n\n")[0]
        st = {}
        for m in re.finditer(r"/\\ (\w+) = (.*?)(?=\n/\\ \w+ = |\Z)", blk, re.S):
            if m.group(1) == "last":
                st["last"] = vlib.parse_tla(m.group(2).strip())
        sts.append(st)
    return sts


def mc_code(name, c, expect):
    """Exhaustive run of the code as transcribed; returns (res, statements of the counterexample)."""
    res = vlib.run_tlc("SQLTx", "mc.cfg", workers=1, timeout=600, files=[("mc.cfg", cfg(c, invs=INVS[:-1], props=PROPS))], tag="sqltx-code")
    if res.error:
        raise MachineryFault("SQLTx code model [%s]: %s" % (name, res.error))
    if not res.violation:
        raise MachineryFault("SQLTx code model [%s] (Quirks=%s): TLC found no violation; the transcription no longer shows the "
                             "deviation it was written for (expected %s)" % (name, sorted(c["Quirks"]), expect))
    if expect and res.violation not in expect:
        vlib.log("[note] code model %s violates %s (expected one of %s)" % (name, res.violation, expect))
    sts = [s["last"] for s in trace_states(res.out) if "last" in s]
    stmts = [{"s": x["s"], "k": x["k"], "id": x["id"], "u": x["u"], "v": x["v"]} for x in sts if x["k"] not in ("init", "end")]
    if not stmts:
        raise MachineryFault("cannot parse the counterexample of %s" % name)
    return res, stmts


def fix_steps(steps):
    for st in steps:
        for f in ("res", "tbl", "tags"):
            if isinstance(st.get(f), dict):          # empty function printed as {}
                st[f] = []
    return steps


def simulate(c, num, seed, timeout=600):
    c = dict(c, EmitDepth=1)
    depth = c["NS"] * c["MaxStmts"] + 3
    res = vlib.run_tlc("SQLTx", "sim.cfg", workers=1, timeout=timeout, extra=["-simulate", "num=%d" % num, "-depth", str(depth), "-seed", str(seed)],
                       files=[("sim.cfg", cfg(c, spec="RSpec", invs=["ConstraintsHold", "NoQuirkFired", "Emit"], view=False))], tag="sqltx-sim")
    if res.error or res.violation:
        raise MachineryFault("SQLTx simulation: %s %s\n%s" % (res.error, res.violation, res.out[-2000:]))
    bs = vlib.printed_json(res.out)
    if len(bs) < num // 2:
        raise MachineryFault("SQLTx simulation printed only %d of %d behaviours" % (len(bs), num))
    seen, out = set(), []
    for b in bs:
        key = json.dumps(b["steps"], sort_keys=True)
        if key not in seen:
            seen.add(key)
            out.append({"origin": "tlc-simulate", "steps": fix_steps(b["steps"])})
    return res, out


def trace_run(scripts, quirks, c, check_real=False, timeout=600, tag="sqltx-trace"):
    """Drive SQLTx by scripts (list of list of step dicts; a step with 'chk': 1 carries real observations).
    Returns {b: {steps, fired, dead, mism}} and the TLC result."""
    lines = []
    for b, steps in enumerate(scripts):
        lines.append(json.dumps({"ev": "reset", "b": b}))
        for st in steps:
            e = {"ev": st.get("ev", "step"), "b": b}
            if e["ev"] == "scan":
                e["rows"] = st["rows"]
            else:
                e.update({"s": st["s"], "k": st["k"], "id": st["id"], "u": st["u"], "v": st["v"], "chk": st.get("chk", 0),
                          "out": st.get("out", ""), "res": st.get("res", []), "cnt": st.get("cnt", 0), "pk": st.get("pk", 0),
                          "tbl": st.get("tbl", [])})
            lines.append(json.dumps(e))
    lines.append(json.dumps({"ev": "reset", "b": len(scripts)}))
    ns = max([1] + [st["s"] for steps in scripts for st in steps if "s" in st])
    c = dict(c, NS=ns, TxSessions=set(range(1, ns + 1)), MaxStmts=100000, Quirks=set(quirks), EmitDepth=1, Kinds=set(ALLKINDS))
    text = cfg(c, spec="TraceSpec", invs=(["RealConstraintsHold"] if check_real else []), view=False, post="TraceAccepted")
    res = vlib.run_tlc("TraceSQLTx", "trace.cfg", workers=1, timeout=timeout, files=[("trace.cfg", text), ("trace.ndjson", "\n".join(lines) + "\n")], tag=tag)
    if res.error:
        raise MachineryFault("TraceSQLTx: %s" % res.error)
    got = {}
    for r in vlib.printed_json(res.out):
        r["steps"] = fix_steps(r["steps"] if isinstance(r["steps"], list) else [])
        r["mism"] = r["mism"] if isinstance(r["mism"], list) else []
        r["fired"] = r["fired"] if isinstance(r["fired"], list) else []
        got[r["b"]] = r
    return got, res


def design_predict(stmt_lists, c):
    """Design observations for given statement sequences (counterexamples of the code model)."""
    got, res = trace_run(stmt_lists, set(), c)
    if res.violation or res.postcondition_failed:
        raise MachineryFault("TraceSQLTx (design prediction) rejected its own script:\n" + res.out[-2000:])
    out = []
    for b, stmts in enumerate(stmt_lists):
        r = got.get(b)
        if not r or r["dead"] or len(r["steps"]) != len(stmts):
            # the design leaves the script (e.g. COMMIT of a transaction the design already aborted): keep the applicable prefix
            if not r or not r["steps"]:
                continue
        out.append(r["steps"])
    return out


# ------------------------------------------------------------------ attribution of deviations
def rows_back(rows):
    return [[int(r[0])] + list(r[1:]) for r in rows]


def observed_script(dev):
    steps = []
    for o in dev["observed"]:
        steps.append({"s": o["s"], "k": o["k"], "id": o["id"], "u": o["u"], "v": o["v"], "chk": 1, "out": o["out"],
                      "res": rows_back(o["res"] or []), "cnt": o["cnt"], "pk": o["pk"], "tbl": rows_back(o["tbl"] or [])})
    return steps


def attribute(devs, c, quirks=ALLQ):
    """For every deviation: the single quirk (or the set of fired quirks) under which the transcribed code explains
    all real observations of the behaviour up to and including the deviating step; None = unexplained."""
    if not devs:
        return []
    scripts = [observed_script(d) for d in devs]
    runs = [[q] for q in quirks] + [list(quirks)]

    def one(qs):
        got, res = trace_run(scripts, qs, c, tag="sqltx-attr")
        if res.violation and res.violation != "RealConstraintsHold":
            raise MachineryFault("TraceSQLTx attribution run %s: %s\n%s" % (qs, res.violation, res.out[-1500:]))
        return qs, got

    with cf.ThreadPoolExecutor(4) as ex:
        results = list(ex.map(one, runs))
    out = []
    for b, d in enumerate(devs):
        who = None
        for qs, got in results:
            r = got.get(b)
            if r and not r["dead"] and not r["mism"] and len(r["steps"]) == len(scripts[b]):
                who = qs[0] if len(qs) == 1 else "+".join(sorted(r["fired"])) or "code-model"
                break
        out.append(who)
    return out


def report(chk, devs, who, source):
    rel = RELEVANT[chk.pid]
    oos = chk.cov.setdefault("out_of_scope_deviations", {})
    for d, q in zip(devs, who):
        sig = "sqltx:%s:%s" % (q if q else "unexplained:" + d["kind"], d["class"])
        if d["class"] not in rel:
            oos[sig] = oos.get(sig, 0) + 1
            continue
        text = ("%s (%s, explained by the transcribed quirk %s)" % (d["text"], source, q)) if q else ("%s (%s, not explained by any transcribed quirk)" % (d["text"], source))
        chk.violation(sig, text, {"source": source, "origin": d.get("origin"), "sql": d.get("sql"), "expected": d.get("expected"),
                                  "observed": d.get("observed"), "repro": "harness/cmd/c12 -script (see docs/%s.md)" % chk.pid})


# ------------------------------------------------------------------ the two profiles
def profile(pid, tier):
    thorough = tier == "thorough"
    if pid == "C12":
        dml = {"insA", "insAbad", "insE", "ups", "updU", "del"}
        return {
            # exhaustive, design: constraint checks under every interleaving of autocommit statements and transactions
            "design": [
                ("2 tx sessions x 3", consts(NS=2, MaxStmts=3, VVals={"p"}, ExplIds={1, 2}, Kinds={"begin", "commit", "insA", "del", "ups", "updU"}), 6),
                ("tx + autocommit, bad values", consts(NS=2, MaxStmts=3, VVals={"p"}, ExplIds={1}, TxSessions={1}, Kinds={"begin", "commit", "rollback", "insA", "insAbad", "insE", "insN", "updV", "delAll"}), 4),
                ("ddl: create unique index", consts(NS=2, MaxStmts=3, VVals={"p"}, ExplIds={1}, TxSessions={1}, InitUIdx=False, Kinds={"begin", "commit", "insA", "del", "crIdx"}), 4),
            ] + ([("3 sessions x 3", consts(NS=3, MaxStmts=3, VVals={"p"}, ExplIds={1}, TxSessions={1, 2, 3}, Kinds={"begin", "commit", "insA", "del", "updU"}), 8)] if thorough else []),
            "code": [
                ("uniq_tombstone_first", consts(NS=1, MaxStmts=4, VVals={"p"}, TxSessions=set(), Kinds={"insA", "del"}, Quirks={"uniq_tombstone_first"}), {"ConstraintsHold"}),
                ("ddl_first_pk_only", consts(NS=1, MaxStmts=5, VVals={"p"}, TxSessions=set(), InitUIdx=False, Kinds={"insA", "del", "crIdx"}, Quirks={"ddl_first_pk_only"}), {"ConstraintsHold"}),
            ],
            "sim": [
                (consts(NS=2, MaxStmts=5, Kinds=set(ALLKINDS) - {"crIdx", "sp", "rbto", "rel", "selU"}), 700 if thorough else 160),
                (consts(NS=3, MaxStmts=4, TxSessions={1, 2}, Kinds={"begin", "commit", "rollback", "insA", "insE", "ups", "updU", "del", "delAll", "selAll"}), 500 if thorough else 120),
                (consts(NS=2, MaxStmts=5, InitUIdx=False, TxSessions={1}, Kinds={"begin", "commit", "insA", "insE", "ups", "updU", "del", "delAll", "crIdx", "selAll"}), 300 if thorough else 80),
            ],
        }
    return {
        "design": [
            ("savepoints, 1 tx session x 6 + autocommit x 1", consts(NS=2, MaxStmts=6, VVals={"p"}, ExplIds={1}, TxSessions={1},
                                                                Kinds={"begin", "commit", "rollback", "sp", "rbto", "rel", "insA", "del", "updU"}), 6),
            ("2 tx sessions x 3, queries", consts(NS=2, MaxStmts=3, VVals={"p"}, ExplIds={1}, Kinds={"begin", "commit", "rollback", "close", "insA", "ups", "del", "selAll", "selU"}), 6),
        ] + ([("2 tx + 1 read-only x 3", consts(NS=3, MaxStmts=3, VVals={"p"}, ExplIds={1}, TxSessions={1, 2}, Kinds={"begin", "commit", "rollback", "insA", "updU", "del", "selAll"}), 8)] if thorough else []),
        "code": [
            ("sp_keeps_writes", consts(NS=1, MaxStmts=5, VVals={"p"}, Kinds={"begin", "commit", "sp", "rbto", "insA"}, TxSessions={1}, Quirks={"sp_keeps_writes"}), {"RollbackToUndoesExactlySuffix", "OwnWritesVisible"}),
            ("lazy_usnap", consts(NS=2, MaxStmts=3, VVals={"p"}, TxSessions={1}, Kinds={"begin", "insA", "selU", "selAll"}, Quirks={"lazy_usnap"}), {"NoDirtyReads", "IndexViewConsistent"}),
            ("uidx_no_own_removal", consts(NS=1, MaxStmts=4, VVals={"p"}, ExplIds={1}, TxSessions={1}, Kinds={"begin", "insA", "del", "selU"}, Quirks={"uidx_no_own_removal"}), {"IndexViewConsistent", "OwnWritesVisible"}),
            ("pk_get_sees_own_deleted", consts(NS=1, MaxStmts=4, VVals={"p"}, ExplIds={1}, TxSessions={1}, Kinds={"begin", "insA", "del", "insN", "ups"}, Quirks={"pk_get_sees_own_deleted"}), None),
            ("auto_ignores_explicit", consts(NS=1, MaxStmts=3, VVals={"p"}, ExplIds={1, 2}, TxSessions={1}, Kinds={"begin", "insA", "insE"}, Quirks={"auto_ignores_explicit"}), None),
        ],
        "sim": [
            (consts(NS=2, MaxStmts=7, TxSessions={1, 2}), 800 if thorough else 200),
            (consts(NS=1, MaxStmts=9, TxSessions={1}, Kinds={"begin", "commit", "rollback", "sp", "rbto", "rel", "insA", "ups", "updU", "updV", "del", "selAll", "selU"}), 500 if thorough else 120),
            (consts(NS=3, MaxStmts=4, TxSessions={1, 2}), 400 if thorough else 80),
        ],
    }


def run_sqltx(chk, args):
    prof = profile(chk.pid, chk.tier)
    binp = vlib.go_build("c12")
    wd = vlib.scratch(chk.pid)
    base = consts()

    # 1. design, exhaustive (in parallel)
    with cf.ThreadPoolExecutor(len(prof["design"])) as ex:
        futs = [(name, ex.submit(mc_design, name, c, w)) for name, c, w in prof["design"]]
        # 2. code as transcribed, one quirk at a time
        cex = []
        for name, c, expect in prof["code"]:
            res, stmts = mc_code(name, c, expect)
            chk.add_tlc(res, "SQLTx code Quirks={%s} -> %s" % (name, res.violation))
            cex.append((name, res.violation, stmts, c))
        # 3. simulation of the design
        behaviours = {}   # uidx -> list
        for i, (c, num) in enumerate(prof["sim"]):
            res, bs = simulate(c, num, chk.seed * 1000 + i)
            chk.add_tlc(res, "SQLTx -simulate NS=%d MaxStmts=%d num=%d" % (c["NS"], c["MaxStmts"], num))
            behaviours.setdefault(c["InitUIdx"], []).extend(bs)
        for name, fut in futs:
            res = fut.result()
            chk.add_tlc(res, "SQLTx design [%s]" % name)
    for uidx in (True, False):
        lists = [stmts for name, viol, stmts, c in cex if c["InitUIdx"] == uidx]
        names = [(name, viol) for name, viol, stmts, c in cex if c["InitUIdx"] == uidx]
        if lists:
            for (name, viol), steps in zip(names, design_predict(lists, dict(base, InitUIdx=uidx))):
                behaviours.setdefault(uidx, []).insert(0, {"origin": "tlc-counterexample:%s:%s" % (name, viol), "steps": steps})
    kinds = {}
    for bs in behaviours.values():
        for b in bs:
            for st in b["steps"]:
                kinds[st["k"] + ":" + st["out"]] = kinds.get(st["k"] + ":" + st["out"], 0) + 1
    chk.cov["model_step_classes"] = kinds
    for need in ("commit:ok", "commit:conflict", "insA:err", "insA:ok"):
        if not kinds.get(need):
            raise MachineryFault("vacuous: no %s step among the generated behaviours" % need)

    # 4. replay on the real engine, 5. attribution
    selftest = bool(os.environ.get("VERIF_SELFTEST"))
    for uidx, bs in behaviours.items():
        p = os.path.join(wd, "beh_%d.json" % uidx)
        json.dump({"uidx": uidx, "behaviours": bs}, open(p, "w"))
        dd = os.path.join(wd, "d%d" % uidx)
        os.makedirs(dd)
        out, _ = vlib.run_harness(binp, ["-replay", p, "-dir", dd] + (["-selftest"] if selftest and uidx else []), timeout=1500)
        r = json.loads(out)
        devs = (r.get("extra") or {}).pop("deviations", None) or []
        vlib.absorb(chk, r)
        who = attribute(devs, dict(base, InitUIdx=uidx))
        report(chk, devs, who, "replay of TLC behaviours")
    chk.cov["behaviours_replayed"] = sum(len(b) for b in behaviours.values())
    chk.cov["steps_replayed"] = chk.cov["evaluations"]
    return binp, wd


def run(chk, args):
    run_sqltx(chk, args)
    chk.assumptions += ["one table (auto-increment PK, unique NOT NULL column, CHECK, max length), values from small domains",
                        "sessions interleave at statement granularity in the replay; free concurrency only in the trace-validation part"]


if __name__ == "__main__":
    vlib.main(run, "C12", "model_checking")
