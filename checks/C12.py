#!/usr/bin/env python3
"""C12 - SQL integrity constraints hold in every reachable state.
(Shared machinery for C12 and C13: checks/C13.py imports this module.)

spec/SQLTx.tla is the state machine of sessions, transactions, savepoints and constraint checks; one operator
Exec(Q, ..) gives the semantics of a statement, Q = {} being the design (the property oracle) and Q = a set of
transcribed deviations of the pinned code.
  1. TLC exhaustive, design (Quirks = {}): all invariants/action properties over every interleaving in the bounds.
  2. TLC exhaustive, code as transcribed (one quirk at a time): prints the property violation the code admits;
     its statement sequence is added to the behaviours to replay.
  3. TLC -simulate (design): random behaviours with the design's observation after every step.
  4. harness/cmd/c12 replays all behaviours on the real embedded/sql engine and compares every observation.
  5. every deviation is attributed by trace validation (spec/TraceSQLTx.tla): which single transcribed quirk
     explains the real observations step by step?  -> specific signature (known finding) / unexplained (violation).
  6. trace validation of free-running concurrent sessions: committed transactions serialised by commit tx id.
"""
import json, os, re, sys, time, concurrent.futures as cf
sys.path.insert(0, os.path.join(os.path.dirname(os.path.abspath(__file__)), "..", "lib"))
import vlib
from vlib import MachineryFault

ALLQ = ["sp_keeps_writes", "uniq_tombstone_first", "lazy_usnap", "uidx_no_own_removal", "auto_ignores_explicit",
        "pk_get_sees_own_deleted", "upd_own_inserted_u_fails", "ddl_first_pk_only"]
# quirks repaired in /repo meanwhile: spec/model_flags.json {"SQLTx_fixed_quirks": [...]} (or VERIF_FIXED_QUIRKS=a,b for trying a
# patch); they are no longer part of "the code as transcribed" (no counterexample run, not used to explain deviations)
FIXEDQ = set(vlib.model_flag("SQLTx_fixed_quirks", []) or []) | {q for q in os.environ.get("VERIF_FIXED_QUIRKS", "").split(",") if q}
ALLQ = [q for q in ALLQ if q not in FIXEDQ]
ALLKINDS = ["begin", "commit", "rollback", "close", "sp", "rbto", "rel", "insA", "insAbad", "insE", "insN", "ups", "updU", "updV",
            "updAllV", "del", "delAll", "selAll", "selPk", "selU", "crIdx"]
UNIQ_QUIRKS = {"uniq_tombstone_first", "lazy_usnap", "uidx_no_own_removal", "ddl_first_pk_only"}
JOPTS = ["-XX:ParallelGCThreads=2"]      # many small JVMs run side by side; keep their GC from fighting for the cores
INVS = ["ConstraintsHold", "OwnWritesVisible", "NoDirtyReads", "IndexViewConsistent", "NoQuirkFired"]
PROPS = ["StatementsSeeOwnWrites", "NoDirtyReadsAct", "FailedStatementNoEffect", "AllOrNothing", "CountsMatchApplied", "RollbackToUndoesExactlySuffix"]

# which kinds of deviation from the design each property forbids (the others are reported as out-of-scope notes)
RELEVANT = {
    "C12": {"constraint-breach", "failed-statement-effect", "panic", "stale-catalog", "catalog-mismatch", "ddl-isolation"},
    "C13": {"spurious-failure", "violating-statement-accepted", "outcome", "tx-state", "query-result", "count", "generated-key",
            "table", "failed-statement-effect", "panic", "serial-order", "stale-catalog", "catalog-mismatch", "ddl-isolation"},
}


def tla(v):
    if isinstance(v, bool):
        return "TRUE" if v else "FALSE"
    if isinstance(v, int):
        return str(v)
    if isinstance(v, str):
        return '"%s"' % v
    if isinstance(v, (set, frozenset, list, tuple)):
        return "{" + ", ".join(tla(x) for x in sorted(v, key=str)) + "}"
    raise ValueError(v)


def consts(**kw):
    c = dict(NS=2, MaxId=3, UVals={"a", "b"}, VVals={"p", "q"}, MaxStmts=3, SpNames={"s1", "s2"}, Kinds=set(ALLKINDS) - {"crIdx"},
             ExplIds={1, 2, 3}, TxSessions={1, 2}, Quirks=set(), InitUIdx=True, EmitDepth=0)
    c.update(kw)
    c["TxSessions"] = {s for s in c["TxSessions"] if s <= c["NS"]}
    return c


def cfg(c, spec="Spec", invs=(), props=(), view=True, post=None):
    out = "CONSTANTS\n" + "".join("  %s = %s\n" % (k, tla(v)) for k, v in c.items())
    out += "SPECIFICATION %s\n" % spec
    if invs:
        out += "INVARIANTS " + " ".join(invs) + "\n"
    if props:
        out += "PROPERTIES " + " ".join(props) + "\n"
    if view:
        out += "VIEW View\n"
    if post:
        out += "POSTCONDITION %s\n" % post
    return out + "CHECK_DEADLOCK FALSE\n"


# ------------------------------------------------------------------ TLC runs
def mc_design(name, c, workers, timeout=2400):
    res = vlib.run_tlc("SQLTx", "mc.cfg", workers=workers, timeout=timeout, files=[("mc.cfg", cfg(c, invs=INVS, props=PROPS))], tag="sqltx-mc", javaopts=JOPTS)
    vlib.tlc_must_pass(res, "SQLTx design model [%s]" % name)
    return res


def trace_states(out):
    """All states of a TLC error trace as {var: value}."""
    blocks = re.split(r"\nState \d+: <[^\n]*>\n", out)
    sts = []
    for blk in blocks[1:]:
        blk = blk.split("\n\n")[0]
        st = {}
        for m in re.finditer(r"/\\ (\w+) = (.*?)(?=\n/\\ \w+ = |\Z)", blk, re.S):
            if m.group(1) == "last":
                st["last"] = vlib.parse_tla(m.group(2).strip())
        sts.append(st)
    return sts


def mc_code(name, c, expect):
    """Exhaustive run of the code as transcribed; returns (res, statements of the counterexample)."""
    only = expect == {"ConstraintsHold"}
    res = vlib.run_tlc("SQLTx", "mc.cfg", workers=1, timeout=600, tag="sqltx-code", javaopts=JOPTS,
                       files=[("mc.cfg", cfg(c, invs=["ConstraintsHold"] if only else INVS[:-1], props=[] if only else PROPS))])
    if res.error:
        raise MachineryFault("SQLTx code model [%s]: %s" % (name, res.error))
    if not res.violation:
        raise MachineryFault("SQLTx code model [%s] (Quirks=%s): TLC found no violation; the transcription no longer shows the "
                             "deviation it was written for (expected %s)" % (name, sorted(c["Quirks"]), expect))
    if expect and res.violation not in expect:
        vlib.log("[note] code model %s violates %s (expected one of %s)" % (name, res.violation, expect))
    sts = [s["last"] for s in trace_states(res.out) if "last" in s]
    stmts = [{"s": x["s"], "k": x["k"], "id": x["id"], "u": x["u"], "v": x["v"]} for x in sts if x["k"] not in ("init", "end")]
    if not stmts:
        raise MachineryFault("cannot parse the counterexample of %s" % name)
    # make the model state observable: every transaction still open reads the table (both access paths) and commits
    st = {}
    for x in sts:
        if x["k"] not in ("init", "end"):
            st[x["s"]] = x["st"]
    for s in sorted(st):
        if st[s] == "tx":
            stmts += [{"s": s, "k": "selAll", "id": 0, "u": "", "v": ""}] + \
                     [{"s": s, "k": "selU", "id": 0, "u": u, "v": ""} for u in sorted(c["UVals"])] + \
                     [{"s": s, "k": "commit", "id": 0, "u": "", "v": ""}]
    return res, stmts


def fix_steps(steps):
    for st in steps:
        for f in ("res", "tbl", "tags"):
            if isinstance(st.get(f), dict):          # empty function printed as {}
                st[f] = []
    return steps


def simulate(c, num, seed, timeout=1800):
    c = dict(c, EmitDepth=1)
    depth = c["NS"] * c["MaxStmts"] + 3
    res = vlib.run_tlc("SQLTx", "sim.cfg", workers=1, timeout=timeout, javaopts=JOPTS, extra=["-simulate", "num=%d" % num, "-depth", str(depth), "-seed", str(seed)],
                       files=[("sim.cfg", cfg(c, spec="RSpec", invs=["ConstraintsHold", "NoQuirkFired", "Emit"], view=False))], tag="sqltx-sim")
    if res.error or res.violation:
        raise MachineryFault("SQLTx simulation: %s %s\n%s" % (res.error, res.violation, res.out[-2000:]))
    bs = vlib.printed_json(res.out)
    if len(bs) < num // 2:
        raise MachineryFault("SQLTx simulation printed only %d of %d behaviours" % (len(bs), num))
    seen, out = set(), []
    for b in bs:
        key = json.dumps(b["steps"], sort_keys=True)
        if key not in seen:
            seen.add(key)
            out.append({"origin": "tlc-simulate", "steps": fix_steps(b["steps"])})
    return res, out


def trace_run(scripts, c, check_real=False, timeout=900, tag="sqltx-trace"):
    """Drive SQLTx by scripts: list of (quirks, steps); a step with 'chk': 1 carries real observations.
    Returns {b: {q, steps, fired, dead, mism}} and the TLC result."""
    lines, starts = [], {}
    for b, (quirks, steps) in enumerate(scripts):
        lines.append(json.dumps({"ev": "reset", "b": b, "q": sorted(quirks)}))
        starts[b] = len(lines)            # 1-based line number of the reset event
        for st in steps:
            e = {"ev": st.get("ev", "step"), "b": b}
            if e["ev"] == "scan":
                e["rows"] = st["rows"]
                e["cmp"] = st.get("cmp", 0)
            else:
                e.update({"s": st["s"], "k": st["k"], "id": st["id"], "u": st["u"], "v": st["v"], "chk": st.get("chk", 0), "ct": st.get("ct", 1), "cc": st.get("cc", 1),
                          "out": st.get("out", ""), "res": st.get("res", []), "cnt": st.get("cnt", 0), "pk": st.get("pk", 0),
                          "tbl": st.get("tbl") or []})
            lines.append(json.dumps(e))
    lines.append(json.dumps({"ev": "reset", "b": len(scripts), "q": []}))
    ns = max([1] + [st["s"] for _, steps in scripts for st in steps if "s" in st])
    c = dict(c, NS=ns, TxSessions=set(range(1, ns + 1)), MaxStmts=100000, Quirks=set(), EmitDepth=1, Kinds=set(ALLKINDS))
    text = cfg(c, spec="TraceSpec", invs=(["RealConstraintsHold"] if check_real else []), view=False, post="TraceAccepted")
    res = vlib.run_tlc("TraceSQLTx", "trace.cfg", workers=1, timeout=timeout, javaopts=JOPTS, files=[("trace.cfg", text), ("trace.ndjson", "\n".join(lines) + "\n")], tag=tag)
    if res.error:
        raise MachineryFault("TraceSQLTx: %s" % res.error)
    got = {}
    for r in vlib.printed_json(res.out):
        r["steps"] = fix_steps(r["steps"] if isinstance(r["steps"], list) else [])
        r["mism"] = r["mism"] if isinstance(r["mism"], list) else []
        r["fired"] = r["fired"] if isinstance(r["fired"], list) else []
        r["mstep"] = (r["mism"][0] - starts[r["b"]] - 1) if r["mism"] else None      # index of the mismatching event in its script
        got[r["b"]] = r
    return got, res


def design_predict(stmt_lists, c):
    """Design observations for given statement sequences (counterexamples of the code model)."""
    got, res = trace_run([(set(), x) for x in stmt_lists], c)
    if res.violation or res.postcondition_failed:
        raise MachineryFault("TraceSQLTx (design prediction) rejected its own script:\n" + res.out[-2000:])
    out = []
    for b, stmts in enumerate(stmt_lists):
        r = got.get(b)
        if not r or r["dead"] or len(r["steps"]) != len(stmts):
            # the design leaves the script (e.g. COMMIT of a transaction the design already aborted): keep the applicable prefix
            if not r or not r["steps"]:
                continue
        out.append(r["steps"])
    return out


# ------------------------------------------------------------------ attribution of deviations
def rows_back(rows):
    return [[int(r[0])] + list(r[1:]) for r in rows]


def observed_script(dev):
    steps = []
    for o in dev["observed"]:
        steps.append({"s": o["s"], "k": o["k"], "id": o["id"], "u": o["u"], "v": o["v"], "chk": 1, "out": o["out"],
                      "res": rows_back(o["res"] or []), "cnt": o["cnt"], "pk": o["pk"], "ct": 0 if o["tbl"] is None else 1,
                      "cc": 0 if dev.get("wire") else 1,
                      "tbl": rows_back(o["tbl"] or [])})
    return steps


def attribute(devs, c, quirks=ALLQ, scripts=None):
    """For every deviation: the quirks under which the transcribed code explains all real observations of the
    behaviour up to and including the deviating step: [q] if a single quirk suffices, else the quirks blamed by the
    full transcription (at the deviating step, or so far in the behaviour); [] = unexplained."""
    if not devs:
        return []
    obs = scripts if scripts is not None else [observed_script(d) for d in devs]
    runs = [[]] + [[q] for q in quirks] + [list(quirks)]
    got, res = trace_run([(qs, o) for o in obs for qs in runs], c, tag="sqltx-attr")     # one JVM for all (deviation, quirk set) pairs
    if res.violation or res.postcondition_failed:
        raise MachineryFault("TraceSQLTx attribution run: %s\n%s" % (res.violation, res.out[-1500:]))
    out = []
    for b, d in enumerate(devs):
        who = []
        nsteps = len([x for x in obs[b] if x.get("ev", "step") == "step"])
        for ri, qs in enumerate(runs):
            r = got.get(b * len(runs) + ri)
            if r and not r["dead"] and not r["mism"] and len(r["steps"]) == nsteps:
                if not qs:
                    # the design itself explains what the engine did: the expectation handed to the harness was wrong
                    if not os.environ.get("VERIF_SELFTEST"):
                        raise MachineryFault("deviation reported for behaviour that the design model explains (inconsistent expectations): %s" % d["text"][:600])
                    who = ["selftest-corrupted-expectation"]
                elif len(qs) == 1:
                    who = qs
                else:
                    step_tags = (r["steps"][-1].get("tags") or []) if r["steps"] else []
                    who = sorted(step_tags) or sorted(r["fired"]) or ["code-model"]
                break
        out.append(who)
    return out


def attribute_for(chk, devs, c, scripts=None):
    """attribute() for the deviations the property forbids only; the others are just counted by class."""
    rel = RELEVANT[chk.pid]
    idx = [i for i, d in enumerate(devs) if d["class"] in rel]
    got = attribute([devs[i] for i in idx], c, scripts=None if scripts is None else [scripts[i] for i in idx])
    who = [["not-attributed"]] * len(devs)
    for i, w in zip(idx, got):
        who[i] = w
    return who


def report(chk, devs, who, source):
    rel = RELEVANT[chk.pid]
    oos = chk.cov.setdefault("out_of_scope_deviations", {})
    for d, qs in zip(devs, who):
        # a deviation that needs several transcribed quirks together is reported under each of them
        for q in (qs or [None]):
            sig = "sqltx:%s:%s" % (q if q else "unexplained:" + d["kind"], d["class"])
            if d["class"] not in rel:
                oos[sig] = oos.get(sig, 0) + 1
                if oos[sig] == 1:
                    chk.cov.setdefault("out_of_scope_samples", {})[sig] = d["text"][:1500]
                continue
            text = ("%s (%s, explained by the transcribed quirk(s) %s)" % (d["text"], source, "+".join(qs))) if q else \
                   ("%s (%s, not explained by any transcribed quirk)" % (d["text"], source))
            chk.violation(sig, text, {"source": source, "origin": d.get("origin"), "sql": d.get("sql"), "expected": d.get("expected"),
                                      "observed": d.get("observed"), "repro": "harness/cmd/c12 -script (see docs/%s.md)" % chk.pid})


# ------------------------------------------------------------------ composite unique indexes (spec/SQLUniq.tla)
UNIQ_HIST_ALL = {"plain", "other-updated", "after-delete", "reinserted", "other-in-tx", "own-in-tx", "null"}


def uniq_cases(idx, hists, out):
    text = ('CONSTANTS\n  IdxName = "%s"\n  Histories = %s\n  OutFile = "%s"\nINIT Init\nNEXT Next\nCHECK_DEADLOCK FALSE\n' % (idx, tla(hists), out))
    res = vlib.run_tlc("SQLUniq", "uniq.cfg", workers=1, timeout=1800, files=[("uniq.cfg", text)], tag="sqluniq", javaopts=JOPTS)
    vlib.tlc_must_pass(res, "SQLUniq[%s]" % idx)
    facts = {}
    for line in res.out.splitlines():
        line = line.strip()
        if line.startswith('<<"') and line.endswith(">>"):
            v = vlib.parse_tla(line)
            facts[v[0]] = v[1]
    for k in ("Refused", "Applied", "NoDuplicates"):
        if facts.get(k) is not True:
            raise MachineryFault("SQLUniq[%s]: model fact %s is %r" % (idx, k, facts.get(k)))
    return res, facts.get("Cases", 0)


def plain_report(chk, devs, prefix, source):
    """Deviations of the directed parts (no quirk attribution: nothing is transcribed there): signature = class + where."""
    rel = RELEVANT[chk.pid]
    oos = chk.cov.setdefault("out_of_scope_deviations", {})
    for d in devs:
        sig = "%s:%s:%s" % (prefix, d["class"], re.sub(r"[^A-Za-z0-9_:=+-]+", "_", d.get("origin") or d["kind"])[:70])
        if d["class"] not in rel:
            key = "%s:%s" % (prefix, d["class"])
            oos[key] = oos.get(key, 0) + 1
            if oos[key] == 1:
                chk.cov.setdefault("out_of_scope_samples", {})[key] = d["text"][:1200]
            continue
        chk.violation(sig, "%s (%s)" % (d["text"], source), {"source": source, "origin": d.get("origin"), "sql": d.get("sql")})


def uniq_exec(binp, wd, futs):
    """futs: {idx: (path, future of uniq_cases)}; replays all case files in one store. (runs in a worker thread)"""
    tl, files, ncases = [], [], 0
    for idx, (path, fut) in futs.items():
        res, n = fut.result()
        tl.append((res, "SQLUniq index (%s): %d cases, Refused/Applied/NoDuplicates TRUE" % (",".join(idx), n)))
        files.append(path)
        ncases += n
    t0 = time.time()
    out, _ = vlib.run_harness(binp, ["-uniq", ",".join(files), "-dir", os.path.join(wd, "uniqd")], timeout=1200)
    return {"tlc": tl, "r": json.loads(out), "ncases": ncases, "secs": time.time() - t0, "idx": sorted(futs)}


def uniq_post(chk, d):
    for res, name in d["tlc"]:
        chk.add_tlc(res, name)
    r = d["r"]
    devs = (r.get("extra") or {}).pop("deviations", None) or []
    vlib.absorb(chk, r)
    ctr = r.get("counters") or {}
    # vacuity: every non-empty subset of the indexed columns was changed by UPDATE and by UPSERT, towards a colliding and a free tuple
    setup_failed = {x["origin"].split()[1] for x in devs if x["class"] == "catalog-mismatch"}
    for idx in d["idx"]:
        if idx in setup_failed:
            continue
        cols = list(idx)
        for mask in range(1, 1 << len(cols)):
            sel = [cols[i] for i in range(len(cols)) if mask >> i & 1]
            m = "".join(c for c in "abd" if c in sel)
            for kind in ("upd", "ups"):
                for coll in ("collide", "free"):
                    key = "uniq:target:%s:%s:%s:%s" % (idx, kind, m, coll)
                    if not ctr.get(key):
                        raise MachineryFault("vacuous: no composite-unique target statement executed for %s" % key)
        if not ctr.get("uniq:target-outcome:%s:collide:err" % idx):
            raise MachineryFault("vacuous: no colliding composite update was refused by the engine for index %s" % idx)
    plain_report(chk, devs, "sqluniq", "composite unique index cases of SQLUniq.tla")
    chk.cov["composite_unique"] = {"indexes": d["idx"], "cases": d["ncases"], "steps": r.get("evaluations", 0),
                                   "changed_subsets_exercised": len([k for k in ctr if k.startswith("uniq:target:")]),
                                   "targets": {k[len("uniq:target-outcome:"):]: v for k, v in ctr.items() if k.startswith("uniq:target-outcome:")}}
    vlib.log("[uniq] %d cases replayed in %.1fs, %d deviations" % (d["ncases"], d["secs"], len(devs)))


# ------------------------------------------------------------------ catalog visibility across sessions (spec/SQLCat.tla)
CAT_KINDS = ["begin", "commit", "rollback", "ins", "crUIdx", "crWIdx", "addCol", "crT2", "showcat", "sel"]
CAT_INVS = ["CacheFresh", "NewTxFresh", "ConstraintsHold", "QuerySeesCommitted"]


def cat_cfg(c, spec="Spec", invs=CAT_INVS, view=True):
    out = "CONSTANTS\n" + "".join("  %s = %s\n" % (k, tla(v)) for k, v in c.items())
    out += "SPECIFICATION %s\n" % spec + ("INVARIANTS " + " ".join(invs) + "\n" if invs else "") + ("VIEW View\n" if view else "")
    return out + "CHECK_DEADLOCK FALSE\n"


def cat_consts(**kw):
    c = dict(NS=2, MaxId=2, UVals={"a"}, MaxStmts=4, Kinds=set(CAT_KINDS), CatQuirks=set(), EmitDepth=0)
    c.update(kw)
    return c


def cat_design(name, c, workers):
    res = vlib.run_tlc("SQLCat", "cat.cfg", workers=workers, timeout=2400, files=[("cat.cfg", cat_cfg(c))], tag="sqlcat-mc", javaopts=JOPTS)
    vlib.tlc_must_pass(res, "SQLCat design [%s]" % name)
    return res


def cat_broken(quirk, c):
    """The protocol broken in the model: TLC must find the duplicate under the committed unique index; returns its statements."""
    res = vlib.run_tlc("SQLCat", "cat.cfg", workers=1, timeout=600, files=[("cat.cfg", cat_cfg(dict(c, CatQuirks={quirk}), invs=["ConstraintsHold"]))],
                       tag="sqlcat-code", javaopts=JOPTS)
    if res.error or res.violation != "ConstraintsHold":
        raise MachineryFault("SQLCat with %s: expected a ConstraintsHold counterexample, got %s %s" % (quirk, res.violation, res.error))
    sts = [s["last"] for s in trace_states(res.out) if "last" in s]
    return res, [{"s": x["s"], "k": x["k"], "id": x["id"], "u": x["u"]} for x in sts if x["k"] not in ("init", "end")]


def cat_fix(steps):
    for st in steps:
        for f in ("res", "seen", "rows", "cat"):
            if isinstance(st.get(f), dict):
                st[f] = []
    return steps


def cat_simulate(c, num, seed):
    c = dict(c, EmitDepth=1)
    res = vlib.run_tlc("SQLCat", "cat.cfg", workers=1, timeout=1800, javaopts=JOPTS, tag="sqlcat-sim",
                       extra=["-simulate", "num=%d" % num, "-depth", str(c["NS"] * c["MaxStmts"] + 3), "-seed", str(seed)],
                       files=[("cat.cfg", cat_cfg(c, spec="RSpec", invs=CAT_INVS + ["Emit"], view=False))])
    if res.error or res.violation:
        raise MachineryFault("SQLCat simulation: %s %s" % (res.error, res.violation))
    bs = vlib.printed_json(res.out)
    if len(bs) < num // 2:
        raise MachineryFault("SQLCat simulation printed only %d behaviours" % len(bs))
    return res, [{"origin": "tlc-simulate", "steps": cat_fix(b["steps"])} for b in bs]


def cat_scripts(scripts):
    """Design observations for given statement sequences: SQLCat driven by the scripts (generated extension module)."""
    def lit(m):
        return '[s |-> %d, k |-> "%s", id |-> %d, u |-> "%s"]' % (m["s"], m["k"], m["id"], m["u"])
    mod = ("---- MODULE SQLCatScript ----\nEXTENDS SQLCat\nScripts == {%s}\n"
           "Done == [i \\in 1..Len(hist) |-> [s |-> hist[i].s, k |-> hist[i].k, id |-> hist[i].id, u |-> hist[i].u]]\n"
           "SNext == \\/ \\E sc \\in Scripts : /\\ Len(hist) < Len(sc) /\\ SubSeq(sc, 1, Len(hist)) = Done\n"
           "                                 /\\ LET m == sc[Len(hist) + 1] IN Step(m.s, St(m.k, m.id, m.u))\n"
           "         \\/ (Done \\in Scripts /\\ last.k # \"end\" /\\ last' = [last EXCEPT !.k = \"end\"] /\\ UNCHANGED <<cat, cver, rows, cache, ever, sess, hist>>)\n"
           "SSpec == Init /\\ [][SNext]_vars\n====\n") % ", ".join("<<" + ", ".join(lit(m) for m in sc) + ">>" for sc in scripts)
    ns = max(m["s"] for sc in scripts for m in sc)
    c = cat_consts(NS=ns, MaxId=3, UVals={"a", "b"}, MaxStmts=1000, EmitDepth=1)
    res = vlib.run_tlc("SQLCatScript", "cat.cfg", workers=1, timeout=600, javaopts=JOPTS, tag="sqlcat-script",
                       files=[("SQLCatScript.tla", mod), ("cat.cfg", cat_cfg(c, spec="SSpec", invs=CAT_INVS + ["Emit"], view=False))])
    vlib.tlc_must_pass(res, "SQLCat scripted (design observations of the broken-protocol counterexamples)")
    bs = [cat_fix(b["steps"]) for b in vlib.printed_json(res.out)]
    if len(bs) != len(scripts):
        raise MachineryFault("SQLCat scripted: %d of %d scripts completed in the design" % (len(bs), len(scripts)))
    return res, bs


# the two ways to break the cache protocol, as TLC finds them on the broken model (thorough tier searches them again)
CAT_SCRIPTS = {
    "populate_ignores_version": [(1, "begin", 0, ""), (2, "crUIdx", 0, ""), (1, "commit", 0, ""), (1, "ins", 1, "a"), (1, "ins", 2, "a")],
    "no_invalidate": [(1, "showcat", 0, ""), (1, "crUIdx", 0, ""), (1, "ins", 1, "a"), (1, "ins", 2, "a")],
}


def cat_exec(binp, wd, fut_design, fut_broken, fut_sim):
    """(runs in a worker thread)"""
    tl, behaviours, scripts = [], [], []
    for quirk, fut in fut_broken:
        res, stmts = fut.result()
        tl.append((res, "SQLCat protocol broken in the model (%s) -> ConstraintsHold violated after %d steps" % (quirk, len(stmts))))
        scripts.append((quirk, stmts))
    have = {q for q, _ in scripts}
    for q, sc in CAT_SCRIPTS.items():
        if q not in have:
            scripts.append((q, [{"s": a, "k": b, "id": c, "u": d} for a, b, c, d in sc]))
    res, bs = cat_scripts([sc for _, sc in scripts])
    tl.append((res, "SQLCat driven by the %d broken-protocol scenarios (design observations)" % len(scripts)))
    key = lambda sc: [(m["s"], m["k"], m["id"], m["u"]) for m in sc]
    for steps in bs:
        q = [q for q, sc in scripts if key(sc) == key(steps)]
        behaviours.append({"origin": "broken-protocol-scenario:%s" % (q[0] if q else "?"), "steps": steps})
    for fut in fut_sim:
        res, b = fut.result()
        tl.append((res, "SQLCat -simulate (%d behaviours)" % len(b)))
        behaviours += b
    for name, fut in fut_design:
        tl.append((fut.result(), "SQLCat design [%s]" % name))
    t0 = time.time()
    p = os.path.join(wd, "cat.json")
    json.dump({"behaviours": behaviours}, open(p, "w"))
    out, _ = vlib.run_harness(binp, ["-cat", p, "-dir", os.path.join(wd, "catd")], timeout=1200)
    return {"tlc": tl, "r": json.loads(out), "n": len(behaviours), "secs": time.time() - t0}


def cat_post(chk, d):
    for res, name in d["tlc"]:
        chk.add_tlc(res, name)
    r = d["r"]
    devs = (r.get("extra") or {}).pop("deviations", None) or []
    vlib.absorb(chk, r)
    ctr = r.get("counters") or {}
    for need in ([] if devs else ["cat:pattern:cold-open+concurrent-ddl+empty-commit", "cat:pattern:...then-insert", "cat:crUIdx:ok", "cat:showcat:ok", "cat:commit:conflict"]):
        if not ctr.get(need):
            raise MachineryFault("vacuous: catalog behaviours never reached %s on the real engine" % need)
    plain_report(chk, devs, "sqlcat", "catalog behaviours of SQLCat.tla on one sql.Engine")
    chk.cov["catalog_visibility"] = {"behaviours": d["n"], "steps": r.get("evaluations", 0),
                                     "cold_open_concurrent_ddl_empty_commit": ctr.get("cat:pattern:cold-open+concurrent-ddl+empty-commit", 0),
                                     "then_insert": ctr.get("cat:pattern:...then-insert", 0)}
    vlib.log("[cat] %d behaviours replayed in %.1fs, %d deviations" % (d["n"], d["secs"], len(devs)))


# ------------------------------------------------------------------ transactional DDL isolation (spec/SQLDdl.tla)
DDL_KINDS = ["begin", "commit", "rollback", "ins", "insx", "ins2", "updw", "sel", "showcat",
             "dropChk", "crUIdx", "dropUIdx", "crWIdx", "dropWIdx", "addCol", "renCol", "dropCol", "crT2", "dropT2"]
DDL_INVS = ["UncommittedDdlInvisible", "NewTxFresh", "ConstraintsHold", "QuerySeesCommitted"]


def ddl_consts(**kw):
    c = dict(NS=2, MaxId=2, UVals={"a"}, MaxStmts=3, Kinds=set(DDL_KINDS), DdlQuirks=set(), EmitDepth=0)
    c.update(kw)
    return c


def ddl_cfg(c, spec="Spec", invs=DDL_INVS, props=("RollbackRestores",), view=True):
    out = "CONSTANTS\n" + "".join("  %s = %s\n" % (k, tla(v)) for k, v in c.items())
    out += "SPECIFICATION %s\n" % spec + ("INVARIANTS " + " ".join(invs) + "\n" if invs else "")
    out += ("PROPERTIES " + " ".join(props) + "\n" if props else "") + ("VIEW View\n" if view else "")
    return out + "CHECK_DEADLOCK FALSE\n"


def ddl_fix(steps):
    for st in steps:
        for f in ("res", "seen", "rows", "rows2", "cat"):
            if isinstance(st.get(f), dict):
                st[f] = []
    return steps


def ddl_design(name, c, workers):
    res = vlib.run_tlc("SQLDdl", "ddl.cfg", workers=workers, timeout=2400, files=[("ddl.cfg", ddl_cfg(c))], tag="sqlddl-mc", javaopts=JOPTS)
    vlib.tlc_must_pass(res, "SQLDdl design [%s]" % name)
    return res


def ddl_broken(c):
    """The clone shares the catalog with the cache (in the model): TLC must find uncommitted DDL becoming visible."""
    res = vlib.run_tlc("SQLDdl", "ddl.cfg", workers=1, timeout=900, tag="sqlddl-code", javaopts=JOPTS,
                       files=[("ddl.cfg", ddl_cfg(dict(c, DdlQuirks={"shared_clone"}), invs=["ConstraintsHold"], props=()))])
    if res.error or res.violation != "ConstraintsHold":
        raise MachineryFault("SQLDdl with shared_clone: expected a ConstraintsHold counterexample, got %s %s" % (res.violation, res.error))
    sts = [s["last"] for s in trace_states(res.out) if "last" in s]
    return res, [(x["s"], x["k"], x["id"], x["u"], x["w"]) for x in sts if x["k"] not in ("init", "end")]


def ddl_simulate(c, num, seed):
    c = dict(c, EmitDepth=1)
    res = vlib.run_tlc("SQLDdl", "ddl.cfg", workers=1, timeout=1800, javaopts=JOPTS, tag="sqlddl-sim",
                       extra=["-simulate", "num=%d" % num, "-depth", str(c["NS"] * c["MaxStmts"] + 3), "-seed", str(seed)],
                       files=[("ddl.cfg", ddl_cfg(c, spec="RSpec", invs=DDL_INVS + ["Emit"], props=(), view=False))])
    if res.error or res.violation:
        raise MachineryFault("SQLDdl simulation: %s %s" % (res.error, res.violation))
    bs = vlib.printed_json(res.out)
    if len(bs) < num // 2:
        raise MachineryFault("SQLDdl simulation printed only %d behaviours" % len(bs))
    return res, [{"origin": "tlc-simulate", "steps": ddl_fix(b["steps"])} for b in bs]


# for every DDL kind: statements that make it applicable, and a statement of ANOTHER session whose outcome depends on it
DDL_SCEN = {
    "dropChk": ([], lambda i: [("ins", i, "u%d" % i, -1)]),
    "crUIdx": ([], lambda i: [("ins", i, "a", 1), ("ins", i + 1, "a", 1)]),
    "dropUIdx": (["crUIdx"], lambda i: [("ins", i, "a", 1), ("ins", i + 1, "a", 1)]),
    "crWIdx": ([], lambda i: [("ins", i, "u%d" % i, 1)]),
    "dropWIdx": (["crWIdx"], lambda i: [("ins", i, "u%d" % i, 1)]),
    "addCol": ([], lambda i: [("insx", i, "u%d" % i, 1)]),
    "renCol": (["addCol"], lambda i: [("insx", i, "u%d" % i, 1)]),
    "dropCol": (["addCol"], lambda i: [("insx", i, "u%d" % i, 1)]),
    "crT2": ([], lambda i: [("ins2", i, "", 0)]),
    "dropT2": (["crT2"], lambda i: [("ins2", i, "", 0)]),
}


def ddl_scenarios(kinds):
    """(warm|cold cache) x (COMMIT|ROLLBACK) per DDL kind: session 1 runs the DDL (and a DML of its own) inside a transaction;
    session 2 issues the dependent statement while the DDL is uncommitted, looks at the catalog, and again after the end."""
    out = []
    for k in kinds:
        setup, dep = DDL_SCEN[k]
        for warm in (True, False):
            for end in ("commit", "rollback"):
                if k == "crUIdx":
                    own = []                       # (a transaction that creates the unique index does nothing else on k)
                else:
                    own = [(1, "ins", 9, "own", 1)]
                sc = [(2, x, 0, "", 0) for x in setup]
                sc += [(2, "showcat", 0, "", 0)] if warm else []
                sc += [(1, "begin", 0, "", 0), (1, k, 0, "x" if k == "dropCol" else "", 0)] + own
                sc += [(2,) + d for d in (dep(1) if k not in ("crUIdx",) else [])]     # writes of another session while the DDL is open
                sc += [(2, "showcat", 0, "", 0), (1, end, 0, "", 0)]
                sc += [(2,) + d for d in dep(3)] + [(2, "showcat", 0, "", 0)]
                if k == "dropChk":
                    sc += [(2, "updw", 3, "", -1), (1, "ins", 5, "u5", -1)]
                out.append(("%s:%s:%s" % (k, "warm" if warm else "cold", end), sc))
    return out


def ddl_scripts(scripts):
    """Design observations for statement sequences (s, k, id, u, w): SQLDdl driven by a generated extension module."""
    def lit(m):
        return '[s |-> %d, k |-> "%s", id |-> %d, u |-> "%s", w |-> %d]' % m
    mod = ("---- MODULE SQLDdlScript ----\nEXTENDS SQLDdl\nScripts == {%s}\n"
           "Done == [i \\in 1..Len(hist) |-> [s |-> hist[i].s, k |-> hist[i].k, id |-> hist[i].id, u |-> hist[i].u, w |-> hist[i].w]]\n"
           "SNext == \\/ \\E sc \\in Scripts : /\\ Len(hist) < Len(sc) /\\ SubSeq(sc, 1, Len(hist)) = Done\n"
           "                                 /\\ LET m == sc[Len(hist) + 1] IN Step(m.s, St(m.k, m.id, m.u, m.w))\n"
           "         \\/ (Done \\in Scripts /\\ last.k # \"end\" /\\ last' = [last EXCEPT !.k = \"end\"] /\\ UNCHANGED <<cat, rows, rows2, cache, ever, sess, hist>>)\n"
           "SSpec == Init /\\ [][SNext]_vars\n====\n") % ", ".join("<<" + ", ".join(lit(m) for m in sc) + ">>" for _, sc in scripts)
    us = {m[3] for _, sc in scripts for m in sc if m[1] in ("ins", "insx")}
    c = ddl_consts(NS=2, MaxId=9, UVals=us or {"a"}, MaxStmts=1000, EmitDepth=1)
    res = vlib.run_tlc("SQLDdlScript", "ddl.cfg", workers=1, timeout=900, javaopts=JOPTS, tag="sqlddl-script",
                       files=[("SQLDdlScript.tla", mod), ("ddl.cfg", ddl_cfg(c, spec="SSpec", invs=DDL_INVS + ["Emit"], props=(), view=False))])
    vlib.tlc_must_pass(res, "SQLDdl scripted (design observations of the DDL-in-transaction scenarios)")
    got = {}
    for b in vlib.printed_json(res.out):
        steps = ddl_fix(b["steps"])
        got[tuple((m["s"], m["k"], m["id"], m["u"], m["w"]) for m in steps)] = steps
    out = []
    for name, sc in scripts:
        steps = got.get(tuple(sc))
        if steps is None:
            raise MachineryFault("SQLDdl scripted: scenario %s did not complete in the design" % name)
        out.append({"origin": "scenario:" + name, "steps": steps})
    return res, out


def ddl_exec(binp, wd, pd, seed, ex):
    """(runs in a worker thread) pd: profile {design, sim, kinds, broken}"""
    fd = [(name, ex.submit(ddl_design, name, c, w)) for name, c, w in pd["design"]]
    fs = [ex.submit(ddl_simulate, c, num, seed * 1000 + 70 + i) for i, (c, num) in enumerate(pd["sim"])]
    fb = ex.submit(ddl_broken, pd["broken"]) if pd.get("broken") else None
    tl = []
    scen = ddl_scenarios(pd["kinds"])
    if fb:
        res, stmts = fb.result()
        tl.append((res, "SQLDdl with a shared clone (broken in the model) -> ConstraintsHold violated after %d steps" % len(stmts)))
        scen.append(("tlc-counterexample-of-shared-clone", stmts))
    res, behaviours = ddl_scripts(scen)
    tl.append((res, "SQLDdl driven by %d DDL-in-transaction scenarios (design observations)" % len(scen)))
    for fut in fs:
        res, b = fut.result()
        tl.append((res, "SQLDdl -simulate (%d behaviours)" % len(b)))
        behaviours += b
    for name, fut in fd:
        tl.append((fut.result(), "SQLDdl design [%s]" % name))
    t0 = time.time()
    p = os.path.join(wd, "ddl.json")
    json.dump({"behaviours": behaviours}, open(p, "w"))
    out, _ = vlib.run_harness(binp, ["-ddl", p, "-dir", os.path.join(wd, "ddld")], timeout=1500)
    return {"tlc": tl, "r": json.loads(out), "n": len(behaviours), "secs": time.time() - t0, "kinds": pd["kinds"]}


def ddl_post(chk, d):
    for res, name in d["tlc"]:
        chk.add_tlc(res, name)
    r = d["r"]
    devs = (r.get("extra") or {}).pop("deviations", None) or []
    vlib.absorb(chk, r)
    ctr = r.get("counters") or {}
    need = ["ddl:pattern:write-while-other-session-has-uncommitted-ddl", "ddl:pattern:write-after-rolled-back-ddl",
            "ddl:pattern:drop-constraint-rolled-back-then-violating-write-must-be-refused", "ddl:rollback:ok", "ddl:commit:ok", "ddl:showcat:ok"]
    need += ["ddl:%s:ok" % k for k in d["kinds"]]
    for k in ([] if devs else need):          # behaviours cut short by a deviation say nothing about coverage
        if not ctr.get(k):
            raise MachineryFault("vacuous: DDL-in-transaction behaviours never reached %s on the real engine" % k)
    plain_report(chk, devs, "sqlddl", "DDL-in-transaction behaviours of SQLDdl.tla on one sql.Engine")
    chk.cov["transactional_ddl"] = {"behaviours": d["n"], "steps": r.get("evaluations", 0),
                                    "writes_while_other_session_has_uncommitted_ddl": ctr.get("ddl:pattern:write-while-other-session-has-uncommitted-ddl", 0),
                                    "writes_after_rolled_back_ddl": ctr.get("ddl:pattern:write-after-rolled-back-ddl", 0),
                                    "drop_constraint_rolled_back_then_violating_write_must_be_refused": ctr.get("ddl:pattern:drop-constraint-rolled-back-then-violating-write-must-be-refused", 0)}
    vlib.log("[ddl] %d behaviours replayed in %.1fs, %d deviations" % (d["n"], d["secs"], len(devs)))




# ------------------------------------------------------------------ the two profiles
def profile(pid, tier):
    """Bounds per property and tier, fitted to measured state counts (quick: each exhaustive run < 10^5 generated states)."""
    thorough = tier == "thorough"
    if pid == "C12":
        design = [
            # constraint checks under every interleaving of two transactions / autocommit statements
            ("2 tx sessions x 3", consts(NS=2, MaxStmts=3, VVals={"p"}, ExplIds={1}, Kinds={"begin", "commit", "insA", "del", "updU"} | ({"ups"} if thorough else set())), 3),
            ("ddl: create unique index on a populated table", consts(NS=2, MaxStmts=3, VVals={"p"}, ExplIds={1}, TxSessions={1}, InitUIdx=False,
                                                                 Kinds={"begin", "commit", "insA", "del", "crIdx"}), 2),
        ]
        if thorough:
            design += [("tx + autocommit, illegal values, explicit keys", consts(NS=2, MaxStmts=3, VVals={"p"}, ExplIds={1}, TxSessions={1},
                                                                              Kinds={"begin", "commit", "rollback", "insA", "insAbad", "insE", "insN", "updV", "delAll"}), 4)]
            design += [("2 tx sessions + 1 autocommit session x 3", consts(NS=3, MaxStmts=3, VVals={"p"}, ExplIds={1}, TxSessions={1, 2}, Kinds={"begin", "commit", "insA", "del"}), 8),
                       ("2 tx sessions x 4", consts(NS=2, MaxStmts=4, VVals={"p"}, ExplIds={1}, Kinds={"begin", "commit", "insA", "del", "ups", "updU"}), 8)]
        code = [
            ("uniq_tombstone_first", consts(NS=1, MaxStmts=4, VVals={"p"}, TxSessions=set(), Kinds={"insA", "del"}, Quirks={"uniq_tombstone_first"}), {"ConstraintsHold"}),
            ("ddl_first_pk_only", consts(NS=1, MaxStmts=5, VVals={"p"}, TxSessions=set(), InitUIdx=False, Kinds={"insA", "del", "crIdx"}, Quirks={"ddl_first_pk_only"}), {"ConstraintsHold"}),
        ]
        sim = [
            (consts(NS=3, MaxStmts=5, TxSessions={1, 2}, Kinds=set(ALLKINDS) - {"crIdx", "sp", "rbto", "rel"}), 1200 if thorough else 100),
            (consts(NS=2, MaxStmts=6, InitUIdx=False, TxSessions={1}, Kinds={"begin", "commit", "insA", "insE", "ups", "updU", "del", "delAll", "crIdx", "selAll"}), 400 if thorough else 40),
        ]
        if thorough:
            sim += [(consts(NS=2, MaxStmts=8, Kinds=set(ALLKINDS) - {"crIdx"}), 800)]
        # composite unique indexes: index variants (column order matters: which column is the leading one) and histories
        uniq = ([("ab", UNIQ_HIST_ALL), ("ba", UNIQ_HIST_ALL), ("abd", UNIQ_HIST_ALL), ("dab", UNIQ_HIST_ALL), ("bda", UNIQ_HIST_ALL)] if thorough else
                [("ba", UNIQ_HIST_ALL), ("dab", {"plain", "other-updated", "after-delete", "other-in-tx", "null"})])
        # catalog visibility across sessions
        cat = {"design": [("2 sessions x %d: begin/commit/rollback, insert, create unique index, add column, catalog query" % (4 if thorough else 3),
                           cat_consts(NS=2, MaxStmts=4 if thorough else 3, Kinds={"begin", "commit", "rollback", "ins", "crUIdx", "addCol", "showcat"}), 3)] +
                         ([("3 sessions x 3, all DDL kinds", cat_consts(NS=3, MaxStmts=3, MaxId=2), 8),
                           ("2 sessions x 5", cat_consts(NS=2, MaxStmts=5, Kinds={"begin", "commit", "ins", "crUIdx", "crWIdx", "showcat", "sel"}), 8)] if thorough else []),
               # quick replays the two recorded scenarios (CAT_SCRIPTS); thorough lets TLC search them on the broken model again
               "broken": ([("populate_ignores_version", cat_consts(NS=2, MaxStmts=4, Kinds={"begin", "commit", "ins", "crUIdx"})),
                           ("no_invalidate", cat_consts(NS=1, MaxStmts=5, Kinds={"ins", "crUIdx", "showcat"}))] if thorough else []),
               "sim": [(cat_consts(NS=3, MaxId=3, UVals={"a", "b"}, MaxStmts=4), 600 if thorough else 90)]}
        return {"design": design, "code": [x for x in code if x[0] not in FIXEDQ], "sim": sim, "uniq": uniq, "cat": cat}
    design = [
        ("savepoints (2 names, nesting, re-use), 1 session x 7", consts(NS=1, MaxStmts=7, VVals={"p"}, ExplIds={1}, TxSessions={1},
                                                                    Kinds={"begin", "commit", "sp", "rbto", "rel", "insA", "del"}), 3),
        ("savepoints, tx session x 5 + autocommit session", consts(NS=2, MaxStmts=5, VVals={"p"}, UVals={"a"}, ExplIds={1}, TxSessions={1},
                                                               Kinds={"begin", "commit", "sp", "rbto", "insA", "del"}), 3),
        ("2 tx sessions x 3, rollback/close, queries by both access paths", consts(NS=2, MaxStmts=3, VVals={"p"}, UVals={"a"}, ExplIds={1},
                                                                                  Kinds={"begin", "commit", "rollback", "close", "insA", "ups", "del", "selAll", "selU"}), 3),
    ]
    if thorough:
        design += [("2 tx + 1 read-only x 3", consts(NS=3, MaxStmts=3, VVals={"p"}, ExplIds={1}, TxSessions={1, 2}, Kinds={"begin", "commit", "rollback", "insA", "updU", "del", "selAll"}), 8),
                   ("savepoints, 1 session x 8", consts(NS=1, MaxStmts=8, VVals={"p"}, ExplIds={1}, TxSessions={1}, Kinds={"begin", "commit", "rollback", "sp", "rbto", "rel", "insA", "del", "updU"}), 8)]
    code = [
        ("sp_keeps_writes", consts(NS=1, MaxStmts=5, VVals={"p"}, Kinds={"begin", "commit", "sp", "rbto", "insA"}, TxSessions={1}, Quirks={"sp_keeps_writes"}), {"RollbackToUndoesExactlySuffix", "OwnWritesVisible"}),
        ("lazy_usnap", consts(NS=2, MaxStmts=3, VVals={"p"}, TxSessions={1}, Kinds={"begin", "insA", "selU", "selAll"}, Quirks={"lazy_usnap"}), {"NoDirtyReads", "IndexViewConsistent"}),
        ("uidx_no_own_removal", consts(NS=1, MaxStmts=4, VVals={"p"}, ExplIds={1}, TxSessions={1}, Kinds={"begin", "insA", "del", "selU"}, Quirks={"uidx_no_own_removal"}), {"IndexViewConsistent", "OwnWritesVisible"}),
    ]
    if thorough or os.environ.get("VERIF_ALLCODE"):
        code += [
            ("pk_get_sees_own_deleted", consts(NS=1, MaxStmts=4, VVals={"p"}, ExplIds={1}, TxSessions={1}, Kinds={"begin", "insA", "del", "insN", "ups"}, Quirks={"pk_get_sees_own_deleted"}), None),
            ("auto_ignores_explicit", consts(NS=1, MaxStmts=3, VVals={"p"}, ExplIds={1, 2}, TxSessions={1}, Kinds={"begin", "insA", "insE"}, Quirks={"auto_ignores_explicit"}), None),
            ("upd_own_inserted_u_fails", consts(NS=1, MaxStmts=3, VVals={"p"}, ExplIds={1}, TxSessions={1}, Kinds={"begin", "insA", "updU"}, Quirks={"upd_own_inserted_u_fails"}), None),
        ]
    sim = [
        (consts(NS=2, MaxStmts=8, TxSessions={1, 2}), 1200 if thorough else 150),
        (consts(NS=3, MaxStmts=4, TxSessions={1, 2}), 600 if thorough else 60),
    ]
    if thorough:
        sim += [(consts(NS=1, MaxStmts=10, TxSessions={1}, Kinds={"begin", "commit", "rollback", "sp", "rbto", "rel", "insA", "ups", "updU", "updV", "del", "selAll", "selU"}), 600)]
    return {"design": design, "code": [x for x in code if x[0] not in FIXEDQ], "sim": sim}


def ddl_profile(pid, tier):
    thorough = tier == "thorough"
    allk = [k for k in DDL_SCEN]
    small = {"begin", "commit", "rollback", "ins", "updw", "dropChk", "showcat"}
    if pid == "C12":      # C12 shares the scenario run (constraints created / dropped by DDL are enforced exactly from / until its commit)
        return {"design": [("2 sessions x 3: DROP CONSTRAINT / insert / update / catalog query", ddl_consts(Kinds=small), 3)] if thorough else [],
                "sim": [(ddl_consts(NS=3, MaxId=3, UVals={"a", "b"}, MaxStmts=5), 300)] if thorough else [], "kinds": allk, "broken": None}
    return {"design": [("2 sessions x 3: DROP CONSTRAINT / insert / update / catalog query", ddl_consts(Kinds=small), 3)] +
                      ([("2 sessions x 3: constraint, unique index, column", ddl_consts(Kinds=small | {"crUIdx", "dropUIdx", "addCol", "insx"}), 8),
                        ("2 sessions x 4: DROP CONSTRAINT", ddl_consts(MaxStmts=4, Kinds=small), 8),
                        ("3 sessions x 3: begin/commit/rollback, insert, DROP CONSTRAINT", ddl_consts(NS=3, MaxId=1, Kinds={"begin", "commit", "rollback", "ins", "dropChk"}), 8),
                        ("2 sessions x 3: table k2", ddl_consts(Kinds={"begin", "commit", "rollback", "ins2", "crT2", "dropT2", "showcat"}), 8)] if thorough else []),
            "sim": [(ddl_consts(NS=3, MaxId=3, UVals={"a", "b"}, MaxStmts=5), 800 if thorough else 80)],
            "kinds": allk, "broken": ddl_consts(NS=2, MaxStmts=4, Kinds={"begin", "rollback", "ins", "dropChk", "sel"}) if thorough else None}


def run_sqltx(chk, args):
    prof = profile(chk.pid, chk.tier)
    binp = vlib.go_build("c12")
    wd = vlib.scratch(chk.pid)
    base = consts()

    # 1. design, exhaustive; 2. code as transcribed, one quirk at a time; 3. simulation of the design (all in parallel)
    t0 = time.time()
    ex = cf.ThreadPoolExecutor(int(os.environ.get("VERIF_PAR", "8")))
    if True:
        fd = [(name, ex.submit(mc_design, name, c, w)) for name, c, w in prof["design"]]
        fc = [(name, c, ex.submit(mc_code, name, c, expect)) for name, c, expect in prof["code"]]
        fs = [(c, num, ex.submit(simulate, c, num, chk.seed * 1000 + i)) for i, (c, num) in enumerate(prof["sim"])]
        fu = {idx: (os.path.join(wd, "uniq_%s.json" % idx), ex.submit(uniq_cases, idx, hists, os.path.join(wd, "uniq_%s.json" % idx)))
              for idx, hists in prof.get("uniq", [])}
        pc = prof.get("cat")
        if pc:
            fcd = [(name, ex.submit(cat_design, name, c, w)) for name, c, w in pc["design"]]
            fcb = [(q, ex.submit(cat_broken, q, c)) for q, c in pc["broken"]]
            fcs = [ex.submit(cat_simulate, c, num, chk.seed * 1000 + 50 + i) for i, (c, num) in enumerate(pc["sim"])]
        cex = []
        for name, c, fut in fc:
            res, stmts = fut.result()
            chk.add_tlc(res, "SQLTx code Quirks={%s} -> %s" % (name, res.violation))
            cex.append((name, res.violation, stmts, c))
        behaviours = {}   # uidx -> list
        for c, num, fut in fs:
            res, bs = fut.result()
            chk.add_tlc(res, "SQLTx -simulate NS=%d MaxStmts=%d num=%d" % (c["NS"], c["MaxStmts"], num))
            behaviours.setdefault(c["InitUIdx"], []).extend(bs)
        for name, fut in fd:
            res = fut.result()
            chk.add_tlc(res, "SQLTx design [%s]" % name)
    vlib.log("[tlc] model checking + simulation %.1fs" % (time.time() - t0))
    for uidx in (True, False):
        lists = [stmts for name, viol, stmts, c in cex if c["InitUIdx"] == uidx]
        names = [(name, viol) for name, viol, stmts, c in cex if c["InitUIdx"] == uidx]
        if lists:
            for (name, viol), steps in zip(names, design_predict(lists, dict(base, InitUIdx=uidx))):
                behaviours.setdefault(uidx, []).insert(0, {"origin": "tlc-counterexample:%s:%s" % (name, viol), "steps": steps})
    kinds = {}
    for bs in behaviours.values():
        for b in bs:
            for st in b["steps"]:
                kinds[st["k"] + ":" + st["out"]] = kinds.get(st["k"] + ":" + st["out"], 0) + 1
    chk.cov["model_step_classes"] = kinds
    for need in ("commit:ok", "commit:conflict", "insA:err", "insA:ok"):
        if not kinds.get(need):
            raise MachineryFault("vacuous: no %s step among the generated behaviours" % need)

    # 4. replay on the real engine (all harness runs side by side), 5. attribution
    selftest = bool(os.environ.get("VERIF_SELFTEST"))

    def h_replay(uidx, bs):
        p = os.path.join(wd, "beh_%d.json" % uidx)
        json.dump({"uidx": uidx, "behaviours": bs}, open(p, "w"))
        dd = os.path.join(wd, "d%d" % uidx)
        os.makedirs(dd)
        t0 = time.time()
        out, _ = vlib.run_harness(binp, ["-replay", p, "-dir", dd] + (["-selftest"] if selftest and uidx else []), timeout=1500)
        return uidx, len(bs), json.loads(out), time.time() - t0

    hx = cf.ThreadPoolExecutor(5)
    jr = [hx.submit(h_replay, uidx, bs) for uidx, bs in behaviours.items()]
    ju = hx.submit(uniq_exec, binp, wd, fu) if fu else None
    jc = hx.submit(cat_exec, binp, wd, fcd, fcb, fcs) if pc else None
    jd = hx.submit(ddl_exec, binp, wd, ddl_profile(chk.pid, chk.tier), chk.seed, ex)
    # 6. trace validation (meanwhile, in this thread)
    t0 = time.time()
    thorough = chk.tier == "thorough"
    trace_validation(chk, binp, wd, runs=40 if thorough else 8, workers=3, units=12 if thorough else 8)
    vlib.log("[tv] %.1fs" % (time.time() - t0))
    for j in jr:
        uidx, nb, r, secs = j.result()
        devs = (r.get("extra") or {}).pop("deviations", None) or []
        vlib.absorb(chk, r)
        t1 = time.time()
        who = attribute_for(chk, devs, dict(base, InitUIdx=uidx))
        vlib.log("[replay] uidx=%s %d behaviours %.1fs, %d deviations attributed in %.1fs" % (uidx, nb, secs, len(devs), time.time() - t1))
        report(chk, devs, who, "replay of TLC behaviours")
    chk.cov["behaviours_replayed"] = sum(len(b) for b in behaviours.values())
    chk.cov["steps_replayed"] = chk.cov["evaluations"]
    # 4b. C13: the same behaviours through the PostgreSQL wire front-end of an in-process server
    if chk.pid == "C13":
        t0 = time.time()
        bin13 = vlib.go_build("c13")
        dd = os.path.join(wd, "pgwire")
        limit = 150 if chk.tier == "thorough" else 24
        out, _ = vlib.run_harness(bin13, ["-replay", os.path.join(wd, "beh_1.json"), "-dir", dd, "-limit", str(limit)], timeout=1500)
        r = json.loads(out[out.index('{"evaluations"'):])
        devs = (r.get("extra") or {}).pop("deviations", None) or []
        nb = r.get("distinct_nontrivial", 0)
        r["distinct_nontrivial"] = 0
        vlib.absorb(chk, r)
        who = attribute_for(chk, devs, dict(base, InitUIdx=True))
        report(chk, devs, who, "replay through the PostgreSQL wire front-end")
        chk.cov["pgwire"] = {"behaviours": nb, "steps": r.get("evaluations", 0), "deviations": len(devs)}
        vlib.log("[pgwire] %d behaviours %.1fs, %d deviations" % (nb, time.time() - t0, len(devs)))
    # 5b. C12: composite unique indexes (directed enumeration) and catalog visibility across the sessions of one engine
    ddl_post(chk, jd.result())
    if jc:
        cat_post(chk, jc.result())
    if ju:
        uniq_post(chk, ju.result())
    hx.shutdown()
    return binp, wd


# ------------------------------------------------------------------ trace validation of free-running sessions
def real_breach(rows):
    ids, us = set(), set()
    for r in rows:
        if r[0] in ids or r[1] in us or r[1] in ("NULL", "") or r[2] in ("NULL", "x", "") or len(r[1]) > 4 or len(r[2]) > 2:
            return True
        ids.add(r[0])
        us.add(r[1])
    return False


def serialise(events):
    """One run of free sessions -> the script of its committed units in the order of their commit tx ids."""
    units, scans, final = {}, [], None
    for ev in events:
        if ev["k"] == "scan":
            if ev.get("final"):
                final = ev["scan"] or []
            else:
                scans.append(ev["scan"] or [])
            continue
        units.setdefault((ev["w"], ev["unit"]), []).append(ev)
    committed, skipped = [], 0
    for key, evs in units.items():
        evs.sort(key=lambda e: e["seq"])
        lastev = evs[-1]
        if evs[0]["k"] == "begin":
            ok = lastev["k"] == "commit" and lastev["out"] == "ok" and lastev["commit"] > 0
        else:
            ok = lastev["out"] == "ok" and lastev["commit"] > 0
        if ok:
            committed.append((lastev["commit"], evs))
        else:
            skipped += 1
    committed.sort(key=lambda x: x[0])
    ids = [c for c, _ in committed]
    if len(set(ids)) != len(ids):
        raise MachineryFault("two units report the same commit tx id")
    steps = []
    for cid, evs in committed:
        for ev in evs:
            steps.append({"s": 1, "k": ev["k"], "id": ev["id"], "u": ev["u"], "v": ev["v"], "chk": 1, "ct": 0, "out": ev["out"],
                          "res": rows_back(ev["res"] or []), "cnt": ev["cnt"], "pk": ev["pk"], "commit": cid, "w": ev["w"]})
    return steps, scans, final, skipped


def trace_validation(chk, binp, wd, runs, workers, units):
    tf = os.path.join(wd, "free.ndjson")
    dd = os.path.join(wd, "free")
    os.makedirs(dd)
    out, _ = vlib.run_harness(binp, ["-free", tf, "-dir", dd, "-seed", str(chk.seed), "-runs", str(runs), "-workers", str(workers), "-units", str(units)], timeout=900)
    r = json.loads(out)
    r["traces"] = 0
    vlib.absorb(chk, r)
    byrun = {}
    for line in open(tf):
        ev = json.loads(line)
        byrun.setdefault(ev["run"], []).append(ev)
    scripts, meta = [], []
    maxid = 3
    for run in sorted(byrun):
        steps, scans, final, skipped = serialise(byrun[run])
        if final is None:
            raise MachineryFault("free run %d has no final scan" % run)
        for rows in scans + [final]:
            for row in rows:
                maxid = max(maxid, int(row[0]))
        for st in steps:
            maxid = max(maxid, st["id"], st["pk"])
        breach = any(real_breach(rows) for rows in scans + [final])
        script = steps + [{"ev": "scan", "rows": rows_back(rows), "cmp": 0} for rows in scans] + [{"ev": "scan", "rows": rows_back(final), "cmp": 1}]
        scripts.append(script)
        meta.append({"run": run, "steps": steps, "final": final, "breach": breach, "skipped": skipped, "committed": len({s["commit"] for s in steps})})
    c = consts(MaxId=maxid + 1, UVals={"a", "b", "c"}, ExplIds={1})
    got, res = trace_run([(set(), sc) for sc in scripts], c, tag="sqltx-tv")
    if res.violation or res.postcondition_failed:
        raise MachineryFault("TraceSQLTx rejected the trace file itself: %s\n%s" % (res.violation, res.out[-1500:]))
    chk.add_tlc(res, "TraceSQLTx: %d runs of %d free sessions, committed units in commit-id order" % (len(scripts), workers))
    devs, dscripts = [], []
    validated = 0
    for b, m in enumerate(meta):
        g = got.get(b)
        if g is None:
            if not m["steps"] and not m["final"]:
                continue
            raise MachineryFault("TraceSQLTx printed nothing for run %d" % m["run"])
        if not g["mism"]:
            if g["dead"]:
                raise MachineryFault("serial script of run %d is not applicable in the model" % m["run"])
            validated += 1
            continue
        i = g["mstep"]
        ev = scripts[b][i]
        field = g["mism"][1]
        if ev.get("ev") == "scan":
            kind = "scan"
            text = "free run %d: %s, model %s" % (m["run"], "a scanned table violates a declared constraint: %s" % ev["rows"] if field == "breach" else
                                                   "final table %s" % ev["rows"], g["steps"][-1]["tbl"] if g["steps"] else [])
            upto = [x for x in scripts[b][:i] if x.get("ev") != "scan"] + [dict(ev, cmp=2)]
        else:
            kind = ev["k"]
            model = g["steps"][i] if i < len(g["steps"]) else {}
            text = ("free run %d (%d sessions): in commit-id order, statement %d of the unit committed as tx %d (%s id=%s u=%s v=%s by session %d) was observed as "
                    "out=%s res=%s cnt=%s pk=%s; the design in that serial order gives out=%s res=%s cnt=%s pk=%s (%s differs)"
                    % (m["run"], workers, i, ev["commit"], ev["k"], ev["id"], ev["u"], ev["v"], ev["w"], ev["out"], ev["res"], ev["cnt"], ev["pk"],
                       model.get("out"), model.get("res"), model.get("cnt"), model.get("pk"), field))
            upto = scripts[b][:i + 1]
        if field != "breach":
            devs.append({"kind": kind, "class": "serial-order", "text": text, "step": i,
                         "origin": "free run %d seed %d" % (m["run"], chk.seed), "sql": None, "expected": None,
                         "observed": [dict(x) for x in upto][-12:]})
            dscripts.append(upto)
    # a scanned real table that violates a declared constraint is judged by itself (C12), wherever the first
    # serial-order mismatch of its run is: does the full transcription reproduce the whole run incl. its final table?
    bruns = [b for b, m in enumerate(meta) if m["breach"]]
    if bruns:
        full = [[x for x in scripts[b] if x.get("ev") != "scan"] + [dict(scripts[b][-1], cmp=2)] for b in bruns]
        got2, res2 = trace_run([(set(ALLQ), sc) for sc in full], c, tag="sqltx-tvb")
        if res2.violation or res2.postcondition_failed:
            raise MachineryFault("TraceSQLTx (breach attribution): %s\n%s" % (res2.violation, res2.out[-1500:]))
        bdevs, bwho = [], []
        for j, b in enumerate(bruns):
            m, g = meta[b], got2.get(j)
            bad = [rows for rows in [x["rows"] for x in scripts[b] if x.get("ev") == "scan"] if real_breach([[str(c0) for c0 in r] for r in rows])]
            text = "free run %d (%d sessions): a full scan of the real table shows %s, which violates a declared constraint" % (m["run"], workers, bad[0] if bad else m["final"])
            who_b = []
            if g and not g["dead"] and not g["mism"]:
                # the transcription follows the whole run: blame the quirks of the first step after which the model's table has a duplicate
                acc = set()
                for st in g["steps"]:
                    acc |= set(st.get("tags") or [])
                    us = [r[1] for r in st["tbl"]]
                    if len(us) != len(set(us)):
                        who_b = sorted(acc & UNIQ_QUIRKS) or sorted(acc)      # only these decisions admit a duplicate
                        break
                who_b = who_b or sorted(g["fired"]) or ["code-model"]
            bdevs.append({"kind": "scan", "class": "constraint-breach", "text": text, "step": len(full[j]) - 1, "origin": "free run %d seed %d" % (m["run"], chk.seed),
                          "sql": None, "expected": None, "observed": [dict(x) for x in full[j]][-14:]})
            bwho.append(who_b)
        report(chk, bdevs, bwho, "trace validation of free-running sessions")
    who = attribute_for(chk, devs, c, scripts=dscripts)
    report(chk, devs, who, "trace validation of free-running sessions")
    chk.cov["traces_validated_against_impl"] += validated
    chk.cov["free_runs"] = {"runs": len(meta), "accepted_in_full": validated, "committed_units": sum(m["committed"] for m in meta),
                            "units_not_committed": sum(m["skipped"] for m in meta), "first_mismatch": len(devs)}
    if sum(m["committed"] for m in meta) < runs:
        raise MachineryFault("vacuous trace validation: only %d committed units" % sum(m["committed"] for m in meta))


def run(chk, args):
    run_sqltx(chk, args)
    chk.assumptions += ["one table (auto-increment PK, unique NOT NULL column, CHECK, max length), values from small domains",
                        "sessions interleave at statement granularity in the replay; free concurrency only in the trace-validation part"]


if __name__ == "__main__":
    vlib.main(run, "C12", "model_checking")
