#!/usr/bin/env python3
"""C14 - value-log truncation keeps everything at or after the cut readable.

spec/Truncation.tla: value logs as sequences of placements cut into chunk files, committers that append all values
of a tx before they get their id, TruncateUptoTx(n) transcribed and split into its steps (back walk, reading the
walk bound, forward walk, one DiscardUpto per value log with the lock discipline), ExportTx with _valBsMux as an
explicit variable, restart.  TLC checks ReadableFromCut, HeadersIntact, ExportTerminates, ExportFullFromCut,
Idempotent, NoLockCycle exhaustively for the design and runs the code as transcribed (constants SeeInFlight, BoundPre,
HoldLogs, UnlockOnPartial; defaults below, overridable in spec/model_flags.json with the keys C14_<name>); the
counterexamples of the code variants and simulated behaviours are exported as schedules.
harness/cmd/c14 replays the schedules on a real store (ValuesAppended gate forces the placement order), compares
the projected real state with TLC's after every step, judges the property with a model-independent oracle, tries
every cut point, restarts; plus the pkg/database level, concurrent TruncateUptoTx calls and a free-running part.

VERIF_SELFTEST=1: the driver's copy of one committed value is altered  -> the check must report a violation (exit 1)
VERIF_SELFTEST=2: one chunk expectation printed by TLC is altered       -> model drift must be noticed (exit 2)"""
import json, os, sys, time, concurrent.futures as cf
sys.path.insert(0, os.path.join(os.path.dirname(os.path.abspath(__file__)), "..", "lib"))
import vlib
from vlib import MachineryFault

CFG = """CONSTANTS
  M = %(M)d
  F = %(F)d
  NW = %(NW)d
  Shapes = "%(Shapes)s"
  MaxTrunc = %(MaxTrunc)d
  NT = %(NT)d
  MaxExports = %(MaxExports)d
  NE = %(NE)d
  MaxAborts = %(MaxAborts)d
  MaxRestarts = %(MaxRestarts)d
  MaxInFlight = %(MaxInFlight)d
  WalkWindow = %(WalkWindow)d
%(more)s  SeeInFlight = %(SeeInFlight)s
  BoundPre = %(BoundPre)s
  FrontLt = %(FrontLt)s
  UnlockOnPartial = %(UnlockOnPartial)s
  HoldLogs = %(HoldLogs)s
  SplitCommit = %(SplitCommit)s
  Atomic = %(Atomic)s
  FineWalk = %(FineWalk)s
  Primed = %(Primed)s
  EmitTerminal = %(EmitTerminal)s
SPECIFICATION %(spec)s
INVARIANTS %(inv)s
%(view)s
CHECK_DEADLOCK FALSE
"""
ALLINV = "TypeOK ReadableFromCut HeadersIntact ExportTerminates ExportFullFromCut Idempotent NoLockCycle"
T, Fa = "TRUE", "FALSE"
DESIGN = dict(SeeInFlight=T, BoundPre=T, HoldLogs=Fa, UnlockOnPartial=T, FrontLt=Fa)


def tf(b):
    return T if b else Fa


def cfg(**kw):
    d = dict(M=2, F=2, NW=3, Shapes="min", MaxTrunc=1, NT=1, MaxExports=0, NE=1, MaxAborts=0, MaxRestarts=0, MaxInFlight=0, WalkWindow=0,
             more="", spec="Spec",
             SplitCommit=Fa, Atomic=Fa, FineWalk=Fa, Primed=Fa, EmitTerminal=Fa, inv=ALLINV, view="VIEW View")
    d.update(DESIGN)
    d.update(kw)
    return CFG % d


def run(chk, args):
    thorough = chk.tier == "thorough"
    selftest = os.environ.get("VERIF_SELFTEST", "")
    wd = vlib.scratch("C14")
    binp = vlib.go_build("c14")
    # the code as transcribed (what /repo does today); only TLC-side expectations depend on these, never verdicts
    code = dict(SeeInFlight=tf(vlib.model_flag("C14_SeeInFlight", False)), BoundPre=tf(vlib.model_flag("C14_BoundPre", False)),
                HoldLogs=tf(vlib.model_flag("C14_HoldLogs", True)), UnlockOnPartial=tf(vlib.model_flag("C14_UnlockOnPartial", True)), FrontLt=Fa)

    # ------------------------------------------------------------------ TLC jobs
    jobs = []   # (name, kind, cfg kwargs, workers, timeout, extra)

    def job(name, kind, kw, workers=3, timeout=600, extra=()):
        jobs.append((name, kind, kw, workers, timeout, tuple(extra)))

    big = thorough
    # design: exhaustive, must hold
    job("design writers x truncation (split commit, aborts)", "must-pass",
        dict(NW=4 if big else 3, Shapes="min", MaxTrunc=2 if big else 1, SplitCommit=T, MaxAborts=1), workers=6 if big else 3, timeout=1700)
    job("design two concurrent truncations", "must-pass", dict(NW=3 if big else 2, Shapes="min", MaxTrunc=2, NT=2, FineWalk=tf(big)), workers=4 if big else 3, timeout=1700)
    job("design export x truncation x restart", "must-pass",
        dict(NW=2, Shapes="std" if big else "exp", MaxTrunc=1, MaxExports=2 if big else 1, NE=2 if big else 1, MaxRestarts=1), timeout=1700)
    if big:    # (quick: three value logs are covered by the replayed simulations only)
        job("design three value logs", "must-pass", dict(M=3, NW=3, Shapes="min", MaxTrunc=2), timeout=1700)
    if big:
        job("design empty values, two-entry txs, walks one tx per step", "must-pass", dict(NW=3, Shapes="std", MaxTrunc=2, SplitCommit=T, FineWalk=T), workers=5, timeout=1700)
        job("design five txs, one value log", "must-pass", dict(M=1, NW=5, Shapes="min", MaxTrunc=2), workers=5, timeout=1700)
        job("design five txs, two value logs", "must-pass", dict(NW=5, Shapes="unit", MaxTrunc=1), workers=4, timeout=1700)
        job("design chunk of three values", "must-pass", dict(F=3, NW=3, Shapes="std", MaxTrunc=2), timeout=1700)
    # code as transcribed, same bounds (a counterexample is a candidate, decided on the real store below)
    if big:
        job("code two concurrent truncations", "code", dict(code, NW=2, Shapes="min", MaxTrunc=2, NT=2, inv="TypeOK NoLockCycle"))
        job("code writers x truncation", "code", dict(code, NW=3, Shapes="min", MaxTrunc=1, SplitCommit=T, MaxAborts=1))
        job("code export x truncation x restart", "code", dict(code, NW=2, Shapes="std", MaxTrunc=1, MaxExports=2, MaxRestarts=1, inv="TypeOK ExportTerminates ExportFullFromCut"))
        # each half of the repair alone is not enough
        job("teeth: walk bound = last pre-committed id, in-flight values ignored", "teeth:ReadableFromCut", dict(BoundPre=T, SeeInFlight=Fa, NW=3, Shapes="min", SplitCommit=T))
        job("teeth: in-flight values kept, walk bound = last committed id", "teeth:ReadableFromCut", dict(BoundPre=Fa, SeeInFlight=T, NW=3, Shapes="min", SplitCommit=T))
        # the seeded variants are caught by the model
        job("teeth: forward loop j < maxTxID", "teeth:ReadableFromCut", dict(FrontLt=T, NW=3, Shapes="min"))
        job("teeth: partial-truncation returns keep _valBsMux", "teeth:ExportTerminates", dict(UnlockOnPartial=Fa, NW=2, Shapes="std", MaxExports=1))
        job("teeth: value logs kept locked until return", "teeth:NoLockCycle", dict(HoldLogs=T, NW=2, Shapes="min", MaxTrunc=2, NT=2))
    # replayable counterexamples (primed, truncation/export atomic: forceable with the ValuesAppended gate alone)
    job("replay: code, committer parked over the truncation", "cex", dict(code, NW=4, Shapes="min", Primed=T, Atomic=T))
    job("replay: code + in-flight values kept, pre-committed tx over the truncation", "cex",
        dict(code, SeeInFlight=T, NW=4, Shapes="min", Primed=T, Atomic=T, SplitCommit=T))
    # the distance dimension (spec/TruncationDist.tla): a tx written early gets its id d = 1..D ids after the cut tx; D is larger
    # than every option of the replayed stores that could be mistaken for a bound of the forward walk (MaxConcurrency 2..4,
    # MaxActiveTransactions = MaxConcurrency + 1, MaxIOConcurrency 1..2)
    D = 6 if thorough else 5
    DINV = "TypeOK ReadableFromCut HeadersIntact Idempotent DistanceAsNamed DEmit"
    for m in (1, 2):
        job("distance family, %d value log(s), d = 1..%d" % (m, D), "dist",
            dict(code, _module="TruncationDist", spec="DSpec", more="  D = %d\n" % D, M=m, NW=m + D + 1, Shapes="min", MaxRestarts=1,
                 MaxInFlight=2, Primed=T, Atomic=T, inv=DINV, view=""), workers=1, timeout=900)
    if big:
        job("teeth: forward walk stops 2 txs past the cut (distance family)", "teeth:ReadableFromCut",
            dict(code, _module="TruncationDist", spec="DSpec", more="  D = %d\n" % D, M=1, NW=D + 2, Shapes="min", MaxRestarts=1,
                 MaxInFlight=2, WalkWindow=2, Primed=T, Atomic=T, inv=DINV.replace(" DEmit", ""), view=""), workers=1, timeout=900)
        job("teeth: forward walk stops 1 tx past the cut", "teeth:ReadableFromCut", dict(WalkWindow=1, NW=3, Shapes="min"))
    # simulated behaviours of the code as transcribed
    num = 260 if thorough else 30
    sims = [("sim two logs, split commit", dict(code, M=2, NW=6, Shapes="rich", MaxTrunc=2, MaxExports=2, MaxRestarts=1, MaxAborts=1, SplitCommit=T, MaxInFlight=2)),
            ("sim three logs", dict(code, M=3, NW=7, Shapes="rich", MaxTrunc=2, MaxExports=1, MaxRestarts=1, MaxAborts=1)),
            ("sim one log", dict(code, M=1, NW=5, Shapes="rich", MaxTrunc=2, MaxExports=1, MaxRestarts=1, MaxAborts=1, MaxInFlight=3)),
            ("sim two logs, chunk of three", dict(code, M=2, F=3, NW=6, Shapes="rich", MaxTrunc=3, MaxExports=1, SplitCommit=T))]
    if not thorough:
        sims = sims[:3]
    for i, (name, kw) in enumerate(sims):
        job(name, "sim", dict(kw, Primed=T, Atomic=T, EmitTerminal=T, inv="Emit", view=""), workers=1, timeout=900,
            extra=["-simulate", "num=%d" % num, "-depth", "120", "-seed", str(chk.seed * 101 + i)])

    def tlc(j):
        name, kind, kw, workers, timeout, extra = j
        sub = os.path.join(wd, "tlc%d" % jobs.index(j))
        os.makedirs(sub)
        return j, vlib.run_tlc(kw.get("_module", "Truncation"), "t.cfg", workdir=sub, workers=workers, timeout=timeout, extra=list(extra), files=[("t.cfg", cfg(**kw))])

    def harness(item):
        mode, a = item
        d = os.path.join(wd, "h_" + mode)
        os.makedirs(d)
        t1 = time.time()
        out, _ = vlib.run_harness(binp, a + ["-seed", str(chk.seed), "-dir", d], timeout=2400 if thorough else 900)
        vlib.log("[harness] %s in %.0fs" % (mode, time.time() - t1))
        try:
            return mode, json.loads(out)
        except ValueError:
            raise MachineryFault("harness %s: unparsable output %r" % (mode, out[:300]))

    # the parts that do not need TLC's output run while TLC runs
    side = {"db": ["-mode", "db", "-runs", "4" if thorough else "1", "-rounds", "30" if thorough else "14"],
            "free": ["-mode", "free", "-runs", "12" if thorough else "2"],
            "race": ["-mode", "race", "-runs", "3" if thorough else "1"]}
    hpool = cf.ThreadPoolExecutor(3)
    hfut = [hpool.submit(harness, it) for it in side.items()]
    t0 = time.time()
    with cf.ThreadPoolExecutor(6) as ex:
        results = list(ex.map(tlc, jobs))
    vlib.log("[tlc] %d runs in %.0fs" % (len(results), time.time() - t0))

    schedules, model_says = [], {}
    for (name, kind, kw, _, _, _), res in results:
        if res.error:
            raise MachineryFault("Truncation [%s]: %s" % (name, res.error))
        label = "Truncation %s: %s" % (name, res.violation or "no violation")
        chk.add_tlc(res, label)
        vlib.log("[tlc] %-70s %8d distinct %6.1fs  %s" % (name, res.distinct, res.wall, res.violation or ""))
        if kind == "must-pass":
            vlib.tlc_must_pass(res, "Truncation design [%s]" % name)
        elif kind.startswith("teeth:"):
            if res.violation != kind.split(":")[1]:
                raise MachineryFault("Truncation [%s]: expected a counterexample to %s, got %s: the model lost its teeth" % (name, kind.split(":")[1], res.violation))
        elif kind == "code":
            model_says[name] = res.violation
        elif kind == "cex":
            model_says[name] = res.violation
            if res.violation:
                st = vlib.error_trace_last_state(res.out)
                if not st or "hist" not in st:
                    raise MachineryFault("cannot parse the counterexample of [%s]" % name)
                schedules.append({"ops": st["hist"], "m": kw.get("M", 2), "f": kw.get("F", 2), "split": kw.get("SplitCommit") == T, "primed": True,
                                  "cut": st["cut"], "cuts": [], "origin": "tlc-counterexample:%s (%s)" % (res.violation, name)})
        elif kind == "dist":
            vlib.tlc_must_pass(res, "TruncationDist [%s]" % name)
            got = {}
            for b in vlib.printed_json(res.out):
                got.setdefault((b["d"], b["lay"]), b)       # the order of the DiscardUpto calls does not matter: one per history
            if {d for d, _ in got} != set(range(1, D + 1)):
                raise MachineryFault("TruncationDist [%s]: distances %s instead of 1..%d" % (name, sorted({d for d, _ in got}), D))
            for (d, lay), b in sorted(got.items()):
                for mc in ((2, 3, 4) if thorough else (2, 3)):
                    if not thorough and mc == 3 and d <= 3:
                        continue                              # quick: MaxConcurrency 3 only where the distance exceeds it
                    schedules.append(dict(b, mc=mc, origin="tlc-distance:d=%d,layout=%d,logs=%d,MaxConcurrency=%d" % (d, lay, b["m"], mc)))
        elif kind == "sim":
            if res.violation:
                raise MachineryFault("Truncation [%s]: %s" % (name, res.violation))
            bs = vlib.printed_json(res.out)
            if len(bs) < num // 2:
                raise MachineryFault("Truncation [%s] printed only %d behaviours" % (name, len(bs)))
            seen = set()
            for b in bs:
                key = json.dumps(b["ops"], sort_keys=True)
                if key in seen:
                    continue
                seen.add(key)
                b["origin"] = "tlc-simulate:" + name
                schedules.append(b)
    chk.cov["model_says_about_code_as_transcribed"] = model_says

    # ------------------------------------------------------------------ real code
    if selftest == "2":
        for s in schedules:
            hit = [o for o in s["ops"] if o["op"] == "tdiscard" and o["res"] == "done" and max(o["del"]) > 0]
            if hit:
                k = hit[0]["del"].index(max(hit[0]["del"]))
                hit[0]["del"][k] -= 1
                break
    sp = os.path.join(wd, "schedules.json")
    json.dump({"schedules": schedules, "unit": 32, "selftest": "value" if selftest == "1" else ""}, open(sp, "w"))
    hres = dict([harness(("replay", ["-mode", "replay", "-schedules", sp, "-cuts", "1" if thorough else "4"]))] + [f.result() for f in hfut])
    drift = 0
    for mode, r in hres.items():
        c = r.get("counters") or {}
        unrep = {k: v for k, v in c.items() if k.startswith("unreproduced:")}
        if unrep:
            raise MachineryFault("replayed schedules failed once and passed on the second execution: %s" % unrep)
        drift += c.get("drift", 0)
        if r.get("drift"):
            vlib.log("[drift] %s: %s" % (mode, r["drift"][:3]))
        vlib.absorb(chk, r)
    c = chk.cov.get("counters", {})
    need = ["placement-compared", "chunks-compared", "cut-points", "old-value:explicit-error", "old-value:still-served", "export:values",
            "export:digests", "export:error", "op:append(parked)", "op:commit", "op:restart", "op:DualProof", "op:Get", "repro:export-after-partially-truncated-tx",
            "trunc:tx-beyond-MaxConcurrency-in-file-below-cut-file", "replica:early-written-tx-layouts"] + ["trunc:early-written-tx-at-distance:%d" % d for d in range(1, D + 1)] + [
            "db:truncations", "db:restart", "db:refused-exports", "db:requests-after-refused-exports", "db:old-row-error", "db:row-served", "db:doc-served", "free:truncations", "race:each-call-held-one-log"]
    missing = [k for k in need if not c.get(k)]
    if missing and not chk.violations:
        # (a violation may starve a counter: e.g. a refused export that leaks its tx holder ends the scenario before it is counted)
        raise MachineryFault("vacuous run: counters %s are zero" % missing)
    if selftest == "2":
        if not drift:
            raise MachineryFault("binding self-test: an altered chunk expectation was not noticed")
        raise MachineryFault("binding self-test passed: the altered chunk expectation was noticed as model drift (%d notes)" % drift)
    if selftest == "1" and not chk.violations:
        raise MachineryFault("binding self-test: an altered committed value was not reported")
    chk.cov["schedules_replayed"] = len(schedules)
    chk.cov["truncations_by_distance_of_farthest_early_written_tx"] = {k.rsplit(":", 1)[1]: v for k, v in sorted(c.items()) if k.startswith("trunc:early-written-tx-at-distance:")}
    chk.cov["truncations_with_tx_beyond_MaxConcurrency_in_file_below_cut_file"] = c.get("trunc:tx-beyond-MaxConcurrency-in-file-below-cut-file", 0)
    chk.cov["model_drift_notes"] = drift
    chk.cov["rule"] = ("one trace per replayed schedule (TLC counterexample or simulated behaviour, every step compared), per database run, per free run, "
                       "per concurrent-truncation configuration; evaluations = transactions validated (all entries, all read paths)")
    chk.assumptions += [
        "value units of 32 bytes, chunk files of F units (file size 64..96 bytes on the replayed stores); 1..3 value logs; MaxConcurrency 2, 3, (4,) 16 "
        "and MaxActiveTransactions = MaxConcurrency + 1; a tx written early gets its id up to D = 5 (thorough 6) ids after the cut",
        "replayed schedules run TruncateUptoTx / ExportTx as one step (committers parked at the ValuesAppended gate across them); the finer "
        "interleavings (a committer between the walks and the discards) are covered by TLC and by the free-running part only",
        "the value log a committer gets is steered through the store's own unlocked-list discipline (reads move a log to the back of the list)",
        "crashes during truncation are not modelled (restart = Close + Open)"]


if __name__ == "__main__":
    vlib.main(run, "C14", "model_checking")
