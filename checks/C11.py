#!/usr/bin/env python3
"""C11 - SQL query results do not depend on the physical plan.
TLC evaluates spec/SQLQuery.tla (enumeration module): abstract tables t1 / t2, DML histories with their meaning,
a query AST fragment with its denotation, the schema variants, and the partition identity
Q = (Q AND P) + (Q AND NOT P) + (Q AND (P) IS NULL); it samples (schema variant, history, query) triples with
VERIF_SEED (every mutation sequence, every query and every predicate is met in every run), proves the partition
identity and the ORDER BY / NULL-first facts about the printed denotation and writes the cases as JSON.
harness/cmd/c11 builds every (history, schema) world on its own real store + embedded/sql engine, renders every
query in each physical form the schema offers (engine's index choice, USE INDEX ON each index / the primary key,
pushed-down vs. NOT (NOT (P)) vs. constant-first vs. derived-table predicates, hash vs. nested-loop / index
nested-loop joins, hash vs. index-ordered grouping, COUNT(*) fast paths) in three states (inside the writing
transaction, committed, after close + reopen) and compares every answer with the denotation."""
import json, os, re, sys
sys.path.insert(0, os.path.join(os.path.dirname(os.path.abspath(__file__)), "..", "lib"))
import vlib
from vlib import MachineryFault

CFG = """CONSTANTS
  OutFile = "%s"
  Seed = %d
  PerMut = %d
  SchemasPer = %d
  QMod = %d
  JMod = %d
  Q3Mod = %d
  PMod = %d
INIT Init
NEXT Next
CHECK_DEADLOCK FALSE
"""
FACTS = ["PartitionHolds", "SortedOK", "NullFirst"]
# every operator of the fragment, every statement kind, every state, every reader class must be reached
NEED_OPS = ["cmp=", "cmp<>", "cmp<", "cmp<=", "cmp>", "cmp>=", "between", "in", "not-in", "like", "not-like", "isnull",
            "not-isnull", "and", "or", "not", "bool", "insub", "not-insub"]
NEED_QUERY = ["rows", "rows+order", "rows+order+limit", "rows+limit", "rows+distinct", "rows+distinct+order",
              "rows+distinct+order+limit", "group", "group+having", "aggregate", "inner-join/rows", "left-join/rows",
              "inner-join/group", "left-join/aggregate"]
NEED_STMT = ["ins", "upsert", "insdn", "upd", "del"]
NEED_STATE = ["intx", "committed", "reopened"]
NEED_READERS = ["raw[pk]", "raw[secondary]", "raw[composite]", "raw[unique]", "conditional", "sort", "sort:topN", "distinct",
                "limit", "offset", "grouped", "hashGrouped", "counting", "keyFilterCounting", "joint", ":desc]"]
# situations the seeded-change review asked the check never to be vacuous about (counted by the harness from what really ran)
NEED_GUARDS = ["class1:cross-type-range-on-float-leading-column/rows-on-next-column/index(f,g)",
               "class1:cross-type-range-on-float-leading-column/group-on-next-column/index(f,g)",
               "class2:multi-column-nullable-group-by/hash", "class2:multi-column-nullable-group-by/hash/in-writing-tx",
               "class2:multi-column-nullable-group-by/streaming", "join:order-by-inner-table-column",
               "join:hash-join-with-correlated-non-equi-conjunct", "order:explicit-nulls-placement-served-by-index"]
NEED_FORMS = ["idx:engine/where:plain", "idx:forced/where:plain", "idx:forced/where:notnot", "idx:engine/where:flip",
              "derived-table", "join:hash/outer:engine", "join:nested/outer:engine", "join:hash/outer:forced",
              "join:nested/inner:forced", "join:derived-inner", "join:hash-unqualified-inner", "join:hash/where:unqualified",
              "partition"]


def run(chk, args):
    replay = None
    if args.replay:
        replay = json.load(open(args.replay))
        chk.seed = int(replay.get("seed", chk.seed))
        chk.tier = replay.get("tier", chk.tier)
    thorough = chk.tier == "thorough"
    permut, schemas_per, qmod, jmod, q3mod, pmod = (6, 4, 7, 5, 5, 2) if thorough else (2, 3, 31, 17, 17, 7)
    binp = vlib.go_build("c11")
    wd = vlib.scratch("c11_")
    out = os.path.join(wd, "cases.json")
    os.makedirs(os.path.join(wd, "tlc"))
    res = vlib.run_tlc("SQLQuery", "sqlquery.cfg", workdir=os.path.join(wd, "tlc"), workers=1, timeout=1500 if thorough else 400,
                       files=[("sqlquery.cfg", CFG % (out, chk.seed, permut, schemas_per, qmod, jmod, q3mod, pmod))])
    vlib.tlc_must_pass(res, "SQLQuery")
    chk.add_tlc(res, "SQLQuery PerMut=%d SchemasPer=%d QMod=%d JMod=%d Q3Mod=%d PMod=%d Seed=%d" % (permut, schemas_per, qmod, jmod, q3mod, pmod, chk.seed))
    facts, counts = {}, {}
    for line in res.out.splitlines():
        line = line.strip()
        if line.startswith("<<\"") and line.endswith(">>"):
            v = vlib.parse_tla(line)
            if v[0] == "count":
                counts[v[1]] = v[2]
            else:
                facts[v[0]] = v[1:]
    for k in FACTS:
        if facts.get(k) != [True]:
            raise MachineryFault("model fact %s is %r (the denotation printed by SQLQuery.tla is not what the module claims)" % (k, facts.get(k)))
    chk.cov["model_facts"] = facts
    chk.cov["enumerated"] = counts
    for k in ["histories", "cases", "partitions", "join cases", "t3 cases", "multi-column GROUP BY split cases", "touchy cases", "cases with a non-empty answer", "partitions with a non-empty NULL part",
              "histories with a transaction", "histories whose transaction removes rows"] + ["histories with " + s for s in NEED_STMT]:
        if not counts.get(k):
            raise MachineryFault("SQLQuery.tla enumerated no %s (vacuous run)" % k)
    for k, v in counts.items():
        if k.startswith("worlds under schema") and not v:
            raise MachineryFault("no world under a schema variant: %s" % k)
    if counts["histories"] < max(qmod, jmod, q3mod):
        raise MachineryFault("%d histories < modulus %d: some queries would meet no history" % (counts["histories"], max(qmod, jmod, q3mod)))
    if not os.path.exists(out):
        raise MachineryFault("TLC did not write %s" % out)

    ddir = os.path.join(wd, "d")
    os.makedirs(ddir)
    workers = max(2, min(8, vlib.NCPU // 2))
    hargs = ["-cases", out, "-seed", str(chk.seed), "-dir", ddir, "-workers", str(workers)]
    if os.environ.get("VERIF_SELFTEST"):
        hargs.append("-selftest")
    if replay and isinstance(replay.get("replay"), dict) and replay["replay"].get("history") and replay["replay"].get("schema_id"):
        hargs += ["-only", "%d/%d" % (replay["replay"]["history"], replay["replay"]["schema_id"])]
    o, _ = vlib.run_harness(binp, hargs, timeout=3000 if thorough else 900)
    r = json.loads(o)
    ctr = r.get("counters") or {}
    if not replay:
        need = ["op:" + x for x in NEED_OPS] + ["query:" + x for x in NEED_QUERY + ["t3/rows+order", "t3/group", "t3/rows+distinct", "t3/rows+order+limit"]] + ["state:" + x for x in NEED_STATE] + \
               ["form:" + x for x in NEED_FORMS] + ["guard:" + x for x in NEED_GUARDS] + ["stmt:ins:in-tx", "stmt:upd:in-tx", "stmt:del:in-tx", "stmt:ins:autocommit",
                "stmt:upd:autocommit", "stmt:del:autocommit", "touchy:refused", "touchy:answered", "partition:checked", "world"]
        for k in need:
            if not ctr.get(k):
                raise MachineryFault("harness did not reach %s (vacuous run)" % k)
        for s in NEED_STMT:
            if not ctr.get("stmt:%s:autocommit" % s) and not ctr.get("stmt:%s:in-tx" % s):
                raise MachineryFault("harness executed no %s statement (vacuous run)" % s)
        plans = [k[5:] for k in ctr if k.startswith("plan:")]
        for rd in NEED_READERS:
            if not any(rd in p for p in plans):
                raise MachineryFault("no query was served by a %s reader (vacuous run)" % rd)
        if ctr.get("world") != counts.get("worlds"):
            raise MachineryFault("harness ran %s worlds, the spec wrote %s" % (ctr.get("world"), counts.get("worlds")))
    vlib.absorb(chk, r)
    chk.cov["plan_classes_compared"] = {k[5:]: v for k, v in sorted(ctr.items()) if k.startswith("plan:")}
    chk.cov["guards"] = {k[6:]: v for k, v in sorted(ctr.items()) if k.startswith("guard:")}
    chk.cov["forms_compared"] = {k[5:]: v for k, v in sorted(ctr.items()) if k.startswith("form:")}
    chk.cov["rule"] = ("cases = (schema variant, DML history, query) triples sampled by spec/SQLQuery.tla with VERIF_SEED so that every "
                       "mutation sequence, every one of the %s queries and every predicate of the partition identity is met at least once per "
                       "run; evaluations = SQL texts executed on the real engine and compared with the denotation (each triple in every "
                       "physical form its schema offers x 3 states); distinct_nontrivial = distinct (history, query, form, forced index) "
                       "combinations whose expected answer is not empty" % counts.get("queries"))
    chk.cov["exhaustive"] = False
    chk.assumptions += [
        "model-based test generation: the verdict is only as wide as the enumerated fragment (2 tables, <= 6 rows, the predicates / shapes / "
        "joins listed in SQLQuery.tla, a third table t3 with a FLOAT column and pairs of nullable columns, 8 schema variants, 19 mutation sequences x 5 base tables x 3 transaction splits)",
        "the denotation models the engine's dialect where it is plan-independent by construction: total comparison with NULL least and "
        "NULL = NULL, LIMIT without ORDER BY = any sub-bag, ties of ORDER BY = bags, global aggregates over an empty input = engine-defined "
        "cells that must agree across plans, UNKNOWN under AND/OR/NOT = the engine may refuse (error) or answer as Kleene logic does",
        "which reader served a query is read from the row-reader type chain (reflection); hash-join probing is not visible in the chain and "
        "is inferred from the join form",
        "historical queries (BEFORE / AFTER TX), scalar subqueries, FLOAT / TIMESTAMP / UUID / BLOB columns, sort spill files (> 1024 rows) "
        "are outside the fragment"]
    if replay:
        want = replay.get("signature")
        got = [s for s, _, _ in chk.violations] + [k[0] for k in chk.known]
        chk.notes.append({"replay": want, "reproduced": any(vlib._sig_match(want, g) or want == g for g in got)})
        chk.violations = [v for v in chk.violations if v[0] == want]


if __name__ == "__main__":
    vlib.main(run, "C11", "exploration")
