#!/usr/bin/env python3
"""C10 - the timed B-tree equals a multi-version ordered map; snapshots are immutable.

spec/TBTree.tla is the abstract state machine (map key -> versions, ts, frozen snapshot copies, readers as call
histories, durable image, compaction dumps).  TLC
  * checks the module's invariants exhaustively on small configurations (three aspects: writer/durability with
    the transcribed snapshot decision, snapshots/readers with any admissible decision, bulk shapes),
  * checks the "code as pinned" variant of the rejected-bulk path (counterexample expected, replayed),
  * runs directed scripts and -simulate, printing behaviours with the expected result of every read (for every
    admissible snapshot state) and the abstract state after every step.
harness/cmd/c10 replays every behaviour on the real tbtree on disk under six configuration classes and compares
every result, the whole tree after every step and every open snapshot after every step (plus concurrent reader
goroutines per snapshot) with what TLC printed."""
import concurrent.futures as cf, json, os, re, sys
sys.path.insert(0, os.path.join(os.path.dirname(os.path.abspath(__file__)), "..", "lib"))
import vlib
from vlib import MachineryFault

CFG = """CONSTANTS
  Keys <- %(keys)s
  Probes <- %(probes)s
  MaxTs = %(maxts)d
  MaxOps = %(ops)d
  MaxBulk = %(bulk)d
  TChoices = %(tch)s
  MaxSnaps = %(snaps)d
  MaxReaders = %(readers)d
  MaxFail = %(fail)d
  Decision = "%(decision)s"
  RollbackQuirk = %(quirk)s
  ReadOps = %(readops)s
  Sim = %(sim)s
  SeedSpace = %(seedspace)d
  EmitDepth = %(emit)d
  ScriptNo = %(script)d
SPECIFICATION Spec
INVARIANTS %(inv)s
%(props)s
%(view)s
CHECK_DEADLOCK FALSE
"""
INV = "GhostOK MapOK SnapshotFrozen SnapshotFresh CompactEqualsStateAtReportedTs StoredRootOK"
PROPS = "PROPERTIES SnapshotImmutable RejectKeeps FlushKeeps ReopenKeeps"
NSCRIPTS = 5
NMATRIX = 3


def cfg(**kw):
    d = dict(keys="Keys3", probes="Probes3", maxts=12, ops=4, bulk=1, tch="{0, 2}", snaps=1, readers=0, fail=1,
             decision="code", quirk="FALSE", readops="FALSE", sim="FALSE", seedspace=1, emit=0, script=0,
             inv=INV, props=PROPS, view="VIEW View")
    d.update(kw)
    return CFG % d


def tlc(name, text, workers, timeout, extra=()):
    return name, vlib.run_tlc("TBTree", "c10.cfg", workers=workers, timeout=timeout, extra=list(extra),
                              files=[("c10.cfg", text)], tag="C10" + name)


def run(chk, args):
    thorough = chk.tier == "thorough"
    binp = vlib.go_build("c10")
    wd = vlib.scratch("C10")
    if args.replay:
        return replay_file(chk, binp, wd, args.replay)
    quirk_is_code = vlib.model_flag("C10_RollbackQuirk", True)

    # ---- TLC jobs -------------------------------------------------------------------------------------------
    jobs = []
    a_ops, b_ops, c_ops = (6, 5, 3) if thorough else (5, 4, 3)
    # A: writer, flush/compaction/restart, snapshot decision as transcribed from the code
    jobs.append(("mc-writer", cfg(ops=a_ops, bulk=1, tch="{0, 2}" if thorough else "{0}", snaps=1, readers=0, decision="code"), 5, 2400, ()))
    # B: two snapshots, a reader, any admissible snapshot decision
    jobs.append(("mc-snapshots", cfg(ops=b_ops, bulk=1, tch="{0}", snaps=2, readers=1, decision="any"), 3, 2400, ()))
    # C: bulk shapes (repeated keys, same ts, explicit/stale/descending ts)
    jobs.append(("mc-bulk", cfg(ops=c_ops, bulk=2, tch="{0, 2, 99}", snaps=1, readers=0, decision="code"), 4, 2400, ()))
    # the rejected-bulk path as the pinned code has it
    jobs.append(("mc-bulk-code", cfg(ops=c_ops, bulk=2, tch="{0, 2, 99}", snaps=1, readers=0, decision="code", quirk="TRUE"), 1, 1200, ()))
    jobs.append(("scripts", cfg(ops=20, bulk=2, tch="{0, 1, 2}", snaps=1, readers=1, fail=2, decision="current",
                                readops="TRUE", script=99, inv=INV.replace(" StoredRootOK", "") + " Emit", props="", view=""), 1, 1200, ()))
    # reader matrix: three small trees, every (prefix, seek, end) over all strings of up to two symbols x inclusive flags x
    # order (plus IncludeHistory and offsets on a reduced probe set) and every HistoryReader spec
    jobs.append(("matrix", cfg(keys="KeysM", probes="ProbesAll", ops=20, bulk=3, tch="{0}", snaps=1, readers=1, fail=1,
                               decision="current", script=98, inv="GhostOK MapOK SnapshotFrozen SnapshotFresh Emit", props="", view=""),
                 3, 1800, ()))
    nsim, per = (8, 400) if thorough else (4, 64)
    depth = 20
    for i in range(nsim):
        uni = ("Keys5", "Probes5") if i % 2 == 0 else ("Keys3", "Probes3")
        jobs.append(("sim-%d-%s" % (i, uni[0]),
                     cfg(keys=uni[0], probes=uni[1], maxts=60, ops=depth, bulk=3, tch="{0, 1, 2, 99}", snaps=2, readers=2, fail=2,
                         decision="current", readops="TRUE", sim="TRUE", seedspace=4000, emit=depth,
                         inv="GhostOK MapOK SnapshotFrozen SnapshotFresh CompactEqualsStateAtReportedTs Emit", props="", view=""),
                     1, 1500, ("-simulate", "num=%d" % per, "-depth", str(depth + 2), "-seed", str(chk.seed * 1000 + i))))

    with cf.ThreadPoolExecutor(len(jobs)) as ex:
        results = dict(ex.map(lambda j: tlc(*j), jobs))

    behaviours = []
    for name, res in results.items():
        if name == "mc-bulk-code":
            continue
        vlib.tlc_must_pass(res, "TBTree[%s]" % name)
        chk.add_tlc(res, "TBTree " + name)
        if name in ("scripts", "matrix") or name.startswith("sim-"):
            bs = vlib.printed_json(res.out)
            want = NSCRIPTS if name == "scripts" else NMATRIX if name == "matrix" else per
            m = re.search(r"The number of states generated: (\d+)", res.out)      # simulation mode prints no distinct count
            if m and not res.generated:
                chk.cov["transitions"] += int(m.group(1))
                chk.cov["tlc_runs"][-1]["generated"] = int(m.group(1))
            if len(bs) < want:
                raise MachineryFault("TBTree[%s] printed %d behaviours, expected %d" % (name, len(bs), want))
            for b in bs:
                b["origin"] = name if name != "scripts" else "script:" + "+".join(o["op"] for o in b["ops"][:6])
            if name == "matrix":
                ncases = sum(len(b["ops"][-1]["cases"]) + len(b["ops"][-1]["pages"]) for b in bs)
                if ncases < 3 * 20000:
                    raise MachineryFault("reader matrix has only %d cases" % ncases)
                chk.cov["reader_matrix_cases"] = ncases
            behaviours += bs
    for name in ("mc-writer", "mc-snapshots", "mc-bulk"):
        if results[name].distinct < 1000:
            raise MachineryFault("TBTree[%s]: only %d states" % (name, results[name].distinct))

    # ---- the code-as-pinned model: a counterexample is a candidate, the verdict comes from replaying it ------------
    cm = results["mc-bulk-code"]
    if cm.error:
        raise MachineryFault("TBTree[mc-bulk-code]: " + cm.error)
    chk.add_tlc(cm, "TBTree mc-bulk-code RollbackQuirk=TRUE (counterexample expected: %s)" % cm.violation)
    if cm.violation:
        st = vlib.error_trace_last_state(cm.out)
        if not st or not isinstance(st.get("hist"), list) or len(st["hist"]) < 2:
            raise MachineryFault("cannot parse the TBTree counterexample")
        ops = st["hist"]
        # the property (not the pinned code) says what the state after the rejected call is: unchanged
        ops[-1]["ts"], ops[-1]["st"] = ops[-2]["ts"], ops[-2]["st"]
        behaviours.append({"keys": [[1], [1, 2], [2]], "ops": ops, "origin": "tlc-counterexample:" + cm.violation})
    elif quirk_is_code:
        chk.notes.append({"model-drift": "RollbackQuirk=TRUE no longer violates the invariants within the bound"})

    if os.environ.get("VERIF_SELFTEST") == "1":
        # binding self-test: one expected value is corrupted; the check must report a violation
        b = next(x for x in behaviours if x["origin"].startswith("script:") and x["ops"][2]["op"] == "compact")
        b["ops"][0]["st"][0][0][0] = 99
        vlib.log("[selftest] corrupted the expected state after step 1 of the compaction script")

    # ---- replay on the real tree ------------------------------------------------------------------------------------
    inp = os.path.join(wd, "behaviours.json")
    json.dump({"behaviours": behaviours}, open(inp, "w"))
    ddir = os.path.join(wd, "d")
    os.makedirs(ddir)
    out, _ = vlib.run_harness(binp, ["-in", inp, "-dir", ddir, "-seed", str(chk.seed), "-workers", "12", "-probe"], timeout=3000)
    r = json.loads(out)
    vlib.absorb(chk, r)
    ctr = r.get("counters") or {}

    # the counterexample of the code model must show up on the real code (or the model flag is stale)
    hit = any(v.get("replay", {}).get("origin", "").startswith("tlc-counterexample") for v in r.get("violations") or []) \
        or ctr.get("violation:BulkInsert:rejected-descending-ts:tree-is-an-earlier-state", 0) > 0
    if cm.violation and not hit:
        chk.notes.append({"model-drift": "the counterexample of the pinned-code model (rejected bulk rolls the tree back) did not "
                                         "reproduce on the real tree: set C10_RollbackQuirk=false in spec/model_flags.json"})

    # non-vacuity: every kind of operation and result reached the real code
    need = ["op:bulk", "op:incts", "op:snap", "op:closesnap", "op:newreader", "op:rread", "op:rreset", "op:rclose", "op:get",
            "op:between", "op:history", "op:prefix", "op:flush", "op:sync", "op:compact", "op:reopen",
            "rejected:bulk-descending-ts", "rejected:bulk-stale-ts", "rejected:snap-future-ts", "rejected:compact-target-exists",
            "reopen:loads-compaction-dump", "snapshot-reread", "snapshot:current-state", "reader:plain", "reader:hist", "reader:pages",
            "result:Get:ok", "result:GetBetween:ok", "result:GetBetween:notfound-final-below-oldest",
            "result:History:ok", "result:GetWithPrefix:ok", "result:Reader.Read:ok", "result:Reader.Read:nomore"]
    rare = ["result:GetBetween:notfound-gap", "result:History:nomore", "result:History:outofrange",
            "result:GetWithPrefix:notfound-first-has-other-prefix", "result:Reader.ReadBetween:ok", "result:HistoryReader.Read:ok",
            "snapshot:stale-state", "reader:reset-mid-history", "probe:concurrent-reads", "probe2:concurrent-reads"]
    need += ["matrix:cases", "matrix:seek==prefix", "matrix:stored-key==prefix", "matrix:seek==prefix==stored-key,exclusive",
             "matrix:end==prefix", "matrix:end==prefix==stored-key,exclusive", "matrix:seek-proper-prefix-of-prefix",
             "matrix:prefix-proper-prefix-of-seek", "matrix:exclusive-seek-on-stored-key", "matrix:inclusive-seek-on-stored-key",
             "matrix:exclusive-end-on-stored-key", "matrix:inclusive-end-on-stored-key", "matrix:empty-seek", "matrix:empty-prefix",
             "matrix:offset", "matrix:include-history", "matrix:history-reader-cases", "matrix:read-between-cases"]
    missing = [k for k in need if ctr.get(k, 0) == 0]
    if missing:
        raise MachineryFault("vacuous replay, never reached: %s" % ", ".join(missing))
    if [k for k in rare if ctr.get(k, 0) == 0]:
        chk.notes.append({"not-reached-in-this-run": [k for k in rare if ctr.get(k, 0) == 0]})
    if ctr.get("bg-iterations:10-99", 0) + ctr.get("bg-iterations:100+", 0) == 0:
        raise MachineryFault("vacuous replay: no concurrent reader completed ten passes over its snapshot")
    div = sum(v for k, v in ctr.items() if k.startswith("stopped-at-divergence"))
    if div * 20 > r.get("traces", 0):
        raise MachineryFault("%d of %d runs stopped because the real code decided differently from the model" % (div, r.get("traces", 0)))

    chk.cov["rule"] = ("behaviours = TLC -simulate walks (weighted operation table, 3- and 5-key universes with shared prefixes, "
                       "probes between/beyond keys), 5 directed scripts, 3 reader-matrix scripts (every reader specification over all "
                       "strings of up to 2 symbols on a snapshot of a small tree) and the counterexample of the pinned-code model; each is "
                       "replayed on 6 configuration classes; after every step the real tree (Get+History of every key, full reader "
                       "scans in both directions on the current root, Ts) and every open snapshot are compared with the abstract state")
    chk.cov["exhaustive"] = False
    chk.cov["behaviours"] = len(behaviours)
    chk.assumptions += ["no crash between operations (crash durability of the index is C03/C04's subject): restart = Close + Open",
                        "key universe: strings of up to 2 symbols over 3 symbols, concretised to equal-length byte blocks "
                        "(1, 3, 4, 8, 16 bytes per symbol, boundary bytes 0x00/0xff, keys of exactly MaxKeySize)",
                        "operations are issued sequentially by one writer; concurrency = reader goroutines on snapshots",
                        "replay classes never evict opened log files (the eviction race of multiapp is reproduced by a separate probe)"]


def replay_file(chk, binp, wd, path):
    """re-run a saved replay file (one behaviour prefix on one configuration class)"""
    rp = json.load(open(path))["replay"]
    if "ops" not in rp:
        raise MachineryFault("replay file has no operations (probe findings are re-run by the check itself)")
    inp = os.path.join(wd, "behaviours.json")
    json.dump({"behaviours": [{"keys": rp["keys"], "ops": rp["ops"], "origin": rp.get("origin", "replay")}]}, open(inp, "w"))
    ddir = os.path.join(wd, "d")
    os.makedirs(ddir)
    out, _ = vlib.run_harness(binp, ["-in", inp, "-dir", ddir, "-seed", str(rp.get("seed", chk.seed)), "-classes", rp["class"]])
    vlib.absorb(chk, json.loads(out))


if __name__ == "__main__":
    vlib.main(run, "C10", "model_checking")
