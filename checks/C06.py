#!/usr/bin/env python3
"""C06 - the key-value API is linearizable; conditional writes are atomic.

(1) TLC checks spec/MCKVLin.tla exhaustively (3 clients, 2 keys, <= 3 ops each, scripts drawn from VERIF_SEED): the
    specification of atomicity (spec/KVLin.tla) says what is intended (PreIff, OneTx, RealTime, RelaxedBound) and both
    branches of conditional writes are reached (per-action coverage).
(2) harness/cmd/c06 lets 3-6 goroutines call the REAL pkg/database.DB concurrently over 8 keys / 2 sorted sets while the
    indexer runs freely and a maintenance goroutine calls FlushIndex / CompactIndex; it logs Call/Ret events with a global
    sequence number, cut into windows of 40-60 operations at quiescent points.
(3) TLC (spec/TraceKVLin.tla) places the unlogged linearization points: a window is accepted iff a linearization exists.
    The abstract state at every quiescent point comes from the trace itself (TLC prints it), never from the database.
(4) a rejected window is saved with the abstract state before it, re-validated alone (must be rejected again) and
    classified by TLC (would it be explained by checks/reads on an out-of-date index state? by a reference resolved in
    two steps?) -> signature -> known finding or VIOLATION."""
import json, os, random, re, sys, threading, time, concurrent.futures as cf
sys.path.insert(0, os.path.join(os.path.dirname(os.path.abspath(__file__)), "..", "lib"))
import vlib
from vlib import MachineryFault

TRACE_CFG = """CONSTANTS
  Clients <- TClients
  KeySeq <- TKeySeq
  KeyGroup <- TKeyGroup
SPECIFICATION TraceSpec
INVARIANT CutInv
CONSTRAINT HighWater
POSTCONDITION TraceAccepted
CHECK_DEADLOCK FALSE
"""

MC_CFG = """CONSTANTS
  Clients <- MCClients
  KeySeq <- MCKeySeq
  KeyGroup <- MCKeyGroup
SPECIFICATION MCSpec
INVARIANT LinInv
PROPERTIES PreIff OneTx RealTime RelaxedBound
POSTCONDITION MCReport
CHECK_DEADLOCK FALSE
"""


# ---------------------------------------------------------------- (1) exhaustive sanity of KVLin.tla
def mk_op(t, **kw):
    d = dict(t=t, k="", rk="", set="", sc=0, at=0, kvs=[], keys=[], pre=[], ops=[], mode="", n=0, prefix="", desc=False, limit=0, offset=0)
    d.update(kw)
    return d


def mc_scripts(seed, lens):
    """Per client a short script over keys a0, b0: conditional writes racing on a0, deletes, references, sorted set, reads."""
    rng = random.Random(seed * 977 + 5)
    ks = ["a0", "b0"]
    nv = [0]

    def val(c):
        nv[0] += 1
        return "c%d-%d" % (c, nv[0])

    def pre(k):
        return [rng.choice([{"t": "N", "k": k, "tx": 0}, {"t": "E", "k": k, "tx": 0}, {"t": "M", "k": k, "tx": rng.randint(1, 2)}])]

    def xop(t, **kw):
        d = dict(t=t, k="", v="", rk="", set="", sc=0, at=0, b=False)
        d.update(kw)
        return d

    def gen(c):
        r = rng.randrange(12)
        k = rng.choice(ks)
        if r < 4:
            return mk_op("Set", kvs=[{"k": "a0", "v": val(c)}], pre=pre("a0"))
        if r == 4:
            return mk_op("Set", kvs=[{"k": "a0", "v": val(c)}, {"k": "b0", "v": val(c)}], pre=pre(k))
        if r == 5:
            return mk_op("Del", keys=[k])
        if r == 6:
            return mk_op("Ref", k="b0", rk="a0", pre=pre("b0") if rng.random() < .5 else [])
        if r == 7:
            return mk_op("Exec", ops=[xop("Kv", k="a0", v=val(c)), xop("ZAdd", k="a0", set="z0", sc=rng.randint(0, 1), b=True)], pre=pre("a0"))
        if r == 8:
            return mk_op("Get", k=k, mode=rng.choice(["def", "def", "since", "nowait", "atrev"]), n=1)
        if r == 9:
            return mk_op("Scan", prefix="", desc=rng.random() < .5)
        if r == 10:
            return mk_op("ZScan", set="z0")
        return mk_op("Get", k=k, mode="def")

    scripts = []
    for c, n in enumerate(lens, 1):
        s = [gen(c) for _ in range(n)]
        scripts.append(s)
    # make sure a racing create-if-absent pair and a read are always present
    scripts[0][0] = mk_op("Set", kvs=[{"k": "a0", "v": "c1-0"}], pre=[{"t": "N", "k": "a0", "tx": 0}])
    scripts[1][0] = mk_op("Set", kvs=[{"k": "a0", "v": "c2-0"}], pre=[{"t": "N", "k": "a0", "tx": 0}])
    scripts[2][-1] = mk_op("Get", k="a0", mode="def")
    return scripts


def run_mc(chk, wd, out):
    try:
        lens = (3, 3, 3) if chk.tier == "thorough" else (2, 2, 2)
        scripts = mc_scripts(chk.seed, lens)
        sub = os.path.join(wd, "mc")
        os.makedirs(sub, exist_ok=True)
        sf = os.path.join(sub, "script.json")
        json.dump(scripts, open(sf, "w"))
        res = vlib.run_tlc("MCKVLin", "mc.cfg", workdir=sub, workers=1, timeout=2400 if chk.tier == "thorough" else 600,
                           files=[("mc.cfg", MC_CFG)], env={"VERIF_SCRIPT": sf}, tag="C06mc")
        out["res"] = res
        out["scripts"] = scripts
    except Exception as ex:  # re-raised in the main thread
        out["exc"] = ex


# ---------------------------------------------------------------- TLC output parsing
_RE_JSONLINE = re.compile(r'<<\s*"(JSON|HW):",\s*(".*?")\s*>>\s*$', re.S | re.M)


def parse_tv(out):
    """-> (cuts: {w: {"strict": state or None, "lenient": state or None}}, hw: {w: line})"""
    cuts, hw = {}, {}
    for m in _RE_JSONLINE.finditer(out):
        try:
            v = json.loads(json.loads(m.group(2)))
        except Exception as ex:
            raise MachineryFault("cannot parse TLC output %r: %s" % (m.group(0)[:200], ex))
        if m.group(1) == "HW":
            hw = {int(a): int(b) for a, b in v}
        else:
            c = cuts.setdefault(v["w"], {})
            if not v["strict"]:
                c["lenient"] = v
            elif "lenient" in c or True:
                c.setdefault("strict_all", []).append(v)
    # a write that failed with an unclassified error "may or may not have been committed": a strict behaviour that assumed
    # it was can reach the Cut with a state that the acknowledged tx ids do not support; only strict passes that agree with the
    # re-synchronised (lenient) state count
    for c in cuts.values():
        ok = [v for v in c.get("strict_all", []) if "lenient" not in c or
              (all(v[k] == c["lenient"][k] for k in ("committed", "kv")) and
               sorted(json.dumps(z, sort_keys=True) for z in v["zs"]) == sorted(json.dumps(z, sort_keys=True) for z in c["lenient"]["zs"]))]
        if ok:
            c["strict"] = ok[0]
    return cuts, hw


def tv(wd, tag, lines, diag="", timeout=1500, diag_k=None):
    sub = os.path.join(wd, "tv_" + tag)
    os.makedirs(sub, exist_ok=True)
    tf = os.path.join(sub, "trace.ndjson")
    with open(tf, "w") as fh:
        fh.writelines(lines)
    env = {"VERIF_TRACE": tf}
    if diag:
        env["VERIF_DIAG"] = diag
    if diag_k:
        env["VERIF_DIAG_K"] = str(diag_k)
    res = vlib.run_tlc("TraceKVLin", "tv.cfg", workdir=sub, workers=1, timeout=timeout, files=[("tv.cfg", TRACE_CFG)], env=env, dfs=True, tag="C06tv")
    if res.error and not res.postcondition_failed:
        raise MachineryFault("trace validation (%s): %s" % (tag, res.error))
    if res.violation:
        raise MachineryFault("trace validation (%s): invariant %s of KVLin violated by the specification's own state\n%s" % (tag, res.violation, res.out[-2000:]))
    if res.postcondition_failed:
        m = re.search(r'"TRACE-STUCK-AT-LINE",\s*(\d+)', res.out)
        raise MachineryFault("trace validation (%s): the abstract state cannot be re-synchronised past line %s "
                             "(acknowledged writes do not have consecutive tx ids?)" % (tag, m.group(1) if m else "?"))
    cuts, hw = parse_tv(res.out)
    return res, cuts, hw


# ---------------------------------------------------------------- windows
class Window:
    def __init__(self, group, w, epoch, first):
        self.group, self.w, self.epoch, self.first = group, w, epoch, first  # first: first window of its epoch
        self.kind, self.cfg = "random", ""
        self.audit = w >= 100000   # read-everything-back window at the end of a database instance (not counted)
        self.lines = []      # raw ndjson lines (Call/Ret/Maint), without Reset / Cut
        self.reset = None    # the Reset line if first
        self.start = 0       # 1-based line number of the first line in the group's trace
        self.init = None     # abstract state before the window (dict) or None if fresh database


def split_windows(group, lines):
    wins, cur, reset, epoch = [], None, None, None
    for i, ln in enumerate(lines, 1):
        e = json.loads(ln)
        if e["ev"] == "Reset":
            reset, epoch = ln, e
            continue
        if cur is None:
            cur = Window(group, e["w"], e["epoch"], reset is not None)
            cur.reset, cur.start, cur.cfg = reset, i, (epoch or {}).get("cfg", "")
            m = re.search(r"kind=(\w+)", cur.cfg)
            cur.kind = m.group(1) if m else "random"
            reset = None
        if e["ev"] == "Cut":
            wins.append(cur)
            cur = None
        else:
            cur.lines.append(ln)
    if cur is not None:
        raise MachineryFault("trace of group %d does not end with a Cut" % group)
    return wins


def standalone(win, w):
    """The window as a self-contained trace (Init state + events + Cut), window id renumbered to w."""
    out = []
    if win.init is None:
        out.append(json.dumps({"ev": "Reset", "w": w}) + "\n")
    else:
        st = {k: win.init[k] for k in ("committed", "kv", "zs", "orph")}
        out.append(json.dumps({"ev": "Init", "w": w, "state": st}) + "\n")
    for ln in win.lines:
        e = json.loads(ln)
        e["w"] = w
        out.append(json.dumps(e) + "\n")
    out.append(json.dumps({"ev": "Cut", "w": w}) + "\n")
    return out


def op_name(op):
    n = op["t"]
    if op["t"] == "Get":
        n += ":" + op["mode"]
    if op.get("pre"):
        n += ":pre"
    return n


def version_lists(win):
    """key -> [(tx, kind, value)] after the window: the state before it plus the acknowledged writes (tx order); and
    tx -> sequence number at which that write was acknowledged."""
    kv = {k: [(x["tx"], x["kind"], x["v"]) for x in v] for k, v in (win.init["kv"] if win.init else {}).items()}
    acks, calls = {}, {}
    for e in (json.loads(x) for x in win.lines):
        if e["ev"] == "Call":
            calls[e["c"]] = e
        elif e["ev"] == "Ret" and e["res"]["e"] == "ok" and e["res"]["tx"] > 0:
            acks[e["res"]["tx"]] = (calls[e["c"]]["op"], e["seq"])
    for tx in sorted(acks):
        op = acks[tx][0]
        if op["t"] == "Set":
            for x in op["kvs"]:
                kv.setdefault(x["k"], []).append((tx, "v", x["v"]))
        elif op["t"] == "Del":
            for k in op["keys"]:
                kv.setdefault(k, []).append((tx, "d", ""))
        elif op["t"] == "Ref":
            kv.setdefault(op["k"], []).append((tx, "r", ""))
        elif op["t"] == "Exec":
            for x in op["ops"]:
                if x["t"] in ("Kv", "Ref"):
                    kv.setdefault(x["k"], []).append((tx, "v" if x["t"] == "Kv" else "r", x["v"]))
    return kv, {tx: a[1] for tx, a in acks.items()}


# ---------------------------------------------------------------- binding self-test
def synthetic_split_history():
    """Hand-written history (not a recording): b2 -> a0; a concurrent Get(b2) returns a0's value of tx 5 through b2's version
    of tx 3, although b2 was re-pointed to a1 at tx 4.  Used only to test the classification machinery."""
    def ent(**kw):
        d = dict(k="", v="", tx=0, rev=0, rk="", rtx=0, rrev=0, rat=0, sc=0, zat=0, d=False)
        d.update(kw)
        return d
    ok = lambda tx: {"e": "ok", "tx": tx, "ents": [], "n": 0}
    steps = [(1, mk_op("Set", kvs=[{"k": "a0", "v": "c1-1"}]), ok(1), True),
             (1, mk_op("Set", kvs=[{"k": "a1", "v": "c1-2"}]), ok(2), True),
             (1, mk_op("Ref", k="b2", rk="a0"), ok(3), True),
             (2, mk_op("Get", k="b2", mode="def"),
              {"e": "ok", "tx": 0, "ents": [ent(k="a0", v="c1-3", tx=5, rev=2, rk="b2", rtx=3, rrev=1)], "n": 0}, False),
             (1, mk_op("Ref", k="b2", rk="a1"), ok(4), True),
             (1, mk_op("Set", kvs=[{"k": "a0", "v": "c1-3"}]), ok(5), True)]
    out, seq, late = [{"ev": "Reset", "w": 0}], 0, None
    for c, op, res, ret_now in steps:
        seq += 1
        out.append({"ev": "Call", "c": c, "seq": seq, "op": op, "res": res, "w": 0})
        if ret_now:
            seq += 1
            out.append({"ev": "Ret", "c": c, "seq": seq, "res": res, "w": 0})
        else:
            late = (c, res)
    out.append({"ev": "Ret", "c": late[0], "seq": seq + 1, "res": late[1], "w": 0})
    out.append({"ev": "Cut", "w": 0})
    return [json.dumps(e) + "\n" for e in out]


def selftest(chk, wd, wins):
    """(a) a Get is made to return the version that was overwritten before the Get was called -> must be rejected (and
    classified 'stale'); (b) the Ret of an acknowledged write is dropped -> the operation stays pending and the window must
    still be accepted (its effect is needed to explain the tx ids of later writes)."""
    stale = dropped = None
    for win in wins:
        evs = [json.loads(x) for x in win.lines]
        if stale is None:
            truth, ack_seq = version_lists(win)
            for i, e in enumerate(evs):
                if e["ev"] != "Call" or e["op"]["t"] != "Get" or e["op"]["mode"] != "def" or e["res"]["e"] != "ok":
                    continue
                ent = e["res"]["ents"][0]
                vs = truth.get(ent["k"], [])
                r = ent["rev"]
                # the returned version and the one before it are plain values; the returned one was acknowledged before the call
                if ent["rk"] or r < 2 or r > len(vs) or vs[r - 1][0] != ent["tx"] or vs[r - 2][1] != "v" or ack_seq.get(ent["tx"], 1 << 62) > e["seq"]:
                    continue
                ptx, _, pv = vs[r - 2]
                bad = dict(ent, v=pv, tx=ptx, rev=r - 1)
                lines = list(win.lines)
                e2 = dict(e, res=dict(e["res"], ents=[bad]))
                lines[i] = json.dumps(e2) + "\n"
                for j2 in range(i + 1, len(evs)):
                    if evs[j2]["ev"] == "Ret" and evs[j2]["c"] == e["c"]:
                        lines[j2] = json.dumps(dict(evs[j2], res=e2["res"])) + "\n"
                        break
                w2 = Window(win.group, win.w, win.epoch, win.first)
                w2.lines, w2.init = lines, win.init
                stale = (w2, "Get(%s) called at seq %d made to return %r (tx %d), overwritten by tx %d acknowledged at seq %d" %
                         (ent["k"], e["seq"], pv, ptx, ent["tx"], ack_seq[ent["tx"]]))
                break
        if dropped is None:
            per_client = {}
            for i, e in enumerate(evs):
                if e["ev"] == "Call":
                    per_client.setdefault(e["c"], []).append(i)
            for i, e in enumerate(evs):
                if e["ev"] == "Call" and e["op"]["t"] in ("Set", "Exec") and e["res"]["e"] == "ok" and per_client[e["c"]][-1] != i \
                        and any(x["ev"] == "Call" and x["res"]["tx"] > e["res"]["tx"] for x in evs[i + 1:]):
                    lines = list(win.lines)
                    lines[i] = json.dumps(dict(e, res={"e": "?", "tx": 0, "ents": [], "n": 0})) + "\n"
                    j2 = next(j for j in range(i + 1, len(evs)) if evs[j]["ev"] == "Ret" and evs[j]["c"] == e["c"])
                    del lines[j2]
                    w2 = Window(win.group, win.w, win.epoch, win.first)
                    w2.lines, w2.init = lines, win.init
                    dropped = (w2, "Ret of %s (tx %d) by client %d dropped" % (e["op"]["t"], e["res"]["tx"], e["c"]))
                    break
        if stale and dropped:
            break
    if not stale or not dropped:
        raise MachineryFault("binding self-test: no suitable window found (stale=%s dropped=%s)" % (bool(stale), bool(dropped)))
    split = synthetic_split_history()
    with cf.ThreadPoolExecutor(6) as ex:
        f1 = ex.submit(tv, wd, "self_stale", standalone(stale[0], 0))
        f2 = ex.submit(tv, wd, "self_stale_diag", standalone(stale[0], 0), "stale")
        f3 = ex.submit(tv, wd, "self_drop", standalone(dropped[0], 0))
        f4 = ex.submit(tv, wd, "self_split", split)
        f5 = ex.submit(tv, wd, "self_split_stale", split, "stale")
        f6 = ex.submit(tv, wd, "self_split_diag", split, "refsplit")
        (r1, c1, _), (r2, c2, _), (r3, c3, _) = f1.result(), f2.result(), f3.result()
        (r4, c4, _), (r5, c5, _), (r6, c6, _) = f4.result(), f5.result(), f6.result()
    acc_stale = "strict" in c1.get(0, {})
    cls_stale = "strict" in c2.get(0, {})
    acc_drop = "strict" in c3.get(0, {})
    if acc_stale or not cls_stale or not acc_drop:
        raise MachineryFault("binding self-test failed: altered Get accepted=%s (must be False), classified stale=%s (must be True), "
                             "window with dropped Ret accepted=%s (must be True)" % (acc_stale, cls_stale, acc_drop))
    sp = ["strict" in c.get(0, {}) for c in (c4, c5, c6)]
    if sp != [False, False, True]:
        raise MachineryFault("binding self-test failed: synthetic two-step reference resolution history: accepted by specification / 'stale' / "
                             "'refsplit' = %s (must be [False, False, True])" % sp)
    chk.cov["binding_selftest"] = ("%s -> rejected by TLC (%d states) and classified 'stale'; %s -> operation stays pending, window accepted (%d states); "
                                   "synthetic history with a reference resolved in two steps -> rejected, not 'stale', classified 'refsplit'"
                                   % (stale[1], r1.distinct, dropped[1], r3.distinct))


# ---------------------------------------------------------------- main
def run(chk, args):
    thorough = chk.tier == "thorough"
    wd = vlib.scratch("C06")
    binp = vlib.go_build("c06")
    groups, per_group = (8, 250) if thorough else (6, 25)
    # per group, on two more database instances: rounds of conflicting conditional writes started together on a synced store with
    # a long sync period; windows of GetAll / Scan against tight-loop multi-key writers
    race_rounds, snap_windows = (120, 40) if thorough else (28, 5)
    mc = {}
    mct = threading.Thread(target=run_mc, args=(chk, wd, mc))
    mct.start()

    crashes = []

    def one_group(g):
        tf = os.path.join(wd, "trace%d.ndjson" % g)
        dd = os.path.join(wd, "d%d" % g)
        os.makedirs(dd, exist_ok=True)
        out = None
        for attempt in range(3):
            try:
                out, _ = vlib.run_harness(binp, ["-seed", str(chk.seed * 100 + g + 1000 * attempt), "-windows", str(per_group), "-epoch", "10",
                                                 "-race-rounds", str(race_rounds), "-snap-windows", str(snap_windows),
                                                 "-dir", dd, "-out", tf], timeout=3000)
                break
            except MachineryFault as ex:
                # the process running the real database died (a panic in one of the database's own goroutines cannot be
                # recovered by the driver): keep the evidence, try another workload; three in a row is a machinery fault
                crashes.append(str(ex)[-3000:])
                os.makedirs(vlib.REPLAYS, exist_ok=True)
                open(os.path.join(vlib.REPLAYS, "C06-harness-crash-%d-%d-%d.txt" % (chk.seed, g, attempt)), "w").write(str(ex))
                vlib.log("[c06] group %d: harness died (attempt %d): %s" % (g, attempt, str(ex)[-600:]))
        if out is None:
            raise MachineryFault("group %d: harness died three times: %s" % (g, crashes[-1]))
        hr = json.loads(out)
        vlib.log("[c06] group %d: harness done at +%.0fs" % (g, time.time() - chk.t0))
        lines = open(tf).readlines()
        wins = split_windows(g, lines)
        nrand = len([w for w in wins if not w.audit and w.kind == "random"])
        if nrand != per_group or len([w for w in wins if not w.audit and w.kind == "snap"]) != snap_windows:
            raise MachineryFault("group %d: expected %d random and %d snap windows, got %d and %d" % (
                g, per_group, snap_windows, nrand, len([w for w in wins if not w.audit and w.kind == "snap"])))
        res, cuts, hw = tv(wd, "g%d" % g, lines, timeout=3000)
        vlib.log("[c06] group %d: TLC done at +%.0fs (%d states, %.0fs)" % (g, time.time() - chk.t0, res.distinct, res.wall))
        return hr, lines, wins, res, cuts, hw

    with cf.ThreadPoolExecutor(groups) as ex:
        results = list(ex.map(one_group, range(groups)))

    rejected, all_wins, nops = [], [], 0
    for g, (hr, lines, wins, res, cuts, hw) in enumerate(results):
        chk.add_tlc(res, "TraceKVLin group %d (%d windows, %d lines)" % (g, len(wins), len(lines)))
        vlib.absorb(chk, hr)
        nops += hr.get("evaluations", 0)
        prev = None
        for win in wins:
            c = cuts.get(win.w, {})
            if "lenient" not in c:
                raise MachineryFault("group %d window %d: TLC did not reach the quiescent point" % (g, win.w))
            win.init = None if win.first else prev
            win.hw = hw.get(win.w, 0)
            win.accepted = "strict" in c
            prev = c["lenient"]
            if not win.accepted:
                rejected.append((win, lines))
            all_wins.append(win)
    if crashes:
        chk.notes.append({"harness-process-died": len(crashes), "last": crashes[-1][-1500:]})
    corrupted = {(w.group, w.epoch) for w in all_wins if w.audit and not w.accepted}
    counted = [w for w in all_wins if not w.audit]
    chk.cov["windows"] = len(counted)
    chk.cov["windows_by_kind"] = {k: sum(1 for w in counted if w.kind == k) for k in ("random", "race", "snap")}
    # vacuity guards of the targeted workloads (counted by the driver, see harness/cmd/c06/scenarios.go)
    ctr = chk.cov.get("counters", {})
    inwin, refused = ctr.get("race:writers-validated-inside-a-sync-window", 0), ctr.get("race:refused", 0)
    overlap, rounds = ctr.get("snap:multi-key-reads-overlapping-a-multi-key-commit", 0), ctr.get("race:rounds", 0)
    chk.cov["race_rounds"] = rounds
    chk.cov["race_writers_validated_inside_a_sync_window"] = inwin
    chk.cov["race_conditional_writes_refused"] = refused
    chk.cov["multi_key_reads"] = ctr.get("snap:multi-key-reads", 0)
    chk.cov["multi_key_reads_overlapping_a_multi_key_commit"] = overlap
    if rounds != groups * race_rounds or inwin < rounds // 4 or refused < rounds // 4 or overlap < groups * snap_windows:
        raise MachineryFault("vacuous targeted workload: %d race rounds (expected %d), %d writers validated inside another writer's sync window, "
                             "%d conditional writes refused, %d multi-key reads overlapping a multi-key commit" % (rounds, groups * race_rounds, inwin, refused, overlap))
    chk.cov["windows_accepted"] = sum(1 for w in counted if w.accepted)
    chk.cov["audit_windows"] = sum(1 for w in all_wins if w.audit)
    chk.cov["audit_windows_rejected"] = len(corrupted)
    chk.cov["operations_validated"] = nops
    chk.cov["traces_validated_against_impl"] = len(counted)      # one trace = one window of a real concurrent execution
    for w in all_wins[:2]:
        chk.sample({"window": w.w, "config": w.cfg, "events": [json.loads(x) for x in w.lines[:6]]})

    # ---- rejected windows: re-validate alone, classify, report
    if rejected:
        os.makedirs(vlib.REPLAYS, exist_ok=True)
        for i, (win, _) in enumerate(rejected[:16]):      # kept for inspection whatever happens next
            json.dump({"property": "C06", "seed": chk.seed, "group": win.group, "window": win.w, "config": win.cfg,
                       "trace": [json.loads(x) for x in standalone(win, 0)]},
                      open(os.path.join(vlib.REPLAYS, "C06-rejected-window-%d-%d.json" % (chk.seed, i)), "w"))
        lines = []
        for i, (win, _) in enumerate(rejected):
            lines += standalone(win, i)
        with cf.ThreadPoolExecutor(3) as ex:
            futs = {d: ex.submit(tv, wd, "rej_" + (d or "strict"), lines, d, 3000) for d in ("", "stale", "refsplit")}
            runs = {d: f.result() for d, f in futs.items()}
        for i, (win, _) in enumerate(rejected):
            if "strict" in runs[""][1].get(i, {}):
                raise MachineryFault("window %d of group %d was rejected in its group but accepted alone" % (win.w, win.group))
        classes = {}

        def explained(d, i):
            return "strict" in runs[d][1].get(i, {})
        todo = [i for i in range(len(rejected)) if not explained("stale", i) and not explained("refsplit", i)]
        # the read-everything-back window of the same database instance was rejected too: the index no longer agrees with the
        # committed log (persistent damage) - no further classification
        for i in list(todo):
            win = rejected[i][0]
            if (win.group, win.epoch) in corrupted:
                classes[i] = "index-corrupted"
                todo.remove(i)
        # rare: neither alone explains the window -> both together; then an unbounded look-back
        # (the ladder below is expensive: at most 8 windows go through it, the others stay "unexplained")
        todo = todo[:8]
        for name, d, k in (("both", "both", None), ("stale-all", "stale", "all"), ("both-all", "both", "all")):
            if not todo:
                break
            sub, back = [], {}
            for j, i in enumerate(todo):
                sub += standalone(rejected[i][0], j)
                back[j] = i
            r = tv(wd, "rej_" + name, sub, d, 3000, k)
            runs[name] = r
            for j, i in back.items():
                if "strict" in r[1].get(j, {}):
                    classes[i] = "stale-index" if d == "stale" else "stale-index+split-reference-resolution"
            todo = [i for i in todo if i not in classes]
        vlib.log("[c06] %d rejected windows re-validated and classified at +%.0fs" % (len(rejected), time.time() - chk.t0))
        for d, (res, _, _) in runs.items():
            chk.add_tlc(res, "TraceKVLin rejected windows alone (%s)" % (d or "specification"))
        for i, (win, glines) in enumerate(rejected):
            cls = ("stale-index" if explained("stale", i) else "split-reference-resolution" if explained("refsplit", i)
                   else classes.get(i, "unexplained"))
            # the event no linearization gets past (line of the stand-alone trace: 1 = Init/Reset)
            hwl = runs[""][2].get(i, 0)
            base = sum(len(w.lines) + 2 for w, _ in rejected[:i])
            idx = hwl - base - 2
            evs = [json.loads(x) for x in win.lines]
            stuck = evs[idx] if 0 <= idx < len(evs) else {"ev": "?"}
            opn, blamed = "?", None
            if stuck.get("ev") == "Ret":
                blamed = next((e for e in reversed(evs[:idx]) if e["ev"] == "Call" and e["c"] == stuck["c"]), None)
                if blamed:
                    opn = op_name(blamed["op"])
            # had CompactIndex been called on this database instance before the end of this window?  (The operation at fault can
            # return later than the event the search gets stuck at; a CompactIndex that returns an error may still have
            # restarted some of the indexes: any call counts.)
            last_seq = max([e.get("seq", 0) for e in evs] + [0])
            compact = any('"Maint"' in x and '"compact"' in x and json.loads(x)["epoch"] == win.epoch and json.loads(x)["seq0"] < last_seq
                          for x in glines)
            ctx = "CompactIndex-restart" if compact else "no-compaction"
            if win.audit:
                opn = "audit:" + opn
            sig = "%s:%s:%s" % (cls, ctx, opn)
            text = ("window %d (group %d, %s) of a real concurrent execution of pkg/database has no linearization: every placement of the "
                    "linearization points fails at or before the return of client %s's %s -> %s; class: %s; %s"
                    % (win.w, win.group, win.cfg, stuck.get("c"), json.dumps(blamed["op"]) if blamed else "?", json.dumps(stuck.get("res")), cls,
                       "CompactIndex had been called earlier on this database instance" if compact else "CompactIndex was never called on this database instance"))
            vlib.log("[c06] rejected: %s | %s" % (sig, text[:700]))
            chk.cov.setdefault("rejected_windows", []).append({"signature": sig, "window": win.w, "group": win.group, "config": win.cfg,
                                                               "stuck_call": blamed["op"] if blamed else None, "stuck_result": stuck.get("res")})
            replay = {"trace": [json.loads(x) for x in standalone(win, 0)], "stuck_event": stuck, "blamed_call": blamed,
                                      "class": cls, "config": win.cfg,
                      "how_to_replay": "write 'trace' as ndjson, VERIF_TRACE=<file> tlc -workers 1 -config TraceKVLin.cfg TraceKVLin.tla (depth-first queue): no strict Cut is printed"}
            if not chk.violation(sig, text, replay):
                # known finding: keep the first window per signature for inspection (vlib only saves replays of violations)
                os.makedirs(vlib.REPLAYS, exist_ok=True)
                rp = os.path.join(vlib.REPLAYS, "C06-known-%s-%d.json" % (re.sub(r"[^A-Za-z0-9_.-]+", "_", "%s:%s" % (cls, ctx))[:80], chk.seed))
                if not os.path.exists(rp):
                    json.dump({"property": "C06", "signature": sig, "what": text, "seed": chk.seed, "replay": replay}, open(rp, "w"), indent=1)
        chk.cov["windows_rejected"] = len(rejected)
    # ---- exhaustive sanity run
    mct.join()
    vlib.log("[c06] MC done at +%.0fs" % (time.time() - chk.t0))
    if "exc" in mc:
        raise mc["exc"]
    vlib.tlc_must_pass(mc["res"], "MCKVLin")
    chk.add_tlc(mc["res"], "MCKVLin %s" % ("3x3" if thorough else "3x2"))
    m = re.search(r'<<\s*"COV:",\s*(".*?")\s*>>', mc["res"].out, re.S)
    if not m:
        raise MachineryFault("MCKVLin printed no coverage")
    cov = dict(json.loads(json.loads(m.group(1))))
    chk.cov["mc_action_coverage"] = cov
    for a in ("MCCall", "MCRet", "MCLinApplied", "MCLinRefused", "MCLinRead"):
        if cov.get(a, 0) == 0:
            raise MachineryFault("MCKVLin: action %s never fired (vacuous sanity run): %s" % (a, cov))
    # ---- binding self-test
    if thorough or os.environ.get("VERIF_SELFTEST"):
        selftest(chk, wd, [w for w in all_wins if w.accepted and not w.audit])
    chk.cov["rule"] = ("one trace = one window (40-60 operations, 3-6 clients, 8 keys, 2 sorted sets) of a real concurrent execution between two "
                       "quiescent points; accepted iff TLC finds a linearization; database configuration (node size, flush threshold, "
                       "snapshot renewal, compaction on/off, maintenance on/off, synced) rotates per database instance")
    chk.assumptions += ["Call/Ret sequence numbers are taken immediately before the call and immediately after the return (global atomic counter)",
                        "canonical-form search: Lin steps only immediately before a Ret event (complete: delaying a Lin step up to the next Ret preserves validity)",
                        "a window boundary is a quiescent point (no client call in flight); the maintenance goroutine keeps running across boundaries",
                        "MC bounds: 3 clients, 2 keys, %s ops" % ("3+3+3" if thorough else "2+2+2")]


if __name__ == "__main__":
    vlib.main(run, "C06", "model_checking")
