#!/usr/bin/env python3
"""C01 - verified reads/writes: proofs are complete and sound.
spec/Proofs.tla is a symbolic (free-algebra) model of TxHeader.Alh, the binary-linking tree, dual / linear /
linear-advance proof generation and VerifyDualProof & co, on top of spec/Merkle.tla.  TLC enumerates
(spec/ProofCases.tla) every history shape (non-decreasing BlTxID lag) up to N txs, every (trusted, queried) pair,
the honest response, the response of a history forked at any point, every one-component mixture of the two and every
single alteration of every header field / proof term, and evaluates the transcribed verifier and the semantic truth
(the new state is linked to the trusted one).  harness/cmd/c01 builds real stores with those shapes (through
ReplicateTx), takes REAL DualProof output, applies the same mixtures/alterations and runs the REAL VerifyDualProof in
the client flow.
spec/ClientFlow.tla models the Verifiable* response as a whole and the Go client's verifiedGet / VerifiedTxByID /
VerifiedSet; TLC enumerates every set of up to K altered response fields (incl. consistently recomputed digests);
harness/cmd/c01c applies them between a real in-process server and the real pkg/client and compares what the client
hands back with the history."""
import json, os, sys, concurrent.futures as cf
sys.path.insert(0, os.path.join(os.path.dirname(os.path.abspath(__file__)), "..", "lib"))
import vlib
from vlib import MachineryFault

CFG = """CONSTANTS
  N = %d
  ShapeLo = %d
  ShapeHi = %d
  OutFile = "%s"
  FixedVerifiers = %s
  TblBoundToSource = %s
INIT Init
NEXT Next
CHECK_DEADLOCK FALSE
"""
CATALAN = {3: 5, 4: 14, 5: 42, 6: 132}


def run(chk, args):
    thorough = chk.tier == "thorough"
    n = 5 if thorough else 4
    per = 3 if thorough else 3
    wd = vlib.scratch("C01")
    binp = vlib.go_build("c01")
    fixed = "TRUE" if vlib.model_flag("C08_FixedVerifiers") else "FALSE"
    parts = [(lo, min(lo + per - 1, CATALAN[n])) for lo in range(1, CATALAN[n] + 1, per)]

    def tlc_part(p):
        lo, hi = p
        out = os.path.join(wd, "pc_%d.json" % lo)
        sub = os.path.join(wd, "tlc_%d" % lo)
        os.makedirs(sub)
        return p, out, vlib.run_tlc("ProofCases", "pc.cfg", workdir=sub, workers=1, timeout=3000,
                                    files=[("pc.cfg", CFG % (n, lo, hi, out, fixed, "TRUE" if vlib.model_flag("C01_TblBoundToSource") else "FALSE"))])

    with cf.ThreadPoolExecutor(min(len(parts), 12)) as ex:
        results = list(ex.map(tlc_part, parts))
    files = []
    unsound_model = []
    ncases = 0
    for (lo, hi), out, res in results:
        vlib.tlc_must_pass(res, "ProofCases[%d..%d]" % (lo, hi))
        chk.add_tlc(res, "ProofCases N=%d shapes %d..%d" % (n, lo, hi))
        facts = {}
        for line in res.out.splitlines():
            line = line.strip()
            if line.startswith('<<"') and line.endswith(">>"):
                try:
                    v = vlib.parse_tla(line)
                    facts[v[0]] = v[1:]
                except Exception:
                    pass
        if facts.get("Complete") != [True]:
            raise MachineryFault("specification: honest proofs do not verify in the model (shapes %d..%d): %r" % (lo, hi, facts.get("Complete")))
        if facts.get("ModelSound") != [True]:
            unsound_model.append((lo, hi))
        ncases += facts.get("shapes", [0, 0, 0])[2] if len(facts.get("shapes", [])) >= 3 else 0
        files.append(out)
    chk.cov["model_facts"] = {"Complete": True, "ModelSound_all_parts": not unsound_model, "enumerated_cases": ncases}
    if unsound_model:
        chk.notes.append("the transcribed verifier accepts unlinked states in the model for shape ranges %s (candidates; verdict comes from the real code below)" % unsound_model)
    # replay on the real code, a few processes in parallel
    groups = [files[i::4] for i in range(4) if files[i::4]]

    def replay(a):
        gi, fl = a
        dd = os.path.join(wd, "d%d" % gi)
        out, _ = vlib.run_harness(binp, ["-cases", ",".join(fl), "-seed", str(chk.seed), "-dir", dd], timeout=3000)
        return json.loads(out)

    with cf.ThreadPoolExecutor(len(groups)) as ex:
        for r in ex.map(replay, list(enumerate(groups))):
            vlib.absorb(chk, r)
    client_flow(chk, wd, thorough)
    chk.cov["exhaustive"] = True
    chk.cov["rule"] = ("case = (history shape, fork point, trusted tx, queried tx, response kind: honest | forked history | one component from the other history | "
                       "single alteration of one header field or proof term at one position); distinct = distinct case records")
    chk.assumptions += ["SHA-256 collision resistance (free term algebra)", "histories up to N=%d txs, one entry per tx, header versions 0/1 alternating, no tx metadata" % n,
                        "adversary = forked well-formed histories + single alterations; malformed trees are covered by C08's verifier cases"]


CF_CFG = """CONSTANTS
  K = %d
  OutFile = "%s"
  TxByIdChecked = %s
  EntryIdentChecked = %s
  SetHdrChecked = %s
  StreamIdentChecked = %s
INIT Init
NEXT Next
CHECK_DEADLOCK FALSE
"""


def client_flow(chk, wd, thorough):
    """ClientFlow.tla cases on the real client (pkg/client) against a real in-process server."""
    k = 3 if thorough else 2
    binp = vlib.go_build("c01c")
    out = os.path.join(wd, "cf.json")
    sub = os.path.join(wd, "tlc_cf")
    os.makedirs(sub)
    tf = lambda n: "TRUE" if vlib.model_flag(n) else "FALSE"
    res = vlib.run_tlc("ClientFlow", "cf.cfg", workdir=sub, workers=1, timeout=3000,
                       files=[("cf.cfg", CF_CFG % (k, out, tf("C01_TxByIdChecked"), tf("C01_EntryIdentChecked"), tf("C01_SetHdrChecked"), tf("C01_StreamIdentChecked")))])
    vlib.tlc_must_pass(res, "ClientFlow K=%d" % k)
    chk.add_tlc(res, "ClientFlow K=%d" % k)
    facts = {}
    for line in res.out.splitlines():
        line = line.strip()
        if line.startswith('<<"') and line.endswith(">>"):
            try:
                v = vlib.parse_tla(line)
                facts[v[0]] = v[1:]
            except Exception:
                pass
    if facts.get("Complete") != [True]:
        raise MachineryFault("specification: honest responses are not accepted by the modelled client: %r" % facts.get("Complete"))
    chk.cov["model_facts"]["ClientFlow"] = {"Complete": True, "Sound": facts.get("Sound") == [True], "cases": (facts.get("cases") or [0])[0], "K": k}
    o, _ = vlib.run_harness(binp, ["-cases", out, "-dir", os.path.join(wd, "cfd")], timeout=3000)
    r = json.loads(o)
    for need in ("op:get0", "op:getAt", "op:getRef", "op:txbyid", "op:set", "op:sget0", "op:sgetRef", "op:vrowT", "op:vrowF", "op:vrow2T", "op:vrow2F", "accepted-altered", "rejected"):
        if not (r.get("counters") or {}).get(need):
            raise MachineryFault("client flow replay is vacuous: counter %s is zero" % need)
    vlib.absorb(chk, r)
    chk.assumptions.append("client flow: one history (8 txs, two-entry tx, one reference), alterations of up to K=%d response fields together; "
                           "the dual-proof body is altered in one place here, its terms one by one in ProofCases" % k)


if __name__ == "__main__":
    vlib.main(run, "C01", "model_checking")
