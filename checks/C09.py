#!/usr/bin/env python3
"""C09 - corruption of stored data is detected, never served as valid.
TLC (spec/Corruption.tla) enumerates field x alteration class x position x shape x read path per store
configuration, computes for every combination whether the code as read detects it (and by which check), cannot
see it, or has NO covering check (a candidate), writes the matrix, and explores the small machine
(alter, alter, read) with the invariant DetectedOrInvisible: on the code as read the invariant is expected to
fail (candidates, never verdicts); with the proposed repairs switched on it must hold.
harness/cmd/c09 builds real stores per configuration class, maps every byte of the committed tx-log records,
commit-log entries and referenced value ranges with its own parser, flips every single bit (plus the multi-bit,
two-field and compound alterations the model enumerates) in copies of the store and runs every read path.
Verdicts come only from the real behaviour: an error or identical content is accepted; different content,
a panic or a hang is a violation."""
import json, os, sys, concurrent.futures as cf
sys.path.insert(0, os.path.join(os.path.dirname(os.path.abspath(__file__)), "..", "lib"))
import vlib
from vlib import MachineryFault

QUICK_CFGS = ["v1/plain/single", "v0/plain/single", "v1/comp/single", "v1/emb/single", "v1/plain/multi"]
THOROUGH_CFGS = QUICK_CFGS + ["v0/comp/single", "v1/comp/multi"]
FIXES = ["FixVLenZero", "FixTxBinding", "FixMdBounds", "FixVLogBound", "FixExportEof"]

CFG = """CONSTANTS
  OutFile = "%s"
  Seed = %d
  CfgNames = {%s}
  MaxAlts = %d
%s
SPECIFICATION Spec
INVARIANTS %s
CHECK_DEADLOCK FALSE
"""


PROBES = {"FixMdBounds": "txmetadata-readfrom", "FixVLenZero": "vlen-zeroed", "FixExportEof": "exporttx-lock-leak",
          "FixTxBinding": "commit-log-entry-retargeted", "FixVLogBound": "vlogid-out-of-range"}


SEQ_CFG = """CONSTANTS
  OutFile = "%s"
  Seed = %d
  MaxLen = %d
  SampleMod = %d
  CacheModes = {"off", "small", "large"}
  VerifyCacheHits = %s
  PutBeforeVerify = %s
SPECIFICATION Spec
INVARIANTS TypeOK Safe PristineFine OffIsDisk
CHECK_DEADLOCK FALSE
"""


def cfg_text(out, seed, cfgs, max_alts, flags, inv):
    """flags: {constant: bool}; the model of the code as read takes each repair switch from a probe of the real code"""
    fx = "\n".join("  %s = %s" % (f, "TRUE" if flags[f] else "FALSE") for f in FIXES + ["AcceptLocators"])
    return CFG % (out, seed, ", ".join('"%s"' % c for c in cfgs), max_alts, fx, inv)


def probe_flags(chk, binp, wd):
    """Five minimal reproductions (harness -repro) decide which of the five missing checks the code under test still
    lacks: the 'code as read' model follows the code (a repaired defect switches its Fix* constant on)."""
    pd = os.path.join(wd, "probe")
    os.makedirs(pd)
    out, _ = vlib.run_harness(binp, ["-repro", "-dir", pd, "-seed", str(chk.seed)], timeout=600)
    rs = {r["name"]: r for r in json.loads(out)}
    for n in PROBES.values():
        if n not in rs:
            raise MachineryFault("probe %s missing from the harness output" % n)
    flags = {f: not rs[n]["defect_reproduced"] for f, n in PROBES.items()}
    flags["AcceptLocators"] = False
    chk.cov["probes"] = [{"name": r["name"], "change": r["change"][:300], "call": r["call"], "observed": r["observed"][:300],
                          "defect_present": r["defect_reproduced"]} for r in rs.values()]
    chk.cov["model_flags_from_probes"] = flags
    return flags


def run(chk, args):
    thorough = chk.tier == "thorough"
    cfgs = THOROUGH_CFGS if thorough else QUICK_CFGS
    binp = vlib.go_build("c09")
    wd = vlib.scratch("C09")
    seed = chk.seed
    if args.replay:
        # re-execute one recorded alteration (replays/C09-*.json): store rebuilt from (class, seed, tier), same byte patches
        out, _ = vlib.run_harness(binp, ["-replay-file", args.replay, "-dir", wd], timeout=600)
        vlib.absorb(chk, json.loads(out))
        chk.cov["rule"] = "replay of one recorded alteration on all 9 read paths"
        return

    asread = probe_flags(chk, binp, wd)
    repaired = {f: True for f in FIXES + ["AcceptLocators"]}

    # ---- TLC: one matrix per configuration (the ASSUME evaluation is single-threaded), in parallel with the
    # state machine of the code as read (invariant expected to fail) and of the repaired design (must hold)
    def matrix_part(i):
        c = cfgs[i]
        sub = os.path.join(wd, "tlc_m%d" % i)
        os.makedirs(sub)
        out = os.path.join(wd, "matrix_%d.json" % i)
        r = vlib.run_tlc("Corruption", "c.cfg", workdir=sub, workers=1, timeout=600,
                         files=[("c.cfg", cfg_text(out, seed, [c], 1, asread, "TypeOK"))])
        return ("matrix", c, out, r)

    def machine(kind):
        sub = os.path.join(wd, "tlc_" + kind)
        os.makedirs(sub)
        flags = repaired if kind == "repaired" else asread
        # quick tier: the two-alteration machine runs on the two richest configurations only
        mcfgs = cfgs if thorough else ["v1/plain/multi", "v1/comp/single"]
        r = vlib.run_tlc("Corruption", "c.cfg", workdir=sub, workers=2, timeout=1500,
                         files=[("c.cfg", cfg_text("", seed, mcfgs, 2, flags, "TypeOK DetectedOrInvisible"))])
        return (kind, None, None, r)

    # ---- read sequences with a per-process cache (spec/CorruptionSeq.tla): TLC explores every sequence up to MaxLen
    # x alteration placement x kind x cache mode for the code as read (cache filled before the digest is compared,
    # digest compared for hits too: Safe must hold), for the broken combination (hits not verified: Safe must FAIL,
    # which shows the model can see the defect class) and, thorough, for the alternative safe design; the cases it
    # writes are replayed on real stores with VLogCacheSize 0 / 1 / 64
    def seq_model(name, verify, put, out):
        sub = os.path.join(wd, "tlc_seq_" + name)
        os.makedirs(sub)
        ml, sm = (4, 30) if thorough else (3, 7)
        r = vlib.run_tlc("CorruptionSeq", "s.cfg", workdir=sub, workers=2, timeout=1500,
                         files=[("s.cfg", SEQ_CFG % (out, seed, ml, sm, "TRUE" if verify else "FALSE", "TRUE" if put else "FALSE"))])
        return (name, r)

    def seq_replay():
        out = os.path.join(wd, "seq_cases.json")
        name, r = seq_model("as-read", True, True, out)
        vlib.tlc_must_pass(r, "CorruptionSeq (code as read)")
        sdir = os.path.join(wd, "dseq")
        os.makedirs(sdir)
        hargs = ["-seq", out, "-seed", str(seed), "-dir", sdir, "-tier", chk.tier, "-workers", "8"]
        if not thorough:
            hargs += ["-budget", os.environ.get("VERIF_C09_SEQ_BUDGET", "20")]
        hout, _ = vlib.run_harness(binp, hargs, timeout=3000 if thorough else 600)
        return r, json.loads(hout), len(json.load(open(out))["cases"])

    # the harness only needs the matrices: the machine runs keep going while the real stores are exercised
    ex = cf.ThreadPoolExecutor(len(cfgs) + 5)
    mfut = [ex.submit(matrix_part, i) for i in range(len(cfgs))]
    sfut = [ex.submit(machine, "as-read"), ex.submit(machine, "repaired")]
    qfut = ex.submit(seq_replay)
    bfut = [ex.submit(seq_model, "hits-not-verified", False, True, "")]
    if thorough:
        bfut.append(ex.submit(seq_model, "only-verified-bytes-cached", False, False, ""))
    try:
        if not os.environ.get("VERIF_C09_SEQ_ONLY"):
            run_stores(chk, [f.result() for f in mfut], binp, wd, thorough)
            machines_done(chk, [f.result() for f in sfut])
        seq_done(chk, qfut.result(), [f.result() for f in bfut])
    finally:
        ex.shutdown(wait=True)


def seq_done(chk, replay, models):
    r, h, ncases = replay
    chk.add_tlc(r, "CorruptionSeq code as read (cache filled before verification, hits verified): Safe holds; %d cases written" % ncases)
    for name, m in models:
        if name == "hits-not-verified":
            if m.error:
                raise MachineryFault("CorruptionSeq (%s): %s" % (name, m.error))
            chk.add_tlc(m, "CorruptionSeq cache hits not verified (counterexample expected: %s)" % m.violation)
            if m.violation != "Safe":
                raise MachineryFault("CorruptionSeq: the model does not see unverified cache hits (violation=%r)" % m.violation)
            st = vlib.error_trace_last_state(m.out)
            chk.cov["seq_model_counterexample_hits_not_verified"] = {k: st.get(k) for k in ("mode", "kind", "altAt", "hist")} if st else None
        else:
            vlib.tlc_must_pass(m, "CorruptionSeq (%s)" % name)
            chk.add_tlc(m, "CorruptionSeq %s: Safe holds" % name)
    vlib.absorb(chk, h)
    ctr = h.get("counters") or {}
    chk.cov["seq_cases_from_model"] = ncases
    # vacuity guards: the relations the property is about were really exercised, with the cache on, and the cache was seen working
    need = ["seq-checked-read-cache-on:second-read-after-failed-first", "seq-checked-read-cache-on:checked-after-unchecked",
            "seq-checked-read-cache-on:after-good-read", "seq-cache-hit-observed"]
    for k in need:
        if not ctr.get(k):
            raise MachineryFault("read-sequence replay is vacuous: counter %s is 0" % k)
    if ctr.get("seq-orig-from-altered-file-without-cache"):
        raise MachineryFault("read-sequence replay: with the cache off a checked read returned the original from an altered file "
                             "(%d times): the in-place alteration did not reach the store" % ctr["seq-orig-from-altered-file-without-cache"])
    chk.cov["rule"] = (chk.cov.get("rule") or "") + (
        " | read sequences: every relevant sequence of 2 reads and a seeded sample of the longer ones (ops RV, RVE, EXc, EXs, GET on "
        "two values) x alteration placement x kind x cache mode from spec/CorruptionSeq.tla, each replayed on every store class at "
        "seeded alteration points; an evaluation = one step of one replay")
    chk.assumptions.append("read sequences: two values in two single-entry txs, one alteration (value bytes or a digest-covered record byte) "
                           "applied in place while the store is open, sequences up to length %d, VLogCacheSize 0/1/64; reads with "
                           "skipIntegrityCheck are not judged" % (4 if chk.tier == "thorough" else 3))


def machines_done(chk, results):
    for kind, c, out, r in results:
        if kind == "as-read":
            if r.error:
                raise MachineryFault("Corruption machine (code as read): " + r.error)
            chk.add_tlc(r, "Corruption machine, code as read, MaxAlts=2 (counterexample expected: %s)" % r.violation)
            if r.violation != "DetectedOrInvisible":
                raise MachineryFault("the model of the code as read has no uncovered cell any more (violation=%r): "
                                     "the transcription or the repairs drifted" % r.violation)
            st = vlib.error_trace_last_state(r.out)
            chk.cov["model_counterexample_code_as_read"] = {k: st.get(k) for k in ("cfg", "pos", "shape", "alts", "path", "outcome")} if st else None
        else:
            vlib.tlc_must_pass(r, "Corruption machine (repaired design)")
            chk.add_tlc(r, "Corruption machine, all repairs on, MaxAlts=2: DetectedOrInvisible holds")


def run_stores(chk, results, binp, wd, thorough):
    """merge the matrices TLC wrote, print the model's candidates, run the harness on the real stores"""
    seed = chk.seed
    merged = None
    facts = {}
    for kind, c, out, r in results:
        vlib.tlc_must_pass(r, "Corruption matrix [%s]" % c)
        chk.add_tlc(r, "Corruption matrix cfg=%s" % c)
        m = json.load(open(out))
        if merged is None:
            merged = m
        else:
            for k in ("singles", "compounds", "pairs"):
                merged[k] += m[k]
    if not merged or not merged["singles"]:
        raise MachineryFault("TLC wrote no matrix")
    ncells = 9 * (len(merged["singles"]) + len(merged["compounds"]) + len(merged["pairs"]))
    cand = {}
    for k in ("singles", "compounds", "pairs"):
        for row in merged[k]:
            for e, by in zip(row["exp"], row["by"]):
                facts[e] = facts.get(e, 0) + 1
                if e == "UNCOVERED":
                    cand[by] = cand.get(by, 0) + 1
    chk.cov["model_matrix"] = {"rows": {k: len(merged[k]) for k in ("singles", "compounds", "pairs")}, "cells": ncells,
                               "by_expectation": facts, "candidate_cells_by_reason": cand}
    if facts.get("detected", 0) == 0 or facts.get("invisible", 0) == 0 or not cand:
        raise MachineryFault("model matrix is vacuous: %r" % facts)
    for reason, n in sorted(cand.items()):
        print("CANDIDATE (model, not a verdict): %d cells: %s" % (n, reason))
    mpath = os.path.join(wd, "matrix.json")
    json.dump(merged, open(mpath, "w"))

    # ---- the real stores
    ddir = os.path.join(wd, "d")
    os.makedirs(ddir)
    hargs = ["-cases", mpath, "-seed", str(seed), "-dir", ddir, "-tier", chk.tier, "-workers", "8"]
    if not thorough:
        # quick tier: time box per store class; the alterations are executed in a stratified order (round-robin over
        # the (field, class) cells), so a prefix still covers every cell; what was not executed is counted
        hargs += ["-budget", os.environ.get("VERIF_C09_BUDGET", "35")]
    else:
        # thorough: a larger time box per store class (the full single-bit enumeration of all eight classes did not finish in an hour
        # on this machine; what was not executed is counted per class in alterations-not-executed-time-budget:<class>)
        hargs += ["-budget", os.environ.get("VERIF_C09_BUDGET_THOROUGH", "200")]
    selftest = os.environ.get("VERIF_SELFTEST")
    if selftest:
        hargs += ["-selftest", "ReadTx", "-only", "plain-v1", "-limit", "40"]
    out, err = vlib.run_harness(binp, hargs, timeout=3300 if thorough else 900)
    for line in err.splitlines():
        if line.startswith("[c09]") and "mapped bits" in line:
            vlib.log(line)
    r = json.loads(out)
    vlib.absorb(chk, r)
    ctr = r.get("counters") or {}
    if ctr.get("no-model-cell"):
        raise MachineryFault("%d executed alterations have no cell in the model's matrix (field/class lists of spec and harness differ)" % ctr["no-model-cell"])
    # non-vacuity: every read path ran, saw both accepted outcomes, and intact reads kept succeeding
    for p in merged["paths"]:
        if not ctr.get("path-runs:" + p):
            raise MachineryFault("read path %s was never executed" % p)
        if not selftest and (not ctr.get("obs:%s:err" % p) or not ctr.get("obs:%s:same" % p)):
            raise MachineryFault("read path %s never showed both an error and identical content (vacuous)" % p)
    chk.cov["rule"] = ("alterations = every single bit of every committed tx-log record, commit-log entry and referenced value range "
                       "of each store class (quick tier: a seeded sample inside digests, 8-byte integers, offset bits and byte strings; "
                       "lengths, versions, attribute codes exhaustive), plus multi-bit realisations of every alteration class of the model, "
                       "the class combination TLC picked per field pair and the compound alterations; each executed on 9 read paths; "
                       "an evaluation = one (alteration, read path) judged against the pristine content; "
                       "non-trivial = distinct (configuration, alteration class, read path, observed outcome)")
    chk.cov["exhaustive"] = bool(thorough) and not any(k.startswith("alterations-not-executed-time-budget:") and v for k, v in ctr.items())
    chk.assumptions += [
        "alterations are bit changes of the store files; digest fields are never set to the SHA-256 of altered content (no hash-aware adversary); "
        "copying existing bytes (a commit-log entry over another) is allowed",
        "index files and AHT files are not altered (out of the property's scope); the index directory is deleted for the rebuild path",
        "alterations that make the code allocate more than 64 KiB (quick) / 128 MiB (thorough) from a corrupted length are executed on one "
        "representative per field and store only",
        "ExportTx without values but flagged truncated (header, keys, metadata, value digests identical) counts as accepted (degraded), not as served content",
        "vLen/vOff returned by ReadTx/ReadTxEntry/TxReader are locators, not committed content: only the value they dereference to is judged"]


if __name__ == "__main__":
    vlib.main(run, "C09", "exploration")
