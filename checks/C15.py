#!/usr/bin/env python3
"""C15 - codecs round-trip, key encodings preserve the SQL order.
TLC evaluates spec/Codec.tla (enumeration module): boundary classes per SQL type with their SQL order, the
complete set of strings over {NUL, mid, 0xFF} up to the declared length ordered bytewise, composite keys, every
pair / triple with the expected relation, every field-presence combination of the structural codecs; it proves the
printed relation antisymmetric and (on the triples) transitive and writes everything as JSON.
harness/cmd/c15 maps each abstract value to several concrete values (representatives + VERIF_SEED-random members)
and runs the real encoders/decoders, two real stores (ExportTx -> ReplicateTx) and a real SQL engine."""
import json, os, sys
sys.path.insert(0, os.path.join(os.path.dirname(os.path.abspath(__file__)), "..", "lib"))
import vlib
from vlib import MachineryFault

CFG = """CONSTANTS
  OutFile = "%s"
  MaxLen = %d
  TripleCap = %d
INIT Init
NEXT Next
CHECK_DEADLOCK FALSE
"""
FACTS = ["ScalarAntisym", "StrAntisym", "StrPrefixSmaller", "CompositeAntisym", "CompositeTransitive"]


def run(chk, args):
    replay = None
    if args.replay:
        replay = json.load(open(args.replay))
        chk.seed = int(replay.get("seed", chk.seed))
        chk.tier = replay.get("tier", chk.tier)
    thorough = chk.tier == "thorough"
    maxlen, tcap, variants = (4, 24, 12) if thorough else (4, 16, 4)
    binp = vlib.go_build("c15")
    wd = vlib.scratch("C15")
    out = os.path.join(wd, "codec.json")
    os.makedirs(os.path.join(wd, "tlc"))
    res = vlib.run_tlc("Codec", "codec.cfg", workdir=os.path.join(wd, "tlc"), workers=1, timeout=900,
                       files=[("codec.cfg", CFG % (out, maxlen, tcap))])
    vlib.tlc_must_pass(res, "Codec")
    chk.add_tlc(res, "Codec MaxLen=%d TripleCap=%d" % (maxlen, tcap))
    facts = {}
    for line in res.out.splitlines():
        line = line.strip()
        if line.startswith("<<\"") and line.endswith(">>") and not line.startswith("<<\"counts\""):
            v = vlib.parse_tla(line)
            facts[v[0]] = v[1:]
    for k in FACTS:
        if facts.get(k) != [True]:
            raise MachineryFault("model fact %s is %r (the printed relation is not an order)" % (k, facts.get(k)))
    chk.cov["model_facts"] = facts
    if not os.path.exists(out):
        raise MachineryFault("TLC did not write %s" % out)
    cases = json.load(open(out))
    chk.cov["enumerated"] = {
        "scalar_values": {s["t"]: len(s["vals"]) for s in cases["scalars"]},
        "scalar_pairs": {s["t"]: len(s["pairs"]) for s in cases["scalars"]},
        "string_values": len(cases["strings"]["vals"]), "string_pairs": len(cases["strings"]["pairs"]),
        "composite_pairs": {",".join(c["cols"]): len(c["pairs"]) for c in cases["composites"]},
        "composite_triples": {",".join(c["cols"]): len(c["triples"]) for c in cases["composites"]},
        "txmd": len(cases["txmd"]), "kvmd": len(cases["kvmd"]), "txheaders": len(cases["hdrs"]),
        "exports": len(cases["exports"]), "rows": len(cases["rows"]), "bounded_field_lengths": len(cases["bounds"])}
    for k, v in chk.cov["enumerated"].items():
        n = sum(v.values()) if isinstance(v, dict) else v
        if n == 0:
            raise MachineryFault("Codec.tla enumerated no %s" % k)
    ddir = os.path.join(wd, "d")
    os.makedirs(ddir)
    hargs = ["-cases", out, "-seed", str(chk.seed), "-dir", ddir, "-variants", str(variants)]
    if os.environ.get("VERIF_SELFTEST"):
        hargs.append("-selftest")
    o, _ = vlib.run_harness(binp, hargs, timeout=1500)
    r = json.loads(o)
    ctr = r.get("counters") or {}
    for need in ["pair:INTEGER", "pair:FLOAT", "pair:TIMESTAMP", "pair:UUID", "pair:BOOLEAN", "pair:VARCHAR", "pair:BLOB",
                 "composite-pair", "composite-triple", "txmd", "kvmd", "hdr:roundtrip", "hdr:encode-error", "replicate:replica",
                 "real-truncation:exported-truncated", "row-roundtrip", "row-roundtrip-through-sort-files", "index-eq:FLOAT"]:
        if not ctr.get(need):
            raise MachineryFault("harness did not reach %s (vacuous run)" % need)
    # boundary lengths: per bounded field the maximal length must have gone through every level that applies, and
    # max+1 must have been refused (vacuity guard; a broken round trip is reported by the harness as a violation and
    # then legitimately lacks its counter, so the guard only applies when the harness reported nothing for that field)
    levels = {"txmd.extra": ["pure", "store"], "txmd.extra+truncatedTxID": ["pure", "store"], "store.key": ["store"],
              "store.value": ["store"], "store.entries": ["store"], "sql.varchar": ["sql"], "sql.blob": ["sql"],
              "sql.varchar.indexed": ["sql"], "sql.blob.indexed": ["sql"], "doc.string.indexed": ["doc"]}
    fields = sorted({b["field"] for b in cases["bounds"]})
    if set(fields) != set(levels):
        raise MachineryFault("bounded fields of Codec.tla %r differ from the ones the check knows %r" % (fields, sorted(levels)))
    flagged = " ".join(v["sig"] for v in (r.get("violations") or []))
    for f in fields:
        if not ctr.get("boundary-commit:" + f):
            raise MachineryFault("bounded field %s never reached a real store / engine" % f)
        if (":%s:" % f) in flagged:
            continue
        for lv in levels[f]:
            if not ctr.get("boundary-ok:%s:%s:max" % (lv, f)):
                raise MachineryFault("maximal length of %s did not round-trip at level %s and nothing was reported (vacuous)" % (f, lv))
        if not ctr.get("boundary-refused:%s:max+1" % f):
            raise MachineryFault("length max+1 of %s was neither refused nor reported (vacuous)" % f)
    chk.cov["boundary_roundtrips"] = {k: v for k, v in ctr.items() if k.startswith("boundary-")}
    vlib.absorb(chk, r)
    chk.cov["rule"] = ("cases = every pair of abstract values per SQL type (boundary classes; for VARCHAR/BLOB every string over a "
                       "3-symbol alphabet up to the declared length), every pair and a cube of triples of composite-key tuples, every "
                       "field-presence combination of TxMetadata/KVMetadata/TxHeader/exported tx/SQL row, each concretised %d times; every "
                       "length-bounded field at 0, 1, max-1, max, max+1 through Bytes/ReadFrom and a real store commit, header/tx/value/index "
                       "read-back, export and replication (SQL and document values: insert, read by key and through the index) "
                       "(representatives + seeded random members); distinct_nontrivial = number of distinct concrete values, tuples, "
                       "header/metadata/export/row shapes executed on the real code (pairs and triples are not counted)" % variants)
    chk.cov["exhaustive"] = False
    chk.assumptions += [
        "abstract domains are partitions into boundary classes; numeric fidelity inside a class is sampled, not decided",
        "NaN is outside the FLOAT domain; TxMetadata.truncatedTxID = 0, v0 headers with more than 65535 entries and sub-second "
        "KVMetadata expiration times are outside the domain (the system never serializes them)",
        "strings are concretised by order-preserving substitutions (symbol -> byte, uniform repetition up to length 1024)"]
    if replay:
        want = replay.get("signature")
        got = [s for s, _, _ in chk.violations] + [k[0] for k in chk.known]
        chk.notes.append({"replay": want, "reproduced": any(vlib._sig_match(want, g) or want == g for g in got)})
        chk.violations = [v for v in chk.violations if v[0] == want]


if __name__ == "__main__":
    vlib.main(run, "C15", "exploration")
