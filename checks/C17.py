#!/usr/bin/env python3
"""C17 - appendable files behave as a persistent byte log.

spec/Appendable.tla is the state machine of singleapp/multiapp (buffer window, fileOffset, descriptor position,
chunk files with their physical bytes, rotation, handle cache with arbitrary eviction, DiscardUpto, read-only switch,
Copy, Close/Open with sizes taken from the files, preallocation) next to the abstract byte array of spec/ByteLog.tla.
  1. TLC, exhaustive: the design (rewind truncates, file part of a read clamped at fileOffset) satisfies ReadsAgree,
     AppendReturnsPrevSize, RewindDiscardsSuffix, ReopenSame, CopySame, DiscardKeepsSuffix in every reachable state;
     the code as transcribed (StaleSuffix, ~ClampRead) satisfies them as long as the end was never moved backwards
     (CodeEnvelope) and violates them otherwise: one counterexample per invariant.
  2. Replay: those counterexamples and simulated behaviours (TLC -simulate, history printed as JSON) are executed by
     harness/cmd/c17 on real singleapp/multiapp instances on disk; after every step Size/Offset/metadata and every
     ReadAt of the spec's read domain are compared with the byte array TLC printed for that step.
  3. Trace validation: concurrent readers during appends/flushes/rotations; spec/TraceAppendable.tla (TLC) decides
     whether every observation equals the byte array at some moment between its call and its return.
Deviations of the real code that the transcription predicts are the known findings of findings/C17.json; anything
else is a VIOLATION."""
import json, os, re, sys, time, concurrent.futures as cf
sys.path.insert(0, os.path.join(os.path.dirname(os.path.abspath(__file__)), "..", "lib"))
import vlib
from vlib import MachineryFault

CFG = """CONSTANTS
  Multi = %(Multi)s
  F = %(F)d
  W = %(W)d
  MaxOpen = %(MaxOpen)d
  Retry = %(Retry)s
  Auto = %(Auto)s
  Pre = %(Pre)d
  MaxChunk = %(MaxChunk)d
  MaxBytes = %(MaxBytes)d
  MaxApp = %(MaxApp)d
  MaxOps = %(MaxOps)d
  RB = %(RB)d
  StaleSuffix = %(StaleSuffix)s
  ClampRead = %(ClampRead)s
  SimMode = %(SimMode)s
  FullHist = %(FullHist)s
  EmitDepth = %(EmitDepth)d
SPECIFICATION Spec
INVARIANTS %(inv)s
%(view)s
CHECK_DEADLOCK FALSE
"""
NAMED = ["ReadsAgree", "AppendReturnsPrevSize", "RewindDiscardsSuffix", "ReopenSame", "CopySame", "DiscardKeepsSuffix"]
JAVA = ["-Xmx3g"]


def B(x):
    return "TRUE" if x else "FALSE"


def mk(multi=True, F=3, W=2, mo=1, retry=False, auto=False, pre=0, mb=6, ma=4, mops=99, mc=None, code=(False, False),
       sim=False, full=False, emit=0, inv="TypeOK", view="VIEW View"):
    """code = (StaleSuffix, not ClampRead): (False, False) is the design, (True, True) the code as pinned."""
    if mc is None:
        mc = ((mb + pre) // F + 1) if multi else 0
    return CFG % dict(Multi=B(multi), F=F, W=W, MaxOpen=mo, Retry=B(retry), Auto=B(auto), Pre=pre, MaxChunk=mc, MaxBytes=mb,
                      MaxApp=ma, MaxOps=mops, RB=(F + 1 if multi else 2), StaleSuffix=B(code[0]), ClampRead=B(not code[1]),
                      SimMode=B(sim), FullHist=B(full), EmitDepth=emit, inv=inv, view=view)


def sync_modes():
    return [(False, False), (True, True), (True, False)]


def cfg_name(k):
    return "%s F=%d W=%d maxOpen=%d retry=%s auto=%s pre=%d" % ("multiapp" if k["multi"] else "singleapp", k["F"], k["W"], k["mo"],
                                                             k["retry"], k["auto"], k["pre"])


def run(chk, args):
    thorough = chk.tier == "thorough"
    seed = chk.seed
    selftest = bool(os.environ.get("VERIF_SELFTEST"))
    # which variant of the two transcribed decisions is "the code" (spec/model_flags.json; default: as pinned)
    code = (bool(vlib.model_flag("C17_StaleSuffix", True)), not bool(vlib.model_flag("C17_ClampRead", False)))
    binp = vlib.go_build("c17")
    wd = vlib.scratch("C17")
    jobs = []        # (kind, name, cfgtext, extra, workers, meta)

    # ---- 1a. design, exhaustive (fixpoint of the state graph: no depth bound, bytes bounded) -----------------------
    rm = sync_modes()
    r0, r1, r2 = rm[seed % 3], rm[(seed + 1) % 3], rm[(seed + 2) % 3]
    design = [
        ("multi F=3 W=2 maxOpen=1", dict(F=3, W=2, mo=1, retry=r0[0], auto=r0[1], mb=5)),
        ("single W=2", dict(multi=False, F=64, W=2, retry=r1[0], auto=r1[1], mb=5)),
        ("multi F=2 W=%d maxOpen=%d" % ((1, 3)[seed % 2], 2 - seed % 2), dict(F=2, W=(1, 3)[seed % 2], mo=2 - seed % 2, retry=r2[0], auto=r2[1], mb=5)),
        ("multi prealloc F=2 W=1", dict(F=2, W=1, pre=2, mb=2, mc=2, retry=r1[0], auto=r1[1])),
    ]
    if thorough:
        design = []
        for (rt, au) in rm:
            design += [
                ("multi F=3 W=2 maxOpen=1", dict(F=3, W=2, mo=1, retry=rt, auto=au, mb=7)),
                ("multi F=3 W=2 maxOpen=2", dict(F=3, W=2, mo=2, retry=rt, auto=au, mb=7)),
                ("multi F=4 W=3 maxOpen=1", dict(F=4, W=3, mo=1, retry=rt, auto=au, mb=7, ma=5)),
                ("multi F=2 W=3 maxOpen=2", dict(F=2, W=3, mo=2, retry=rt, auto=au, mb=6)),
                ("multi F=2 W=1 maxOpen=1", dict(F=2, W=1, mo=1, retry=rt, auto=au, mb=6)),
                ("single W=2", dict(multi=False, F=64, W=2, retry=rt, auto=au, mb=7)),
                ("single W=3", dict(multi=False, F=64, W=3, retry=rt, auto=au, mb=6)),
                ("multi prealloc F=2 W=1", dict(F=2, W=1, pre=2, mb=3, mc=2, retry=rt, auto=au)),
                ("single prealloc 3 W=2", dict(multi=False, F=64, W=2, pre=3, mb=3, retry=rt, auto=au)),
            ]
        design.append(("multi F=3 W=2 maxOpen=1 (8 bytes)", dict(F=3, W=2, mo=1, mb=8)))
        design.append(("multi prealloc F=3 W=2", dict(F=3, W=2, pre=3, mb=3, mc=2)))
    for name, k in design:
        nm = "design %s retry=%s auto=%s" % (name, k.get("retry", False), k.get("auto", False))
        jobs.append(("design", nm, mk(inv="TypeOK " + " ".join(NAMED), **k), [], 2, k))

    # ---- 1b. the code as transcribed: envelope (exhaustive) and one counterexample per invariant --------------------
    cex_cfgs = [("multiapp", dict(F=3, W=2, mo=1, mb=6)), ("singleapp", dict(multi=False, F=64, W=2, mb=6)),
                ("multiapp-prealloc", dict(F=2, W=1, pre=2, mb=3, mc=2))]
    if code != (False, False):
        env = [("multi F=3 W=2", dict(F=3, W=2, mo=1, mb=6 if thorough else 5))]
        if thorough:
            env += [("single W=2", dict(multi=False, F=64, W=2, mb=6)),
                    ("multi F=2 W=1 retry", dict(F=2, W=1, mo=2, mb=6, retry=True, auto=True)),
                    ("multi prealloc F=2 W=1", dict(F=2, W=1, pre=2, mb=4, mc=2))]
        for name, k in env:
            jobs.append(("envelope", "code-as-transcribed envelope " + name, mk(code=code, inv="CodeEnvelope", view="VIEW ViewRew", **k), [], 2, k))
        quick_cex = {("multiapp", "ReopenSame"), ("singleapp", "RewindDiscardsSuffix"), ("multiapp-prealloc", "ReadsAgree")}
        for kind, k in cex_cfgs:
            for inv in NAMED:
                if not thorough and (kind, inv) not in quick_cex:
                    continue
                jobs.append(("cex", "code-as-transcribed %s %s" % (kind, inv), mk(code=code, full=True, inv=inv, mops=5, **k), [], 1,
                             dict(k, inv=inv, kind=kind)))

    # ---- 2a. behaviours for replay: simulation of the code-as-transcribed configuration ------------------------------
    matrix = []
    for multi in (True, False):
        for (rt, au) in rm:
            for pre in (False, True):
                if multi:
                    for (F, W, mo) in [(4, 3, 1), (4, 2, 2), (8, 3, 1), (16, 5, 2), (5, 8, 1)]:
                        matrix.append(dict(multi=True, F=F, W=W, mo=mo, retry=rt, auto=au, pre=F if pre else 0))
                else:
                    for W in (2, 3, 8):
                        matrix.append(dict(multi=False, F=64, W=W, mo=1, retry=rt, auto=au, pre=4 if pre else 0))
    if thorough:
        sims = [k for i, k in enumerate(matrix) if (i + seed) % 2 == 0]     # half of the matrix, alternating with the seed
        nsim = 120
    else:
        # a seed-dependent slice of the matrix: 4 multi-file (with and without preallocation) and 2 single-file
        # configurations with pairwise different sync modes
        order = sorted(range(len(matrix)), key=lambda i: vlib_hash(seed, i))
        sims = []

        def pick(cond, n):
            seen = set()
            for i in order:
                k = matrix[i]
                if cond(k) and (k["retry"], k["auto"]) not in seen and len(seen) < n:
                    seen.add((k["retry"], k["auto"]))
                    sims.append(k)
        pick(lambda k: k["multi"] and not k["pre"], 3)
        pick(lambda k: k["multi"] and k["pre"], 1)
        pick(lambda k: not k["multi"] and not k["pre"], 1)
        pick(lambda k: not k["multi"] and k["pre"], 1)
        nsim = 40
    for i, k in enumerate(sims):
        mb = 16 if k["multi"] else 12
        depth = 12
        mc = ((mb + k["pre"]) // k["F"] + 2) if k["multi"] else 0
        text = mk(multi=k["multi"], F=k["F"], W=k["W"], mo=k["mo"], retry=k["retry"], auto=k["auto"], pre=k["pre"], mb=mb,
                  ma=min(6, max(2, k["F"] + 2)) if k["multi"] else 5, mops=depth, mc=mc, code=code, sim=True, emit=depth,
                  inv="TypeOK Emit", view="")
        jobs.append(("sim", cfg_name(k), text, ["-simulate", "num=%d" % nsim, "-depth", str(depth + 2), "-seed", str(seed * 1000 + i)], 1, k))

    # ---- 2a''. seeded simulation (PrefixSpec): under retryable sync, start from Append; Flush (no Sync); Append and go on at
    # random (the simulator then finds SetOffset into the unflushed tail among the successors: TailPositions)
    psims = [k for k in sims if k["retry"] and not k["pre"]]
    if not thorough:
        psims = ([k for k in psims if not k["multi"]] + [k for k in psims if k["multi"]])[:1]
    for i, k in enumerate(psims):
        a = max(1, min(2, k["W"] - 1))
        b = max(1, min(2, k["W"] - a))
        pf = [[("append", a, 0), ("flush", 0, 0), ("append", b, 0)], [("append", 1, 0), ("flush", 0, 0), ("append", 1, 0)]]
        mb = 16 if k["multi"] else 12
        text = mk(multi=k["multi"], F=k["F"], W=k["W"], mo=k["mo"], retry=k["retry"], auto=k["auto"], pre=0, mb=mb,
                  ma=min(6, max(2, k["F"] + 2)) if k["multi"] else 5, mops=12, mc=(mb // k["F"] + 2) if k["multi"] else 0, code=code,
                  sim=True, emit=12, inv="TypeOK Emit", view="")
        text = text.replace("SPECIFICATION Spec", "CONSTANT Scripts <- ScriptsV\nSPECIFICATION PrefixSpec")
        root = ("---- MODULE C17Scripts ----\nEXTENDS AppendableScript\nScriptsV == {%s}\n====\n"
                % ", ".join("<<%s>>" % ", ".join('<<"%s", %d, %d>>' % e for e in sc) for sc in pf))
        jobs.append(("psim", cfg_name(k) + " seeded", text, ["-simulate", "num=%d" % nsim, "-depth", "14", "-seed", str(seed * 1000 + 500 + i)], 1,
                     dict(k, root=root)))

    # ---- 2a'. directed behaviours (spec/AppendableScript.tla): physical end of the file beyond its logical end (rewind below
    # the flushed offset / preallocated file), unflushed bytes, Copy, Append, Flush, read-back, re-open, read-back
    R = ("read", 0, 1)
    scripts_rewind = [
        [("append", 5, 0), ("flush", 0, 0), ("setoffset", 2, 0), ("append", 2, 0), ("copy", 0, 0), ("append", 2, 0), ("flush", 0, 0),
         ("read", 0, 6), ("reopen", 0, 0), ("read", 0, 6), R],
        [("append", 4, 0), ("sync", 0, 0), ("setoffset", 0, 0), ("append", 1, 0), ("copy", 0, 0), ("append", 1, 0), ("copy", 0, 0),
         ("append", 3, 0), ("sync", 0, 0), ("reopen", 0, 0), ("read", 0, 5)],
        [("append", 3, 0), ("flush", 0, 0), ("append", 2, 0), ("setoffset", 1, 0), ("append", 1, 0), ("copy", 0, 0), ("append", 1, 0),
         ("flush", 0, 0), ("read", 0, 3), ("reopen", 0, 0), ("read", 0, 3)],
    ]
    scripts_pre = [
        [("setoffset", 0, 0), ("append", 2, 0), ("copy", 0, 0), ("append", 1, 0), ("flush", 0, 0), ("read", 0, 3), ("reopen", 0, 0),
         ("read", 0, 3), R, R, R],
        [("setoffset", 0, 0), ("append", 3, 0), ("flush", 0, 0), ("setoffset", 1, 0), ("append", 1, 0), ("copy", 0, 0), ("append", 2, 0),
         ("sync", 0, 0), ("read", 0, 4), ("reopen", 0, 0), ("read", 0, 4)],
    ]
    def tail_scripts(a, b, c):
        # retryable sync keeps flushed-but-unsynced bytes in the write buffer: Append a; Flush (no Sync); Append b; SetOffset(off)
        # for every off from the flushed offset to the current offset (both included) and below the flushed offset; Append c;
        # Flush; Sync; read everything back; re-open; read back.  Size/Offset are compared after every step.
        out = []
        for off in sorted(set([0, max(a - 1, 0)] + list(range(a, a + b + 1)))):
            n = off + c
            out.append([("append", a, 0), ("flush", 0, 0), ("append", b, 0), ("setoffset", off, 0), ("append", c, 0), ("flush", 0, 0),
                        ("sync", 0, 0), ("read", 0, n), ("reopen", 0, 0), ("read", 0, n), R])
        return out
    tails = tail_scripts(3, 3, 2) + tail_scripts(2, 4, 1)
    FF, TT, TF = (False, False), (True, True), (True, False)
    # (multi, F, W, sync mode, pre, scripts): buffer sizes such that everything fits / a+b overflows (auto-sync frees the buffer in
    # between) / every append overflows
    dcfgs = [(False, 64, 8, FF, 0, scripts_rewind + tails), (False, 64, 8, TT, 0, scripts_rewind + tails),
             (False, 64, 8, TF, 0, scripts_rewind + tails), (True, 16, 9, TF, 0, scripts_rewind + tails),
             (False, 64, 8, rm[seed % 3], 4, scripts_pre), (True, 4, 8, FF, 4, scripts_pre)]
    extra = [(False, 64, 4, TT, 0, tails), (False, 64, 2, TT, 0, tails), (False, 64, 5, TT, 0, tails),
             (True, 4, 8, FF, 0, scripts_rewind), (True, 4, 8, TT, 0, scripts_rewind + tails)]
    if thorough:
        dcfgs += extra + [(False, 64, 3, TT, 0, tails), (False, 64, 12, TT, 0, tails), (False, 64, 12, TF, 0, tails),
                          (True, 16, 8, TT, 0, scripts_rewind + tails), (True, 4, 3, TT, 0, tails), (True, 4, 8, TF, 0, scripts_rewind),
                          (False, 64, 8, TT, 4, scripts_pre), (False, 64, 8, TF, 4, scripts_pre), (True, 4, 8, TT, 4, scripts_pre)]
    else:
        dcfgs.append(extra[seed % len(extra)])
    directed = [(dict(multi=m, F=F, W=W, mo=1, retry=md[0], auto=md[1], pre=pre), scr) for (m, F, W, md, pre, scr) in dcfgs]

    for k, scr in directed:
        text = mk(multi=k["multi"], F=k["F"], W=k["W"], mo=k["mo"], retry=k["retry"], auto=k["auto"], pre=k["pre"], mb=16, ma=6,
                  mops=len(scr[0]), mc=5 if k["multi"] else 0, code=code, emit=len(scr[0]), inv="TypeOK Emit", view="")
        text = text.replace("SPECIFICATION Spec", "CONSTANT Scripts <- ScriptsV\nSPECIFICATION ScriptSpec")
        root = ("---- MODULE C17Scripts ----\nEXTENDS AppendableScript\nScriptsV == {%s}\n====\n"
                % ", ".join("<<%s>>" % ", ".join('<<"%s", %d, %d>>' % e for e in sc) for sc in scr))
        jobs.append(("script", cfg_name(k) + " (%d scripts)" % len(scr), text, [], 1, dict(k, root=root, n=len(scr))))

    def tlc_job(j):
        kind, name, text, extra, workers, meta = j
        r = _tlc_job(j)
        vlib.log("[tlc] %-8s %-70s %6.1fs gen=%d distinct=%d %s" % (kind, name[:70], r[1].wall, r[1].generated, r[1].distinct, r[1].violation or ""))
        return r

    def _tlc_job(j):
        kind, name, text, extra, workers, meta = j
        files = [("c17.cfg", text)]
        if kind in ("script", "psim"):
            files.append(("C17Scripts.tla", meta["root"]))
        return j, vlib.run_tlc("C17Scripts" if kind in ("script", "psim") else "Appendable", "c17.cfg", workers=workers,
                               timeout=3000 if thorough else 1500, extra=extra, files=files, javaopts=JAVA, tag="C17tlc")

    with cf.ThreadPoolExecutor(8 if thorough else 7) as ex:
        results = list(ex.map(tlc_job, jobs))

    replay_sets = {}   # cfg name -> (k, [behaviours])
    for (kind, name, text, extra, workers, meta), res in results:
        if kind == "design":
            vlib.tlc_must_pass(res, name)
            chk.add_tlc(res, name)
        elif kind == "envelope":
            vlib.tlc_must_pass(res, name)
            chk.add_tlc(res, name)
        elif kind == "cex":
            if res.error:
                raise MachineryFault("%s: %s" % (name, res.error))
            chk.add_tlc(res, name + (" (counterexample: %s)" % res.violation if res.violation else " (holds)"))
            if res.violation:
                st = vlib.error_trace_last_state(res.out)
                if not st or "hist" not in st:
                    raise MachineryFault("cannot parse counterexample of " + name)
                ops = [dict(op=h["op"], a=h["a"], b=h["b"], ret=h["ret"], ideal=h["ideal"], disc=h["disc"], isize=h["isize"], meta=h["meta"],
                            devs=tla_set(h["devs"])) for h in st["hist"]]
                k = dict(multi=meta.get("multi", True), F=meta["F"], W=meta["W"], mo=meta.get("mo", 1), retry=False, auto=False, pre=meta.get("pre", 0))
                replay_sets.setdefault("cex " + cfg_name(k), (k, []))[1].append({"ops": ops, "origin": "tlc-counterexample:" + meta["inv"]})
                chk.cov.setdefault("counterexamples", []).append({"cfg": cfg_name(k), "invariant": meta["inv"],
                                                                  "ops": [(o["op"], o["a"], o["b"]) for o in ops]})
        elif kind == "script":
            if res.error or res.violation:
                raise MachineryFault("directed behaviours %s: %s %s\n%s" % (name, res.error, res.violation, res.out[-1500:]))
            bs, seen = [], set()
            for b in vlib.printed_json(res.out):
                key = json.dumps([(o["op"], o["a"], o["b"], o["ideal"]) for o in b["ops"]])
                if key not in seen:
                    seen.add(key)
                    b["origin"] = "tlc-directed"
                    bs.append(b)
            if len(bs) < meta["n"]:
                raise MachineryFault("directed behaviours %s: TLC completed %d of %d scripts (a step was not enabled)\n%s" % (name, len(bs), meta["n"], res.out[-800:]))
            chk.add_tlc(res, "directed " + name)
            chk.cov["directed_behaviours"] = chk.cov.get("directed_behaviours", 0) + len(bs)
            replay_sets.setdefault("directed " + name, (meta, []))[1].extend(bs)
        else:
            if res.error or res.violation:
                raise MachineryFault("simulation %s: %s %s\n%s" % (name, res.error, res.violation, res.out[-1500:]))
            bs, seen = [], set()
            for b in vlib.printed_json(res.out):
                key = json.dumps(b, sort_keys=True)
                if key not in seen:
                    seen.add(key)
                    b["origin"] = "tlc-simulate-seeded" if kind == "psim" else "tlc-simulate"
                    bs.append(b)
            if len(bs) < nsim // 2:
                raise MachineryFault("simulation %s printed only %d behaviours" % (name, len(bs)))
            if len(bs) > 3 * nsim:      # (the simulator prints the candidates of the last step too)
                bs = sorted(bs, key=lambda b: vlib_hash(seed, json.dumps(b, sort_keys=True)))[:3 * nsim]
            chk.add_tlc(res, "simulate " + name)
            m = re.search(r"Progress: (\d+) states checked, (\d+) traces generated", res.out)
            if m:
                chk.cov["simulated_states"] = chk.cov.get("simulated_states", 0) + int(m.group(1))
                chk.cov["simulated_traces"] = chk.cov.get("simulated_traces", 0) + int(m.group(2))
            replay_sets.setdefault(("psim " if kind == "psim" else "sim ") + name, (meta, []))[1].extend(bs)

    # ---- 2b. replay on the real code -----------------------------------------------------------------------------------
    comp_all = [1, 2, 3, 4]
    rjobs = []
    for i, (name, (k, bs)) in enumerate(sorted(replay_sets.items())):
        comp = [comp_all[(seed + i) % 4], comp_all[(seed + i + 2) % 4]] if thorough else [comp_all[(seed + i) % 4]]
        if name.startswith("cex") or name.startswith("directed") or name.startswith("psim"):
            comp = []
        inp = {"cfg": {"Name": name, "Multi": k["multi"], "F": k["F"], "W": k["W"], "MaxOpen": k["mo"], "Retry": k["retry"], "Auto": k["auto"],
                       "Pre": k["pre"], "RB": (k["F"] + 1 if k["multi"] else 2), "Comp": comp, "AltOpts": (seed + i) % 2 == 0},
               "behaviours": bs}
        p = os.path.join(wd, "replay_%d.json" % i)
        json.dump(inp, open(p, "w"))
        rjobs.append((name, p, os.path.join(wd, "d%d" % i), len(bs)))

    def replay_job(j, st=None):
        name, p, d, n = j
        a = ["-replay", p, "-seed", str(seed), "-dir", d]
        if st:
            a += ["-selftest", st]
        t0 = time.time()
        out, _ = vlib.run_harness(binp, a, timeout=3000 if thorough else 1500)
        vlib.log("[replay] %-70s %d behaviours %.1fs" % (name[:70], n, time.time() - t0))
        return name, json.loads(out)

    with cf.ThreadPoolExecutor(8) as ex:
        rres = list(ex.map(replay_job, rjobs))
    nb = 0
    for j, (_, r) in zip(rjobs, rres):
        nb += j[3]
        # flake guard (DESIGN.md 1.3): a violation that is not a known finding must re-occur when its behaviour is re-run alone
        keep = []
        for v in r.get("violations") or []:
            if is_known(chk, v["sig"]):
                keep.append(v)
                continue
            rp = v.get("replay") or {}
            allb = json.load(open(j[1]))
            if "behaviour" not in rp:
                keep.append(v)
                continue
            one = dict(allb, behaviours=[allb["behaviours"][rp["behaviour"]]])
            p1 = j[1] + ".rerun%d.json" % len(keep)
            json.dump(one, open(p1, "w"))
            _, r2 = replay_job((j[0] + " (re-run)", p1, j[2] + "r", 1))
            if any(v2["sig"] == v["sig"] for v2 in r2.get("violations") or []):
                v["replay"]["replay_input"] = one
                keep.append(v)
            else:
                chk.notes.append({"unreproduced": v["sig"], "text": v["text"][:300]})
        r["violations"] = keep
        vlib.absorb(chk, r)
    chk.cov["behaviours_replayed"] = nb
    chk.cov["steps_replayed"] = chk.cov["evaluations"]
    ctr = chk.cov.get("counters", {})
    for need in ("op:append", "op:read", "op:setoffset", "op:flush", "op:sync", "op:discard", "op:switchro", "op:reopen", "op:copy", "reads"):
        if not ctr.get(need):
            raise MachineryFault("replay never executed %s (vacuous)" % need)

    tail = "setoffset:into-unflushed-tail-with-flushed-unsynced-buffered:"
    chk.cov["setoffset_into_tail_with_flushed_held"] = {"directed": ctr.get(tail + "tlc-directed", 0), "simulated": ctr.get(tail + "tlc-simulate", 0),
                                                    "simulated_from_seeded_prefix": ctr.get(tail + "tlc-simulate-seeded", 0)}
    if psims and not ctr.get(tail + "tlc-simulate-seeded"):
        raise MachineryFault("no seeded simulation took SetOffset into the unflushed tail while flushed-unsynced bytes were buffered (vacuous)")
    if not ctr.get(tail + "tlc-directed"):
        raise MachineryFault("no directed behaviour drove SetOffset into the unflushed tail while flushed-unsynced bytes were buffered (vacuous)")

    # ---- 3. trace validation of concurrent readers ---------------------------------------------------------------------
    tv_ok = run_tv(chk, binp, wd, seed, runs=24 if thorough else 8, ops=80 if thorough else 50, corrupt=False)

    # ---- binding self-test ------------------------------------------------------------------------------------------------
    if selftest or thorough:
        j = next(x for x in rjobs if x[0].startswith("sim"))
        _, r = replay_job(j, "ideal")
        caught = [v for v in (r.get("violations") or []) if "differs-from-byte-array" in v["sig"]]
        rejected = not run_tv(None, binp, wd, seed, runs=2, ops=30, corrupt=True)
        if selftest:
            for v in caught[:1]:
                chk.violation("selftest:" + v["sig"], "SELFTEST (one expected byte corrupted): " + v["text"], v.get("replay"))
            if rejected:
                chk.violation("selftest:TraceAppendable:corrupted-observation-rejected", "SELFTEST (one observed byte corrupted): TLC rejects the trace", None)
        if not caught or not rejected:
            raise MachineryFault("binding self-test failed: corrupted expectation caught=%s, corrupted trace rejected=%s" % (bool(caught), rejected))
        chk.cov["binding_selftest"] = "corrupted expected byte reported by the replay; corrupted observation rejected by TLC"

    chk.cov["exhaustive"] = True
    chk.cov["rule"] = ("behaviours = TLC counterexamples of the code-as-transcribed configuration plus TLC -simulate histories (12 steps) per "
                       "option combination; each is replayed in byte mode twice (all reads after every step / model reads only) and in "
                       "entry mode per compression format; distinct = distinct JSON histories")
    chk.assumptions += [
        "fsync never fails (sync-failure branch of retryable sync is not driven: no failure injection without a hook)",
        "Append that would return ErrBufferFull (retryable sync without auto-sync, buffer full) is outside the property and not explored",
        "process crashes are C03's subject: here Close/Open only",
        "exhaustive runs: at most 6-9 appended bytes, chunk size 2-4, buffer 1-3, cache 1-2 (state graph explored to its fixpoint, no depth bound)",
    ]


def is_known(chk, sig):
    return any(f.get("property") == chk.pid and f.get("status") == "open" and vlib._sig_match(f.get("signature", ""), sig)
               for f in chk._findings.get("findings", []))


def vlib_hash(seed, i):
    import hashlib
    return hashlib.sha256(("%d:%s" % (seed, i)).encode()).hexdigest()


def tla_set(v):
    if isinstance(v, dict) and "__set__" in v:
        return v["__set__"]
    return v or []


TV_CFG = """CONSTANTS TraceFile = "%s"
SPECIFICATION TraceSpec
POSTCONDITION Stuck
CHECK_DEADLOCK FALSE
"""
SIG_KEYNOTFOUND = "multiapp.appendableFor:handle-evicted-between-open-and-use:concurrent-ReadAt-fails-with-key-not-found"


def run_tv(chk, binp, wd, seed, runs, ops, corrupt, attempt=0):
    """Returns True iff TLC accepts the recorded trace.  chk=None: self-test mode (no accounting)."""
    tag = "tv%s%d" % ("c" if corrupt else "", attempt)
    trace = os.path.join(wd, tag + ".ndjson")
    a = ["-tv", trace, "-seed", str(seed + attempt), "-dir", os.path.join(wd, tag + "d"), "-tvruns", str(runs), "-tvops", str(ops)]
    if corrupt:
        a += ["-selftest", "got"]
    out, _ = vlib.run_harness(binp, a, timeout=600)
    r = json.loads(out)
    # observations that are errors are violations by themselves (classified by their text); the rest is judged by TLC
    evs = [json.loads(l) for l in open(trace)]
    runs_, errs = [], {}
    for e in evs:
        if e["e"] == "reset":
            runs_.append([])
        runs_[-1].append(e)
    kept = []
    for rr in runs_:
        bad = {e["id"] for e in rr if e["e"] == "rerr"}
        for e in rr:
            if e["e"] in ("rerr", "werr"):
                errs.setdefault((e["e"], e.get("err", "")), []).append(rr[0].get("cfg"))
            elif e["e"] in ("rcall", "scall") and e["id"] in bad:
                continue
            else:
                kept.append({k: v for k, v in e.items() if v is not None})
    f2 = tag + "_f.ndjson"
    text = "".join(json.dumps(e) + "\n" for e in kept)
    res = vlib.run_tlc("TraceAppendable", "tv.cfg", workers=1, timeout=600, files=[("tv.cfg", TV_CFG % f2), (f2, text)], javaopts=JAVA, tag="C17tv")
    if res.error and not res.postcondition_failed:
        raise MachineryFault("TraceAppendable: " + res.error)
    accepted = not res.postcondition_failed and res.distinct == len(kept) + 1
    if chk is None:
        return accepted
    chk.add_tlc(res, "TraceAppendable (%d events of %d concurrent runs)" % (len(kept), len(runs_)))
    vlib.absorb(chk, r)
    chk.cov["tv_events_validated"] = len(kept)
    for (kind, err), cfgs in sorted(errs.items()):
        if kind == "rerr" and err == "key not found":
            chk.violation(SIG_KEYNOTFOUND, "%d concurrent ReadAt/Size calls failed with %r (e.g. %s)" % (len(cfgs), err, cfgs[0]), {"trace_cfg": cfgs[0]})
        else:
            chk.violation("appendable:concurrent-%s:error:%s" % ("read" if kind == "rerr" else "write", err),
                          "%d concurrent calls failed with %r (e.g. %s)" % (len(cfgs), err, cfgs[0]), {"trace_cfg": cfgs[0], "seed": seed})
    if not accepted:
        at = [l for l in res.out.splitlines() if "REJECTED-AT" in l]
        i = res.out.find("REJECTED-AT")
        detail = res.out[i:i + 600] if i >= 0 else res.out[-600:]
        if attempt == 0:
            # flake guard: an unexplainable observation must re-occur on a second recording
            again = run_tv(chk, binp, wd, seed, runs, ops, corrupt, attempt=1)
            if again:
                chk.notes.append({"unreproduced-trace-rejection": detail})
                return True
        chk.violation("appendable:concurrent-observation:not-explained-by-byte-array", "TLC rejects the recorded trace: " + detail,
                      {"trace": text[:20000], "seed": seed})
    return accepted


if __name__ == "__main__":
    vlib.main(run, "C17", "model_checking")
