#!/usr/bin/env python3
"""C07 - replication reproduces exactly the primary's history, nothing else.
spec/Replication.tla relates what primary and replicas precommitted / durably hold / committed under each id;
TLC checks spec/MCReplication.tla exhaustively (network duplicating, reordering, altering exported txs; replica discards).
harness/cmd/c07 drives a real primary store and 1-2 real replica stores the way pkg/replication does (ExportTx, ReplicateTx,
allowance from durable acks, AllowCommitUpto on replicas after the primary committed) with duplicated / out-of-order /
bit-altered deliveries, replica restarts and discards; the merged hook trace of all stores is validated by TLC against
Replication.tla (spec/TraceReplication.tla) and each store's own events against Store.tla (spec/TraceStore.tla)."""
import json, os, sys, concurrent.futures as cf
sys.path.insert(0, os.path.join(os.path.dirname(os.path.abspath(__file__)), "..", "lib"))
import vlib
from vlib import MachineryFault
sys.path.insert(0, os.path.dirname(os.path.abspath(__file__)))
from C02 import validate, report_live_bad

MC = """CONSTANTS
  Replicas = {"r1", "r2"}
  SyncAcks = %d
  MaxTx = %d
  UndetectedAlterations = %s
  MaxAlter = 1
SPECIFICATION MCSpec
INVARIANTS ReplInv ReplicaHoldsPrimaryTxs
CHECK_DEADLOCK FALSE
"""


def run(chk, args):
    thorough = chk.tier == "thorough"
    wd = vlib.scratch("C07")
    binp = vlib.go_build("c07")
    for acks in (0, 1, 2):
        d = vlib.run_tlc("MCReplication", "mc.cfg", workers=8, timeout=2400, files=[("mc.cfg", MC % (acks, 4 if thorough else 3, "FALSE"))], tag="C07mc")
        vlib.tlc_must_pass(d, "MCReplication design SyncAcks=%d" % acks)
        chk.add_tlc(d, "MCReplication SyncAcks=%d (alterations detected)" % acks)
    c = vlib.run_tlc("MCReplication", "mc.cfg", workers=2, timeout=600, files=[("mc.cfg", MC % (1, 3, "TRUE"))], tag="C07mc")
    if c.error:
        raise MachineryFault("MCReplication code variant: " + c.error)
    chk.add_tlc(c, "MCReplication with header alterations the export format cannot authenticate: %s" % (c.violation or "no violation"))
    if not c.violation:
        raise MachineryFault("the undetected-alteration variant has no counterexample: the model lost its teeth")
    runs = 45 if thorough else 9
    tf = os.path.join(wd, "trace.ndjson")
    out, _ = vlib.run_harness(binp, ["-seed", str(chk.seed), "-runs", str(runs), "-dir", os.path.join(wd, "d"), "-out", tf], timeout=3000)
    r = json.loads(out)
    lines = open(tf).readlines()
    # (a) cross-store validation
    res = vlib.run_tlc("TraceReplication", "TraceReplication.cfg", workers=1, timeout=2400, env={"VERIF_TRACE": tf}, tag="C07tv")
    if res.error and not res.postcondition_failed:
        raise MachineryFault("TraceReplication: " + res.error)
    chk.add_tlc(res, "TraceReplication (%d events)" % len(lines))
    if res.postcondition_failed or res.violation:
        import re
        m = re.search(r'"TRACE-REJECTED-AT-LINE",\s*(\d+)', res.out)
        ln = int(m.group(1)) if m else 0
        ev = json.loads(lines[ln - 1]) if 0 < ln <= len(lines) else {}
        start = max([i for i in range(ln) if '"ev":"Reset"' in lines[i] and '"store":"p"' in lines[i]] or [0])
        chk.violation("replication-trace:%s:%s:not-explained" % (ev.get("store"), ev.get("ev")),
                      "real primary/replica execution is not a behaviour of Replication.tla: event %s (config %s) cannot be explained (guard false)"
                      % (json.dumps(ev)[:300], json.loads(lines[start]).get("cfg")),
                      {"trace_prefix": [json.loads(x) for x in lines[start:ln] if '"Observed"' not in x][-80:]})
    for b in vlib.printed_json(res.out):
        for item in b["bad"]:
            ln = item["line"]
            start = max(i for i in range(ln) if '"ev":"Reset"' in lines[i] and '"store":"p"' in lines[i])
            seg = [json.loads(x) for x in lines[start:ln + 200]]
            sig = "replication:" + item["what"]
            if item["what"] == "replica-precommitted-a-tx-that-is-not-the-primarys":
                acc = [e for e in seg if e.get("ev") == "Accepted" and e.get("store") == item["store"] and e.get("id") == item["id"] and not e.get("same")]
                if acc:
                    skip = "SkipIntegrity:true" in (json.loads(lines[start]).get("cfg") or "")
                    sig = ("replication:integrity-check-skipped:altered-export-accepted:" if skip else "replication:altered-export-accepted:") + acc[0]["field"]
            chk.violation(sig, "replica %s: %s (tx %d); config %s" % (item["store"], item["what"], item["id"], json.loads(lines[start]).get("cfg")),
                          {"config": json.loads(lines[start]).get("cfg"), "trace_prefix": [e for e in seg[:ln - start + 3] if e.get("ev") != "Observed"][-80:]})
    # (b) every store's own pipeline against Store.tla
    per_store = {}
    for x in lines:
        e = json.loads(x)
        if e["ev"] in ("Accepted", "Rejected", "Converged"):
            continue
        per_store.setdefault(e["store"], []).append(x)
    with cf.ThreadPoolExecutor(3) as ex:
        results = list(ex.map(lambda kv: (kv[0], validate([kv[1]], wd, "store_" + kv[0])), sorted(per_store.items())))
    for name, (ok, sres, line) in results:
        chk.add_tlc(sres, "TraceStore for store %s" % name)
        flat = per_store[name]
        if not ok:
            ev = json.loads(flat[line - 1]) if line and line <= len(flat) else {"ev": "?"}
            chk.violation("store-trace:%s:%s:%s" % (name, ev.get("ev"), sres.violation or "not-explained"),
                          "store %s: event %s (line %s) is not explained by Store.tla" % (name, json.dumps(ev)[:300], line),
                          {"trace_prefix": [json.loads(x) for x in flat[max(0, (line or 1) - 60):(line or 1) + 1]]})
        else:
            report_live_bad(chk, sres, flat)
    r["traces"] = runs
    vlib.absorb(chk, r)
    chk.cov["rule"] = "one trace per run (primary + 1-2 replicas; config rotates over sync acks 0/1/all, integrity-check skipping, header version, embedded values, file size, faults, replica restart, replica discard)"
    chk.assumptions += ["store level: the gRPC replicator loop of pkg/replication is emulated by the driver making the same calls; pkg/database wrappers are not driven",
                        "alterations are single-bit flips anywhere in the exported bytes"]


if __name__ == "__main__":
    vlib.main(run, "C07", "model_checking")
