#!/usr/bin/env python3
"""C07 - replication reproduces exactly the primary's history, nothing else.
spec/Replication.tla relates what primary and replicas precommitted / durably hold / committed under each id;
TLC checks spec/MCReplication.tla exhaustively (network duplicating, reordering, altering exported txs; replica discards).
harness/cmd/c07 drives a real primary store and 1-2 real replica stores the way pkg/replication does (ExportTx, ReplicateTx,
allowance from durable acks, AllowCommitUpto on replicas after the primary committed) with duplicated / out-of-order /
bit-altered deliveries, replica restarts and discards; the merged hook trace of all stores is validated by TLC against
Replication.tla (spec/TraceReplication.tla) and each store's own events against Store.tla (spec/TraceStore.tla).
Database level (phase "db"): spec/ReplicationDB.tla makes the steps of the real replication round explicit (a replica REPORTS its
committed / durably precommitted state, the request ARRIVES at the followed node which COUNTS the ack and raises its allowance,
ANSWERS with a tx / its commit state / divergence, the replica accepts the allowance, discards after divergence, nodes switch the
node they follow, are promoted, restarted).  TLC checks spec/MCReplicationDB.tla (transcribed decisions of pkg/database and
pkg/replication + failover) exhaustively, the variants with a weakened decision must have counterexamples, and harness/cmd/c07db
runs the REAL replication.TxReplicator between REAL database.DB objects under gated schedules (randomized, TLC-simulated and TLC
counterexamples); the merged trace (store hooks + driver events) is validated against ReplicationDB.tla (spec/TraceReplicationDB.tla)."""
import json, os, re, sys, threading, time, concurrent.futures as cf
sys.path.insert(0, os.path.join(os.path.dirname(os.path.abspath(__file__)), "..", "lib"))
import vlib
from vlib import MachineryFault
sys.path.insert(0, os.path.dirname(os.path.abspath(__file__)))
from C02 import validate, report_live_bad

MC = """CONSTANTS
  Replicas = {"r1", "r2"}
  SyncAcks = %d
  MaxTx = %d
  UndetectedAlterations = %s
  MaxAlter = 1
SPECIFICATION MCSpec
INVARIANTS ReplInv ReplicaHoldsPrimaryTxs
CHECK_DEADLOCK FALSE
"""


MCDB = """CONSTANTS
  Nodes = {n1, n2, n3}
  n1 = n1
  n2 = n2
  n3 = n3
  First = n1
  MaxTx = %(MaxTx)d
  MaxFail = %(MaxFail)d
  MaxRestart = %(MaxRestart)d
  SyncRepl = %(SyncRepl)s
  Acks = %(Acks)d
  AllowDiscard = %(AllowDiscard)s
  WithReroute = %(WithReroute)s
  Rejoin = %(Rejoin)s
  PrimaryAsync = %(PrimaryAsync)s
  ReportInMem = %(ReportInMem)s
  SkipPrecommitCheck = %(SkipPrecommitCheck)s
  SkipPrecommitCheckBelowCommitted = %(SkipBelow)s
  Script <- %(Script)s
  SkipReplicaAlhCheck = FALSE
  DiscardKeepsAllowance = %(DiscardKeepsAllowance)s
  RecordSched = %(RecordSched)s
  EmitDepth = %(EmitDepth)d
SPECIFICATION MCSpec
INVARIANTS %(inv)s
%(view)s
CHECK_DEADLOCK FALSE
"""
MCDB_ACTIONS = ["ClientWrite", "SyncStep", "CommitStep", "ReportStep", "PrimaryServe", "HandleAnswer", "ApplyAny", "LoseStep", "PromoteStep",
                "SwitchStep", "RerouteStep", "RestartStep"]
T, F = "TRUE", "FALSE"


def mcdb_cfg(**kw):
    d = dict(MaxTx=2, MaxFail=1, MaxRestart=0, SyncRepl=T, Acks=1, AllowDiscard=T, WithReroute=T, Rejoin=T, PrimaryAsync=F, ReportInMem=F, SkipPrecommitCheck=F, SkipBelow=F, Script="NoScript",
             DiscardKeepsAllowance=F, RecordSched=F, EmitDepth=0, inv="NoBad MCTypeOK StoreLevelInv", view="VIEW View\nSYMMETRY Sym")
    d.update(kw)
    return MCDB % d


PREFIX = ["write:n1", "sync:n1", "report:n2", "export:n2", "handle:n2", "apply:n2:1", "sync:n2", "lose:n1", "promote:n3"]


# a replica holds tx 1 durably, the primary committed it and the replica accepted the allowance (its own commit waits for the next sync)
PREFIX_ALLOW = ["write:n1", "sync:n1", "report:n2", "export:n2", "handle:n2", "apply:n2:1", "sync:n2", "report:n2", "export:n2", "sync:n1", "handle:n2",
                "report:n2", "export:n2", "handle:n2"]


def script_module(steps):
    """directed model checking: a module fixing the first steps of the behaviour (a replica holds a durable, uncommitted tx of the
    primary; the primary is lost; the node that holds nothing is promoted), the rest is searched by TLC"""
    def label(s):
        f = s.split(":")
        return "<<" + ", ".join(['"%s"' % f[0]] + f[1:]) + ">>"
    return "---- MODULE MCReplicationDBScript ----\nEXTENDS MCReplicationDB\nCONSTANTS n1, n2, n3\nTheScript == <<%s>>\n====\n" % ", ".join(label(x) for x in steps)


def sched_of(res, what):
    st = vlib.error_trace_last_state(res.out)
    if not st or "sched" not in st:
        raise MachineryFault("cannot parse the counterexample of %s" % what)
    return [":".join(str(x if not isinstance(x, dict) else x.get("__mv__")) for x in s) for s in st["sched"]], st.get("bad")


def db_signature(item, seg, upto):
    """canonical signature of a collected guard failure; seg = events of the run, upto = index of the failing event in seg"""
    sig = "replication-db:" + item["what"]
    if item["what"] in ("replica-commits-before-primary", "replica-commits-tx-not-in-primary-history"):
        # the allowance in force was granted before the replica discarded the transactions it was granted for
        allow = None
        for i in range(upto - 1, -1, -1):
            e = seg[i]
            if e.get("node") != item["node"]:
                continue
            if e.get("ev") == "Allow":
                allow = i
                break
            if e.get("ev") in ("Switch", "Opened", "Promote"):
                break
        if allow is not None and any(e.get("node") == item["node"] and e.get("ev") == "Discard" and e.get("since", 1 << 60) <= seg[allow].get("upto", 0)
                                     for e in seg[allow:upto]):
            sig += ":allowance-granted-before-discard"
    return sig


def db_phase(chk, wd, out, binp):
    """database-level slice; everything that touches chk is deferred to db_fold (this runs in a thread)"""
    thorough = chk.tier == "thorough"
    tlc_runs, notes = [], []
    out["tlc"], out["notes"] = tlc_runs, notes

    def mc(name, workers=3, timeout=1500, extra=(), script=None, **kw):
        module, files = "MCReplicationDB", []
        if script:
            module, files = "MCReplicationDBScript", [("MCReplicationDBScript.tla", script_module(script))]
            kw = dict(kw, Script="TheScript", RecordSched=T, view="VIEW View")
        r = vlib.run_tlc(module, "mcdb.cfg", workers=workers, timeout=timeout, extra=list(extra), files=[("mcdb.cfg", mcdb_cfg(**kw))] + files, tag="C07dbmc",
                         javaopts=["-XX:ParallelGCThreads=2", "-XX:CICompilerCount=2"])   # many small JVMs on a shared box
        if r.error:
            raise MachineryFault("MCReplicationDB %s: %s" % (name, r.error))
        tlc_runs.append((r, "MCReplicationDB " + name))
        return r

    jobs = {}
    tf = os.path.join(wd, "dbtrace.ndjson")
    runs = 40 if thorough else 10

    def harness(tag, extra, trace):
        t0 = time.time()
        hout, _ = vlib.run_harness(binp, ["-seed", str(chk.seed), "-dir", os.path.join(wd, "dbd_" + tag), "-out", trace] + extra, timeout=3000)
        vlib.log("[c07db] %s in %.0fs" % (tag, time.time() - t0))
        return json.loads(hout)

    with cf.ThreadPoolExecutor(5 if not thorough else 4) as ex:
        # real nodes under randomized schedules (runs beside the model checking)
        hjob = ex.submit(harness, "random", ["-runs", str(runs)], tf + ".random")
        rjob = ex.submit(harness, "repro", ["-repro", "stale-allowance"], tf + ".repro")
        # the design: no guard of ReplicationDB.tla is ever false, whatever the schedule (2 replicas + primary switch; re-pointing by
        # reconfiguration and by re-routing, replica restart, rejoin of the lost primary as a replica)
        if thorough:
            jobs["design sync 3 txs"] = ex.submit(mc, "design: sync, 1 ack, 3 txs, primary switch (reconfigure / re-route)", MaxTx=3, Rejoin=F, workers=6, timeout=2700)
            jobs["design sync acks=1"] = ex.submit(mc, "design: sync, 1 ack, 2 txs, primary switch (reconfigure / re-route / rejoin)", workers=4)
            jobs["design sync acks=2"] = ex.submit(mc, "design: sync, 2 acks, 2 txs, primary switch (reconfigure / re-route / rejoin)", Acks=2)
            jobs["design sync restart"] = ex.submit(mc, "design: sync, 1 ack, 2 txs, switch + restart", MaxRestart=1, Rejoin=F, workers=4)
            jobs["design async"] = ex.submit(mc, "design: async, 2 txs, switch + restart + re-route + rejoin", SyncRepl=F, MaxRestart=1)
        else:
            jobs["design sync acks=1"] = ex.submit(mc, "design: sync, 1 ack, 2 txs, primary switch (reconfigure / re-route)", Rejoin=F, workers=2)
            jobs["design async"] = ex.submit(mc, "design: async, 2 txs, primary switch (reconfigure / re-route)", SyncRepl=F, Rejoin=F, workers=1)
        jobs["coverage"] = ex.submit(mc, "design: sync, 1 ack, 1 tx, switch + rejoin + restart (action coverage)", MaxTx=1, MaxRestart=1, workers=1, extra=["-coverage", "1"])
        # weakened decisions must be caught by the guards (teeth), and give schedules that are replayed on the real code
        jobs["teeth report"] = ex.submit(mc, "teeth: replica advertises its in-memory precommit", ReportInMem=T, RecordSched=T, Rejoin=F, workers=1)
        jobs["teeth check"] = ex.submit(mc, "teeth: primary skips the precommit alh check", SkipPrecommitCheck=T, RecordSched=T, Rejoin=F, workers=1)
        jobs["code allowance"] = ex.submit(mc, "teeth: a discard leaves the commit allowance (the code before 5dff58a)", DiscardKeepsAllowance=T, RecordSched=T, Rejoin=F, workers=2,
                                           script=None if thorough else PREFIX_ALLOW)
        # the narrow gap: the precommitted alh is not compared when the replica's precommitted id is at or below the primary's committed tx.
        # Directed search (scripted failover prefix, 3 txs): the deepest consequence - the replica commits the lost primary's transactions
        jobs["teeth below sync"] = ex.submit(mc, "teeth: precommit check skipped at or below the primary's commit (sync, the rejoined old primary acks)", script=PREFIX,
                                             MaxTx=3, SkipBelow=T, WithReroute=F, inv="NoForeignCommit", workers=2)
        jobs["teeth below async"] = ex.submit(mc, "teeth: precommit check skipped at or below the primary's commit (primaries commit without acks)", script=PREFIX,
                                              MaxTx=3, SkipBelow=T, WithReroute=F, Rejoin=F, PrimaryAsync=T, inv="NoForeignCommit", workers=1)
        if thorough:
            jobs["design below"] = ex.submit(mc, "design: same directed space (3 txs, failover prefix, rejoin), all guards", script=PREFIX, MaxTx=3, WithReroute=F, workers=2)
            jobs["teeth below equal"] = ex.submit(mc, "teeth: precommit check skipped at or below the primary's commit (first false guard)", script=PREFIX,
                                                  MaxTx=3, SkipBelow=T, WithReroute=F, workers=2)
            jobs["design below async"] = ex.submit(mc, "design: primaries commit without acks, directed space", script=PREFIX, MaxTx=3, WithReroute=F, PrimaryAsync=T, workers=2)
        num = 60 if thorough else 12
        jobs["sim"] = ex.submit(mc, "simulated schedules", workers=1, MaxTx=5, MaxFail=2, MaxRestart=1, DiscardKeepsAllowance=T, RecordSched=T, EmitDepth=48,
                                inv="Emit", view="", extra=["-simulate", "num=%d" % num, "-depth", "50", "-seed", str(chk.seed)])
        # ... and walks that start after the failover with a tail holder left behind, the old primary already back as a replica
        jobs["sim2"] = ex.submit(mc, "simulated schedules after a failover that leaves a precommitted tail behind", workers=1, script=PREFIX + ["write:n3", "write:n3", "sync:n3", "switch:n1:n3"],
                                 MaxTx=5, MaxFail=1, MaxRestart=1, inv="Emit", EmitDepth=60, extra=["-simulate", "num=%d" % (num // 2), "-depth", "62", "-seed", str(chk.seed + 1)])
        res = {k: j.result() for k, j in jobs.items()}
        hrandom, out["repro"] = hjob.result(), rjob.result()
    for k, r in res.items():
        if k.startswith("design"):
            vlib.tlc_must_pass(r, "MCReplicationDB " + k)
    cov = {}
    rx = re.compile(r"^<(\w+) line \d+, col \d+ to line \d+, col \d+ of module MCReplicationDB(?: \([\d ]+\))?>: (\d+):(\d+)", re.M)
    for k, r in res.items():
        for m in rx.finditer(r.out):
            cov[m.group(1)] = max(cov.get(m.group(1), 0), int(m.group(3)))
    if not cov:
        raise MachineryFault("MCReplicationDB: no coverage statistics")
    dead = [a for a in MCDB_ACTIONS if cov.get(a, 0) == 0]
    if dead:
        raise MachineryFault("MCReplicationDB: actions that never fire: %s (coverage %s)" % (dead, cov))
    out["coverage"] = cov
    schedules = []
    for k in ("teeth report", "teeth check", "code allowance", "teeth below sync", "teeth below async", "teeth below equal"):
        if k not in res:
            continue
        r = res[k]
        if r.violation not in ("NoBad", "NoForeignCommit"):
            raise MachineryFault("MCReplicationDB %s has no counterexample (%s): the model lost its teeth" % (k, r.violation))
        steps, bad = sched_of(r, k)
        schedules.append({"cfg": {"sync": True, "need": 1, "allowDiscard": True, "concurrency": 3, "syncFreqMs": [2000], "txs": 9, "primaryAsync": k.endswith("async")},
                          "steps": steps, "origin": "tlc-counterexample:" + k, "expect": bad})
    sims = vlib.printed_json(res["sim"].out) + vlib.printed_json(res["sim2"].out)
    seen = set()
    for b in sims:
        steps = [":".join(str(x) for x in s) for s in b["steps"]]
        key = "|".join(steps)
        if key in seen:
            continue
        seen.add(key)
        i = len(seen)
        schedules.append({"cfg": {"sync": i % 4 != 0, "need": 1 + i % 2, "allowDiscard": i % 5 != 0, "concurrency": 1 + i % 3, "syncFreqMs": [2000], "txs": 12, "dups": i % 3 == 1},
                          "steps": steps, "origin": "tlc-simulate"})
    if len(seen) < num // 2:
        raise MachineryFault("MCReplicationDB simulation printed only %d schedules" % len(seen))
    sp = os.path.join(wd, "dbsched.json")
    json.dump(schedules, open(sp, "w"))
    hsched = harness("tlc-schedules", ["-runs", "0", "-schedules", sp], tf + ".sched")
    with open(tf, "w") as fh:
        fh.write(open(tf + ".sched").read())
        fh.write(open(tf + ".random").read())
    for k, v in (hrandom.get("counters") or {}).items():
        hsched["counters"][k] = hsched["counters"].get(k, 0) + v
    for k in ("evaluations", "distinct_nontrivial", "traces"):
        hsched[k] = hsched.get(k, 0) + hrandom.get(k, 0)
    hsched["violations"] = (hsched.get("violations") or []) + (hrandom.get("violations") or [])
    hsched["samples"] = (hsched.get("samples") or []) + (hrandom.get("samples") or [])
    out["harness"] = hsched
    lines = open(tf).readlines()
    if os.environ.get("VERIF_SELFTEST"):
        # binding self-test: one report claims one more durably precommitted tx than the real replica reported
        for i, x in enumerate(lines):
            e = json.loads(x)
            if e.get("ev") == "Report" and e.get("pid", 0) > 0:
                e["pid"] += 1
                lines[i] = json.dumps(e) + "\n"
                break
        open(tf, "w").writelines(lines)
    tv = vlib.run_tlc("TraceReplicationDB", "TraceReplicationDB.cfg", workers=1, timeout=2400, env={"VERIF_TRACE": tf}, tag="C07dbtv",
                      javaopts=["-XX:ParallelGCThreads=2", "-XX:CICompilerCount=2"])
    if tv.error and not tv.postcondition_failed:
        raise MachineryFault("TraceReplicationDB: " + tv.error)
    tlc_runs.append((tv, "TraceReplicationDB (%d events, %d runs)" % (len(lines), len(schedules) + runs)))
    out["lines"], out["tv"], out["schedules"] = lines, tv, schedules


def db_fold(chk, out):
    for r, name in out["tlc"]:
        chk.add_tlc(r, name)
    lines, tv, r = out["lines"], out["tv"], out["harness"]
    evs = [json.loads(x) for x in lines]
    starts = [i for i, e in enumerate(evs) if e.get("ev") == "Reset"]
    # per-process sequence numbers of the driver events must be increasing in the merged order
    for si, s0 in enumerate(starts):
        last = {}
        for e in evs[s0:(starts[si + 1] if si + 1 < len(starts) else len(evs))]:
            if "pseq" in e:
                if e["pseq"] <= last.get(e["node"], 0):
                    raise MachineryFault("c07db trace: per-node sequence numbers out of order at %s" % json.dumps(e)[:200])
                last[e["node"]] = e["pseq"]

    def run_of(ln):
        s0 = max(i for i in starts if i < ln)
        return s0, evs[s0]

    noise = ("VLogsSynced", "CLogFlushed", "CLogSynced")
    if tv.postcondition_failed or tv.violation:
        m = re.search(r'"TRACE-REJECTED-AT-LINE",\s*(\d+)', tv.out)
        ln = int(m.group(1)) if m else 0
        ev = evs[ln - 1] if 0 < ln <= len(evs) else {}
        s0, reset = run_of(ln) if ln else (0, {})
        chk.violation("replication-db-trace:%s:not-explained" % ev.get("ev"),
                      "real database-level execution is not a behaviour of ReplicationDB.tla: event %s of node %s cannot be explained (run config %s)"
                      % (json.dumps(ev)[:300], ev.get("node"), reset.get("cfg")),
                      {"config": reset.get("cfg"), "schedule": reset.get("sched"), "trace_prefix": [e for e in evs[s0:ln] if e.get("ev") not in noise][-80:]})
    nbad = 0
    for b in vlib.printed_json(tv.out):
        for item in b["bad"]:
            nbad += 1
            ln = item["line"]
            s0, reset = run_of(ln)
            seg = evs[s0:ln]
            sig = db_signature(item, seg, len(seg) - 1)
            chk.violation(sig, "node %s: %s (tx %s) at event %s; run config %s" % (item["node"], item["what"], item["id"], json.dumps(evs[ln - 1])[:240], reset.get("cfg")),
                          {"config": reset.get("cfg"), "schedule": reset.get("sched"), "trace_prefix": [e for e in seg if e.get("ev") not in noise][-80:]})
    # the schedules of the weakened-decision counterexamples, replayed on the (unweakened) real code, must not reproduce the model's verdict
    ctr = r.get("counters") or {}
    need = {"report": "db:report", "report while in-memory precommit is ahead of the durable one": "db:report-while-inmem-ahead-of-durable",
            "export answer with a tx": "db:export-answer:tx", "export answer with the commit state only": "db:export-answer:state-only",
            "failover: promotion": "db:failover:promote", "failover: reconfigured replica": "db:failover:switch", "failover: re-routed replica": "db:failover:reroute",
            "divergence detected (precommit)": "db:divergence-detected:precommit", "divergence detected (commit)": "db:divergence-detected:commit",
            "discard after divergence": "db:discard-events:replica", "allowance of a primary": "db:allowance-events:primary",
            "allowance accepted by a replica": "db:replica-allow", "commit on a replica": "db:commit-events:replica", "commit on a primary": "db:commit-events:primary",
            "restart": "db:restart", "duplicated delivery": "db:duplicate-delivery",
            "export request of a replica whose diverged precommitted tail lies at or below the primary's committed tx": "db:export-request:diverged-precommit-tail-at-or-below-primary-commit",
            "... strictly below (the primary echoes the replica's own alh)": "db:export-request:diverged-precommit-tail-at-or-below-primary-commit:strictly-below"}
    zero = [k for k, c in need.items() if not ctr.get(c)] if not out.get("replay") else []
    if zero:
        raise MachineryFault("c07db: vacuous run, no %s (counters %s)" % (zero, {k: v for k, v in ctr.items() if k.startswith("db:")}))
    if ctr.get("db:steps-skipped", 0) * 2 > ctr.get("db:steps", 1):
        raise MachineryFault("c07db: most scheduled steps could not be performed (%s of %s)" % (ctr.get("db:steps-skipped"), ctr.get("db:steps")))
    vlib.absorb(chk, r)
    vlib.absorb(chk, out["repro"])
    chk.cov.setdefault("extra", {})["db_mc_action_coverage"] = out["coverage"]
    chk.cov["extra"]["db_guard_failures_collected"] = nbad
    chk.cov["extra"]["db_schedules"] = {"tlc": len(out["schedules"]), "random": ctr.get("db:runs:random-schedule", 0)}
    chk.cov["rule"] = (chk.cov.get("rule") or "") + "; database level: one trace per run of 3 real databases replicated by the real TxReplicator under a gated schedule " \
        "(TLC counterexample of a weakened variant, TLC-simulated behaviour, or seeded random schedule; config rotates over sync/async, 1/2 acks, tx discarding, " \
        "1-3 replication workers, duplicated deliveries), evaluations = executed scheduler steps"
    chk.notes += out["notes"]
    stale = "replication-db:replica-commits-before-primary:allowance-granted-before-discard"
    if not out.get("replay") and not any(k[0] == stale for k in chk.known) and not any(v[0] == stale for v in chk.violations):
        chk.notes.append({"model-drift": "the counterexample of the code variant DiscardKeepsAllowance (stale commit allowance after a discard) and the store-level repro "
                                         "no longer reproduce on the real code: the finding in findings/C07.json can be marked fixed"})


def db_replay(chk, wd, path):
    """bin/check C07 --replay <file>: re-run the schedule of a database-level violation on the real code and judge the trace"""
    obj = json.load(open(path))
    rp = obj.get("replay") or {}
    if not rp.get("schedule") or not rp.get("config"):
        raise MachineryFault("%s is not the replay of a database-level violation (no schedule)" % path)
    binp = vlib.go_build("c07db")
    sp, tf = os.path.join(wd, "replay_sched.json"), os.path.join(wd, "replay_trace.ndjson")
    json.dump([{"cfg": json.loads(rp["config"]), "steps": rp["schedule"]}], open(sp, "w"))
    hout, _ = vlib.run_harness(binp, ["-seed", str(obj.get("seed", chk.seed)), "-runs", "0", "-schedules", sp, "-dir", os.path.join(wd, "replay_d"), "-out", tf], timeout=600)
    tv = vlib.run_tlc("TraceReplicationDB", "TraceReplicationDB.cfg", workers=1, timeout=600, env={"VERIF_TRACE": tf}, tag="C07dbtv")
    if tv.error and not tv.postcondition_failed:
        raise MachineryFault("TraceReplicationDB: " + tv.error)
    out = {"tlc": [(tv, "TraceReplicationDB (replay)")], "lines": open(tf).readlines(), "tv": tv, "harness": json.loads(hout), "notes": [], "schedules": [1],
           "coverage": {}, "repro": {}, "replay": True}
    db_fold(chk, out)


def run(chk, args):
    thorough = chk.tier == "thorough"
    wd = vlib.scratch("C07")
    if args.replay:
        return db_replay(chk, wd, args.replay)
    # the database-level slice runs beside the store-level one
    dbout, dberr = {}, []
    dbbin = vlib.go_build("c07db")

    def dbthread():
        try:
            db_phase(chk, wd, dbout, dbbin)
        except BaseException as ex:
            dberr.append(ex)
    th = threading.Thread(target=dbthread)
    th.start()
    try:
        run_store(chk, args, wd, thorough)
    finally:
        th.join()
    if dberr:
        raise dberr[0]
    db_fold(chk, dbout)


def run_store(chk, args, wd, thorough):
    binp = vlib.go_build("c07")
    for acks in (0, 1, 2):
        d = vlib.run_tlc("MCReplication", "mc.cfg", workers=8, timeout=2400, files=[("mc.cfg", MC % (acks, 4 if thorough else 3, "FALSE"))], tag="C07mc")
        vlib.tlc_must_pass(d, "MCReplication design SyncAcks=%d" % acks)
        chk.add_tlc(d, "MCReplication SyncAcks=%d (alterations detected)" % acks)
    c = vlib.run_tlc("MCReplication", "mc.cfg", workers=2, timeout=600, files=[("mc.cfg", MC % (1, 3, "TRUE"))], tag="C07mc")
    if c.error:
        raise MachineryFault("MCReplication code variant: " + c.error)
    chk.add_tlc(c, "MCReplication with header alterations the export format cannot authenticate: %s" % (c.violation or "no violation"))
    if not c.violation:
        raise MachineryFault("the undetected-alteration variant has no counterexample: the model lost its teeth")
    runs = 45 if thorough else 9
    tf = os.path.join(wd, "trace.ndjson")
    out, _ = vlib.run_harness(binp, ["-seed", str(chk.seed), "-runs", str(runs), "-dir", os.path.join(wd, "d"), "-out", tf], timeout=3000)
    r = json.loads(out)
    lines = open(tf).readlines()
    # (a) cross-store validation
    res = vlib.run_tlc("TraceReplication", "TraceReplication.cfg", workers=1, timeout=2400, env={"VERIF_TRACE": tf}, tag="C07tv")
    if res.error and not res.postcondition_failed:
        raise MachineryFault("TraceReplication: " + res.error)
    chk.add_tlc(res, "TraceReplication (%d events)" % len(lines))
    if res.postcondition_failed or res.violation:
        import re
        m = re.search(r'"TRACE-REJECTED-AT-LINE",\s*(\d+)', res.out)
        ln = int(m.group(1)) if m else 0
        ev = json.loads(lines[ln - 1]) if 0 < ln <= len(lines) else {}
        start = max([i for i in range(ln) if '"ev":"Reset"' in lines[i] and '"store":"p"' in lines[i]] or [0])
        chk.violation("replication-trace:%s:%s:not-explained" % (ev.get("store"), ev.get("ev")),
                      "real primary/replica execution is not a behaviour of Replication.tla: event %s (config %s) cannot be explained (guard false)"
                      % (json.dumps(ev)[:300], json.loads(lines[start]).get("cfg")),
                      {"trace_prefix": [json.loads(x) for x in lines[start:ln] if '"Observed"' not in x][-80:]})
    for b in vlib.printed_json(res.out):
        for item in b["bad"]:
            ln = item["line"]
            start = max(i for i in range(ln) if '"ev":"Reset"' in lines[i] and '"store":"p"' in lines[i])
            seg = [json.loads(x) for x in lines[start:ln + 200]]
            sig = "replication:" + item["what"]
            if item["what"] == "replica-precommitted-a-tx-that-is-not-the-primarys":
                acc = [e for e in seg if e.get("ev") == "Accepted" and e.get("store") == item["store"] and e.get("id") == item["id"] and not e.get("same")]
                if acc:
                    skip = "SkipIntegrity:true" in (json.loads(lines[start]).get("cfg") or "")
                    sig = ("replication:integrity-check-skipped:altered-export-accepted:" if skip else "replication:altered-export-accepted:") + acc[0]["field"]
            chk.violation(sig, "replica %s: %s (tx %d); config %s" % (item["store"], item["what"], item["id"], json.loads(lines[start]).get("cfg")),
                          {"config": json.loads(lines[start]).get("cfg"), "trace_prefix": [e for e in seg[:ln - start + 3] if e.get("ev") != "Observed"][-80:]})
    # (b) every store's own pipeline against Store.tla
    per_store = {}
    for x in lines:
        e = json.loads(x)
        if e["ev"] in ("Accepted", "Rejected", "Converged"):
            continue
        per_store.setdefault(e["store"], []).append(x)
    with cf.ThreadPoolExecutor(3) as ex:
        results = list(ex.map(lambda kv: (kv[0], validate([kv[1]], wd, "store_" + kv[0])), sorted(per_store.items())))
    for name, (ok, sres, line) in results:
        chk.add_tlc(sres, "TraceStore for store %s" % name)
        flat = per_store[name]
        if not ok:
            ev = json.loads(flat[line - 1]) if line and line <= len(flat) else {"ev": "?"}
            chk.violation("store-trace:%s:%s:%s" % (name, ev.get("ev"), sres.violation or "not-explained"),
                          "store %s: event %s (line %s) is not explained by Store.tla" % (name, json.dumps(ev)[:300], line),
                          {"trace_prefix": [json.loads(x) for x in flat[max(0, (line or 1) - 60):(line or 1) + 1]]})
        else:
            report_live_bad(chk, sres, flat)
    r["traces"] = runs
    vlib.absorb(chk, r)
    chk.cov["rule"] = "store level: one trace per run (primary + 1-2 replicas; config rotates over sync acks 0/1/all, integrity-check skipping, header version, embedded values, file size, faults, replica restart, replica discard)"
    chk.assumptions += ["store-level phase: the replicator loop is emulated by the driver making the same calls (alterations, skipped integrity checks, header versions)",
                        "database-level phase: real database.DB + real replication.TxReplicator in one process; the gRPC transport and the 30 lines of server.exportTx are replaced by an in-process stream (real pkg/stream chunking); "
                        "a lost primary is a node nobody can reach any more (no crash images); failover by reconfiguration (Stop/AsReplica/Start) and by re-routing the primary address",
                        "alterations are single-bit flips anywhere in the exported bytes"]


if __name__ == "__main__":
    vlib.main(run, "C07", "model_checking")
