#!/usr/bin/env python3
"""C03 (index slice) - crash durability of the index tree: spec/IndexCrash.tla + harness/cmd/c03idx.
IndexCrash.tla models the persistence protocol of embedded/tbtree (nodes / history / commit log written per flush, the
two fsync points of a synced flush, logical-only rewinds, OpenWith's backwards walk over the commit log, the wiping of
discarded entries) with files as position -> generation maps, process kills and power losses that keep any subset of
the chunks written since their last fsync (or tear them), repeated stops, clean closes.  TLC checks exhaustively that
the design recovers a readable flushed generation that is not older than the last acknowledged synced flush; two code
variants (recovery stopping at the first valid entry; discarded entries left in the commit log) must be rejected by
TLC, and EVERY behaviour of these variants that ends in a rejected state, plus simulated behaviours of the design, is
replayed on the real tree: the image TLC chose is materialised from the recorded physical operations, the real
tbtree.Open recovers it and the complete content (values, timestamps, histories) is compared with the flushed
generations."""
import json, os, sys, concurrent.futures as cf
sys.path.insert(0, os.path.join(os.path.dirname(os.path.abspath(__file__)), "..", "lib"))
import vlib
from vlib import MachineryFault

CFG = """CONSTANTS
  MaxGen = %d
  MaxPos = %d
  MaxCrash = %d
  StopAtFirstValid = %s
  WipeStale = %s
  EmitOn = %s
SPECIFICATION Spec
INVARIANT %s
%s
CHECK_DEADLOCK FALSE
"""


def index_phase(chk, wd, thorough):
    binp = vlib.go_build("c03idx")
    b = lambda x: "TRUE" if x else "FALSE"
    g = 4 if thorough else 3
    jobs = {
        "design": (CFG % (g, 3, 2, "FALSE", "TRUE", "FALSE", "Inv", "VIEW View"), []),
        "no-wipe": (CFG % (3, 3, 2, "FALSE", "FALSE", "TRUE", "EmitBad", "VIEW View"), []),
        "first-valid": (CFG % (3, 3, 2 if thorough else 1, "TRUE", "TRUE", "TRUE", "EmitBad", "VIEW View"), []),
        "sim": (CFG % (6, 4, 3, "FALSE", "TRUE", "TRUE", "Inv Emit", ""),
                ["-simulate", "num=%d" % (1500 if thorough else 250), "-depth", "40", "-seed", str(chk.seed)]),
    }

    def one(name):
        c, extra = jobs[name]
        return name, vlib.run_tlc("IndexCrash", "ic_%s.cfg" % name, workers=1 if name == "sim" else 4, timeout=3000,
                                  files=[("ic_%s.cfg" % name, c)], extra=extra, tag="C03ic_" + name)
    with cf.ThreadPoolExecutor(len(jobs)) as ex:
        results = dict(ex.map(one, list(jobs)))
    vlib.tlc_must_pass(results["design"], "IndexCrash (design)")
    chk.add_tlc(results["design"], "IndexCrash design MaxGen=%d MaxPos=3 MaxCrash=2 (kill + power loss with per-chunk subsets and torn chunks)" % g)
    behaviours = []
    for name in ("no-wipe", "first-valid"):
        res = results[name]
        if res.error:
            raise MachineryFault("IndexCrash %s: %s" % (name, res.error))
        bad = vlib.printed_json(res.out)
        if not bad:
            raise MachineryFault("IndexCrash %s: TLC finds no rejected state in the variant it was built to reject (vacuous model)" % name)
        chk.add_tlc(res, "IndexCrash variant %s: %d behaviours ending in a rejected state" % (name, len(bad)))
        chk.cov.setdefault("model_facts", {})["index-" + name] = "%d rejected behaviours, all replayed on the real tree" % len(bad)
        step = 1 if thorough or len(bad) <= 150 else len(bad) // 150 + 1
        for x in bad[::step]:
            # the prediction of a variant is not the prediction of the specification
            for o in x["ops"]:
                if o["op"] == "open":
                    o["loaded"] = -1
            behaviours.append({"ops": x["ops"], "origin": name})
    vlib.tlc_must_pass(results["sim"], "IndexCrash (simulation)")
    sims = vlib.printed_json(results["sim"].out)
    if len(sims) < 100:
        raise MachineryFault("IndexCrash simulation printed only %d behaviours" % len(sims))
    behaviours += [{"ops": x["ops"], "origin": "sim"} for x in sims]
    bp = os.path.join(wd, "ic_beh.json")
    json.dump({"behaviours": behaviours}, open(bp, "w"))
    dd = os.path.join(wd, "dic")
    os.makedirs(dd)
    out, _ = vlib.run_harness(binp, ["-behaviours", bp, "-dir", dd, "-seed", str(chk.seed)], timeout=3000)
    r = json.loads(out)
    ctr = r.get("counters") or {}
    if not r.get("violations"):
        for need in ("images:kill", "images:power-loss", "images:inside-data", "images:inside-clog", "opens:clean-restart", "loaded-as-predicted"):
            if not ctr.get(need):
                raise MachineryFault("index crash replay is vacuous: counter %s is zero" % need)
        if ctr.get("loaded-differs-from-prediction", 0) * 20 > ctr.get("loaded-as-predicted", 0):
            raise MachineryFault("IndexCrash.tla has drifted from tbtree.OpenWith: %d of %d recoveries load another generation than predicted"
                                 % (ctr.get("loaded-differs-from-prediction", 0), ctr.get("loaded-as-predicted", 0)))
    chk.cov["index_crash_replay"] = {k: v for k, v in ctr.items() if not k.startswith("violation:")}
    chk.cov["index_crash_replay"]["behaviours"] = len(behaviours)
    vlib.absorb(chk, r)
    chk.assumptions += ["index slice: one file per log (default file size), chunks of one flush kept / lost / torn as a whole per file, "
                        "what the real code has fsynced is never lost whatever the model chose"]


def run(chk, args):
    index_phase(chk, vlib.scratch("C03idx"), chk.tier == "thorough")


if __name__ == "__main__":
    vlib.main(run, "C03", "model_checking")
