#!/usr/bin/env python3
"""C04 - reads reflect exactly the committed log (index agrees with history).
(1) TLC checks spec/Index.tla exhaustively (spec/MCIndex.tla layouts): every bulk partition of every small log keeps
    every index equal to the reference computed from log[1..n] (MapAgrees / IndexAgrees), and the reference is what
    the property means for an injective mapped index (RefInjectiveSound, RefMonotone, RefHistoryOrdered).
(2) The same module with one transcription switch of indexer.indexSince set to "code as pinned" is searched over the
    realisable schedules; its counterexamples are replayed on the real store (a TLC counterexample is never a verdict).
(3) RP: tlc -simulate prints realisable behaviours (commits, InitIndexing/CloseIndexing points, flush, compaction,
    Close+Open, reads with the results the specification defines); harness/cmd/c04 replays them on a real store under
    index configuration classes (MaxBulkSize 1..8, thresholds, node/cache/buffer sizes, key lengths, mappers).
(4) TV: seeded concurrent workloads with free-running indexers; spec/TraceIndex.tla accepts a read iff it equals the
    reference value at some index time between the two observations."""
import json, os, sys, concurrent.futures as cf
sys.path.insert(0, os.path.join(os.path.dirname(os.path.abspath(__file__)), "..", "lib"))
import vlib
from vlib import MachineryFault

CFG = """CONSTANTS
  Layout = "%(layout)s"
  KeySet = "%(keyset)s"
  Keys <- MCKeys
  Indexes <- MCIndexes
  Kinds = %(kinds)s
  Vals = %(vals)s
  TxMds = %(txmds)s
  MaxTx = %(maxtx)d
  MaxEntries = %(maxent)d
  BulkChoices = %(bulks)s
  Switches = %(switches)s
  Export = %(export)s
  EmitDepth = %(emit)d
  NReads = %(nreads)d
  CommitWeight = 4
  ReadWeight = 3
%(tail)s
CHECK_DEADLOCK FALSE
"""
BASE = dict(layout="PI", keyset="k3", kinds='{"val", "del", "nix", "fut"}', vals="{1, 2}", txmds="{FALSE}", maxtx=2, maxent=2,
            bulks="{3}", switches='{"none"}', export="FALSE", emit=0, nreads=0, tail="")
MC_TAIL = "SPECIFICATION SpecMC\nINVARIANTS TypeOK %s RefMonotone RefInjectiveSound RefHistoryOrdered\nVIEW View"
RZ_TAIL = "SPECIFICATION SpecRz\nINVARIANTS TypeOK MapAgreesX\nVIEW View"
SIM_TAIL = "SPECIFICATION SpecSim\nINVARIANTS TypeOK Emit"
TV_TAIL = "SPECIFICATION TraceSpec\nINVARIANTS ReportBad\nPOSTCONDITION TraceAccepted"



def cfg(**kw):
    d = dict(BASE)
    d.update(kw)
    return CFG % d


import time
T0 = time.time()


def tlc(wd, name, module, text, workers, timeout, extra=(), env=None, javaopts=None):
    sub = os.path.join(wd, name)
    os.makedirs(sub, exist_ok=True)
    t = time.time()
    res = vlib.run_tlc(module, "c04.cfg", workdir=sub, workers=workers, timeout=timeout, extra=list(extra), env=env,
                       files=[("c04.cfg", text)], javaopts=javaopts)
    vlib.log("[tlc] %-18s %6.1fs (started +%.0fs) states=%d" % (name, time.time() - t, t - T0, res.distinct))
    return res


def harness(binp, args, timeout=900, env=None):
    t = time.time()
    out, _ = vlib.run_harness(binp, args, timeout=timeout, env=env)
    vlib.log("[c04] %-40s %6.1fs (started +%.0fs)" % (" ".join(args[:4])[-40:], time.time() - t, t - T0))
    try:
        return json.loads(out)
    except Exception as ex:
        raise MachineryFault("c04 harness printed no result: %s: %r" % (ex, out[-500:]))


def hist_to_behaviour(hist, indexes, bulk, origin):
    return {"steps": hist, "indexes": indexes, "maxBulk": bulk, "origin": origin}


INDEXES = {  # spec/MCIndex.tla (the harness cross-checks its own table against what TLC prints in simulated behaviours)
    "P": [{"src": [], "tgt": [], "mapped": False, "inj": False, "srcIdx": 0}],
    "PI": [{"src": [1], "tgt": [1], "mapped": False, "inj": False, "srcIdx": 0},
           {"src": [1], "tgt": [3], "mapped": True, "inj": True, "srcIdx": 1}],
    "PPI": [{"src": [1], "tgt": [1], "mapped": False, "inj": False, "srcIdx": 0},
            {"src": [2], "tgt": [2], "mapped": False, "inj": False, "srcIdx": 0},
            {"src": [1], "tgt": [3], "mapped": True, "inj": True, "srcIdx": 1}],
}


def run(chk, args):
    thorough = chk.tier == "thorough"
    seed = chk.seed
    wd = vlib.scratch("C04")
    binp = vlib.go_build("c04")
    pool = cf.ThreadPoolExecutor(10 if thorough else 8)
    jobs = {}

    # ---------------------------------------------------------------- (1) exhaustive runs of the design
    mc = []
    if thorough:
        mc += [("mc-PI-3x2", dict(maxtx=3, maxent=2, kinds='{"val", "del"}'), "MapAgrees", 8, 2400),
               ("mc-PI-4x1", dict(maxtx=4, maxent=1, kinds='{"val", "del", "nix"}'), "MapAgrees", 4, 2400),
               ("mc-PI-2x2-reads", dict(maxtx=2, maxent=2, kinds='{"val", "del", "nix", "fut"}'), "IndexAgrees", 4, 2400),
               ("mc-P-3x2", dict(layout="P", keyset="k3p", maxtx=3, maxent=2, kinds='{"val", "del", "nix"}', vals="{1}"), "MapAgrees", 4, 2400),
               ("mc-P-2x2-reads", dict(layout="P", keyset="k3p", maxtx=2, maxent=2, kinds='{"val", "del", "nix", "past"}', vals="{1}"), "IndexAgrees", 2, 2400),
               ("mc-PPI-2x2", dict(layout="PPI", keyset="k3", maxtx=2, maxent=2, kinds='{"val", "del", "nix"}'), "MapAgrees", 4, 2400)]
    else:
        mc += [("mc-PI-2x2", dict(maxtx=2, maxent=2, kinds='{"val", "del", "nix"}'), "MapAgrees", 4, 500),
               ("mc-P-2x2", dict(layout="P", keyset="k3p", maxtx=2, maxent=2, kinds='{"val", "del", "nix"}', vals="{1}"), "IndexAgrees", 2, 500)]
    for name, kw, inv, workers, to in mc:
        jobs[name] = pool.submit(tlc, wd, name, "MCIndex", cfg(tail=MC_TAIL % inv, **kw), workers, to)

    # ---------------------------------------------------------------- (2) the code as pinned: one switch at a time
    pinned = ["alias", "bulkstart", "rotomb"]
    jobs["pinned"] = pool.submit(tlc, wd, "pinned", "MCIndex",
                                 cfg(tail=RZ_TAIL, export="TRUE", switches='{"alias", "bulkstart", "rotomb"}', bulks="{1, 2}", maxtx=2, maxent=1,
                                     kinds='{"val", "fut"}'), 1, 500)

    # ---------------------------------------------------------------- (3) simulated behaviours per bulk class
    if thorough:
        sims = [("PI", "k6", "{1, 2, 3, 4, 8}", 160), ("P", "k6", "{1, 2, 3, 5}", 100), ("PPI", "k4", "{1, 3, 6}", 60)]
        classes = 3
    else:
        sims = [("PI", "k6", "{1, 2, 3, 4, 8}", 20), [("P", "k6", "{1, 2, 3, 5}", 10), ("PPI", "k4", "{1, 3, 6}", 8)][seed % 2]]
        classes = 1
    for i, (layout, keyset, bulks, num) in enumerate(sims):
        name = "sim-%s" % layout
        text = cfg(layout=layout, keyset=keyset, bulks=bulks, kinds='{"val", "del", "nix", "fut", "past"}', vals="{0, 1, 2}",
                   txmds="{FALSE, TRUE}", maxtx=7, maxent=2, export="TRUE", emit=20, nreads=6, tail=SIM_TAIL)
        jobs[name] = pool.submit(tlc, wd, name, "MCIndex", text, 1, 900,
                                 ["-simulate", "num=%d" % num, "-depth", "22", "-seed", str(seed * 101 + i)])

    # ---------------------------------------------------------------- (4) real concurrent executions
    tv_runs = [("PI", 8 if thorough else 2, 6 if thorough else 2), ("P", 6 if thorough else 1, 4 if thorough else 1)] + ([("PPI", 4, 3)] if thorough else [])

    def tv(layout, runs, gated):
        tf = os.path.join(wd, "trace-%s.ndjson" % layout)
        dd = os.path.join(wd, "tvd-" + layout)
        r = harness(binp, ["-mode", "tv", "-layout", layout, "-seed", str(seed), "-runs", str(runs), "-gated", str(gated), "-dir", dd, "-out", tf])
        lines = open(tf).readlines()
        res = None
        if lines:
            res = tlc(wd, "tv-" + layout, "TraceIndex", cfg(layout=layout, maxtx=1000, tail=TV_TAIL), 1, 900, env={"VERIF_TRACE": tf},
                      javaopts=["-Xss512m"])  # the reference is a recursion over the log
        return r, lines, res
    for layout, runs, gated in tv_runs:
        jobs["tv-" + layout] = pool.submit(tv, layout, runs, gated)

    # ---------------------------------------------------------------- collect: replay of simulated behaviours
    rp_jobs = []
    for i, (layout, keyset, bulks, num) in enumerate(sims):
        name = "sim-%s" % layout
        res = jobs[name].result()
        if res.error or res.violation:
            raise MachineryFault("%s: %s %s\n%s" % (name, res.error, res.violation, res.out[-1500:]))
        bs = vlib.printed_json(res.out)
        if len(bs) < num // 2:
            raise MachineryFault("%s printed only %d behaviours" % (name, len(bs)))
        for b in bs:
            b["origin"] = name
        json.dump({"layout": layout, "behaviours": bs}, open(os.path.join(wd, name + ".json"), "w"))
        chk.add_tlc(res, "%s: %d behaviours (realisable schedule, MaxBulk in %s)" % (name, len(bs), bulks))
        nchunks = max(1, min(4, len(bs) // 5))
        for ch in range(nchunks):
            part = bs[ch::nchunks]
            p = os.path.join(wd, "%s-%d.json" % (name, ch))
            json.dump({"layout": layout, "behaviours": part}, open(p, "w"))
            rp_jobs.append((name, len(part), pool.submit(harness, binp, ["-mode", "rp", "-in", p, "-seed", str(seed + i * 10 + ch), "-dir",
                                                                           os.path.join(wd, "d-%s-%d" % (name, ch)), "-classes", str(classes)])))
    # ---------------------------------------------------------------- collect: pinned transcription -> replay counterexamples
    res = jobs["pinned"].result()
    vlib.tlc_must_pass(res, "Index.tla with the transcription variants (counterexamples are printed, the search goes on)")
    chk.add_tlc(res, "pinned transcription variants alias/bulkstart/rotomb, realisable schedules, MaxBulk 1..2")
    ces = {c["sw"]: c for c in vlib.printed_json(res.out)}
    pin_jobs = []
    for name in pinned:
        ce = ces.get(name)
        if ce is None:
            raise MachineryFault("transcription variant %s no longer produces a counterexample: Index.tla does not model the defect" % name)
        steps = ce["steps"]
        # the reads the real store must answer after the counterexample: everything each initialised index holds
        q = {"op": "dump", "via": "store", "k": [], "i": 0, "f": 0, "p": [], "neq": [], "off": 0, "desc": False, "lim": 1, "seek": [], "end": [],
             "iseek": False, "iend": False, "flt": []}
        reads = [{"op": "read", "x": x + 1, "tx": {"es": [], "md": False}, "bulks": [], "n": ce["ts"][x], "reads": [{"q": q, "r": ce["dumps"][x]}]}
                 for x in range(len(ce["run"])) if ce["run"][x]]
        b = hist_to_behaviour(steps + reads, ce["indexes"], ce["maxBulk"], "tlc-counterexample:" + name)
        p = os.path.join(wd, "pin-" + name + ".json")
        json.dump({"layout": "PI", "behaviours": [b]}, open(p, "w"))
        pin_jobs.append((name, steps, ce, pool.submit(harness, binp, ["-mode", "rp", "-in", p, "-seed", str(seed), "-dir", os.path.join(wd, "d-pin-" + name), "-classes", "2"])))
    for name, steps, ce, j in pin_jobs:
        r = j.result()
        n_dev = len(r.get("violations") or [])
        chk.cov.setdefault("pinned_counterexamples", {})[name] = {"steps": [s["op"] + (str(s["bulks"]) if s["bulks"] else "") for s in steps], "maxBulk": ce["maxBulk"],
                                                                  "reproduced_on_real_code": n_dev > 0}
        if n_dev == 0:
            chk.notes.append({"model-drift": "counterexample of variant %s does not reproduce on the real code: the code no longer has the transcribed defect" % name})
        vlib.absorb(chk, r)

    # ---------------------------------------------------------------- collect: exhaustive runs
    for name, kw, inv, workers, to in mc:
        res = jobs[name].result()
        vlib.tlc_must_pass(res, "Index.tla design model %s" % name)
        chk.add_tlc(res, "%s %s (exhaustive, all bulk partitions, bulk 1..3)" % (name, inv))
        if res.distinct < 100:
            raise MachineryFault("%s explored only %d states" % (name, res.distinct))

    per_class = {}
    for name, nb, j in rp_jobs:
        r = j.result()
        c = r.get("counters") or {}
        pc = per_class.setdefault(name, {"behaviours": 0, "replays": 0, "steps": 0, "reads": 0, "by_bulk": {}})
        pc["behaviours"] += nb
        pc["replays"] += r.get("traces", 0)
        pc["steps"] += sum(v for k, v in c.items() if k.startswith("step:"))
        pc["reads"] += sum(v for k, v in c.items() if k.startswith("read:"))
        for k, v in c.items():
            if k.startswith("cfg:bulk="):
                pc["by_bulk"][k[4:]] = pc["by_bulk"].get(k[4:], 0) + v
        vlib.absorb(chk, r)
    chk.cov["replay_per_class"] = per_class
    ctr = chk.cov.get("counters", {})
    for need in ("read:get", "read:between", "read:prefix", "read:history", "read:scan", "read:scanb", "read:dump", "step:start", "step:stop",
                 "step:flush", "step:compact", "step:reopen", "step:live"):
        if ctr.get(need, 0) == 0:
            raise MachineryFault("vacuous replay: no %s executed" % need)

    # ---------------------------------------------------------------- collect: trace validation
    nev = 0
    for layout, runs, gated in tv_runs:
        r, lines, res = jobs["tv-" + layout].result()
        vlib.absorb(chk, r)
        if res is None:
            continue
        if res.error or res.violation or res.postcondition_failed:
            errs = [ln for ln in res.out.splitlines() if ln.startswith("Error:") or "TRACE-REJECTED" in ln]
            raise MachineryFault("TraceIndex (%s): %s %s\n%s" % (layout, res.violation, "\n".join(errs[:6]), res.out[res.out.find("Error:"):][:1500]))
        chk.add_tlc(res, "TraceIndex %s: %d lines" % (layout, len(lines)))
        rep = vlib.printed_json(res.out)
        if len(rep) != 1 or rep[0]["lines"] != len(lines):
            raise MachineryFault("TraceIndex (%s): trace not consumed (%r)" % (layout, rep[:1]))
        nev += len(lines)
        report_rejected(chk, layout, lines, rep[0]["bad"])
    chk.cov["trace_events_validated"] = nev
    ctr = chk.cov.get("counters", {})
    for need in ("tv:gated:txs-indexed-during-dump", "tv:gated:runs", "tv:read:dump:final-quiescent", "tv:read:dump:final-after-reopen", "read:final",
                 "read:final-after-reopen"):
        if ctr.get(need, 0) == 0 and not any(v[0].startswith("indexer.indexSince") for v in chk.violations):
            raise MachineryFault("vacuous: counter %s is 0 (no transaction indexed during a compaction dump / no final-state comparison)" % need)

    # ---------------------------------------------------------------- binding self-test
    if thorough or os.environ.get("VERIF_SELFTEST"):
        selftest(chk, wd, binp, sims, seed)

    pool.shutdown()
    chk.cov["rule"] = ("one replay = one TLC behaviour (commits, index start/stop points, flush, compaction, Close+Open, reads) on one index "
                       "configuration class (MaxBulkSize from the TLC run; flush/sync thresholds, node size, cache size, buffered-data limit, "
                       "key block length, value sizes, multi-indexing, explicit mappers rotate with behaviour index and seed); one trace = one "
                       "concurrent run; distinct = behaviours + runs")
    chk.assumptions += ["hashes of values identify values (reads are compared by value digest, length and resolved bytes)",
                        "expiry instants are far in the past (2001) or far in the future (2191)",
                        "exhaustive bounds: see tlc_runs; bulks 1..3; 2-3 keys per index sharing a prefix",
                        "trace validation judges a read against the committed log re-ordered by transaction id (immutability of the log is C02)"]


KNOWN_REGRESS = "store.CompactIndexes:concurrent-writers:index-time-regresses-while-WaitForIndexingUpto-reports-progress"
KNOWN_INJ = "store.CompactIndexes:concurrent-writers:injective-index:content-differs-after-index-restart"


def tombstones_only(exp_rows, got_rows):
    """The known permanent damage of an injective index that indexed while its source index had gone back in time:
    every version that is an entry of the log is there and right; only tombstones (deleted versions written for a
    previously mapped key) are missing, extra or point to an older previous version."""
    key = lambda v: (v["tx"], v["vid"], v["del"], v["exp"], v["xmd"])
    E = {tuple(r["k"]): r["vs"] for r in exp_rows}
    G = {tuple(r["k"]): r["vs"] for r in got_rows}
    differs = False
    for k in set(E) | set(G):
        ev, gv = E.get(k, []), [key(v) for v in G.get(k, [])]
        rest = list(gv)
        for v in ev:
            if not v["tomb"]:
                if key(v) not in rest:
                    return False          # an entry of the log is missing or wrong
                rest.remove(key(v))
        if any(not g[2] for g in rest):
            return False                  # an extra version that is not a deleted one
        if sorted(rest) != sorted(key(v) for v in ev if v["tomb"]):
            differs = True
    return differs


def report_rejected(chk, layout, lines, bad):
    kinds = [("injective" if d["inj"] else "mapped" if d["mapped"] else "identity") for d in INDEXES[layout]]
    resets = [i for i, ln in enumerate(lines) if '"ev":"Reset"' in ln]
    recs = []
    damaged = set()   # (run start line, index): an injective index with the known tombstone damage
    for item in bad:
        n = item["line"]
        ev = json.loads(lines[n - 1])
        start = max(i for i in resets if i < n)
        hdr = json.loads(lines[start])
        kind = kinds[ev["x"] - 1]
        tomb = bool(item.get("exp")) and ev["r"]["st"] == "ok" and tombstones_only(item["exp"], ev["r"]["items"])
        if tomb and kind == "injective" and hdr.get("compactions", 0) > 0:
            damaged.add((start, ev["x"]))
        recs.append((item, ev, start, hdr, kind, tomb))
    for item, ev, start, hdr, kind, tomb in recs:
        n = item["line"]
        conc = hdr.get("compactions", 0) > 0
        final = ev.get("final", "")
        items = ev["r"].get("items") or []
        if ev["q"]["op"] in ("between", "scanb") and any(it.get("hc", 1) <= 0 for it in items):
            sig = "tbtree.lastUpdateBetween:%s:version-of-another-key-below-first-version" % ev["q"]["op"]
        elif item["why"] == "tombstone-not-marked-deleted":
            sig = "%s-index:tv:%s" % (kind, item["why"])
        elif final:
            if kind == "injective" and conc and tomb:
                sig = KNOWN_INJ
            else:
                sig = "%s-index:final-state%s:differs-from-committed-log%s" % (kind, "-after-concurrent-compaction" if conc else "",
                                                                                 ":after-reopen" if final == "after-reopen" else "")
        elif conc and item["why"] == "index-time-behind-observed-progress":
            sig = KNOWN_REGRESS
        elif conc and kind == "injective" and (tomb or (not item.get("exp") and (start, ev["x"]) in damaged)):
            sig = KNOWN_INJ
        else:
            sig = "%s-index:tv:%s:%s" % (kind, ev["q"]["op"], item["why"])
        log = [json.loads(x) for x in lines[start:n] if '"ev":"Commit"' in x]
        chk.violation(sig, "layout %s, %s (compactions while writing: %d, txs indexed during a dump on purpose: %d)%s: %s on index %d (%s) returned %s, "
                      "which is not the value defined by the committed log at any index time in %d..%d"
                      % (layout, hdr["cfg"], hdr.get("compactions", 0), hdr.get("during", 0), (" FINAL STATE " + final) if final else "",
                         json.dumps(ev["q"]), ev["x"], kind, json.dumps(ev["r"])[:600], ev["lo"], ev["hi"]),
                      {"layout": layout, "cfg": hdr["cfg"], "seed": chk.seed, "run": hdr["run"], "read": ev, "expected_dump": item.get("exp"), "committed_log": log})


def selftest(chk, wd, binp, sims, seed):
    """one corrupted expected value must be reported; a trace with one corrupted read must be rejected"""
    layout, keyset, bulks, num = sims[0]
    p = os.path.join(wd, "sim-%s.json" % layout)
    r = harness(binp, ["-mode", "rp", "-in", p, "-seed", str(seed), "-dir", os.path.join(wd, "d-self"), "-classes", "1"], env={"VERIF_C04_CORRUPT": "1"})
    sigs = [v["sig"] for v in (r.get("violations") or [])]
    ok_rp = any(":get:wrong-tx" in s for s in sigs)
    tf = os.path.join(wd, "trace-P.ndjson")
    lines = open(tf).readlines() if os.path.exists(tf) else []
    ok_tv = None
    idx = [i for i, x in enumerate(lines) if '"ev":"Read"' in x and '"st":"ok"' in x and '"op":"get"' in x]
    if idx:
        e = json.loads(lines[idx[-1]])
        if e["r"]["items"]:
            e["r"]["items"][0]["tx"] += 1
            lines2 = list(lines)
            lines2[idx[-1]] = json.dumps(e) + "\n"
            tf2 = os.path.join(wd, "trace-self.ndjson")
            open(tf2, "w").writelines(lines2)
            res = tlc(wd, "tv-self", "TraceIndex", cfg(layout="P", maxtx=1000, tail=TV_TAIL), 1, 900, env={"VERIF_TRACE": tf2}, javaopts=["-Xss512m"])
            rep = vlib.printed_json(res.out)
            ok_tv = bool(rep) and any(b["line"] == idx[-1] + 1 for b in rep[0]["bad"])
    if not ok_rp or ok_tv is False:
        raise MachineryFault("binding self-test failed: corrupted expected value reported=%s, corrupted trace read rejected=%s" % (ok_rp, ok_tv))
    chk.cov["binding_selftest"] = "replay with one expected Get result altered reports get:wrong-tx; trace with one altered Read result is rejected (%s)" % ok_tv


if __name__ == "__main__":
    vlib.main(run, "C04", "model_checking")
