#!/usr/bin/env python3
"""C18 - access control: every operation is gated by the caller's database permission.

spec/Auth.tla is the state machine (user with a permission per database and an active flag, session and token
slots with a selected database and a life-cycle state, Login / OpenSession / UseDatabase / SetPermission /
Deactivate / Activate / Expire / Logout / Call) with the policy as invariants over every Call.
 * TLC, policy mode, exhaustive: every history login -> [setPermission | deactivate | activate | expire | logout |
   useDatabase]* -> call with every single-effect outcome; prints the matrix
   (kind x session state x selection x role x current permission x active x effect -> permitted).
 * TLC, code mode, exhaustive: the transcription of the Go gate must satisfy the policy with the quirks of the
   pinned code switched off (design) and yields a counterexample per quirk; counterexamples and simulated histories
   are replayed on the real server (harness/cmd/c18 -mode hist), the acceptance of every session / token is
   compared with the specification after every step.
 * harness/cmd/c18 -mode matrix: in-process server with all gRPC services and the real interceptor chain; every
   RPC of the service descriptors x role x selection x session state (x session/token authentication); the effect
   of every call is observed and judged with the matrix.
 * spec/TraceAuth.tla: every request of every harness process is a line of an ndjson trace; TLC re-constructs the
   state with the actions of Auth.tla and evaluates the policy clauses on every logged outcome; the set of lines
   it rejects must be the set the harness rejected."""
import json, os, sys, random, subprocess, concurrent.futures as cf
sys.path.insert(0, os.path.join(os.path.dirname(os.path.abspath(__file__)), "..", "lib"))
import vlib
from vlib import MachineryFault

ROLES = ["none", "R", "RW", "Admin", "SysAdmin"]
INVS = "TypeOK ValidSlotsAreEntitled WriteNeedsRW DataNeedsR AdminNeedsAdmin InvalidSessionRefused SystemDbReadOnly AuthGrant"

CFG = """CONSTANTS
  NSess = %(nsess)d
  MaxSteps = %(maxsteps)d
  Mode = "%(mode)s"
  QDocMaint = %(qdoc)s
  QTxBypass = %(qtx)s
  QRefCount = %(qref)s
  QTxReadGate = %(qgate)s
  FlowPhased = %(phased)s
  EmitHist = %(emit)s
SPECIFICATION %(spec)s
INVARIANTS %(invs)s
%(view)s
CHECK_DEADLOCK FALSE
"""


def cfg(mode, nsess=2, maxsteps=100, q=(False, False, False), emit=False, spec="Spec", invs=INVS, view="VIEW View", qgate=False, phased=False):
    b = lambda x: "TRUE" if x else "FALSE"
    return CFG % dict(nsess=nsess, maxsteps=maxsteps, mode=mode, qdoc=b(q[0]), qtx=b(q[1]), qref=b(q[2]), emit=b(emit),
                      spec=spec, invs=invs, view=view, qgate=b(qgate), phased=b(phased))


FLOW_INVS = "TypeOK WriteNeedsRW DataNeedsR AdminNeedsAdmin InvalidSessionRefused SystemDbReadOnly AuthGrant"


def tlc_flows(chk, thorough):
    """multi-step flows of a user with permissions on two databases: exhaustive phased family (open, newtx, switch |
    re-permission | deactivate | txexec, txexec | switch, commit, call) for every permission pair, simulated free flows,
    the code model of the binding (must satisfy the policy) and the same model with NewTx(ReadWrite) gated by the read
    permission only (must NOT: shows that the model and the invariants have teeth for this class)"""
    def phased():
        return vlib.run_tlc("Auth", "flow.cfg", workers=4, timeout=900, tag="C18flow",
                            files=[("flow.cfg", cfg("flow", nsess=1, maxsteps=6, spec="FlowSpec", invs="TypeOK EmitFlow", view="", phased=True))])

    def sim():
        return vlib.run_tlc("Auth", "flow.cfg", workers=1, timeout=600, tag="C18flow",
                            files=[("flow.cfg", cfg("flow", nsess=1, maxsteps=6, spec="FlowSpec", invs="TypeOK EmitFlow", view=""))],
                            extra=["-simulate", "num=%d" % (400 if thorough else 60), "-depth", "8", "-seed", str(chk.seed)])

    def code(gate):
        return vlib.run_tlc("Auth", "flow.cfg", workers=2, timeout=900, tag="C18flow",
                            files=[("flow.cfg", cfg("flowcode", nsess=1, maxsteps=1000, spec="FlowSpec", invs=FLOW_INVS, view="VIEW FlowView", qgate=gate))])

    with cf.ThreadPoolExecutor(4) as ex:
        fp, fs, fd, fg = ex.submit(phased), ex.submit(sim), ex.submit(code, False), ex.submit(code, True)
        out = {"phased": fp.result(), "sim": fs.result(), "design": fd.result(), "gate": fg.result()}
    vlib.tlc_must_pass(out["phased"], "Auth flows (phased)")
    if out["sim"].error or out["sim"].violation:
        raise MachineryFault("Auth flow simulation: %s %s" % (out["sim"].error, out["sim"].violation))
    vlib.tlc_must_pass(out["design"], "Auth flow code model (transaction bound at NewTx, privileges checked on the selected database)")
    if out["gate"].error:
        raise MachineryFault("Auth flow code model with the read gate: " + out["gate"].error)
    if out["gate"].violation != "WriteNeedsRW":
        raise MachineryFault("the flow code model with NewTx(ReadWrite) gated by the read permission does not violate WriteNeedsRW (%s): "
                             "the model has no teeth for bound-here-checked-there flows" % out["gate"].violation)
    return out


def launch_flows(chk, fl, ex, futures, binp, wd, rng, thorough):
    phased = vlib.printed_json(fl["phased"].out)
    sims = vlib.printed_json(fl["sim"].out)
    chk.add_tlc(fl["phased"], "Auth flows, phased family for every permission pair (%d flows)" % len(phased))
    chk.add_tlc(fl["sim"], "Auth flows, simulation (%d flows)" % len(sims))
    chk.add_tlc(fl["design"], "Auth flow code model (binding at NewTx, privileges on the selected database): satisfies the policy")
    chk.add_tlc(fl["gate"], "Auth flow code model with NewTx(ReadWrite) gated by the read permission: counterexample %s" % fl["gate"].violation)
    if len(phased) < 3000:
        raise MachineryFault("only %d phased flows" % len(phased))
    for f in phased:
        f["origin"] = "tlc-flow-phased"
    uniq = {}
    for f in sims:
        f["origin"] = "tlc-flow-simulation"
        uniq[json.dumps(f["hist"], sort_keys=True)] = f
    sims = [uniq[k] for k in sorted(uniq)]
    # the counterexample of the broken gate, as a flow of the policy model (which carries the allowed effects per step)
    st = vlib.error_trace_last_state(fl["gate"].out)
    if not st or "hist" not in st:
        raise MachineryFault("cannot parse the counterexample of the flow code model")
    ops = [(h["op"], h["db"], h["a"]) for h in st["hist"]]
    perms = (st["hist"][0]["pcur"], st["hist"][0]["pcuro"])
    cex = [f for f in phased if (f["hist"][0]["pcur"], f["hist"][0]["pcuro"]) == perms and [(h["op"], h["db"], h["a"]) for h in f["hist"][:len(ops)]] == ops]
    if not cex:
        raise MachineryFault("the counterexample %r %r of the flow code model is not among the phased flows" % (perms, ops))
    for f in cex:
        f["origin"] = "tlc-counterexample:QTxReadGate"
    # sample: per permission pair the flows with a database switch inside the transaction first
    by_pair = {}
    for f in phased:
        by_pair.setdefault(pair_of(f), []).append(f)
    chosen = list(cex[:2])
    per_switch, per_other = (10**6, 10**6) if thorough else (8, 4)
    for pr in sorted(by_pair):
        fs = by_pair[pr]
        rng.shuffle(fs)
        # switch BEFORE TxSQLExec / TxSQLQuery, for read-write and read-only transactions; then switch before Commit; then the rest
        pre = {m: [f for f in fs if switch_before_exec(f) and f["hist"][1]["a"] == m] for m in ("rw", "ro")}
        sw = [f for f in fs if has_switch(f) and not switch_before_exec(f)]
        ot = [f for f in fs if not has_switch(f)]
        chosen += pre["rw"][:per_switch // 2] + pre["ro"][:per_switch // 2] + sw[:per_other] + ot[:per_other]
    rng.shuffle(sims)
    chosen += sims[:(2000 if thorough else 40)]
    if thorough and len(chosen) > 3600:
        keep = [f for f in chosen if has_switch(f)]
        rest = [f for f in chosen if not has_switch(f)]
        chosen = keep[:2400] + rest[:1200]
    chk.cov["flows"] = {"phased": len(phased), "simulated_distinct": len(sims), "replayed": len(chosen),
                        "replayed_with_switch_inside_tx": sum(1 for f in chosen if has_switch(f)),
                        "replayed_with_switch_between_newtx_and_txexec": sum(1 for f in chosen if switch_before_exec(f)), "pairs": sorted(by_pair)}
    nproc = 4 if thorough else 2
    for i in range(nproc):
        d = os.path.join(wd, "srv_flow%d" % i)
        os.makedirs(d)
        part = os.path.join(wd, "flows_%d.json" % i)
        json.dump(chosen[i::nproc], open(part, "w"))
        a = ["-mode", "flow", "-flows", part, "-trace", os.path.join(wd, "trace_flow%d.ndjson" % i), "-dir", d, "-seed", str(chk.seed)]
        futures.append(("flow%d" % i, ex.submit(run_harness, binp, a, wd, "flow%d" % i)))


def has_switch(f):
    """a database switch between NewTx and TxSQLExec / Commit"""
    seen_newtx = False
    for e in f["hist"]:
        if e["op"] == "newtx":
            seen_newtx = True
        elif e["op"] == "use" and seen_newtx:
            return True
    return False


def switch_before_exec(f):
    """... and a TxSQLExec / TxSQLQuery after the switch"""
    seen_newtx = seen_use = False
    for e in f["hist"]:
        if e["op"] == "newtx":
            seen_newtx = True
        elif e["op"] == "use" and seen_newtx:
            seen_use = True
        elif e["op"] == "txexec" and seen_use:
            return True
    return False


def pair_of(f):
    return f["hist"][0]["pcur"] + "/" + f["hist"][0]["pcuro"]


QUIRKS = [("QDocMaint", (True, False, False), "C18_DocMaintFixed"),
          ("QTxBypass", (False, True, False), "C18_TxBypassFixed"),
          ("QRefCount", (False, False, True), "C18_RefCountFixed")]


def tlc_policy(chk, wd, nsess):
    res = vlib.run_tlc("Auth", "pol.cfg", workers=8, timeout=900, files=[("pol.cfg", cfg("policy", nsess=nsess, invs=INVS + " EmitRow"))],
                       extra=["-seed", str(chk.seed)], tag="C18pol")
    vlib.tlc_must_pass(res, "Auth policy model")
    rows = vlib.printed_json(res.out)
    keys = set()
    for r in rows:
        k = (r["kind"], r["sess"], r["sel"], r["role"], r["cur"], r["active"], r["eff"], r["db"], r["creds"])
        if k in keys:
            raise MachineryFault("policy matrix has two rows for %r" % (k,))
        keys.add(k)
    if len(rows) < 5000:
        raise MachineryFault("policy matrix has only %d rows" % len(rows))
    return res, rows


def tlc_code(chk, nsess):
    """design model (no quirk) must satisfy the policy; each quirk of the pinned code alone gives a counterexample"""
    out = {}
    d = vlib.run_tlc("Auth", "code.cfg", workers=4, timeout=900, files=[("code.cfg", cfg("code", nsess=nsess))], tag="C18code")
    vlib.tlc_must_pass(d, "Auth code model without the quirks of the pinned code (design)")
    out["design"] = d
    for name, q, _ in QUIRKS:
        c = vlib.run_tlc("Auth", "code.cfg", workers=2, timeout=900, files=[("code.cfg", cfg("code", nsess=nsess, q=q))], tag="C18code")
        if c.error:
            raise MachineryFault("Auth code model %s: %s" % (name, c.error))
        out[name] = c
    return out


def tlc_simulate(chk, num):
    res = vlib.run_tlc("Auth", "sim.cfg", workers=1, timeout=600,
                       files=[("sim.cfg", cfg("policy", nsess=3, maxsteps=6, emit=True, invs="TypeOK EmitHistory", view=""))],
                       extra=["-simulate", "num=%d" % num, "-depth", "10", "-seed", str(chk.seed)], tag="C18sim")
    if res.error or res.violation:
        raise MachineryFault("Auth simulation: %s %s" % (res.error, res.violation))
    return res, vlib.printed_json(res.out)


def hist_of(st):
    """last state of a TLC error trace -> history record for the harness"""
    hs = []
    for h in st["hist"]:
        hs.append({"op": h["op"], "s": h["s"], "kind": h["kind"], "db": h["db"], "p": h["p"], "after": h["after"], "cur": h["cur"], "active": h["active"]})
    return {"role": st["role0"], "hist": hs}


def run_harness(binp, args, wd, name):
    out, err = vlib.run_harness(binp, args, timeout=1500, cwd=wd)
    try:
        return json.loads(out)
    except Exception as ex:
        raise MachineryFault("harness %s: unparsable result (%s): %r" % (name, ex, out[:300]))


def validate_trace(chk, text, nlines, what, expect_consumed=True):
    res = vlib.run_tlc("TraceAuth", "trace.cfg", workers=1, timeout=900,
                       files=[("trace.cfg", cfg("trace", nsess=8, spec="TraceSpec", invs="TypeOK Done", view="")), ("trace.ndjson", text)],
                       tag="C18trace")
    if res.error:
        raise MachineryFault("TraceAuth (%s): %s" % (what, res.error))
    if res.violation:
        raise MachineryFault("TraceAuth (%s): %s violated\n%s" % (what, res.violation, res.out[-2000:]))
    done = vlib.printed_json(res.out)
    if not done:
        if expect_consumed:
            raise MachineryFault("TraceAuth (%s): the trace is not a behaviour of Auth.tla: consumed %d of %d lines (line %d cannot be explained)"
                                 % (what, res.depth - 1, nlines, res.depth))
        return res, None
    if done[-1]["consumed"] != nlines:
        raise MachineryFault("TraceAuth (%s): consumed %d of %d lines" % (what, done[-1]["consumed"], nlines))
    return res, done[-1]["bad"]


def run(chk, args):
    thorough = chk.tier == "thorough"
    selftest = bool(os.environ.get("VERIF_SELFTEST"))
    nsess = 2
    binp = vlib.go_build("c18")
    wd = vlib.scratch("C18")
    rng = random.Random(chk.seed)

    # ---------------- TLC (policy matrix | code model | simulation) and the real server (matrix | histories) overlap:
    # the matrix processes start as soon as TLC has written the matrix, the history process once the code model
    # and the simulation have produced the histories
    roles = ["RW"] if selftest else ROLES
    ex = cf.ThreadPoolExecutor(16)
    f_pol = ex.submit(tlc_policy, chk, wd, nsess)
    f_code = ex.submit(tlc_code, chk, nsess)
    f_sim = ex.submit(tlc_simulate, chk, 600 if thorough else 120)
    f_flow = None if selftest else ex.submit(tlc_flows, chk, thorough)
    pol, rows = f_pol.result()
    chk.add_tlc(pol, "Auth policy NSess=%d (exhaustive, matrix of %d rows)" % (nsess, len(rows)))
    permitted = sum(1 for r in rows if r["permitted"])
    chk.cov["policy_matrix"] = {"rows": len(rows), "permitted": permitted, "forbidden": len(rows) - permitted,
                                "by_effect": {e: sum(1 for r in rows if r["eff"] == e) for e in sorted({r["eff"] for r in rows})}}
    if permitted == 0 or permitted == len(rows):
        raise MachineryFault("vacuous policy matrix")
    if selftest:
        # binding self-test, part 1: corrupt one expected value of the matrix the harness judges with
        hit = [r for r in rows if r["kind"] == "session" and r["sess"] == "valid" and r["sel"] == "own" and r["role"] == "RW" and r["cur"] == "RW"
               and r["eff"] == "content" and r["db"] == "own"]
        if len(hit) != 1 or not hit[0]["permitted"]:
            raise MachineryFault("self-test: matrix row to corrupt not found")
        hit[0]["permitted"] = False
    policy_path = os.path.join(wd, "policy.json")
    json.dump({"rows": rows}, open(policy_path, "w"))

    futures = []
    for role in roles:
        d = os.path.join(wd, "srv_" + role)
        os.makedirs(d)
        a = ["-mode", "matrix", "-policy", policy_path, "-trace", os.path.join(wd, "trace_%s.ndjson" % role), "-dir", d, "-seed", str(chk.seed), "-roles", role]
        if selftest:
            a += ["-kinds", "session"]
        if thorough:
            a += ["-fullprepare"]
        else:
            a += ["-tokensels", "own,none"]     # quick: token authentication with the own database selected and with none
        futures.append((role, ex.submit(run_harness, binp, a, wd, role)))

    code = f_code.result()
    sim, sims = f_sim.result()
    chk.add_tlc(code["design"], "Auth code model, quirks off (design satisfies the policy)")
    chk.add_tlc(sim, "Auth policy simulation (%d behaviours)" % len(sims))
    hists = []
    for name, q, fixed_flag in QUIRKS:
        c = code[name]
        chk.add_tlc(c, "Auth code model, %s only (counterexample: %s)" % (name, c.violation))
        if not c.violation:
            if not vlib.model_flag(fixed_flag):
                chk.notes.append({"model-drift": "code model with %s satisfies the policy but spec/model_flags.json does not say the defect is fixed" % name})
            continue
        st = vlib.error_trace_last_state(c.out)
        if not st or "hist" not in st:
            raise MachineryFault("cannot parse the counterexample of %s" % name)
        h = hist_of(st)
        h["origin"] = "tlc-counterexample:%s:%s" % (name, c.violation)
        hists.append(h)
    # simulated behaviours: the management steps are what is replayed (the abstract call of the policy model is not
    # executable); de-duplicate and draw a seeded sample
    prefixes = {}
    for s in sims:
        h = [e for e in s["hist"] if e["op"] != "call"]
        if h:
            prefixes[json.dumps([s["role"], h], sort_keys=True)] = (s["role"], h)
    keys = sorted(prefixes)
    rng.shuffle(keys)
    nsim = 150 if thorough else 20
    for k in keys[:nsim]:
        role, h = prefixes[k]
        hists.append({"role": role, "hist": h, "origin": "tlc-simulation"})
    chk.cov["simulated_histories"] = {"printed": len(sims), "distinct": len(keys), "replayed": min(nsim, len(keys))}
    # the histories behind the reference-count finding, for every role, whatever the simulation sampled
    def ev(op, s=0, kind="-", db="-", p="-", after=(), cur="-", active=True):
        return {"op": op, "s": s, "kind": kind, "db": db, "p": p, "after": list(after), "cur": cur, "active": active}
    for role in ["R", "RW", "Admin"]:
        hists.append({"role": role, "origin": "double-login-then-deactivate", "hist": [
            ev("login", 1, "token", "none", after=["valid", "none"], cur=role), ev("usedatabase", 1, "token", "own", after=["valid", "none"], cur=role),
            ev("login", 2, "token", "none", after=["valid", "valid"], cur=role),
            ev("deactivate", after=["userDeactivated", "userDeactivated"], cur=role, active=False),
            ev("call", 1, "token", "sel", "kvWrite", after=["userDeactivated", "userDeactivated"], cur=role, active=False)]})
    if not selftest:
        nh = 2 if thorough else 1
        for i in range(nh):
            d = os.path.join(wd, "srv_hist%d" % i)
            os.makedirs(d)
            part = os.path.join(wd, "hist_%d.json" % i)
            json.dump(hists[i::nh], open(part, "w"))
            a = ["-mode", "hist", "-policy", policy_path, "-hist", part, "-trace", os.path.join(wd, "trace_hist%d.ndjson" % i), "-dir", d, "-seed", str(chk.seed)]
            futures.append(("hist%d" % i, ex.submit(run_harness, binp, a, wd, "hist%d" % i)))
    if not selftest:
        launch_flows(chk, f_flow.result(), ex, futures, binp, wd, rng, thorough)
    results = [(name, f.result()) for name, f in futures]
    ex.shutdown()

    # ---------------- trace validation: all requests of all processes, judged by TLC in the reconstructed state
    text, offset, harness_bad, total_cells = "", 0, set(), 0
    for name, r in results:
        t = open(os.path.join(wd, "trace_%s.ndjson" % name)).read()
        n = t.count("\n")
        if n != r["extra"]["traceLines"]:
            raise MachineryFault("trace of %s has %d lines, the harness wrote %d" % (name, n, r["extra"]["traceLines"]))
        for l in r["extra"].get("badLines") or []:
            harness_bad.add(offset + l)
        text += t
        offset += n
        total_cells += r["counters"].get("cells", 0)
    tres, bad = validate_trace(chk, text, offset, "all requests")
    chk.add_tlc(tres, "TraceAuth: %d events of the real server" % offset)
    tlc_bad = {b["l"] for b in bad}
    lines = text.split("\n")
    if tlc_bad != harness_bad and not selftest:
        only_t = sorted(tlc_bad - harness_bad)[:5]
        only_h = sorted(harness_bad - tlc_bad)[:5]
        raise MachineryFault("TLC (TraceAuth) and the harness oracle (policy matrix) disagree: only TLC rejects lines %s %s, only the harness rejects %s %s"
                             % (only_t, [lines[i - 1][:300] for i in only_t], only_h, [lines[i - 1][:300] for i in only_h]))
    chk.cov["trace_validation"] = {"events": offset, "calls": sum(1 for l in lines if '"event":"Call"' in l), "rejected_lines": len(tlc_bad)}

    # ---------------- verdicts and evidence
    rpcs = None
    for name, r in results:
        vlib.absorb(chk, r)
        if name in ROLES:
            rpcs = r["extra"].get("rpcs")
    c = chk.cov.get("counters", {})
    chk.cov["rpcs"] = rpcs
    chk.cov["cells"] = c.get("cells", 0)
    chk.cov["traces_validated_against_impl"] = len(results)
    if not selftest:
        # non-vacuity of the real run: every class of effect was observed, sessions were accepted and refused
        for k in ["effect:content", "effect:data", "effect:users", "effect:settings", "effect:lifecycle", "effect:auth", "ok:valid", "cells:expired",
                  "cells:userDeactivated", "cells:permissionChanged", "cells:loggedOut", "cells:none", "hist-probes", "hist-probes-accepted"]:
            if c.get(k, 0) == 0:
                raise MachineryFault("non-vacuity: counter %s is 0" % k)
        # flows: for every permission pair that can select both databases, transactions were opened, the database
        # was switched before TxSQLExec, and commits after a switch went through
        sw = {k.split(":")[1]: v for k, v in c.items() if k.startswith("flow-switch-between-newtx-and-txexec:")}
        chk.cov["flows"]["switch_between_newtx_and_txexec_by_pair"] = sw
        need = ["%s/%s" % (a, b) for a in ("R", "RW", "Admin") for b in ("R", "RW", "Admin")] + ["SysAdmin/SysAdmin"]
        missing = [p for p in need if sw.get(p, 0) == 0]
        if missing:
            raise MachineryFault("non-vacuity: no flow with a database switch between NewTx and TxSQLExec for the permission pairs %s" % missing)
        for k in ["flow-commit-ok", "flow-commit-ok-after-switch", "flow-newtx-ok:rw", "flow-newtx-ok:ro", "flow-newtx-refused:rw"]:
            if c.get(k, 0) == 0:
                raise MachineryFault("non-vacuity: counter %s is 0" % k)
        unexercised = [k[len("ok-rpc:"):] for k in []]
        okr = {k[len("ok-rpc:"):] for k in c if k.startswith("ok-rpc:")}
        chk.cov["rpc_rows_with_a_successful_call"] = len(okr)
    if selftest:
        run_selftest(chk, text, offset, tlc_bad)
    chk.cov["rule"] = ("matrix = every RPC of the three grpc.ServiceDesc (unary and streaming, %s rows incl. request variants) x role {none,R,RW,Admin,SysAdmin} x "
                       "selection {own,other,system,(none)} x state {none,valid,expired,userDeactivated,permissionChanged,loggedOut} x {session,token}; "
                       "effects observed per call; histories = TLC counterexamples of the code model + simulated behaviours" % rpcs)
    chk.assumptions += [
        "database list, database settings and users are persisted by the server in the system database: the observer re-reads them when the system "
        "database advanced (re-checked with a full read at the start of every group of cells)",
        "data returned = a sentinel (key, value, SQL value, document field, password hash) of a database appears in a response message",
        "token expiry (granularity of minutes) is not driven; a token is an identity claim: after a new credential login the server may honour the "
        "user's older tokens again with the CURRENT permissions (Auth.tla LoginEffect), and Logout ends the login only when the last client logs out",
        "matrix and histories: one test user per role with a permission on one database, histories up to NSess=%d slots; flows: one user per "
        "permission pair on two databases, one session, one interactive transaction, 6 steps" % nsess]


def run_selftest(chk, text, nlines, tlc_bad):
    """binding self-test, part 2: the trace specification is bound to the log"""
    lines = text.split("\n")
    # (a) corrupt one recorded field: the role of a Reset that is followed by an accepted write
    idx = None
    for i, l in enumerate(lines):
        if l.startswith('{"event":"Reset"') and '"RW"' in l:
            for j in range(i + 1, min(i + 400, len(lines))):
                if '"Reset"' in lines[j]:
                    break
                if '"k":"content"' in lines[j] and '"sess":"valid"' in lines[j]:
                    idx = i
                    break
        if idx is not None:
            break
    if idx is None:
        raise MachineryFault("self-test: no Reset followed by an accepted write in the trace")
    mod = list(lines)
    mod[idx] = mod[idx].replace('"RW"', '"R"')
    _, bad = validate_trace(chk, "\n".join(mod), nlines, "self-test corrupted field", expect_consumed=False)
    if bad is not None:
        raise MachineryFault("self-test: a trace with a corrupted role was consumed to the end (the logged role is not bound)")
    # (b) drop one hook line: the OpenSession that established a valid session
    k = next(i for i, l in enumerate(lines) if l.startswith('{"db":"own","event":"OpenSession"') and '"granted":true' in l)
    mod = lines[:k] + lines[k + 1:]
    _, bad = validate_trace(chk, "\n".join(mod), nlines - 1, "self-test dropped line", expect_consumed=False)
    if bad is not None:
        raise MachineryFault("self-test: a trace with a dropped OpenSession line was consumed to the end")
    # (c) corrupt an outcome: an unauthenticated call that claims to have written
    k = next(i for i, l in enumerate(lines) if '"sess":"none"' in l and '"effs":[]' in l and '"event":"Call"' in l)
    mod = list(lines)
    mod[k] = mod[k].replace('"effs":[]', '"effs":[{"k":"content","db":"own"}]')
    _, bad = validate_trace(chk, "\n".join(mod), nlines, "self-test corrupted outcome")
    if {b["l"] for b in bad} - tlc_bad != {k + 1}:
        raise MachineryFault("self-test: a forged write by an unauthenticated call was not rejected by TraceAuth (%r)" % (bad[:3],))
    vlib.log("[selftest] TraceAuth rejects a corrupted role, a dropped OpenSession line and a forged outcome; "
             "the corrupted matrix row must now show up as a violation")
    if not chk.violations:
        raise MachineryFault("self-test: the corrupted matrix row produced no violation (the harness oracle is not bound to the matrix)")


if __name__ == "__main__":
    vlib.main(run, "C18", "model_checking")
