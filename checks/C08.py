#!/usr/bin/env python3
"""C08 - hash trees equal the reference Merkle construction.
TLC (spec/MerkleCases.tla over spec/Merkle.tla) enumerates every (size, index) pair, every re-labelling,
proof alteration, swapped leaf/root and every claim the transcribed verifier can be made to accept
(proof solving), proves generation = reference, completeness and soundness of the reference verifiers,
and writes the cases; harness/cmd/c08 runs every case on the real ahtree/htree code.
spec/AHT.tla is the state machine of the on-disk tree (append / reset-size / sync / reopen / kill);
its behaviours are replayed on a real tree."""
import json, os, sys, concurrent.futures as cf
sys.path.insert(0, os.path.join(os.path.dirname(os.path.abspath(__file__)), "..", "lib"))
import vlib
from vlib import MachineryFault

PARTS = ["gen", "incl", "cons", "last", "ht"]


def run(chk, args):
    n = 9 if chk.tier == "quick" else 16
    fixed = vlib.model_flag("C08_FixedVerifiers")
    binp = vlib.go_build("c08")
    wd = vlib.scratch("C08")

    def tlc_part(part):
        cfg = ("CONSTANTS\n  Part = \"%s\"\n  N = %d\n  RelabelPad = 1\n  OutFile = \"%s\"\n  FixedVerifiers = %s\n"
               "INIT Init\nNEXT Next\nCHECK_DEADLOCK FALSE\n") % (part, n, os.path.join(wd, "mc_%s.json" % part), "TRUE" if fixed else "FALSE")
        sub = os.path.join(wd, "tlc_" + part)
        os.makedirs(sub)
        return part, vlib.run_tlc("MerkleCases", "mc.cfg", workdir=sub, workers=1, timeout=3000, files=[("mc.cfg", cfg)])

    with cf.ThreadPoolExecutor(len(PARTS)) as ex:
        results = dict(ex.map(tlc_part, PARTS))
    facts = {}
    for part, res in results.items():
        vlib.tlc_must_pass(res, "MerkleCases[%s]" % part)
        chk.add_tlc(res, "MerkleCases Part=%s N=%d" % (part, n))
        for line in res.out.splitlines():
            line = line.strip()
            if line.startswith("<<\"") and line.endswith(">>"):
                v = vlib.parse_tla(line)
                facts[part + ":" + v[0]] = v[1:]
    # facts the model must establish (these are statements about the specification, checked exhaustively up to N)
    need_true = ["gen:RootsEqual", "gen:InclProofsEqual", "gen:ConsProofsEqual", "gen:HtRootsEqual", "gen:HtProofsEqual", "gen:Complete"]
    for p in PARTS[1:]:
        need_true += [p + ":RefSound", p + ":RefComplete", p + ":StrictEqualsRef"]
    for k in need_true:
        if facts.get(k) != [True]:
            raise MachineryFault("model fact %s is %r (specification no longer proves what the oracle relies on)" % (k, facts.get(k)))
    chk.cov["model_facts"] = {k: v for k, v in facts.items()}

    # merge case files for the harness
    merged = json.load(open(os.path.join(wd, "mc_gen.json")))
    for p in PARTS[1:]:
        merged[p] = json.load(open(os.path.join(wd, "mc_%s.json" % p)))["cases"]
    cases_path = os.path.join(wd, "cases.json")
    json.dump(merged, open(cases_path, "w"))
    ddir = os.path.join(wd, "d")
    os.makedirs(ddir)
    out, _ = vlib.run_harness(binp, ["-cases", cases_path, "-seed", str(chk.seed), "-dir", ddir])
    r = json.loads(out)
    vlib.absorb(chk, r)
    run_aht(chk, binp, wd)
    chk.cov["rule"] = ("cases = every (i<=j<=N) honest proof x every claimed (position,size) in 0..N+1, every single-step proof "
                       "alteration, every other leaf/root, forked roots, and every claim for which some proof makes the transcribed "
                       "verifier accept (solved by destructuring the root term); non-trivial = a case record distinct as a TLA+ value")
    chk.cov["exhaustive"] = True
    chk.cov["N"] = n
    chk.assumptions += ["SHA-256 is collision resistant and leaf/node prefixes separate domains (hashes are free terms in the model)",
                        "tree sizes up to N=%d; claimed positions/sizes up to N+1" % n]


AHT_CFG = """CONSTANTS
  MaxLeaves = %d
  MaxOps = %d
  SyncThld = %d
  StaleSuffix = %s
  AllowFlush = %s
  EmitDepth = %d
SPECIFICATION Spec
INVARIANTS %s
%s
CHECK_DEADLOCK FALSE
"""


def run_aht(chk, binp, wd):
    """State machine of the on-disk tree: exhaustive TLC on the design (rewind truncates) and on the code as
    transcribed (rewind keeps the file suffix); counterexamples of the latter and simulated behaviours are
    replayed on the real tree."""
    thorough = chk.tier == "thorough"
    ml, mo = (6, 12) if thorough else (5, 10)
    inv = "TypeOK SelfConsistent SyncedOnDisk Refines"
    def group(thld):
        """design model, code model (counterexample expected), simulation, replay — for one SyncThld; returns what to fold into chk"""
        tl, bs = [], []
        d = vlib.run_tlc("AHT", "aht.cfg", workers=4, timeout=1200,
                         files=[("aht.cfg", AHT_CFG % (ml, mo, thld, "FALSE", "TRUE", 0, inv, "VIEW View"))], tag="C08aht")
        vlib.tlc_must_pass(d, "AHT design model (SyncThld=%d)" % thld)
        tl.append((d, "AHT design StaleSuffix=FALSE SyncThld=%d MaxLeaves=%d MaxOps=%d" % (thld, ml, mo)))
        c = vlib.run_tlc("AHT", "aht.cfg", workers=1, timeout=1200,
                         files=[("aht.cfg", AHT_CFG % (ml, mo, thld, "TRUE", "TRUE", 0, inv, "VIEW View"))], tag="C08aht")
        if c.error:
            raise MachineryFault("AHT code model: " + c.error)
        tl.append((c, "AHT code StaleSuffix=TRUE SyncThld=%d (counterexample expected: %s)" % (thld, c.violation)))
        if c.violation:
            st = vlib.error_trace_last_state(c.out)
            if not st or "hist" not in st:
                raise MachineryFault("cannot parse AHT counterexample")
            bs.append({"ops": st["hist"], "origin": "tlc-counterexample:" + c.violation})
        num = 1500 if thorough else 250
        sm = vlib.run_tlc("AHT", "aht.cfg", workers=1, timeout=1200,
                          extra=["-simulate", "num=%d" % num, "-depth", "16", "-seed", str(chk.seed + thld)],
                          files=[("aht.cfg", AHT_CFG % (10, 14, thld, "TRUE", "FALSE", 14, "TypeOK Emit", ""))], tag="C08aht")
        if sm.error or sm.violation:
            raise MachineryFault("AHT simulation: %s %s" % (sm.error, sm.violation))
        sim = vlib.printed_json(sm.out)
        if len(sim) < num // 2:
            raise MachineryFault("AHT simulation printed only %d behaviours" % len(sim))
        bs += sim
        p = os.path.join(wd, "aht_%d.json" % thld)
        json.dump({"syncThld": thld, "behaviours": bs}, open(p, "w"))
        dd = os.path.join(wd, "ahtd_%d" % thld)
        os.makedirs(dd)
        out, _ = vlib.run_harness(binp, ["-aht", p, "-seed", str(chk.seed), "-dir", dd])
        return tl, json.loads(out)

    with cf.ThreadPoolExecutor(3) as ex:
        groups = list(ex.map(group, (1, 2, 3)))
    for tl, r in groups:
        for res, name in tl:
            chk.add_tlc(res, name)
        vlib.absorb(chk, r)
    # operations of AHT.tla are atomic: a proof generated while the tree is rolled back and re-appended is the proof of one of the states
    dd = os.path.join(wd, "conc")
    out, _ = vlib.run_harness(binp, ["-conc", "400" if thorough else "120", "-seed", str(chk.seed), "-dir", dd])
    rc = json.loads(out)
    if not (rc.get("counters") or {}).get("conc:mutation-started-inside-the-proof-call"):
        raise MachineryFault("concurrent probe is vacuous: the mutation never started inside a proof call")
    vlib.absorb(chk, rc)
    chk.assumptions.append("AHT state machine: fixed-size payloads (slots), process kill keeps exactly what was written to the files")


if __name__ == "__main__":
    vlib.main(run, "C08", "model_checking")
