-------------------------------- MODULE Auth --------------------------------
(***************************************************************************)
(* Access control of the immudb server (pkg/server, pkg/auth,              *)
(* pkg/server/sessions) as the property C18 states it.                     *)
(*                                                                         *)
(* One test user with a permission on the database "own" (role none, R,    *)
(* RW, Admin) or the system administrator (SysAdmin, every database);      *)
(* databases own / other (no permission unless SysAdmin) / system;         *)
(* an active flag; session slots (session-id sessions and login tokens)    *)
(* with a selected database and a life-cycle state.                        *)
(* Actions: OpenSession, Login, UseDatabase, SetPermission, Deactivate,    *)
(* Activate, Expire, Logout and Call(slot, outcome).                       *)
(*                                                                         *)
(* A Call does not name an RPC: it carries the OBSERVED outcome of a       *)
(* request (status ok?, did the RPC need authentication?, did the request  *)
(* carry credentials?, and a set of elementary effects                     *)
(* [k |-> content|settings|lifecycle|users|data|auth, db |-> ...]).        *)
(* The policy is the conjunction of the clauses Inv* below, evaluated on   *)
(* the state in which the call was made.                                   *)
(*                                                                         *)
(* Mode = "policy": after every history of management steps every         *)
(*   single-effect outcome is tried on every slot; `permitted` records the *)
(*   policy's verdict (only permitted calls are behaviours of the          *)
(*   specification; the invariants are conditional on it) and TLC prints   *)
(*   the matrix (kind x session state x selection x role x current         *)
(*   permission x active x effect x creds -> permitted) of every reachable *)
(*   combination.  OpenSession / Login / UseDatabase are granted exactly   *)
(*   when the policy permits the grant (weakest guard).                    *)
(* Mode = "code": the outcome is decided by the transcription of the Go    *)
(*   gate (getDBFromCtx, methodsPermissions / maintenanceMethods, the      *)
(*   session manager and the token login list); the Q* constants switch    *)
(*   the quirks of the pinned code on and off.                             *)
(* Mode = "flow" / "flowcode": multi-step flows of a user with permissions  *)
(*   on TWO databases (see the section "flows" below): what is bound at    *)
(*   one step (the database of an interactive transaction) and checked at  *)
(*   another (the selected database at TxSQLExec / Commit time).           *)
(* Mode = "trace": no guard, the outcome comes from the log of the real    *)
(*   server (TraceAuth.tla) and the clauses judge it.                      *)
(***************************************************************************)
EXTENDS Naturals, Sequences, FiniteSets, TLC, Json, SequencesExt

CONSTANTS NSess,       \* session / token slots of the test user
          MaxSteps,    \* bound on the number of management steps of a history
          Mode,        \* "policy" | "code" | "trace"
          QDocMaint,   \* code: document write RPCs are in auth.maintenanceMethods (exempt from "systemdb is read-only")
          QTxBypass,   \* code: NewTx/TxSQLExec/Commit never pass through getDBFromCtx
          QRefCount,   \* code: the token login list is reference counted (RemoveSession only decrements)
          QTxReadGate, \* flow code model: NewTx(ReadWrite) is gated by the READ permission only (a breakage, not the pinned code)
          FlowPhased,  \* flow mode: behaviours follow the phases open, newtx, switch / re-permission, txexec, commit, call
          EmitHist     \* print every finished history as JSON (simulation)

Roles == {"none", "R", "RW", "Admin", "SysAdmin"}
Rank(p) == CASE p = "none" -> 0 [] p = "R" -> 1 [] p = "RW" -> 2 [] p = "Admin" -> 3 [] p = "SysAdmin" -> 4
Dbs == {"own", "other", "system"}
Sels == Dbs \cup {"none"}
Kinds == {"session", "token"}
SessStates == {"none", "valid", "expired", "userDeactivated", "permissionChanged", "loggedOut"}

\* elementary observed effects
Effects ==
  {[k |-> "content", db |-> d] : d \in Dbs} \cup
  {[k |-> "settings", db |-> d] : d \in Dbs} \cup
  {[k |-> "lifecycle", db |-> d] : d \in Dbs \cup {"new"}} \cup
  {[k |-> "users", db |-> d] : d \in Dbs \cup {"any"}} \cup
  {[k |-> "data", db |-> d] : d \in Dbs} \cup
  {[k |-> "auth", db |-> d] : d \in Dbs \cup {"none"}}

VARIABLES role0,    \* role the user was created with
          cur,      \* current permission on "own" (SysAdmin: "SysAdmin")
          curo,     \* current permission on "other" ("none" except in the flow modes; SysAdmin: "SysAdmin")
          tx,       \* flow modes: the interactive transaction of slot 1: [st, db it is bound to, mode, dirty]
          active,   \* user is active
          sess,     \* slot -> [kind, st, sel]
          nlog,     \* policy: number of the user's token logins that have not logged out since the logins were last cut off
          logins,   \* code model: reference count of the token login list
          cached,   \* code model: permission on "own" cached in the login list at the last Login
          epoch,    \* code model: generation of the user's token signing keys (DropTokenKeys starts a new one)
          last,     \* the last call: pre-state and outcome
          steps,    \* number of management steps so far
          hist      \* history (observation only)
vars == <<role0, cur, curo, tx, active, sess, nlog, logins, cached, epoch, last, steps, hist>>

NoSess == [kind |-> "session", st |-> "none", sel |-> "none", ep |-> 0]
NoCall == [is |-> FALSE, permitted |-> FALSE]
IsSys == role0 = "SysAdmin"
NoTx == [st |-> "none", db |-> "none", mode |-> "-", dirty |-> FALSE]
PermOn(d) == IF IsSys THEN "SysAdmin" ELSE IF d = "own" THEN cur ELSE IF d = "other" THEN curo ELSE "none"
PermMap == [d \in Dbs |-> PermOn(d)]
Slot(i) == IF i = 0 THEN NoSess ELSE sess[i]

-----------------------------------------------------------------------------
(* THE POLICY.  c is a call record                                         *)
(*   [sv |-> session slot, perm |-> [db -> permission], active |-> ...,    *)
(*    out |-> [ok, authreq, creds, effs]]                                  *)
Valid(c) == c.sv.st = "valid"
Sys(c) == c.perm["system"] = "SysAdmin"
AdminFor(c, d) == \/ Sys(c)
                  \/ d \in Dbs /\ c.perm[d] = "Admin"
                  \/ d \in {"new", "any"} /\ \E x \in Dbs : c.perm[x] = "Admin"

\* contents or settings of a database change only with read-write, admin or sysadmin permission on that database
InvWriteNeedsRW(c) ==
  \A e \in c.out.effs : e.k \in {"content", "settings"} => Valid(c) /\ Rank(c.perm[e.db]) >= 2
\* data of a database is returned only with at least read permission on it
InvDataNeedsR(c) ==
  \A e \in c.out.effs : e.k = "data" => Valid(c) /\ Rank(c.perm[e.db]) >= 1
\* administrative operations (user management, database life cycle) need admin rights
InvAdminNeedsAdmin(c) ==
  \A e \in c.out.effs : e.k \in {"lifecycle", "users"} => Valid(c) /\ AdminFor(c, e.db)
\* unauthenticated, expired, deactivated, re-permissioned or logged-out sessions are refused
InvInvalidSessionRefused(c) ==
  ~Valid(c) => /\ ~(c.out.ok /\ c.out.authreq)
               /\ \A e \in c.out.effs : e.k = "auth" /\ c.out.creds
\* the system database cannot be written through the public API
InvSystemDbReadOnly(c) ==
  \A e \in c.out.effs : e.k \in {"content", "settings", "lifecycle"} => e.db # "system"
\* a session or token is granted only to an active user holding a permission on the requested database,
\* authenticated by credentials or by a valid session
InvAuthGrant(c) ==
  \A e \in c.out.effs : e.k = "auth" =>
     /\ c.active
     /\ e.db = "none" \/ Rank(c.perm[e.db]) >= 1
     /\ c.out.creds \/ Valid(c)

Clauses == <<"InvWriteNeedsRW", "InvDataNeedsR", "InvAdminNeedsAdmin", "InvInvalidSessionRefused",
             "InvSystemDbReadOnly", "InvAuthGrant">>
Holds(n, c) == CASE n = "InvWriteNeedsRW" -> InvWriteNeedsRW(c)
                 [] n = "InvDataNeedsR" -> InvDataNeedsR(c)
                 [] n = "InvAdminNeedsAdmin" -> InvAdminNeedsAdmin(c)
                 [] n = "InvInvalidSessionRefused" -> InvInvalidSessionRefused(c)
                 [] n = "InvSystemDbReadOnly" -> InvSystemDbReadOnly(c)
                 [] n = "InvAuthGrant" -> InvAuthGrant(c)
Broken(c) == {n \in {Clauses[k] : k \in 1..Len(Clauses)} : ~Holds(n, c)}
PolicyOK(c) == Broken(c) = {}

CallRec(i, out) ==
  LET c == [is |-> TRUE, s |-> i, sv |-> Slot(i), perm |-> PermMap, active |-> active, out |-> out, permitted |-> TRUE]
  IN IF Mode = "policy" THEN [c EXCEPT !.permitted = PolicyOK(c)] ELSE c

\* state invariants checked by TLC (every mode)
WriteNeedsRW == (last.is /\ last.permitted) => InvWriteNeedsRW(last)
DataNeedsR == (last.is /\ last.permitted) => InvDataNeedsR(last)
AdminNeedsAdmin == (last.is /\ last.permitted) => InvAdminNeedsAdmin(last)
InvalidSessionRefused == (last.is /\ last.permitted) => InvInvalidSessionRefused(last)
SystemDbReadOnly == (last.is /\ last.permitted) => InvSystemDbReadOnly(last)
AuthGrant == (last.is /\ last.permitted) => InvAuthGrant(last)
\* a valid slot always belongs to an active user holding a permission on the selected database
ValidSlotsAreEntitled ==
  \A i \in 1..NSess : sess[i].st = "valid" =>
     active /\ (sess[i].kind = "token" \/ Rank(PermOn(sess[i].sel)) >= 1)
TypeOK == /\ role0 \in Roles /\ cur \in Roles /\ curo \in Roles /\ active \in BOOLEAN /\ tx.st \in {"none", "open"}
          /\ \A i \in 1..NSess : sess[i].kind \in Kinds /\ sess[i].st \in SessStates /\ sess[i].sel \in Sels /\ sess[i].ep \in Nat
          /\ (IsSys <=> cur = "SysAdmin")

-----------------------------------------------------------------------------
(* single-effect outcomes: the rows of the matrix                           *)
Out(ok, authreq, creds, effs) == [ok |-> ok, authreq |-> authreq, creds |-> creds, effs |-> effs]
RowOutcomes ==
  {Out(TRUE, FALSE, FALSE, {e}) : e \in Effects} \cup
  {Out(TRUE, FALSE, TRUE, {e}) : e \in {x \in Effects : x.k = "auth"}} \cup
  {Out(TRUE, TRUE, FALSE, {}), Out(TRUE, FALSE, FALSE, {}), Out(FALSE, TRUE, FALSE, {})}

\* sanity of the policy itself (constant level, checked by every TLC run): it is monotone in the permission, and
\* nothing is permitted to a slot that is not valid that would be forbidden to a valid one
PermMaps == {[d \in Dbs |-> IF d = "own" THEN p ELSE "none"] : p \in Roles \ {"SysAdmin"}} \cup {[d \in Dbs |-> "SysAdmin"]}
Leq(m1, m2) == \A d \in Dbs : Rank(m1[d]) <= Rank(m2[d])
Rec(st, m, a, out) == [sv |-> [kind |-> "session", st |-> st, sel |-> "own", ep |-> 0], perm |-> m, active |-> a, out |-> out]
ASSUME \A out \in RowOutcomes, a \in BOOLEAN, m1 \in PermMaps, m2 \in PermMaps :
          /\ (Leq(m1, m2) /\ PolicyOK(Rec("valid", m1, a, out))) => PolicyOK(Rec("valid", m2, a, out))
          /\ \A st \in SessStates \ {"valid"} : PolicyOK(Rec(st, m1, a, out)) => PolicyOK(Rec("valid", m1, a, out))

-----------------------------------------------------------------------------
(* transcription of the Go gate (code mode)                                *)
\* is the slot accepted as authentication?
GoAccepted(i) ==
  /\ i > 0
  /\ IF sess[i].kind = "session" THEN sess[i].st = "valid"                          \* session manager: deleted on every cause
     ELSE sess[i].st \notin {"none", "expired"} /\ sess[i].ep = epoch /\ logins > 0  \* token: signature, keys, user in the login list
GoPermOn(i, d) == IF IsSys THEN "SysAdmin"
                  ELSE IF d # "own" THEN "none"
                  ELSE IF sess[i].kind = "token" THEN cached ELSE cur
\* RPC classes <<name, database argument>> ("sel" = the RPC acts on the selected database)
Classes == {<<n, "sel">> : n \in {"kvWrite", "docWrite", "txWrite", "read", "public"}} \cup
           {<<"userMgmt", d>> : d \in Dbs} \cup {<<"dbSettings", d>> : d \in Dbs} \cup {<<"createDb", "new">>}
GoGate(i, cls) ==
  LET sel == Slot(i).sel
      n == cls[1]
  IN CASE n = "public" -> TRUE
       \* getDBFromCtx: "systemdb is always read-only from external access" unless IsMaintenanceMethod(name)
       [] n = "kvWrite" -> GoAccepted(i) /\ sel \notin {"none", "system"} /\ Rank(GoPermOn(i, sel)) >= 2
       [] n = "docWrite" -> GoAccepted(i) /\ sel # "none" /\ (QDocMaint \/ sel # "system") /\ Rank(GoPermOn(i, sel)) >= 2
       \* NewTx / TxSQLExec / Commit: session lookup only; the SQL engine asks for read-write permission
       [] n = "txWrite" -> GoAccepted(i) /\ sess[i].kind = "session" /\ sel # "none" /\ (QTxBypass \/ sel # "system")
                           /\ Rank(GoPermOn(i, sel)) >= 2
       [] n = "read" -> GoAccepted(i) /\ sel # "none" /\ Rank(GoPermOn(i, sel)) >= 1
       [] n = "userMgmt" -> GoAccepted(i) /\ (IsSys \/ GoPermOn(i, cls[2]) = "Admin")
       [] n = "dbSettings" -> GoAccepted(i) /\ cls[2] # "system" /\ (IsSys \/ GoPermOn(i, cls[2]) = "Admin")
       [] n = "createDb" -> GoAccepted(i) /\ IsSys
GoEffects(i, cls) ==
  LET sel == Slot(i).sel
      n == cls[1]
  IN CASE n = "public" -> {}
       [] n \in {"kvWrite", "docWrite", "txWrite"} -> {[k |-> "content", db |-> sel]}
       [] n = "read" -> {[k |-> "data", db |-> sel]}
       [] n = "userMgmt" -> {[k |-> "users", db |-> cls[2]]}
       [] n = "dbSettings" -> {[k |-> "settings", db |-> cls[2]]}
       [] n = "createDb" -> {[k |-> "lifecycle", db |-> "new"]}
GoOutcome(i, cls) == IF GoGate(i, cls) THEN Out(TRUE, cls[1] # "public", FALSE, GoEffects(i, cls))
                     ELSE Out(FALSE, cls[1] # "public", FALSE, {})

-----------------------------------------------------------------------------
\* history entries carry the slot states after the step (what a replay compares the real server with)
Ev(op, i, kind, db, p) == [op |-> op, s |-> i, kind |-> kind, db |-> db, p |-> p, after |-> <<>>, cur |-> "-", active |-> TRUE]
Step(e) == /\ UNCHANGED <<curo, tx>>
           /\ hist' = IF Mode = "trace" THEN hist
                      ELSE Append(hist, [e EXCEPT !.after = [i \in 1..NSess |-> sess'[i].st], !.cur = cur', !.active = active'])
           /\ steps' = steps + 1
Invalidate(cause) == [i \in 1..NSess |-> IF sess[i].st = "valid" THEN [sess[i] EXCEPT !.st = cause] ELSE sess[i]]
\* Go: every user-management change calls removeUserFromLoginList once
Dec == IF QRefCount THEN (IF logins > 0 THEN logins - 1 ELSE 0) ELSE 0

FlowMode == Mode \in {"flow", "flowcode"}
Init == /\ role0 \in Roles /\ cur = role0 /\ active = TRUE
        /\ curo \in (IF role0 = "SysAdmin" THEN {"SysAdmin"} ELSE IF FlowMode THEN Roles \ {"SysAdmin"} ELSE {"none"})
        /\ tx = NoTx
        /\ sess = [i \in 1..NSess |-> NoSess]
        /\ nlog = 0 /\ logins = 0 /\ cached = role0 /\ epoch = 0 /\ last = NoCall /\ steps = 0 /\ hist = <<>>

Running == Mode = "trace" \/ (~last.is /\ steps < MaxSteps)

OpenSessionEffect(i, d) == [sess EXCEPT ![i] = [kind |-> "session", st |-> "valid", sel |-> d, ep |-> 0]]
\* a token is a signed (user, database) claim, the authorisation data lives in the server's login list:
\* tokens that were cut off by a permission change or a deactivation are honoured again once the user has
\* re-authenticated with credentials (the CURRENT permissions apply to them); expired and logged-out tokens stay dead
LoginEffect(i) == [j \in 1..NSess |->
                     IF j = i THEN [kind |-> "token", st |-> "valid", sel |-> "none", ep |-> epoch]
                     ELSE IF sess[j].kind = "token" /\ sess[j].st \in {"permissionChanged", "userDeactivated"}
                          THEN [sess[j] EXCEPT !.st = "valid"] ELSE sess[j]]
UseDatabaseEffect(i, d) == [sess EXCEPT ![i].sel = d]

\* OpenSession(user, password, db): session authentication; granted iff the policy allows the grant
OpenSession(i, d) ==
  /\ Running /\ sess[i].st = "none"
  /\ PolicyOK(CallRec(0, Out(TRUE, FALSE, TRUE, {[k |-> "auth", db |-> d]})))
  /\ sess' = OpenSessionEffect(i, d)
  /\ UNCHANGED <<role0, cur, active, nlog, logins, cached, epoch, last>>
  /\ Step(Ev("opensession", i, "session", d, "-"))

\* Login(user, password): token authentication, no database selected yet
Login(i) ==
  /\ Running /\ sess[i].st = "none"
  /\ PolicyOK(CallRec(0, Out(TRUE, FALSE, TRUE, {[k |-> "auth", db |-> "none"]})))
  /\ sess' = LoginEffect(i)
  /\ nlog' = nlog + 1 /\ logins' = logins + 1 /\ cached' = cur
  /\ UNCHANGED <<role0, cur, active, epoch, last>>
  /\ Step(Ev("login", i, "token", "none", "-"))

UseDatabase(i, d) ==
  /\ Running /\ sess[i].st = "valid" /\ sess[i].sel # d
  /\ PolicyOK(CallRec(i, Out(TRUE, TRUE, FALSE, {[k |-> "auth", db |-> d]})))
  /\ sess' = UseDatabaseEffect(i, d)
  /\ UNCHANGED <<role0, cur, active, nlog, logins, cached, epoch, last>>
  /\ Step(Ev("usedatabase", i, sess[i].kind, d, "-"))

\* an administrator grants / revokes the user's permission on "own"
SetPermission(p) ==
  /\ Running /\ ~IsSys /\ active /\ p \in Roles \ {"SysAdmin", cur}
  /\ cur' = p /\ sess' = Invalidate("permissionChanged") /\ logins' = Dec /\ nlog' = 0
  /\ UNCHANGED <<role0, active, cached, epoch, last>>
  /\ Step(Ev("setpermission", 0, "-", "own", p))

Deactivate ==
  /\ Running /\ ~IsSys /\ active
  /\ active' = FALSE /\ sess' = Invalidate("userDeactivated") /\ logins' = Dec /\ nlog' = 0
  /\ UNCHANGED <<role0, cur, cached, epoch, last>>
  /\ Step(Ev("deactivate", 0, "-", "-", "-"))

Activate ==
  /\ Running /\ ~active
  /\ active' = TRUE /\ sess' = Invalidate("userDeactivated") /\ logins' = Dec /\ nlog' = 0
  /\ UNCHANGED <<role0, cur, cached, epoch, last>>
  /\ Step(Ev("activate", 0, "-", "-", "-"))

\* the session guard removes an idle session.  (Token expiry has a granularity of minutes on the real server and
\* cannot be driven by the harness; it is not modelled.)
Expire(i) ==
  /\ Running /\ sess[i].st = "valid" /\ sess[i].kind = "session"
  /\ sess' = [sess EXCEPT ![i].st = "expired"]
  /\ UNCHANGED <<role0, cur, active, nlog, logins, cached, epoch, last>>
  /\ Step(Ev("expire", i, sess[i].kind, "-", "-"))

\* CloseSession ends that session.  Logout (token) ends one LOGIN of the user: the server counts the user's logins,
\* a token is not tied to one of them, so while another login of the user is alive the token stays honoured
\* (login-list semantics); when the last login ends the signing keys are dropped and every token of the user is
\* dead for good
LastLogin == nlog <= 1
Logout(i) ==
  /\ Running /\ sess[i].st = "valid"
  /\ sess' = IF sess[i].kind = "session" THEN [sess EXCEPT ![i].st = "loggedOut"]
             ELSE IF ~LastLogin THEN sess
             ELSE [j \in 1..NSess |-> IF sess[j].kind = "token" /\ sess[j].st \notin {"none", "expired"}
                                      THEN [sess[j] EXCEPT !.st = "loggedOut"] ELSE sess[j]]
  /\ nlog' = IF sess[i].kind = "token" /\ nlog > 0 THEN nlog - 1 ELSE nlog
  /\ logins' = IF sess[i].kind = "token" THEN (IF logins > 0 THEN logins - 1 ELSE 0) ELSE logins
  /\ epoch' = IF sess[i].kind = "token" /\ logins <= 1 THEN epoch + 1 ELSE epoch
  /\ UNCHANGED <<role0, cur, active, cached, last>>
  /\ Step(Ev("logout", i, sess[i].kind, "-", "-"))

\* policy mode: every single-effect outcome is tried; `permitted` records the policy's verdict and only
\* permitted calls are behaviours of the specification (the invariants below are conditional on it)
CallPolicy(i, out) ==
  /\ ~last.is
  /\ last' = CallRec(i, out)
  /\ UNCHANGED <<role0, cur, active, sess, nlog, logins, cached, epoch>>
  /\ Step(Ev("call", i, Slot(i).kind, "-", "-"))
CallCode(i, cls) ==
  /\ ~last.is /\ (i > 0 \/ cls[1] = "public")
  /\ last' = CallRec(i, GoOutcome(i, cls))
  /\ UNCHANGED <<role0, cur, active, sess, nlog, logins, cached, epoch>>
  /\ Step(Ev("call", i, Slot(i).kind, cls[2], cls[1]))
\* trace mode: outcome from the log
CallLogged(i, out) ==
  /\ last' = CallRec(i, out)
  /\ UNCHANGED <<role0, cur, curo, tx, active, sess, nlog, logins, cached, epoch, steps, hist>>

Manage == \/ \E i \in 1..NSess, d \in Dbs : OpenSession(i, d) \/ UseDatabase(i, d)
          \/ \E i \in 1..NSess : Login(i) \/ Expire(i) \/ Logout(i)
          \/ \E p \in Roles : SetPermission(p)
          \/ Deactivate \/ Activate
Next == \/ ~FlowMode /\ Manage
        \/ Mode = "policy" /\ ~EmitHist /\ \E i \in 0..NSess, out \in RowOutcomes : CallPolicy(i, out)
        \* simulation (EmitHist): a behaviour is MaxSteps management steps followed by one call that prints it
        \/ Mode = "policy" /\ EmitHist /\ steps >= MaxSteps /\ CallPolicy(0, Out(FALSE, TRUE, FALSE, {}))
        \/ Mode = "code" /\ \E i \in 0..NSess, cls \in Classes : CallCode(i, cls)
Spec == Init /\ [][Next]_vars

-----------------------------------------------------------------------------
(* FLOWS.  The user holds a permission on "own" (cur) AND on "other" (curo); slot 1 is a session.  A step is a      *)
(* REQUEST: open(db), use(db), newtx(rw|ro), txexec(w|r), commit, rollback, exec(kind) (a non-interactive SQL /     *)
(* document / key-value request on the selected database), or an administrator's setperm(db, p) / deact.            *)
(* An interactive transaction stays bound to the database that was selected when it was opened (tx.db); the        *)
(* selected database can change afterwards (use).  The policy is the same six clauses, about EFFECTS: the content of *)
(* a database changes only with RW/Admin/SysAdmin on THAT database at the time of the effect, its data is returned  *)
(* only with at least R on THAT database.                                                                           *)
(* Mode = "flow": requests succeed whenever the policy has nothing against it (policy-maximal: opening a            *)
(*   transaction or staging a statement has no effect yet); every step records the set of effects the policy        *)
(*   allows in the state in which the request is made - the oracle of the replay on the real server.               *)
(* Mode = "flowcode": the transcription of the Go code decides (NewTx: getDBFromCtx on the selected database;       *)
(*   TxSQLExec / TxSQLQuery: the SQL engine asks multidbHandler.GetLoggedUser, which looks at the CURRENTLY         *)
(*   selected database; Commit: no check) and the clauses judge the effect on the database the transaction is       *)
(*   bound to.                                                                                                      *)
FValid == sess[1].st = "valid"
FSel == sess[1].sel
FDbs == IF IsSys THEN Dbs ELSE {"own", "other"}
ExecKinds == {"sqlw", "sqlr", "docw", "docr", "kvw", "kvr"}
IsWrite(k) == k \in {"sqlw", "docw", "kvw", "w"}
FSlot == IF sess[1].st = "none" THEN 0 ELSE 1
FAllowed(creds) == {e \in Effects : PolicyOK(CallRec(FSlot, Out(TRUE, FALSE, creds /\ e.k = "auth", {e})))}
FAuthOk == PolicyOK(CallRec(FSlot, Out(TRUE, TRUE, FALSE, {})))

\* the decision: [ok, effs]
FD(ok, effs) == [ok |-> ok, effs |-> IF ok THEN effs ELSE {}]
NewTxGate(m) ==
  IF QTxBypass THEN TRUE                                                   \* the code before 971ba6e: no gate at all
  ELSE /\ FSel # "none"
       /\ IF m = "rw" THEN FSel # "system" /\ Rank(PermOn(FSel)) >= (IF QTxReadGate THEN 1 ELSE 2)
          ELSE Rank(PermOn(FSel)) >= 1
GoFlow(op, d, a) ==
  CASE op = "open" -> FD(active /\ Rank(PermOn(d)) >= 1, {[k |-> "auth", db |-> d]})
    [] op = "use" -> FD(FValid /\ Rank(PermOn(d)) >= 1, {[k |-> "auth", db |-> d]})
    [] op = "newtx" -> FD(FValid /\ NewTxGate(a), {})
    [] op = "txexec" -> IF a = "w" THEN FD(FValid /\ tx.st = "open" /\ tx.mode = "rw" /\ Rank(PermOn(FSel)) >= 2, {})
                        ELSE FD(FValid /\ tx.st = "open" /\ Rank(PermOn(FSel)) >= 1, {[k |-> "data", db |-> tx.db]})
    [] op = "commit" -> FD(FValid /\ tx.st = "open", IF tx.dirty THEN {[k |-> "content", db |-> tx.db]} ELSE {})
    [] op = "rollback" -> FD(FValid /\ tx.st = "open", {})
    [] op = "exec" -> IF IsWrite(a) THEN FD(FValid /\ FSel \notin {"none", "system"} /\ Rank(PermOn(FSel)) >= 2, {[k |-> "content", db |-> FSel]})
                      ELSE FD(FValid /\ FSel # "none" /\ Rank(PermOn(FSel)) >= 1, {[k |-> "data", db |-> FSel]})
PolFlow(op, d, a) ==
  CASE op = "open" -> FD(active /\ Rank(PermOn(d)) >= 1, {})
    [] op = "use" -> FD(FValid /\ Rank(PermOn(d)) >= 1, {})
    [] op = "newtx" -> FD(FValid /\ FSel # "none", {})
    [] op = "txexec" -> FD(FValid /\ tx.st = "open" /\ (a = "w" => tx.mode = "rw"), {})
    [] op \in {"commit", "rollback"} -> FD(FValid /\ tx.st = "open", {})
    [] op = "exec" -> FD(FValid, {})
Decide(op, d, a) == IF Mode = "flowcode" THEN GoFlow(op, d, a) ELSE PolFlow(op, d, a)

FEv(op, d, a, dec) ==
  [op |-> op, db |-> d, a |-> a, granted |-> dec.ok,
   allowed |-> IF Mode = "flow" THEN SetToSeq(FAllowed(op = "open")) ELSE <<>>, authok |-> (Mode = "flow" /\ FAuthOk),
   pcur |-> cur, pcuro |-> curo, txdb |-> tx.db, switched |-> (tx.st = "open" /\ tx.db # FSel)]
FStep(op, d, a, dec) ==
  /\ hist' = Append(hist, FEv(op, d, a, dec)) /\ steps' = steps + 1
  /\ last' = IF op \in {"setperm", "deact"} THEN NoCall              \* the administrator's step is not a request of the user
             ELSE CallRec(FSlot, Out(dec.ok, op # "open", op = "open", dec.effs))
  /\ UNCHANGED <<role0, nlog, logins, cached, epoch>>
FRunning == FlowMode /\ steps < MaxSteps
Phase(n) == ~FlowPhased \/ steps + 1 = n

FOpen(d) == /\ FRunning /\ Phase(1) /\ sess[1].st = "none"
            /\ LET dec == Decide("open", d, "-") IN
               /\ sess' = IF dec.ok THEN OpenSessionEffect(1, d) ELSE sess
               /\ UNCHANGED <<cur, curo, active, tx>> /\ FStep("open", d, "-", dec)
FUse(d) == /\ FRunning /\ (Phase(3) \/ Phase(4)) /\ sess[1].st # "none" /\ d # FSel
           /\ LET dec == Decide("use", d, "-") IN
              /\ sess' = IF dec.ok THEN UseDatabaseEffect(1, d) ELSE sess
              /\ UNCHANGED <<cur, curo, active, tx>> /\ FStep("use", d, "-", dec)
FNewTx(m) == /\ FRunning /\ Phase(2) /\ tx.st = "none"
             /\ LET dec == Decide("newtx", "-", m) IN
                /\ tx' = IF dec.ok THEN [st |-> "open", db |-> FSel, mode |-> m, dirty |-> FALSE] ELSE tx
                /\ UNCHANGED <<cur, curo, active, sess>> /\ FStep("newtx", "-", m, dec)
FTxExec(k) == /\ FRunning /\ (Phase(3) \/ Phase(4)) /\ (FlowPhased \/ tx.st = "open")
              /\ LET dec == Decide("txexec", "-", k) IN
                 /\ tx' = IF dec.ok /\ k = "w" THEN [tx EXCEPT !.dirty = TRUE] ELSE tx
                 /\ UNCHANGED <<cur, curo, active, sess>> /\ FStep("txexec", "-", k, dec)
FEnd(op) == /\ FRunning /\ Phase(5) /\ (FlowPhased \/ tx.st = "open")
            /\ LET dec == Decide(op, "-", "-") IN
               /\ tx' = IF dec.ok THEN NoTx ELSE tx
               /\ UNCHANGED <<cur, curo, active, sess>> /\ FStep(op, "-", "-", dec)
FExec(k) == /\ FRunning /\ Phase(6) /\ sess[1].st # "none"
            /\ LET dec == Decide("exec", "-", k) IN
               /\ UNCHANGED <<cur, curo, active, sess, tx>> /\ FStep("exec", "-", k, dec)
\* the administrator changes the user between the steps: the session is closed, the transaction rolled back
FSetPerm(d, p) == /\ FRunning /\ Phase(3) /\ ~IsSys /\ active /\ sess[1].st # "none" /\ p # PermOn(d)
                  /\ cur' = (IF d = "own" THEN p ELSE cur) /\ curo' = (IF d = "other" THEN p ELSE curo)
                  /\ sess' = Invalidate("permissionChanged") /\ tx' = NoTx /\ UNCHANGED active
                  /\ FStep("setperm", d, p, FD(TRUE, {}))
FDeact == /\ FRunning /\ Phase(3) /\ ~IsSys /\ active /\ sess[1].st # "none"
          /\ active' = FALSE /\ sess' = Invalidate("userDeactivated") /\ tx' = NoTx /\ UNCHANGED <<cur, curo>>
          /\ FStep("deact", "-", "-", FD(TRUE, {}))
FlowNext == \/ \E d \in FDbs : FOpen(d) \/ FUse(d)
            \/ \E m \in {"rw", "ro"} : FNewTx(m)
            \/ \E k \in {"w", "r"} : FTxExec(k)
            \/ FEnd("commit") \/ (~FlowPhased /\ FEnd("rollback"))
            \/ \E k \in (IF FlowPhased THEN {"sqlw", "sqlr", "docw", "kvw"} ELSE ExecKinds) : FExec(k)
            \/ \E d \in {"own", "other"}, p \in Roles \ {"SysAdmin"} : FSetPerm(d, p)
            \/ FDeact
FlowSpec == Init /\ [][FlowNext]_vars
\* a finished flow (flow mode), printed once
EmitFlow == (Mode = "flow" /\ steps = MaxSteps) => PrintT(<<"JSON:", ToJson([role |-> role0, hist |-> hist])>>)
FlowView == <<role0, cur, curo, active, sess[1], tx, last>>

-----------------------------------------------------------------------------
(* matrix: policy mode prints one row per distinct call state (the VIEW projects call states to the row),      *)
(* i.e. every reachable (slot state, user state) x every single-effect outcome with the policy's verdict      *)
LastRow == LET out == last.out
               e == IF out.effs = {} THEN [k |-> IF ~out.ok THEN "refused" ELSE IF out.authreq THEN "authok" ELSE "publicok", db |-> "none"]
                    ELSE CHOOSE x \in out.effs : TRUE
           IN [kind |-> last.sv.kind, sess |-> last.sv.st, sel |-> last.sv.sel, role |-> role0, cur |-> cur, active |-> active,
               eff |-> e.k, db |-> e.db, creds |-> out.creds, permitted |-> last.permitted]
EmitRow == (Mode = "policy" /\ ~EmitHist /\ last.is) => PrintT(<<"JSON:", ToJson(LastRow)>>)
EmitHistory == (EmitHist /\ last.is) => PrintT(<<"JSON:", ToJson([role |-> role0, hist |-> hist, slots |-> sess,
                                                                   cur |-> cur, active |-> active])>>)
\* the call state is projected to what the matrix keys on (keeps the state graph small)
View == IF last.is THEN (IF Mode = "policy" THEN <<"call", LastRow>> ELSE <<"call", last>>)
        ELSE IF Mode = "policy" THEN <<"run", role0, cur, active, nlog, [i \in 1..NSess |-> <<sess[i].kind, sess[i].st, sess[i].sel>>]>>
        ELSE <<"run", role0, cur, active, sess, nlog, logins, cached, epoch>>
=============================================================================
