CONSTANTS
  Nodes = {"n1", "n2", "n3"}
SPECIFICATION TraceSpec
INVARIANTS ReportBad
POSTCONDITION TraceAccepted
CHECK_DEADLOCK FALSE
