------------------------------ MODULE TraceAuth ------------------------------
(***************************************************************************)
(* Trace validation for C18: every request the harness made on the real    *)
(* server (harness/cmd/c18) is one line of trace.ndjson.  The user state   *)
(* and the slot states are reconstructed with the actions of Auth.tla from *)
(* the logged management events (Reset, OpenSession, Login, UseDatabase,   *)
(* SetPermission, Deactivate, Activate, Expire, Logout); every Call event  *)
(* carries the OBSERVED outcome (status ok?, authentication required?,     *)
(* credentials in the request?, elementary effects) and is judged by the   *)
(* policy clauses of Auth.tla in the reconstructed state.  Grants of       *)
(* sessions / tokens are judged the same way (clause InvAuthGrant).        *)
(* Events the policy forbids do not stop the validation: their line number *)
(* and the broken clauses are collected in `bad` and printed at the end    *)
(* (the check turns them into violations / known findings).  A trace that  *)
(* cannot be explained (a management event whose guard is false, a logged  *)
(* slot state that differs from the reconstructed one) is never consumed   *)
(* to the end: machinery fault.                                            *)
(***************************************************************************)
EXTENDS Auth

Trace == ndJsonDeserialize("trace.ndjson")
VARIABLES l,     \* next trace line
          bad    \* <<[l, clauses]>> : judged events that break the policy
tvars == <<vars, l, bad>>

E == Trace[l]
Is(e) == l <= Len(Trace) /\ E.event = e
Consume == l' = l + 1
SeqToSet(q) == {q[k] : k \in 1..Len(q)}
Judge(c) == bad' = IF PolicyOK(c) THEN bad ELSE Append(bad, [l |-> l, clauses |-> SetToSeq(Broken(c))])
GrantRec(i, creds, d) == CallRec(i, Out(TRUE, ~creds, creds, {[k |-> "auth", db |-> d]}))

TraceInit == /\ Init /\ role0 = "none" /\ l = 1 /\ bad = <<>>

TReset == /\ Is("Reset") /\ Consume /\ UNCHANGED bad
          /\ role0' = E.role /\ cur' = E.role /\ curo' = E.other /\ tx' = NoTx /\ active' = TRUE
          /\ sess' = [i \in 1..NSess |-> NoSess]
          /\ nlog' = 0 /\ logins' = 0 /\ cached' = E.role /\ epoch' = 0 /\ last' = NoCall /\ steps' = 0 /\ hist' = <<>>

\* grants: the real server's decision is taken from the log and judged
TOpenSession == /\ Is("OpenSession") /\ Consume
                /\ IF E.granted
                   THEN /\ sess[E.s].st = "none"
                        /\ Judge(GrantRec(0, TRUE, E.db))
                        /\ sess' = OpenSessionEffect(E.s, E.db)
                   ELSE UNCHANGED <<sess, bad>>
                /\ UNCHANGED <<role0, cur, curo, tx, active, nlog, logins, cached, epoch, last, steps, hist>>
TLogin == /\ Is("Login") /\ Consume
          /\ IF E.granted
             THEN /\ sess[E.s].st = "none"
                  /\ Judge(GrantRec(0, TRUE, "none"))
                  /\ sess' = LoginEffect(E.s) /\ nlog' = nlog + 1 /\ logins' = logins + 1 /\ cached' = cur
             ELSE UNCHANGED <<sess, bad, nlog, logins, cached>>
          /\ UNCHANGED <<role0, cur, curo, tx, active, epoch, last, steps, hist>>
TUseDatabase == /\ Is("UseDatabase") /\ Consume
                /\ IF E.granted
                   THEN /\ Judge(GrantRec(E.s, FALSE, E.db))
                        /\ sess' = UseDatabaseEffect(E.s, E.db)
                   ELSE UNCHANGED <<sess, bad>>
                /\ UNCHANGED <<role0, cur, curo, tx, active, nlog, logins, cached, epoch, last, steps, hist>>

\* environment steps: the actions of Auth.tla
TSetPermission == Is("SetPermission") /\ Consume /\ E.db = "own" /\ SetPermission(E.p) /\ UNCHANGED bad
\* the permission on the second database of a multi-database user (flows)
TSetPermissionOther == /\ Is("SetPermission") /\ Consume /\ E.db = "other" /\ UNCHANGED bad
                       /\ ~IsSys /\ active /\ E.p # curo
                       /\ curo' = E.p /\ sess' = Invalidate("permissionChanged") /\ logins' = Dec /\ nlog' = 0
                       /\ UNCHANGED <<role0, cur, tx, active, cached, epoch, last, steps, hist>>
TDeactivate == Is("Deactivate") /\ Consume /\ Deactivate /\ UNCHANGED bad
TActivate == Is("Activate") /\ Consume /\ Activate /\ UNCHANGED bad
TExpire == Is("Expire") /\ Consume /\ Expire(E.s) /\ UNCHANGED bad
TLogout == Is("Logout") /\ Consume /\ Logout(E.s) /\ UNCHANGED bad

\* a request: logged outcome, judged in the reconstructed state.  The logged slot state, selection and
\* permissions must be the reconstructed ones (otherwise the trace is not a behaviour of this harness run)
TCall == /\ Is("Call") /\ Consume
         /\ Slot(E.s).st = E.sess /\ Slot(E.s).sel = E.sel /\ role0 = E.role /\ cur = E.cur /\ curo = E.curo /\ active = E.active
         /\ LET out == Out(E.ok, E.authreq, E.creds, SeqToSet(E.effs))
            IN /\ \A e \in out.effs : e \in Effects
               /\ Judge(CallRec(E.s, out))
               /\ CallLogged(E.s, out)

TraceNext == TReset \/ TOpenSession \/ TLogin \/ TUseDatabase \/ TSetPermission \/ TSetPermissionOther \/ TDeactivate \/ TActivate
             \/ TExpire \/ TLogout \/ TCall
TraceSpec == TraceInit /\ [][TraceNext]_tvars

\* printed once, in the state that has consumed the whole trace
Done == (l = Len(Trace) + 1) => PrintT(<<"JSON:", ToJson([consumed |-> l - 1, bad |-> bad])>>)
=============================================================================
