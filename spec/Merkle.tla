------------------------------- MODULE Merkle -------------------------------
(***************************************************************************)
(* Symbolic Merkle trees.                                                  *)
(*                                                                         *)
(* Hashes are terms of a free algebra (Leaf / Node), i.e. collision        *)
(* resistance and leaf/node domain separation are assumed.                 *)
(*                                                                         *)
(*  - reference: MTH, audit path, consistency path (RFC 6962 2.1) and the  *)
(*    RFC 9162 2.1.3.2 / 2.1.4.2 verification algorithms                   *)
(*  - transcriptions of embedded/ahtree (digest-log layout, Append,        *)
(*    rootAt, inclusionProof, consistencyProof, Eval.., Verify..) and of    *)
(*    embedded/htree (BuildWith, InclusionProof, VerifyInclusion)          *)
(*                                                                         *)
(* Positions are 1-based as in ahtree (leaf i of a tree of size j).        *)
(***************************************************************************)
EXTENDS Integers, Sequences, FiniteSets, TLC

Leaf(a)    == <<"L", a>>
Node(x, y) == <<"N", x, y>>
Junk(k)    == <<"J", k>>
EmptyRoot  == <<"E">>          \* sha256(nil): root of the empty entry tree

RECURSIVE Pow2(_)
Pow2(k) == IF k = 0 THEN 1 ELSE 2 * Pow2(k - 1)

Bit(x, h)      == (x \div Pow2(h)) % 2 = 1
ClearBit(x, h) == IF Bit(x, h) THEN x - Pow2(h) ELSE x
RECURSIVE BitLen(_)                 \* bits.Len64
BitLen(x) == IF x = 0 THEN 0 ELSE 1 + BitLen(x \div 2)

\* largest power of two strictly smaller than n (n >= 2)
RECURSIVE SplitK(_, _)
SplitK(n, k) == IF 2 * k >= n THEN k ELSE SplitK(n, 2 * k)
Split(n) == SplitK(n, 1)

-----------------------------------------------------------------------------
(* Reference definitions over a leaf function D (D[k] = payload atom of leaf k) *)

RECURSIVE MTH(_, _, _)
MTH(D, lo, hi) ==
  IF lo = hi THEN Leaf(D[lo])
  ELSE LET k == Split(hi - lo + 1) IN Node(MTH(D, lo, lo + k - 1), MTH(D, lo + k, hi))

\* audit path of leaf m in D[lo..hi], deepest sibling first
RECURSIVE Path(_, _, _, _)
Path(D, m, lo, hi) ==
  IF lo = hi THEN <<>>
  ELSE LET k == Split(hi - lo + 1) IN
       IF m < lo + k THEN Append(Path(D, m, lo, lo + k - 1), MTH(D, lo + k, hi))
                     ELSE Append(Path(D, m, lo + k, hi), MTH(D, lo, lo + k - 1))

\* consistency proof between sizes m (<= n) of D[1..n], in the immudb convention:
\* RFC 6962 SUBPROOF where the sub-tree that the RFC omits (b = TRUE) is always listed.
RECURSIVE SubProof(_, _, _, _)
SubProof(D, m, lo, hi) ==      \* m absolute: old tree is D[1..m], we are inside D[lo..hi], lo <= m <= hi
  IF m = hi THEN <<MTH(D, lo, hi)>>
  ELSE LET k == Split(hi - lo + 1) IN
       IF m <= lo + k - 1 THEN Append(SubProof(D, m, lo, lo + k - 1), MTH(D, lo + k, hi))
                          ELSE Append(SubProof(D, m, lo + k, hi), MTH(D, lo, lo + k - 1))
RefConsistency(D, i, j) ==
  IF i = j THEN (IF j = 1 THEN <<>> ELSE LET k == Split(j) IN <<MTH(D, k + 1, j), MTH(D, 1, k)>>)
  ELSE SubProof(D, i, 1, j)

-----------------------------------------------------------------------------
(* RFC 9162 verification algorithms (reference verifiers), on 1-based i, j *)

RECURSIVE PopCount(_)
PopCount(x) == IF x = 0 THEN 0 ELSE (x % 2) + PopCount(x \div 2)

RECURSIVE ShiftWhileEven(_, _)
ShiftWhileEven(fn, sn) == IF fn % 2 = 1 \/ fn = 0 THEN <<fn, sn>> ELSE ShiftWhileEven(fn \div 2, sn \div 2)

RECURSIVE RfcInclLoop(_, _, _, _, _)
RfcInclLoop(p, k, fn, sn, r) ==      \* returns <<ok, root>>
  IF k > Len(p) THEN <<sn = 0, r>>
  ELSE IF sn = 0 THEN <<FALSE, r>>
  ELSE IF fn % 2 = 1 \/ fn = sn
       THEN LET u == IF fn % 2 = 0 THEN ShiftWhileEven(fn, sn) ELSE <<fn, sn>>
            IN RfcInclLoop(p, k + 1, u[1] \div 2, u[2] \div 2, Node(p[k], r))
       ELSE RfcInclLoop(p, k + 1, fn \div 2, sn \div 2, Node(r, p[k]))

RfcVerifyInclusion(p, i, j, leaf, root) ==
  /\ i >= 1 /\ i <= j
  /\ LET res == RfcInclLoop(p, 1, i - 1, j - 1, leaf) IN res[1] /\ res[2] = root

RECURSIVE StripOnes(_, _)
StripOnes(fn, sn) == IF fn % 2 = 1 THEN StripOnes(fn \div 2, sn \div 2) ELSE <<fn, sn>>

RECURSIVE RfcConsLoop(_, _, _, _, _, _)
RfcConsLoop(p, k, fn, sn, fr, sr) ==   \* <<ok, fr, sr>>
  IF k > Len(p) THEN <<sn = 0, fr, sr>>
  ELSE IF sn = 0 THEN <<FALSE, fr, sr>>
  ELSE IF fn % 2 = 1 \/ fn = sn
       THEN LET u == IF fn % 2 = 0 THEN ShiftWhileEven(fn, sn) ELSE <<fn, sn>>
            IN RfcConsLoop(p, k + 1, u[1] \div 2, u[2] \div 2, Node(p[k], fr), Node(p[k], sr))
       ELSE RfcConsLoop(p, k + 1, fn \div 2, sn \div 2, fr, Node(sr, p[k]))

\* proof in the immudb convention (first term always present when i < j)
RfcVerifyConsistency(p, i, j, iRoot, jRoot) ==
  /\ i >= 1 /\ i <= j
  /\ IF i = j
     THEN \* equal sizes: the RFC wants an empty proof; immudb's generator also emits the
          \* decomposition <<right, left>> of the root, which proves nothing more and is allowed
          /\ iRoot = jRoot
          /\ (p = <<>> \/ (Len(p) = 2 /\ Node(p[2], p[1]) = jRoot))
     ELSE /\ Len(p) >= 1
          /\ LET s == StripOnes(i - 1, j - 1)
                 res == RfcConsLoop(p, 2, s[1], s[2], p[1], p[1])
             IN res[1] /\ res[2] = iRoot /\ res[3] = jRoot

-----------------------------------------------------------------------------
(* Transcription of embedded/ahtree: digest log layout                      *)

RECURSIVE NodesUptoLoop(_, _, _)
NodesUptoLoop(n, l, o) ==
  IF n < Pow2(l) THEN o
  ELSE LET o1 == o + (n \div Pow2(l + 1)) * Pow2(l)
           o2 == IF (n \div Pow2(l)) % 2 = 1 THEN o1 + (n % Pow2(l)) ELSE o1
       IN NodesUptoLoop(n, l + 1, o2)
NodesUpto(n)  == NodesUptoLoop(n, 0, n)
NodesUntil(n) == IF n = 1 THEN 0 ELSE NodesUpto(n - 1)

RECURSIVE LevelsAtLoop(_, _)
LevelsAtLoop(w, l) == IF w = 0 THEN l ELSE LevelsAtLoop(w \div 2, IF w % 2 = 1 THEN l + 1 ELSE l)
LevelsAt(n) == LevelsAtLoop(n - 1, 0)

\* dl is the digest log as a sequence (dl[p+1] = digest at position p)
GoNode(dl, n, l) == dl[NodesUntil(n) + l + 1]

\* digests appended to the log by Append of leaf number n with payload atom d
RECURSIVE AppendLoop(_, _, _, _, _, _)
AppendLoop(dl, w, l, k, h, out) ==
  IF w = 0 THEN out
  ELSE IF w % 2 = 1
       THEN LET h2 == Node(GoNode(dl, k, l), h)
            IN AppendLoop(dl, w \div 2, l + 1, ClearBit(k, l), h2, Append(out, h2))
       ELSE AppendLoop(dl, w \div 2, l + 1, ClearBit(k, l), h, out)
GoAppendDigests(dl, n, d) == AppendLoop(dl, n - 1, 0, n - 1, Leaf(d), <<Leaf(d)>>)

RECURSIVE GoDLog(_, _)            \* digest log after appending D[1..n]
GoDLog(D, n) == IF n = 0 THEN <<>> ELSE LET dl == GoDLog(D, n - 1) IN dl \o GoAppendDigests(dl, n, D[n])

GoRootAt(dl, n) == dl[NodesUntil(n) + LevelsAt(n) + 1]

\* highestNode: r counts down from d-1 to 0; r1 = r + 1 keeps the loop in the naturals
RECURSIVE HighestLoopN(_, _, _)
HighestLoopN(i, r1, l) == IF r1 = 0 THEN l ELSE HighestLoopN(i, r1 - 1, IF Bit(i - 1, r1 - 1) THEN l + 1 ELSE l)
GoHighestNode(dl, i, d) == GoNode(dl, i, HighestLoopN(i, d, 0))

\* inclusionProof(i, j, height): loop variable h = h1 - 1 running from height-1 down to 0
RECURSIVE GoInclLoop(_, _, _, _, _)
GoInclLoop(dl, i, j, h1, proof) ==
  IF h1 = 0 THEN proof
  ELSE LET h == h1 - 1 IN
       IF Bit(j - 1, h)
       THEN LET k == ((j - 1) \div Pow2(h)) * Pow2(h) IN
            IF i <= k
            THEN GoInclLoop(dl, i, k, h, <<>>) \o (<<GoHighestNode(dl, j, h)>> \o proof)
            ELSE GoInclLoop(dl, i, j, h, <<GoNode(dl, k, h)>> \o proof)
       ELSE GoInclLoop(dl, i, j, h, proof)
GoInclusionProof(dl, i, j) == GoInclLoop(dl, i, j, BitLen(j - 1), <<>>)

RECURSIVE GoConsLoop(_, _, _, _, _)
GoConsLoop(dl, i, j, h1, proof) ==
  IF h1 = 0 THEN proof
  ELSE LET h == h1 - 1 IN
       IF Bit(j - 1, h)
       THEN LET k == ((j - 1) \div Pow2(h)) * Pow2(h) IN
            IF i <= k
            THEN LET p1 == <<GoHighestNode(dl, j, h)>> \o proof
                     p2 == IF i < k THEN GoConsLoop(dl, i, k, h, <<>>) \o p1 ELSE p1
                     p3 == IF i = k THEN <<GoHighestNode(dl, i, h)>> \o p2 ELSE p2
                 IN p3
            ELSE LET p1 == <<GoNode(dl, k, h)>> \o proof IN
                 IF i = j THEN <<GoHighestNode(dl, i, h)>> \o p1
                 ELSE GoConsLoop(dl, i, j, h, p1)
       ELSE GoConsLoop(dl, i, j, h, proof)
GoConsistencyProof(dl, i, j) == GoConsLoop(dl, i, j, BitLen(j - 1), <<>>)

-----------------------------------------------------------------------------
(* Transcription of embedded/ahtree/verification.go                        *)

RECURSIVE GoEvalInclLoop(_, _, _, _, _)
GoEvalInclLoop(p, k, i1, j1, r) ==
  IF k > Len(p) THEN r
  ELSE GoEvalInclLoop(p, k + 1, i1 \div 2, j1 \div 2,
                      IF i1 % 2 = 0 /\ i1 # j1 THEN Node(r, p[k]) ELSE Node(p[k], r))
GoEvalInclusion(p, i, j, leaf) == GoEvalInclLoop(p, 1, i - 1, j - 1, leaf)

\* StrictShape = TRUE models a verifier that additionally demands the audit-path shape
\* (proof length and sides as in RFC 9162); FALSE is the code as pinned.
GoVerifyInclusionLoose(p, i, j, leaf, root) ==
  /\ ~(i > j \/ i = 0 \/ (i < j /\ Len(p) = 0))
  /\ root = GoEvalInclusion(p, i, j, leaf)

\* ---- verifiers with the audit-shape check (the repaired code): length of the proof must be the
\* length of the audit path for the claimed position and size
RECURSIVE InnerLen(_, _)          \* bits.Len64(a ^ b)
InnerLen(a, b) == IF a = b THEN 0 ELSE 1 + InnerLen(a \div 2, b \div 2)
InclusionProofLen(i, j) == LET inner == InnerLen(i - 1, j - 1) IN inner + PopCount((i - 1) \div Pow2(inner))
GoVerifyInclusionStrict(p, i, j, leaf, root) ==
  /\ ~(i > j \/ i = 0 \/ (i < j /\ Len(p) = 0))
  /\ Len(p) = InclusionProofLen(i, j)
  /\ root = GoEvalInclusion(p, i, j, leaf)

RECURSIVE ConsLenLoop(_, _, _)
ConsLenLoop(fn, sn, n) ==
  IF sn = 0 THEN n
  ELSE LET u == IF fn % 2 = 1 \/ fn = sn THEN ShiftWhileEven(fn, sn) ELSE <<fn, sn>>
       IN ConsLenLoop(u[1] \div 2, u[2] \div 2, n + 1)
ConsistencyProofLen(i, j) == LET s == StripOnes(i - 1, j - 1) IN ConsLenLoop(s[1], s[2], 1)

RECURSIVE GoEvalConsLoop(_, _, _, _, _, _)
GoEvalConsLoop(p, k, fn, sn, ci, cj) ==
  IF k > Len(p) THEN <<ci, cj>>
  ELSE IF fn % 2 = 1 \/ fn = sn
       THEN LET u == ShiftWhileEven(fn, sn)   \* for fn%2==0 && fn != 0 (no-op when fn odd)
            IN GoEvalConsLoop(p, k + 1, u[1] \div 2, u[2] \div 2, Node(p[k], ci), Node(p[k], cj))
       ELSE GoEvalConsLoop(p, k + 1, fn \div 2, sn \div 2, ci, Node(cj, p[k]))
GoEvalConsistency(p, i, j) ==
  LET s == StripOnes(i - 1, j - 1) IN GoEvalConsLoop(p, 2, s[1], s[2], p[1], p[1])

GoVerifyConsistencyLoose(p, i, j, iRoot, jRoot) ==
  IF i > j \/ i = 0 \/ (i < j /\ Len(p) = 0) THEN FALSE
  ELSE IF i = j /\ Len(p) = 0 THEN iRoot = jRoot
  ELSE LET r == GoEvalConsistency(p, i, j) IN iRoot = r[1] /\ jRoot = r[2]

GoVerifyConsistencyStrict(p, i, j, iRoot, jRoot) ==
  IF i > j \/ i = 0 \/ (i < j /\ Len(p) = 0) THEN FALSE
  ELSE IF i = j /\ Len(p) = 0 THEN iRoot = jRoot
  ELSE IF i < j /\ Len(p) # ConsistencyProofLen(i, j) THEN FALSE
  ELSE LET r == GoEvalConsistency(p, i, j) IN iRoot = r[1] /\ jRoot = r[2]

RECURSIVE GoEvalLastLoop(_, _, _)
GoEvalLastLoop(p, k, r) == IF k > Len(p) THEN r ELSE GoEvalLastLoop(p, k + 1, Node(p[k], r))
GoVerifyLastInclusionLoose(p, i, leaf, root) == i # 0 /\ root = GoEvalLastLoop(p, 1, leaf)

GoVerifyLastInclusionStrict(p, i, leaf, root) ==
  i # 0 /\ Len(p) = PopCount(i - 1) /\ root = GoEvalLastLoop(p, 1, leaf)

\* last-inclusion proof = audit path of leaf i in tree of size i; all siblings are on the left
RefLastInclusion(D, i) == Path(D, i, 1, i)

-----------------------------------------------------------------------------
(* Transcription of embedded/htree (0-based leaf index, width)             *)

\* BuildWith: level-by-level pairing with promotion of the odd last node
RECURSIVE HtLevelUp(_)
HtLevelUp(lv) ==
  IF Len(lv) <= 1 THEN lv
  ELSE LET w == Len(lv)
           pairs == [q \in 1..(w \div 2) |-> Node(lv[2 * q - 1], lv[2 * q])]
       IN IF w % 2 = 1 THEN Append(pairs, lv[w]) ELSE pairs
RECURSIVE HtLevels(_)             \* sequence of levels, level 1 = leaves
HtLevels(lv) == IF Len(lv) <= 1 THEN <<lv>> ELSE <<lv>> \o HtLevels(HtLevelUp(lv))
HtRoot(D, w) == IF w = 0 THEN EmptyRoot
                ELSE LET ls == HtLevels([q \in 1..w |-> Leaf(D[q])]) IN ls[Len(ls)][1]

\* InclusionProof(i): loop transcribed; terms are prepended
RECURSIVE HtProofLoop(_, _, _, _, _)
HtProofLoop(levels, m, n, offset, terms) ==
  LET d == BitLen(n - 1)
      k == Pow2(d - 1)
      left == m < k
      l == IF left THEN offset + k ELSE offset
      r == IF left THEN offset + n - 1 ELSE offset + k - 1
      n2 == IF left THEN k ELSE n - k
      m2 == IF left THEN m ELSE m - k
      off2 == IF left THEN offset ELSE offset + k
      layer == BitLen(r - l)
      index == l \div Pow2(layer)
      t2 == <<levels[layer + 1][index + 1]>> \o terms
  IN IF n2 < 1 \/ (n2 = 1 /\ m2 = 0) THEN t2 ELSE HtProofLoop(levels, m2, n2, off2, t2)
HtInclusionProof(D, w, i) ==
  IF w = 1 THEN <<>> ELSE HtProofLoop(HtLevels([q \in 1..w |-> Leaf(D[q])]), i, w, 0, <<>>)

GoDiv2(r) == IF r < 0 THEN 0 - ((0 - r) \div 2) ELSE r \div 2     \* Go integer division truncates toward zero
RECURSIVE HtVerifyLoop(_, _, _, _, _)
HtVerifyLoop(p, k, i, r, c) ==
  IF k > Len(p) THEN <<i = r, c>>
  ELSE HtVerifyLoop(p, k + 1, GoDiv2(i), GoDiv2(r), IF i % 2 = 0 /\ i # r THEN Node(c, p[k]) ELSE Node(p[k], c))
\* leafIdx 0-based; width = 0 makes r = -1 in Go
HtVerifyInclusionLoose(p, leafIdx, width, leaf, root) ==
  LET res == HtVerifyLoop(p, 1, leafIdx, width - 1, leaf) IN res[1] /\ res[2] = root
HtVerifyInclusionStrict(p, leafIdx, width, leaf, root) ==
  /\ leafIdx >= 0 /\ leafIdx < width
  /\ Len(p) = InclusionProofLen(leafIdx + 1, width)
  /\ HtVerifyInclusionLoose(p, leafIdx, width, leaf, root)

-----------------------------------------------------------------------------
(* which variant is the code under test: FALSE = as pinned (loose), TRUE = repaired *)
CONSTANT FixedVerifiers
GoVerifyInclusion(p, i, j, leaf, root) ==
  IF FixedVerifiers THEN GoVerifyInclusionStrict(p, i, j, leaf, root) ELSE GoVerifyInclusionLoose(p, i, j, leaf, root)
GoVerifyConsistency(p, i, j, ir, jr) ==
  IF FixedVerifiers THEN GoVerifyConsistencyStrict(p, i, j, ir, jr) ELSE GoVerifyConsistencyLoose(p, i, j, ir, jr)
GoVerifyLastInclusion(p, i, leaf, root) ==
  IF FixedVerifiers THEN GoVerifyLastInclusionStrict(p, i, leaf, root) ELSE GoVerifyLastInclusionLoose(p, i, leaf, root)
HtVerifyInclusion(p, x, w, leaf, root) ==
  IF FixedVerifiers THEN HtVerifyInclusionStrict(p, x, w, leaf, root) ELSE HtVerifyInclusionLoose(p, x, w, leaf, root)
=============================================================================
