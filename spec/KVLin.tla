------------------------------- MODULE KVLin -------------------------------
(***************************************************************************)
(* C06 - the key-value API of pkg/database is linearizable and conditional *)
(* writes are atomic.                                                      *)
(*                                                                         *)
(* This module is the specification of atomicity itself.  The abstract     *)
(* state is the committed key-value map with all versions of every key     *)
(* (tx id, kind = value / reference / tombstone; the revision of a version *)
(* is its position), the sorted-set entries and the `committed` tx         *)
(* counter.  Every API call is three steps:                                *)
(*     Call(c, op)      the client invokes op                              *)
(*     Lin(c)           ONE internal step that evaluates / applies op      *)
(*                      atomically on the abstract state                   *)
(*     Return(c, res)   the client receives res, which must be the result  *)
(*                      computed by Lin                                    *)
(* A history of Call / Return events of the real database is linearizable  *)
(* iff Lin steps can be inserted so that it becomes a behaviour of this    *)
(* module (spec/TraceKVLin.tla lets TLC search for them).                  *)
(*                                                                         *)
(* What the sequential operations compute is the behaviour of              *)
(* pkg/database (database.go, all_ops.go, scan.go, reference.go,           *)
(* sorted_set.go) when one client runs alone; it contains no decision of   *)
(* the concurrent code.  A write with preconditions is applied iff ALL of  *)
(* them hold in the state immediately before it (embedded/store/           *)
(* preconditions.go); multi-key Set and ExecAll are one transaction.       *)
(*                                                                         *)
(* Reads with explicit SinceTx > 0 or NoWait are specified as the caller   *)
(* asked for them: the state of some committed tx n, SinceTx <= n <=       *)
(* committed at the linearization point, not as atomic reads.              *)
(***************************************************************************)
EXTENDS Integers, Sequences, FiniteSets, SequencesExt, TLC

CONSTANTS Clients,    \* set of client ids
          KeySeq,     \* all keys, in the byte order of the index
          KeyGroup    \* key -> its one-character prefix (Scan / Count by prefix)

Keys == {KeySeq[i] : i \in 1..Len(KeySeq)}

VARIABLES kv,         \* key -> sequence of versions [tx, kind, v, rk, at]; revision = position
          zs,         \* set of sorted-set entries [set, sc, k, at, tx] (tx = transaction that added the entry first)
          committed,  \* id of the last committed transaction
          pend,       \* client -> [st, op, res]
          orph        \* writes whose client stopped waiting (lost reply): may still take effect at any later time

vars == <<kv, zs, committed, pend, orph>>

----------------------------------------------------------------------------
(* records *)
Ver(tx, kind, v, rk, at) == [tx |-> tx, kind |-> kind, v |-> v, rk |-> rk, at |-> at]
NoVer == Ver(0, "d", "", "", 0)

Ent(k, v, tx, rev) == [k |-> k, v |-> v, tx |-> tx, rev |-> rev, rk |-> "", rtx |-> 0, rrev |-> 0, rat |-> 0,
                       sc |-> 0, zat |-> 0, d |-> FALSE]
NoEnt == Ent("", "", 0, 0)

Res(e, tx, ents, n) == [e |-> e, tx |-> tx, ents |-> ents, n |-> n]
ErrRes(e) == Res(e, 0, <<>>, 0)
NoRes == ErrRes("none")
NoOp == [t |-> "none"]
Idle == [st |-> "idle", op |-> NoOp, res |-> NoRes]

Min2(a, b) == IF a < b THEN a ELSE b
MinOf(S) == CHOOSE x \in S : \A y \in S : x <= y
KIdx(k) == CHOOSE i \in 1..Len(KeySeq) : KeySeq[i] = k
Matches(k, p) == p = "" \/ KeyGroup[k] = p

IsWrite(op) == op.t \in {"Set", "Del", "Ref", "ZAdd", "Exec"}

----------------------------------------------------------------------------
(* reading: the view "as of committed tx n" *)
VersAt(k, n) == IF n >= committed THEN kv[k] ELSE SelectSeq(kv[k], LAMBDA x : x.tx <= n)

\* one index / tx-log lookup (getAtTx of database.go without resolution):
\*   at = 0: latest version of k in the view n, tombstones are not found; revision = number of versions
\*   at > 0: the entry of k in transaction `at` (tx log; only committed transactions are readable); revision = rev0
Found(e, x, rev) == [e |-> e, x |-> x, rev |-> rev]
Lookup(k, at, n, rev0) ==
  IF at = 0
  THEN LET vs == VersAt(k, n) IN
       IF vs = <<>> THEN Found("KeyNotFound", NoVer, 0)
       ELSE IF Last(vs).kind = "d" THEN Found("KeyNotFound", NoVer, 0)
       ELSE Found("ok", Last(vs), Len(vs))
  ELSE IF at > committed THEN Found("TxNotFound", NoVer, 0)
  ELSE LET I == {i \in 1..Len(kv[k]) : kv[k][i].tx = at} IN
       IF I = {} THEN Found("KeyNotFound", NoVer, 0)
       ELSE Found("ok", kv[k][CHOOSE i \in I : TRUE], rev0)

\* lookup + resolution of at most one reference (MaxKeyResolutionLimit = 1); depth = references already followed.
\* n is the view of the first lookup, m the view of the lookup that resolves the reference.  The specification of
\* atomicity always uses m = n (GetE); m # n exists only to CLASSIFY executions the specification has rejected.
GotE(e, ent) == [e |-> e, ent |-> ent]
GetE2(k, at, n, m, rev0, depth) ==
  LET f == Lookup(k, at, n, rev0) IN
  IF f.e # "ok" THEN GotE(f.e, NoEnt)
  ELSE IF f.x.kind = "d" THEN GotE("KeyNotFound", NoEnt)
  ELSE IF f.x.kind = "v" THEN GotE("ok", Ent(k, f.x.v, f.x.tx, f.rev))
  ELSE IF depth >= 1 THEN GotE("ResolutionLimit", NoEnt)
  ELSE LET g == Lookup(f.x.rk, f.x.at, m, 0) IN
       IF g.e # "ok" THEN GotE(g.e, NoEnt)
       ELSE IF g.x.kind = "d" THEN GotE("KeyNotFound", NoEnt)
       ELSE IF g.x.kind = "r" THEN GotE("ResolutionLimit", NoEnt)
       ELSE GotE("ok", [Ent(f.x.rk, g.x.v, g.x.tx, g.rev) EXCEPT !.rk = k, !.rtx = f.x.tx, !.rrev = f.rev, !.rat = f.x.at])
GetE(k, at, n, rev0, depth) == GetE2(k, at, n, n, rev0, depth)

One(g) == IF g.e = "ok" THEN Res("ok", 0, <<g.ent>>, 0) ELSE ErrRes(g.e)

\* a list read: entries that are not found are skipped, any other error fails the whole call (first one in order)
Collect(gs) ==
  LET bad == {i \in 1..Len(gs) : gs[i].e \notin {"ok", "KeyNotFound"}} IN
  IF bad # {} THEN ErrRes(gs[MinOf(bad)].e)
  ELSE LET ok == SelectSeq(gs, LAMBDA g : g.e = "ok") IN
       Res("ok", 0, [i \in 1..Len(ok) |-> ok[i].ent], 0)

Limited(s, limit) == IF limit > 0 THEN SubSeq(s, 1, Min2(limit, Len(s))) ELSE s

GetAtRevision(k, r, n, m) ==
  LET vs == VersAt(k, n)
      hc == Len(vs)
      idx == IF r > 0 THEN r ELSE hc + r        \* r < 0: the |r|-th version before the current one
  IN IF hc = 0 THEN ErrRes("KeyNotFound")
     ELSE IF idx < 1 \/ idx > hc THEN ErrRes("InvalidRevision")
     ELSE One(GetE2(k, vs[idx].tx, m, m, idx, 0))

GetRes2(op, n, m) ==
  CASE op.mode \in {"def", "since", "nowait"} -> One(GetE2(op.k, 0, n, m, 0, 0))
    [] op.mode = "attx"  -> One(GetE2(op.k, op.n, m, m, 0, 0))
    [] op.mode = "atrev" -> GetAtRevision(op.k, op.n, n, m)
GetRes(op, n) == GetRes2(op, n, n)

GetAllRes(op, n) == Collect([i \in 1..Len(op.keys) |-> GetE(op.keys[i], 0, n, 0, 0)])

Visible(k, n) == LET vs == VersAt(k, n) IN vs # <<>> /\ Last(vs).kind # "d"

ScanRes(op, n) ==
  LET asc  == SelectSeq(KeySeq, LAMBDA k : Matches(k, op.prefix) /\ Visible(k, n))
      ord  == IF op.desc THEN Reverse(asc) ELSE asc
      read == Limited(ord, op.limit)
  IN Collect([i \in 1..Len(read) |->
        LET vs == VersAt(read[i], n) IN GetE(read[i], Last(vs).tx, n, Len(vs), 0)])

CountRes(op, n) == Res("ok", 0, <<>>, Cardinality({k \in Keys : Matches(k, op.prefix) /\ VersAt(k, n) # <<>>}))

HistEnt(k, x, rev) == [Ent(k, IF x.kind = "v" THEN x.v ELSE "", x.tx, rev)
                         EXCEPT !.rk = x.rk, !.rat = x.at, !.d = (x.kind = "d")]
HistRes(op, n) ==
  LET vs == VersAt(op.k, n)
      hc == Len(vs)
      lim == IF op.limit > 0 THEN op.limit ELSE hc
      cnt == IF op.offset >= hc THEN 0 ELSE Min2(lim, hc - op.offset)
  IN IF hc = 0 THEN ErrRes("KeyNotFound")
     ELSE IF op.offset = hc THEN ErrRes("NoMoreEntries")
     ELSE Res("ok", 0, [i \in 1..cnt |->
              LET rev == IF op.desc THEN hc - op.offset - (i - 1) ELSE op.offset + i
              IN HistEnt(op.k, vs[rev], rev)], 0)

ZLess(a, b) == \/ a.sc < b.sc
               \/ a.sc = b.sc /\ KIdx(a.k) < KIdx(b.k)
               \/ a.sc = b.sc /\ a.k = b.k /\ a.at < b.at
\* n: view of the key-value index, m: view of the sorted-set index (two indexes; m = n in the specification of atomicity)
ZScanRes(op, n, m) ==
  LET asc  == SetToSortSeq({z \in zs : z.set = op.set /\ z.tx <= m}, ZLess)
      ord  == IF op.desc THEN Reverse(asc) ELSE asc
      read == Limited(ord, op.limit)
  IN Collect([i \in 1..Len(read) |->
        LET g == GetE(read[i].k, read[i].at, n, 0, 1) IN
        IF g.e = "ok" THEN GotE("ok", [g.ent EXCEPT !.sc = read[i].sc, !.zat = read[i].at]) ELSE g])

----------------------------------------------------------------------------
(* writing.  Every write is  Check (on the state immediately before it)  +  Effect (one transaction).          *)
(* The view parameter n of the checks is `committed` in the specification of atomicity; n < committed only      *)
(* classifies rejected executions (checks evaluated on an out-of-date state).                                    *)
ExistsAt(k, n) == Visible(k, n)

PreOK(p, n) == CASE p.t = "E" -> ExistsAt(p.k, n)
                 [] p.t = "N" -> ~ExistsAt(p.k, n)
                 [] p.t = "M" -> LET vs == VersAt(p.k, n) IN vs = <<>> \/ Last(vs).tx <= p.tx
AllPre(ps, n) == \A i \in 1..Len(ps) : PreOK(ps[i], n)
PreErr(ps, n) == IF AllPre(ps, n) THEN "ok" ELSE "PreconditionFailed"

\* the checks SetReference / ZAdd / ExecAll make on the key that becomes a reference and on the referenced key
RefSourceErr(k, at, n) ==
  LET g == GetE(k, at, n, 0, 0) IN
  IF g.e \notin {"ok", "KeyNotFound"} THEN g.e
  ELSE IF g.e = "ok" /\ g.ent.rk = "" THEN "FinalKey" ELSE "ok"
RefTargetErr(k, at, n) ==
  LET g == GetE(k, at, n, 0, 0) IN
  IF g.e # "ok" THEN g.e ELSE IF g.ent.rk # "" THEN "RefToRef" ELSE "ok"

FirstErr(es) == LET bad == {i \in 1..Len(es) : es[i] # "ok"} IN IF bad = {} THEN "ok" ELSE es[MinOf(bad)]

\* ExecAll: operations are checked in order against the state BEFORE the transaction; a key set by an earlier
\* Kv operation of the same request needs no existence check
XErr(ops, i, n) ==
  LET o == ops[i]
      kmap == {ops[j].k : j \in {j \in 1..(i - 1) : ops[j].t = "Kv"}}
  IN CASE o.t = "Kv" -> "ok"
       [] o.t = "Ref" ->
            LET e1 == RefSourceErr(o.k, 0, n) IN
            IF e1 # "ok" THEN e1
            ELSE IF o.rk \notin kmap \/ o.at > 0 THEN RefTargetErr(o.rk, o.at, n) ELSE "ok"
       [] o.t = "ZAdd" ->
            IF o.k \notin kmap \/ o.at > 0 THEN RefTargetErr(o.k, o.at, n) ELSE "ok"

CheckErr(op, n) ==
  CASE op.t = "Set"  -> PreErr(op.pre, n)
    [] op.t = "Del"  -> IF \E i \in 1..Len(op.keys) : ~ExistsAt(op.keys[i], n) THEN "KeyNotFound" ELSE "ok"
    [] op.t = "Ref"  -> FirstErr(<<RefSourceErr(op.k, op.at, n), RefTargetErr(op.rk, op.at, n), PreErr(op.pre, n)>>)
    [] op.t = "ZAdd" -> RefTargetErr(op.k, op.at, n)
    [] op.t = "Exec" -> FirstErr([i \in 1..(Len(op.ops) + 1) |->
                                     IF i <= Len(op.ops) THEN XErr(op.ops, i, n) ELSE PreErr(op.pre, n)])

Out(res, nkv, nzs, ncm) == [res |-> res, kv |-> nkv, zs |-> nzs, cm |-> ncm]
NoEffect(e) == Out(ErrRes(e), kv, zs, committed)
SameZ(a, b) == a.set = b.set /\ a.sc = b.sc /\ a.k = b.k /\ a.at = b.at
Applied(W, Z) ==     \* W: key -> new version (partial function), Z: new sorted-set entries; one transaction
  Out(Res("ok", committed + 1, <<>>, 0),
      [k \in Keys |-> IF k \in DOMAIN W THEN Append(kv[k], W[k]) ELSE kv[k]],
      zs \cup {[set |-> z.set, sc |-> z.sc, k |-> z.k, at |-> z.at, tx |-> committed + 1] :
                  z \in {y \in Z : ~\E x \in zs : SameZ(x, y)}},
      committed + 1)
NoW == [k \in {} |-> NoVer]

\* the transaction a write commits (tx id = committed + 1); b /\ at = 0 in ExecAll binds to this very transaction
Effect(op) ==
  LET tx == committed + 1 IN
  CASE op.t = "Set"  -> Applied([k \in {op.kvs[i].k : i \in 1..Len(op.kvs)} |->
                                   Ver(tx, "v", op.kvs[CHOOSE i \in 1..Len(op.kvs) : op.kvs[i].k = k].v, "", 0)], {})
    [] op.t = "Del"  -> Applied([k \in {op.keys[i] : i \in 1..Len(op.keys)} |-> Ver(tx, "d", "", "", 0)], {})
    [] op.t = "Ref"  -> Applied([k \in {op.k} |-> Ver(tx, "r", "", op.rk, op.at)], {})
    [] op.t = "ZAdd" -> Applied(NoW, {[set |-> op.set, sc |-> op.sc, k |-> op.k, at |-> op.at]})
    [] op.t = "Exec" ->
         LET ops == op.ops
             bnd(o) == IF o.b /\ o.at = 0 THEN tx ELSE o.at
             wi  == {i \in 1..Len(ops) : ops[i].t \in {"Kv", "Ref"}}
             ver(k) == LET o == ops[CHOOSE i \in wi : ops[i].k = k] IN
                       IF o.t = "Kv" THEN Ver(tx, "v", o.v, "", 0) ELSE Ver(tx, "r", "", o.rk, bnd(o))
         IN Applied([k \in {ops[i].k : i \in wi} |-> ver(k)],
                    {[set |-> ops[i].set, sc |-> ops[i].sc, k |-> ops[i].k, at |-> bnd(ops[i])] :
                        i \in {i \in 1..Len(ops) : ops[i].t = "ZAdd"}})

----------------------------------------------------------------------------
(* the outcomes of an operation in the current state *)
ReadOut(res) == Out(res, kv, zs, committed)

\* checks and reads evaluated on view n (first lookup) / m (reference resolution), effect applied to the current state
AtomicAt(op, n, m) ==
  IF IsWrite(op) THEN LET e == CheckErr(op, n) IN IF e # "ok" THEN NoEffect(e) ELSE Effect(op)
  ELSE CASE op.t = "Get"    -> ReadOut(GetRes2(op, n, m))
         [] op.t = "GetAll" -> ReadOut(GetAllRes(op, n))
         [] op.t = "Scan"   -> ReadOut(ScanRes(op, n))
         [] op.t = "ZScan"  -> ReadOut(ZScanRes(op, n, m))
         [] op.t = "Hist"   -> ReadOut(HistRes(op, n))
         [] op.t = "Count"  -> ReadOut(CountRes(op, n))

\* THE atomic operation: everything is evaluated on the state immediately before it
Atomic(op) == AtomicAt(op, committed, committed)

Relaxed(op) == op.t = "Get" /\ op.mode \in {"since", "nowait"}

\* outcomes that are allowed besides the atomic one
Extra(op, a) ==
  {NoEffect("Other")}
  \* an optimistic delete may abort with a read conflict: no effect
  \cup (IF op.t = "Del" THEN {NoEffect("ReadConflict")} ELSE {})
  \* a write that failed with an unclassified error may or may not have been committed
  \cup (IF IsWrite(op) /\ a.res.e = "ok" THEN {[a EXCEPT !.res = ErrRes("Other")]} ELSE {})

Outcomes(op) ==
  IF Relaxed(op)
  THEN IF op.mode = "since" /\ op.n > committed THEN {ReadOut(ErrRes("IllegalArguments"))}
       ELSE {ReadOut(GetRes(op, n)) : n \in (IF op.mode = "since" THEN op.n ELSE 0)..committed}
            \cup {NoEffect("Other")}
  ELSE LET a == Atomic(op) IN {a} \cup Extra(op, a)

\* CLASSIFICATION ONLY (never part of a verdict of acceptance): what the operation would return if
\*   "stale":    its checks / reads were evaluated on some older committed state n, lo <= n <= committed
\*   "refsplit": the lookup of a reference and the lookup of its target were made on two different states n <= m = committed
\*   "both":     n <= m <= committed
\* (two different states only matter when the first lookup finds a reference)
FindsRef(op, n) ==
  LET vs == VersAt(op.k, n)
      idx == IF op.mode = "atrev" THEN (IF op.n > 0 THEN op.n ELSE Len(vs) + op.n) ELSE Len(vs)
  IN op.mode # "attx" /\ idx \in 1..Len(vs) /\ vs[idx].kind = "r"
DiagOutcomes(op, diag, lo) ==
  LET L == IF lo < 0 THEN 0 ELSE lo
      split(ms) == {<<n, m>> \in (L..committed) \X ms : n = m \/ (n < m /\ FindsRef(op, n))}
      pairs == IF diag \in {"stale", "both"} /\ op.t = "ZScan" THEN (L..committed) \X (L..committed)   \* two indexes
               ELSE IF diag = "stale" THEN {<<n, n>> : n \in L..committed}
               ELSE IF diag = "refsplit" THEN IF op.t = "Get" THEN split({committed}) ELSE {<<committed, committed>>}
               ELSE IF op.t = "Get" THEN split(L..committed)
               ELSE {<<n, n>> : n \in L..committed}
  IN IF op.t = "Get" /\ op.mode = "since" /\ op.n > committed THEN {ReadOut(ErrRes("IllegalArguments"))}
     ELSE {AtomicAt(op, p[1], p[2]) : p \in pairs} \cup Extra(op, Atomic(op))

----------------------------------------------------------------------------
Init ==
  /\ kv = [k \in Keys |-> <<>>]
  /\ zs = {}
  /\ committed = 0
  /\ pend = [c \in Clients |-> Idle]
  /\ orph = <<>>

Call(c, op) ==
  /\ pend[c].st = "idle"
  /\ pend' = [pend EXCEPT ![c] = [st |-> "called", op |-> op, res |-> NoRes]]
  /\ UNCHANGED <<kv, zs, committed, orph>>

\* the linearization point of c's pending operation
LinWith(c, out) ==
  /\ kv' = out.kv /\ zs' = out.zs /\ committed' = out.cm
  /\ pend' = [pend EXCEPT ![c].st = "lined", ![c].res = out.res]
  /\ UNCHANGED orph
LinFrom(c, outs) ==
  /\ pend[c].st = "called"
  /\ \E out \in outs : LinWith(c, out)
Lin(c) == LinFrom(c, Outcomes(pend[c].op))

Return(c, res) ==
  /\ pend[c].st = "lined"
  /\ pend[c].res = res
  /\ pend' = [pend EXCEPT ![c] = Idle]
  /\ UNCHANGED <<kv, zs, committed, orph>>

\* the client stops waiting for its reply: the operation stays pending forever
Abandon(c) ==
  /\ pend[c].st # "idle"
  /\ orph' = IF pend[c].st = "called" /\ IsWrite(pend[c].op) THEN Append(orph, pend[c].op) ELSE orph
  /\ pend' = [pend EXCEPT ![c] = Idle]
  /\ UNCHANGED <<kv, zs, committed>>

LinOrphan(i) ==
  /\ i \in 1..Len(orph)
  /\ LET a == Atomic(orph[i]) IN
     /\ a.res.e = "ok"
     /\ kv' = a.kv /\ zs' = a.zs /\ committed' = a.cm
  /\ orph' = RemoveAt(orph, i)
  /\ UNCHANGED pend

----------------------------------------------------------------------------
(* properties of the abstract state (checked at every step of every real execution and by the MC configuration) *)
Dense ==        \* every key's versions are ordered by tx, no tx beyond the committed frontier
  \A k \in Keys : /\ \A i \in 1..Len(kv[k]) : kv[k][i].tx \in 1..committed
                  /\ \A i \in 1..(Len(kv[k]) - 1) : kv[k][i].tx < kv[k][i + 1].tx
ZSound == \A z \in zs : z.k \in Keys /\ z.at <= committed /\ z.tx \in 1..committed
LinInv == Dense /\ ZSound
=============================================================================
