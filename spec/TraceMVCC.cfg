SPECIFICATION Spec
INVARIANTS ReportBad
POSTCONDITION TraceAccepted
CHECK_DEADLOCK FALSE
