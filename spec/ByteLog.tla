------------------------------ MODULE ByteLog ------------------------------
(***************************************************************************)
(* The abstract object property C17 talks about: one growable array of     *)
(* bytes.  Bytes are atoms (naturals): every appended byte gets a fresh    *)
(* number, 0 is the byte a preallocated file is filled with, so a stale or *)
(* misplaced byte is always distinguishable.                               *)
(* Shared by Appendable.tla (state machine) and TraceAppendable.tla        *)
(* (validation of recorded concurrent executions).                         *)
(***************************************************************************)
EXTENDS Integers, Sequences

Min(a, b) == IF a < b THEN a ELSE b
Max(a, b) == IF a > b THEN a ELSE b
Zeros(n) == [i \in 1..n |-> 0]
Prefix(s, n) == SubSeq(s, 1, Min(n, Len(s)))

\* ReadAt(off, n) on the byte array lg: the bytes lg[off .. off+n) that exist, and EOF iff the
\* request reaches past the end (io.ReaderAt: n < len(bs) iff err = io.EOF)
AbsReadOn(lg, off, n) ==
  [bs |-> SubSeq(lg, off + 1, Min(off + n, Len(lg))), eof |-> off + n > Len(lg)]

\* Append returns the previous size as the offset of the new bytes
AbsAppend(lg, bs) == [log |-> lg \o bs, off |-> Len(lg)]
\* rewinding discards what follows
AbsRewind(lg, p) == Prefix(lg, p)
=============================================================================
