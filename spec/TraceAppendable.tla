-------------------------- MODULE TraceAppendable --------------------------
(***************************************************************************)
(* Trace validation for C17: recorded concurrent executions of the real    *)
(* singleapp / multiapp code (one writer appending, flushing, syncing;     *)
(* several readers calling ReadAt and Size) are judged against the byte    *)
(* array of ByteLog.tla.                                                   *)
(*                                                                         *)
(* The file is ndjson, ordered by a global counter drawn before every call *)
(* and after every return:                                                 *)
(*   reset                      a new appendable (many runs in one file)   *)
(*   wcall(bs) / wret(off, n)   Append                                     *)
(*   rcall(id, off, n) / rret(id, off, n, got, eof)     ReadAt             *)
(*   scall(id) / sret(id, off)  Size                                       *)
(* An Append is atomic for nobody (a multi-file append is carried out      *)
(* chunk by chunk), so the array grows byte by byte somewhere between      *)
(* wcall and wret.  An observation is legal iff it is what the byte array  *)
(* answers for SOME length L it had between the observation's call and its *)
(* return: lo = bytes of completed appends at the call, hi = bytes of      *)
(* completed and started appends at the return.  Append must return the    *)
(* previous size.                                                          *)
(* The walk is deterministic (no unlogged steps): the trace is accepted    *)
(* iff TLC consumes every line (POSTCONDITION Accepted).                   *)
(***************************************************************************)
EXTENDS ByteLog, Json, TLC

CONSTANT TraceFile
Trace == ndJsonDeserialize(TraceFile)

VARIABLES l,      \* next line
          tlog,   \* bytes of completed appends
          infl,   \* bytes of the append in flight
          pend    \* observation id -> size of tlog at its call
tvars == <<l, tlog, infl, pend>>

Ev == Trace[l]
Is(e) == l <= Len(Trace) /\ Ev.e = e /\ l' = l + 1
Without(f, x) == [i \in DOMAIN f \ {x} |-> f[i]]

TInit == l = 1 /\ tlog = <<>> /\ infl = <<>> /\ pend = <<>>

TReset == Is("reset") /\ tlog' = <<>> /\ infl' = <<>> /\ pend' = <<>>
TWCall == Is("wcall") /\ infl = <<>> /\ infl' = Ev.bs /\ UNCHANGED <<tlog, pend>>
TWRet  == /\ Is("wret")
          /\ Ev.off = AbsAppend(tlog, infl).off /\ Ev.n = Len(infl)       \* AppendReturnsPrevSize
          /\ tlog' = AbsAppend(tlog, infl).log /\ infl' = <<>> /\ UNCHANGED pend
TRCall == (Is("rcall") \/ Is("scall")) /\ pend' = (Ev.id :> Len(tlog)) @@ pend /\ UNCHANGED <<tlog, infl>>
TRRet  == /\ Is("rret") /\ Ev.id \in DOMAIN pend
          /\ \E L \in pend[Ev.id]..(Len(tlog) + Len(infl)) :
                LET r == AbsReadOn(Prefix(tlog \o infl, L), Ev.off, Ev.n) IN r.bs = Ev.got /\ r.eof = Ev.eof
          /\ pend' = Without(pend, Ev.id) /\ UNCHANGED <<tlog, infl>>
TSRet  == /\ Is("sret") /\ Ev.id \in DOMAIN pend
          /\ Ev.off >= pend[Ev.id] /\ Ev.off <= Len(tlog) + Len(infl)
          /\ pend' = Without(pend, Ev.id) /\ UNCHANGED <<tlog, infl>>

TNext == TReset \/ TWCall \/ TWRet \/ TRCall \/ TRRet \/ TSRet
TraceSpec == TInit /\ [][TNext]_tvars

Accepted == TLCGet("stats").diameter - 1 = Len(Trace)
\* where the walk stopped (printed when the trace is rejected)
Stuck == IF TLCGet("stats").diameter - 1 = Len(Trace) THEN TRUE
         ELSE PrintT(<<"REJECTED-AT", TLCGet("stats").diameter, Trace[TLCGet("stats").diameter]>>) /\ FALSE
=============================================================================
