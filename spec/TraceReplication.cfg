CONSTANTS
  Replicas = {"r1", "r2"}
SPECIFICATION TraceSpec
INVARIANTS ReportBad
POSTCONDITION TraceAccepted
CHECK_DEADLOCK FALSE
