------------------------------- MODULE Proofs -------------------------------
(***************************************************************************)
(* Symbolic model of immudb's tamper-evidence proofs (property C01).       *)
(*                                                                         *)
(* Digests are terms of a free algebra (collision resistance), built with  *)
(* the constructors of Merkle.tla plus                                     *)
(*     Alh(id, prev, inner)     accumulated linear hash of a tx header     *)
(*     Inner(ts, ver, nent, eh, bl, blroot)   TxHeader.innerHash           *)
(* A history is a sequence of headers; BlTxID may lag the linear chain by  *)
(* any amount (non-decreasing, < id).  Transcribed from embedded/store:    *)
(* DualProof / LinearProof / LinearAdvanceProof generation and             *)
(* VerifyDualProof / VerifyLinearProof / VerifyLinearAdvanceProof.         *)
(***************************************************************************)
EXTENDS Merkle

GenesisAlh == <<"G">>                 \* sha256(nil): PrevAlh of tx 1
ZeroDigest == <<"Z">>                 \* all-zero digest: BlRoot when BlTxID = 0
Alh(id, prev, inner) == <<"A", id, prev, inner>>
Inner(ts, ver, nent, eh, bl, blroot) == <<"I", ts, ver, nent, eh, bl, blroot>>
Eh(k, v) == <<"EH", k, v>>            \* entries hash of tx k, content variant v

HInner(h) == Inner(h.ts, h.ver, h.nent, h.eh, h.bl, h.blroot)
HAlh(h)   == Alh(h.id, h.prev, HInner(h))

\* A history: shape[k] = BlTxID of tx k; var[k] = content variant of tx k.
RECURSIVE HistUpto(_, _, _)
HistUpto(shape, var, n) ==          \* sequence of n headers
  IF n = 0 THEN <<>>
  ELSE LET hs == HistUpto(shape, var, n - 1)
           alhs == [k \in 1..(n - 1) |-> HAlh(hs[k])]
           bl == shape[n]
       IN Append(hs, [id |-> n, prev |-> IF n = 1 THEN GenesisAlh ELSE alhs[n - 1],
                      ts |-> 100 + n, ver |-> n % 2, nent |-> 1, eh |-> Eh(n, var[n]),
                      bl |-> bl, blroot |-> IF bl = 0 THEN ZeroDigest ELSE MTH(alhs, 1, bl)])
Alhs(hs) == [k \in 1..Len(hs) |-> HAlh(hs[k])]

-----------------------------------------------------------------------------
(* generation (store.DualProof, LinearProof, LinearAdvanceProof)            *)
MaxN(a, b) == IF a > b THEN a ELSE b
MinN(a, b) == IF a < b THEN a ELSE b

GenLinear(hs, s, t) ==
  [src |-> s, tgt |-> t,
   terms |-> [q \in 1..(t - s + 1) |-> IF q = 1 THEN HAlh(hs[s]) ELSE HInner(hs[s + q - 1])]]

\* nil proof is modelled as the record with empty sequences
NoLadv == [terms |-> <<>>, incls |-> <<>>]
\* `tree`: the leaves of the binary-linking tree the server holds.  An honest server's tree is Alhs(hs); a split-view
\* server keeps a well-formed linear chain while its tree has a foreign leaf somewhere (HistPoison below).
GenLadvT(hs, tree, s, t, tbl) ==
  IF t <= s + 1 THEN NoLadv
  ELSE [terms |-> [q \in 1..(t - s) |-> IF q = 1 THEN HAlh(hs[s + 1]) ELSE HInner(hs[s + q])],
        incls |-> [q \in 1..(t - s - 1) |-> Path(tree, s + q, 1, tbl)]]
GenLadv(hs, s, t, tbl) == GenLadvT(hs, Alhs(hs), s, t, tbl)

\* src, tgt: tx ids with src <= tgt
GenDualT(hs, tree, src, tgt, tblFromTree) ==
  LET S == hs[src]  T == hs[tgt] IN
  [srcHdr |-> S, tgtHdr |-> T,
   incl |-> IF src < T.bl THEN Path(tree, src, 1, T.bl) ELSE <<>>,
   cons |-> IF S.bl > 0 THEN RefConsistency(tree, S.bl, T.bl) ELSE <<>>,
   tblAlh |-> IF T.bl > 0 THEN (IF tblFromTree THEN tree[T.bl] ELSE HAlh(hs[T.bl])) ELSE ZeroDigest,
   last |-> IF T.bl > 0 THEN Path(tree, T.bl, 1, T.bl) ELSE <<>>,
   lin |-> GenLinear(hs, MaxN(src, T.bl), tgt),
   ladv |-> GenLadvT(hs, tree, S.bl, MinN(src, T.bl), T.bl)]
GenDual(hs, src, tgt) == GenDualT(hs, Alhs(hs), src, tgt, FALSE)

\* split view: the linear chain is well formed, the binary-linking tree has a foreign leaf at position p
ForeignLeaf == Junk(99)
TreeLeaves(hs, p) == [k \in 1..Len(hs) |-> IF k = p THEN ForeignLeaf ELSE HAlh(hs[k])]
\* ... from transaction q on (the headers before q embed roots of the honest tree: the server switched trees at q)
RECURSIVE HistPoison(_, _, _, _, _)
HistPoison(shape, var, n, p, q) ==
  IF n = 0 THEN <<>>
  ELSE LET hs == HistPoison(shape, var, n - 1, p, q)
           bl == shape[n]
       IN Append(hs, [id |-> n, prev |-> IF n = 1 THEN GenesisAlh ELSE HAlh(hs[n - 1]),
                      ts |-> 100 + n, ver |-> n % 2, nent |-> 1, eh |-> Eh(n, var[n]),
                      bl |-> bl, blroot |-> IF bl = 0 THEN ZeroDigest ELSE MTH(IF n >= q THEN TreeLeaves(hs, p) ELSE Alhs(hs), 1, bl)])

-----------------------------------------------------------------------------
(* verification (store/verification.go)                                     *)
AdvanceLinear(alh, id, term) == Alh(id, alh, term)

RECURSIVE LinFold(_, _, _, _)
LinFold(terms, k, src, acc) == IF k > Len(terms) THEN acc ELSE LinFold(terms, k + 1, src, AdvanceLinear(acc, src + k - 1, terms[k]))
VerifyLinear(p, s, t, sAlh, tAlh) ==
  /\ p.src = s /\ p.tgt = t
  /\ ~(p.src = 0 \/ p.src > p.tgt \/ Len(p.terms) = 0)
  /\ sAlh = p.terms[1]
  /\ Len(p.terms) = t - s + 1
  /\ tAlh = LinFold(p.terms, 2, p.src, p.terms[1])

RECURSIVE LadvLoop(_, _, _, _, _, _, _)
LadvLoop(p, tx, startTx, endTx, calc, root, size) ==
  IF tx >= endTx THEN <<TRUE, calc>>
  ELSE IF ~GoVerifyInclusion(p.incls[tx - startTx], tx, size, Leaf(calc), root) THEN <<FALSE, calc>>
  ELSE LadvLoop(p, tx + 1, startTx, endTx, AdvanceLinear(calc, tx + 1, p.terms[tx - startTx + 1]), root, size)
VerifyLadv(p, startTx, endTx, endAlh, root, size) ==
  IF endTx < startTx THEN FALSE
  ELSE IF endTx <= startTx + 1 THEN TRUE
  ELSE IF Len(p.terms) # endTx - startTx \/ Len(p.incls) # endTx - startTx - 1 THEN FALSE
  ELSE LET r == LadvLoop(p, startTx + 1, startTx, endTx, p.terms[1], root, size) IN r[1] /\ r[2] = endAlh

CONSTANT TblBoundToSource   \* VerifyDualProof, source = last leaf of the target tree: TRUE = TargetBlTxAlh is compared with the source Alh
VerifyDual(p, srcID, tgtID, srcAlh, tgtAlh) ==
  LET S == p.srcHdr  T == p.tgtHdr IN
  /\ S.id = srcID /\ T.id = tgtID
  /\ ~(S.id = 0 \/ S.id > T.id)
  /\ srcAlh = HAlh(S) /\ tgtAlh = HAlh(T)
  /\ (srcID < T.bl => GoVerifyInclusion(p.incl, srcID, T.bl, Leaf(srcAlh), T.blroot))
  /\ (S.bl > 0 => GoVerifyConsistency(p.cons, S.bl, T.bl, S.blroot, T.blroot))
  /\ (T.bl > 0 => GoVerifyLastInclusion(p.last, T.bl, Leaf(p.tblAlh), T.blroot))
  /\ IF srcID < T.bl
     THEN /\ VerifyLinear(p.lin, T.bl, tgtID, p.tblAlh, tgtAlh)
          /\ VerifyLadv(p.ladv, S.bl, srcID, srcAlh, T.blroot, T.bl)
     ELSE /\ (TblBoundToSource /\ srcID = T.bl => p.tblAlh = srcAlh)
          /\ VerifyLinear(p.lin, srcID, tgtID, srcAlh, tgtAlh)
          /\ VerifyLadv(p.ladv, S.bl, T.bl, p.tblAlh, T.blroot, T.bl)

-----------------------------------------------------------------------------
(* semantics: what an accepted proof is supposed to establish               *)
\* hi extends lo along the linear chain: lo is reached from hi by d prev-steps
RECURSIVE ChainLinked(_, _, _)
ChainLinked(lo, hi, d) ==
  IF d = 0 THEN lo = hi
  ELSE hi[1] = "A" /\ ChainLinked(lo, hi[3], d - 1)

=============================================================================
