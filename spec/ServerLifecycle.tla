-------------------------- MODULE ServerLifecycle --------------------------
(***************************************************************************)
(* Life cycle of the databases of one immudb server (pkg/server on top of  *)
(* pkg/database.DBManager) as far as it decides WITH WHICH OPTIONS a        *)
(* database's store is opened (property C03 at the server level: a write    *)
(* acknowledged by a synced server is durable whichever way the store of    *)
(* its database came to be opened).                                         *)
(*                                                                          *)
(*   server options  --defaultDBOptions/overwriteWith-->  dbOptions         *)
(*   dbOptions       --saveDBOptions (JSON in systemdb; the field `synced`  *)
(*                     is NOT serialised)-->               stored[d]         *)
(*   stored[d]       --loadDBOptions (defaults of THIS server, then the     *)
(*                     JSON on top)-->                     dbOptions         *)
(*   dbOptions       --databaseOptionsFrom + dbList.Put--> entry[d]         *)
(*   entry[d]        --DBManager.Get: OpenDB on first use--> eff[d]          *)
(*                                                                          *)
(* One action per API call the harness issues: CreateDatabaseV2,           *)
(* UnloadDatabase, LoadDatabase, UpdateDatabaseV2 (one settings field, or   *)
(* promotion of a replica), a write (Set / SetAll / VerifiedSet / SQLExec / *)
(* concurrent Sets), server stop + start on the same directory.  Stores are *)
(* opened lazily (first use), UpdateDatabaseV2 on a loaded database uses it *)
(* (AsReplica), and with MaxActiveDatabases = 1 using one database closes   *)
(* the store of the other one (SIEVE cache of capacity 1): the next use     *)
(* re-opens it with the options kept in the manager's entry.                *)
(* Every step appends to `hist` what the harness must observe on the real   *)
(* server: which stores are open, whether this step opened one, how it came *)
(* to be opened and its effective options.                                  *)
(***************************************************************************)
EXTENDS Naturals, Sequences, FiniteSets, TLC, Json

CONSTANTS
  UserDBs,           \* names of the user databases, e.g. {"a", "b"}
  ServerSynced,      \* server option (immudb default: TRUE)
  Caps,              \* explored values of MaxActiveDatabases: 0 = large (nothing is ever evicted), 1 = one active database
  Kinds,             \* kinds of writes
  Profiles,          \* settings given to CreateDatabaseV2: subset of {"default", "small", "embedded", "replica"} (default = none given)
  DefaultProfileDBs, \* user databases that may be created without settings (bounds the cost of the replay: a store with the
                     \* default limits allocates tens of megabytes at every open)
  Fields,            \* settings changed by UpdateDatabaseV2: subset of {"sf", "wb", "ix", "auto"} = sync frequency, write buffer
                     \* size, index + hash-tree options, autoload
  MaxUpd,            \* settings updates per behaviour
  MaxRestart,        \* server restarts per behaviour
  MaxBurst,          \* consecutive writes to one database between two life-cycle steps (simulation)
  SyncedFromStored,  \* FALSE = the code.  TRUE = anchor variant: a reload takes Synced from the stored settings (which do not hold it)
  EmitLen            \* print the history when it reaches this length (0 = never)

Default == "defaultdb"
DBs == UserDBs \cup {Default}

VARIABLES
  cap,      \* MaxActiveDatabases of this server (kept over restarts)
  life,     \* d -> "absent" | "loaded" | "unloaded"
  stored,   \* d -> settings saved in systemdb (no `synced` field)
  dirty,    \* d -> stored settings were changed after entry[d] was built
  entry,    \* d -> options handed to the database manager (dbList.Put)
  open,     \* d -> the store is open
  pend,     \* d -> by which path the next open of d's store happens
  eff,      \* d -> options the open store runs with
  how,      \* d -> how the open store came to be opened (class used in signatures)
  burst,    \* d -> writes since the last life-cycle step that touched d
  nUpd, nRestart,
  hist

vars == <<cap, life, stored, dirty, entry, open, pend, eff, how, burst, nUpd, nRestart, hist>>

NoStored == [prof |-> "none", sf |-> 0, wb |-> 0, ix |-> 0, auto |-> TRUE, replica |-> FALSE]
NoOpts   == [synced |-> FALSE, prof |-> "none", sf |-> 0, wb |-> 0, ix |-> 0, auto |-> TRUE, replica |-> FALSE, upd |-> FALSE]

\* defaultDBOptions (+ overwriteWith for the settings of profile p): Synced comes from the server options
NewOpts(p) == [synced |-> ServerSynced, prof |-> p, sf |-> 0, wb |-> 0, ix |-> 0, auto |-> TRUE, replica |-> (p = "replica"), upd |-> FALSE]
\* saveDBOptions: JSON without the unexported field `synced`
Saved(o) == [prof |-> o.prof, sf |-> o.sf, wb |-> o.wb, ix |-> o.ix, auto |-> o.auto, replica |-> o.replica]
\* loadDBOptions: defaultdb always gets the defaults; others the defaults of this server overwritten by the JSON
Reloaded(d) ==
  IF d = Default THEN NewOpts("default")
  ELSE [synced |-> IF SyncedFromStored THEN FALSE ELSE ServerSynced,
        prof |-> stored[d].prof, sf |-> stored[d].sf, wb |-> stored[d].wb, ix |-> stored[d].ix,
        auto |-> stored[d].auto, replica |-> stored[d].replica, upd |-> dirty[d]]

Class(d) == IF entry[d].upd THEN pend[d] \o "+updated" ELSE pend[d]

\* ---- using database d (DBManager.Get): opens its store if it is not open; with capacity 1 the other open store is closed
Opens(d) == ~open[d]
OpenAfterUse(d) == [x \in DBs |-> IF x = d THEN TRUE ELSE IF cap = 1 /\ Opens(d) THEN FALSE ELSE open[x]]
PendAfterUse(d) == [x \in DBs |-> IF x # d /\ open[x] /\ cap = 1 /\ Opens(d) THEN "evicted" ELSE pend[x]]
Use(d, ent) ==     \* ent = entry[d] as it is when the store is opened
  /\ open' = OpenAfterUse(d)
  /\ pend' = PendAfterUse(d)
  /\ eff' = [x \in DBs |-> IF x = d THEN (IF Opens(d) THEN [ent EXCEPT !.upd = FALSE] ELSE eff[d])
                           ELSE IF OpenAfterUse(d)[x] THEN eff[x] ELSE NoOpts]
  /\ how' = [x \in DBs |-> IF x = d THEN (IF Opens(d) THEN (IF ent.upd THEN pend[d] \o "+updated" ELSE pend[d]) ELSE how[d])
                           ELSE IF OpenAfterUse(d)[x] THEN how[x] ELSE "none"]

\* what the harness has to see after the step
Obs(op, d, extra) ==
  [op |-> op, db |-> d, arg |-> extra,
   opened |-> [x \in DBs |-> open'[x] /\ (~open[x] \/ op = "restart")],
   open |-> open', how |-> how', eff |-> eff', life |-> life']
\* (model-checking runs with EmitLen = 0 keep no history)
Log(op, d, extra) == hist' = IF EmitLen = 0 THEN hist ELSE Append(hist, Obs(op, d, extra))

Init ==
  /\ cap \in Caps
  /\ life = [d \in DBs |-> IF d = Default THEN "loaded" ELSE "absent"]
  /\ stored = [d \in DBs |-> IF d = Default THEN Saved(NewOpts("default")) ELSE NoStored]
  /\ dirty = [d \in DBs |-> FALSE]
  /\ entry = [d \in DBs |-> IF d = Default THEN NewOpts("default") ELSE NoOpts]
  /\ open = [d \in DBs |-> d = Default]            \* Initialize uses defaultdb (TxCount)
  /\ pend = [d \in DBs |-> "created"]
  /\ eff = [d \in DBs |-> IF d = Default THEN NewOpts("default") ELSE NoOpts]
  /\ how = [d \in DBs |-> IF d = Default THEN "created" ELSE "none"]
  /\ burst = [d \in DBs |-> 0]
  /\ nUpd = 0 /\ nRestart = 0
  /\ hist = <<>>

\* CreateDatabaseV2(d, settings of profile p): settings saved, entry put; the store is not opened yet
Create(d, p) ==
  /\ d \in UserDBs /\ life[d] = "absent"
  /\ (p = "default" => d \in DefaultProfileDBs)
  /\ life' = [life EXCEPT ![d] = "loaded"]
  /\ stored' = [stored EXCEPT ![d] = Saved(NewOpts(p))]
  /\ entry' = [entry EXCEPT ![d] = NewOpts(p)]
  /\ pend' = [pend EXCEPT ![d] = "created"]
  /\ burst' = [burst EXCEPT ![d] = 0]
  /\ UNCHANGED <<cap, dirty, open, eff, how, nUpd, nRestart>>
  /\ Log("create", d, p)

\* a write acknowledged through the API (replicas reject writes)
Write(d, k) ==
  /\ life[d] = "loaded" /\ ~entry[d].replica
  /\ burst[d] < MaxBurst
  /\ Use(d, entry[d])
  /\ entry' = [entry EXCEPT ![d].upd = FALSE]
  /\ burst' = [burst EXCEPT ![d] = @ + 1]
  /\ UNCHANGED <<cap, life, stored, dirty, nUpd, nRestart>>
  /\ Log("write", d, k)

\* UnloadDatabase: the store is closed (if open)
Unload(d) ==
  /\ d \in UserDBs /\ life[d] = "loaded"
  /\ life' = [life EXCEPT ![d] = "unloaded"]
  /\ open' = [open EXCEPT ![d] = FALSE]
  /\ eff' = [eff EXCEPT ![d] = NoOpts] /\ how' = [how EXCEPT ![d] = "none"]
  /\ burst' = [burst EXCEPT ![d] = 0]
  /\ UNCHANGED <<cap, stored, dirty, entry, pend, nUpd, nRestart>>
  /\ Log("unload", d, "")

\* LoadDatabase: settings re-read from systemdb, entry replaced; opened at the next use
Load(d) ==
  /\ d \in UserDBs /\ life[d] = "unloaded"
  /\ life' = [life EXCEPT ![d] = "loaded"]
  /\ entry' = [entry EXCEPT ![d] = Reloaded(d)]
  /\ dirty' = [dirty EXCEPT ![d] = FALSE]
  /\ pend' = [pend EXCEPT ![d] = "reloaded"]
  /\ burst' = [burst EXCEPT ![d] = 0]
  /\ UNCHANGED <<cap, stored, open, eff, how, nUpd, nRestart>>
  /\ Log("load", d, "")

Bump(s, f) == IF f = "auto" THEN [s EXCEPT !.auto = ~@]
              ELSE IF f = "sf" THEN [s EXCEPT !.sf = (@ + 1) % 3]
              ELSE IF f = "wb" THEN [s EXCEPT !.wb = (@ + 1) % 3]
              ELSE [s EXCEPT !.ix = (@ + 1) % 3]

\* UpdateDatabaseV2 changing one field: only the stored settings change; the running store and the manager's entry keep the
\* old ones until the database is loaded again.  On a loaded database the call uses the database (db.AsReplica).
Update(d, f) ==
  /\ d \in UserDBs /\ life[d] # "absent" /\ nUpd < MaxUpd
  /\ stored' = [stored EXCEPT ![d] = Bump(@, f)]
  /\ dirty' = [dirty EXCEPT ![d] = TRUE]
  /\ nUpd' = nUpd + 1
  /\ burst' = [burst EXCEPT ![d] = 0]
  /\ IF life[d] = "loaded"
       THEN Use(d, entry[d]) /\ entry' = [entry EXCEPT ![d].upd = FALSE]
       ELSE UNCHANGED <<open, pend, eff, how, entry>>
  /\ UNCHANGED <<cap, life, nRestart>>
  /\ Log("update", d, f)

\* UpdateDatabaseV2 turning a replica into a primary: takes effect on the running database (no re-open)
Promote(d) ==
  /\ d \in UserDBs /\ life[d] = "loaded" /\ stored[d].replica
  /\ stored' = [stored EXCEPT ![d].replica = FALSE]
  /\ Use(d, [entry[d] EXCEPT !.replica = FALSE])
  /\ entry' = [entry EXCEPT ![d].replica = FALSE, ![d].upd = FALSE]
  /\ burst' = [burst EXCEPT ![d] = 0]
  /\ UNCHANGED <<cap, life, dirty, nUpd, nRestart>>
  /\ Log("promote", d, "")

\* server stop + start on the same directory: every store is closed; every existing database gets a new entry from its stored
\* settings (autoload off: the entry is put closed); defaultdb is used by Initialize
Restart ==
  /\ nRestart < MaxRestart
  /\ nRestart' = nRestart + 1
  /\ life' = [d \in DBs |-> IF life[d] = "absent" THEN "absent" ELSE IF d = Default \/ stored[d].auto THEN "loaded" ELSE "unloaded"]
  /\ entry' = [d \in DBs |-> IF life[d] = "absent" THEN NoOpts ELSE Reloaded(d)]
  /\ dirty' = [d \in DBs |-> FALSE]
  /\ open' = [d \in DBs |-> d = Default]
  /\ pend' = [d \in DBs |-> "startup"]
  /\ eff' = [d \in DBs |-> IF d = Default THEN Reloaded(Default) ELSE NoOpts]
  /\ how' = [d \in DBs |-> IF d = Default THEN "startup" ELSE "none"]
  /\ burst' = [d \in DBs |-> 0]
  /\ UNCHANGED <<cap, stored, nUpd>>
  /\ Log("restart", Default, "")

Next ==
  \/ \E d \in UserDBs, p \in Profiles : Create(d, p)
  \/ \E d \in DBs, k \in Kinds : Write(d, k)
  \/ \E d \in UserDBs : Unload(d) \/ Load(d) \/ Promote(d)
  \/ \E d \in UserDBs, f \in Fields : Update(d, f)
  \/ Restart

Spec == Init /\ [][Next]_vars

-----------------------------------------------------------------------------
\* the property the model is about: a loaded database of a synced server has a synced store
EffectiveSynced == \A d \in DBs : open[d] => eff[d].synced = ServerSynced
\* a store is only open for a loaded database, and never more than `cap` of them
OpenOnlyLoaded == \A d \in DBs : open[d] => life[d] = "loaded"
WithinCapacity == cap = 1 => Cardinality({d \in DBs : open[d]}) <= 1
\* settings updates take effect with the next load (and not before): the manager's entry is what was stored when it was built
EntryAsStored == \A d \in UserDBs : (life[d] = "loaded" /\ ~dirty[d]) =>
                   /\ entry[d].sf = stored[d].sf /\ entry[d].wb = stored[d].wb /\ entry[d].ix = stored[d].ix
                   /\ entry[d].prof = stored[d].prof
\* permanent settings (the profile: file size, embedded values, limits) never change
ProfileKept == \A d \in UserDBs : open[d] => eff[d].prof = stored[d].prof
LifecycleInv == EffectiveSynced /\ OpenOnlyLoaded /\ WithinCapacity /\ EntryAsStored /\ ProfileKept

\* printed under -simulate: one schedule per behaviour
Emit == (EmitLen > 0 /\ Len(hist) = EmitLen) => PrintT(<<"JSON:", ToJson([cap |-> cap, ops |-> hist])>>)
\* behaviours are cut at EmitLen
Bounded == EmitLen > 0 => Len(hist) <= EmitLen
SimNext == Len(hist) < EmitLen /\ Next
SimSpec == Init /\ [][SimNext]_vars

MCView == <<cap, life, stored, dirty, entry, open, pend, eff, how, nUpd, nRestart>>
=============================================================================
