----------------------------- MODULE TraceIndex -----------------------------
(***************************************************************************)
(* Trace validation of real executions of embedded/store (concurrent       *)
(* writers, free-running indexers, maintenance, readers) against Index.tla.*)
(* The ndjson file (env VERIF_TRACE) holds, per run: a Reset line, the     *)
(* committed log in id order (Commit: what the writers were acknowledged), *)
(* then every read call with its result and the index progress observed    *)
(* around it: lo (the waited-for transaction / a previously observed index *)
(* time / the snapshot's index time) and hi (last committed transaction    *)
(* after the call / the snapshot's index time).                            *)
(* A read is accepted iff its result equals the reference value at SOME    *)
(* index time n with lo <= n <= hi (and n >= the waited-for transaction,   *)
(* which the driver folds into lo).  Rejected reads are collected and      *)
(* printed at the end; every line of the trace is consumed.                *)
(* Values are compared by dictionary number (vid, md of Commit lines).     *)
(***************************************************************************)
EXTENDS MCIndex, IOUtils, TLCExt

TraceLog == ndJsonDeserialize(IOEnv.VERIF_TRACE)

VARIABLES l,    \* next line to consume
          bad   \* lines of rejected reads
tvars == <<vars, l, bad>>

Ev == TraceLog[l]
IsEvent(e) == l <= Len(TraceLog) /\ TraceLog[l].ev = e /\ l' = l + 1

TraceInit == Init /\ l = 1 /\ bad = <<>>

TReset == /\ IsEvent("Reset") /\ log' = <<>> /\ UNCHANGED <<ts, map, run, pend, hist, mb, sw, bad>>
TCommit == /\ IsEvent("Commit") /\ Ev.id = Len(log) + 1
           /\ log' = Append(log, Ev.tx) /\ UNCHANGED <<ts, map, run, pend, hist, mb, sw, bad>>

\* what the driver can observe of an item
Proj(it) == [k |-> it.k, tx |-> it.tx, hc |-> it.hc, vid |-> Ent(it.ptx, it.pk).vid, del |-> it.del, exp |-> it.exp, xmd |-> it.xmd]
ProjRes(op, r) ==
  [st |-> r.st,
   items |-> IF op = "dump"
             THEN [i \in 1..Len(r.items) |-> [k |-> r.items[i].k, vs |-> [j \in 1..Len(r.items[i].vs) |-> Proj(r.items[i].vs[j])]]]
             ELSE [i \in 1..Len(r.items) |-> Proj(r.items[i])]]
SeqToSet(s) == {s[i] : i \in 1..Len(s)}
QOf(q) == [q EXCEPT !.flt = SeqToSet(q.flt)]
ReadOkIn(e, quirk, from, to) ==
  LET q == QOf(e.q) IN
  \E n \in from..to :
     LET M == RefMapG(e.x, n, quirk) IN
     Defined(M, q) => ProjRes(q.op, Eval(M, q)) = e.r
ReadOk(e) == ReadOkIn(e, FALSE, e.lo, e.hi)
\* why a rejected read is rejected (only to name it; the verdict is ReadOk): it is what the reference with unmarked
\* tombstones defines / it is what the index held at an EARLIER index time than the progress observed before the call
Why(e) == IF e.hi > Len(log) THEN "beyond-the-committed-log"
          ELSE IF ReadOkIn(e, TRUE, e.lo, e.hi) THEN "tombstone-not-marked-deleted"
          ELSE IF ReadOkIn(e, FALSE, 0, e.lo - 1) THEN "index-time-behind-observed-progress"
          ELSE "unexplained"
\* for a rejected dump taken at one index time: what the reference holds there (with the tombstone marks), so that
\* the check can name the difference
ExpDump(e) ==
  IF e.q.op = "dump" /\ e.lo = e.hi /\ e.hi <= Len(log)
  THEN LET r == RDump(RefMap(e.x, e.lo)).items IN
       [i \in 1..Len(r) |-> [k |-> r[i].k, vs |-> [j \in 1..Len(r[i].vs) |->
           LET it == r[i].vs[j] IN [tx |-> it.tx, vid |-> Ent(it.ptx, it.pk).vid, del |-> it.del, exp |-> it.exp,
                                    xmd |-> it.xmd, tomb |-> it.tomb]]]]
  ELSE <<>>
TRead == /\ IsEvent("Read") /\ UNCHANGED vars
         /\ bad' = IF Ev.hi <= Len(log) /\ ReadOk(Ev) THEN bad
                   ELSE Append(bad, [line |-> l, why |-> Why(Ev), exp |-> ExpDump(Ev)])

TraceNext == TReset \/ TCommit \/ TRead
TraceSpec == TraceInit /\ [][TraceNext]_tvars

TraceAccepted ==
  LET d == TLCGet("stats").diameter IN
  IF d - 1 = Len(TraceLog) THEN TRUE
  ELSE Print(<<"TRACE-REJECTED-AT-LINE", d, IF d <= Len(TraceLog) THEN TraceLog[d] ELSE "eof">>, FALSE)
ReportBad == (l = Len(TraceLog) + 1) => PrintT(<<"JSON:", ToJson([bad |-> bad, lines |-> Len(TraceLog)])>>)
=============================================================================
