------------------------------ MODULE TBTree ------------------------------
(***************************************************************************)
(* C10 - the timed B-tree (embedded/tbtree) as a multi-version ordered map *)
(* with immutable snapshots.                                               *)
(*                                                                         *)
(* Abstract state: map : key -> Seq([v, t]) (chronological), the logical   *)
(* time ts, open snapshots as frozen (map, ts) copies, readers as a        *)
(* (snapshot, spec, calls since the last reset) triple, the durable image  *)
(* of the live folder and the compaction dumps waiting for the next open.  *)
(* The copy-on-write node structure, the node cache and the flush          *)
(* thresholds are NOT modelled: they are the thing under test and are      *)
(* configuration classes of the replay harness (harness/cmd/c10).          *)
(*                                                                         *)
(* Every result of a read operation is a set comprehension over a map      *)
(* (GetRes, BetweenRes, HistoryRes, PrefixRes, RangeKeys, ...).            *)
(*                                                                         *)
(* Decisions are separated from transitions: which state a snapshot        *)
(* freezes is a decision of the implementation.  The property only says    *)
(* "one fixed state of the tree, no older than the ts it was asked to      *)
(* include".  Decision = "any" lets TLC take every admissible state,       *)
(* Decision = "code" is the transcription of                               *)
(* SnapshotMustIncludeTsWithRenewalPeriod (re-use of the last flushed root *)
(* unless it is older than the requested ts or renewal is due), with the   *)
(* threshold-driven flushes of BulkInsert/IncreaseTs covered by the        *)
(* explicit Flush action.  For replay the history records, for every read  *)
(* on a snapshot, the expected result for EVERY admissible state           *)
(* (candidates); the harness selects the candidate by the real             *)
(* Snapshot.Ts().                                                          *)
(*                                                                         *)
(* RollbackQuirk = TRUE transcribes bulkInsert's error path as pinned      *)
(* (a rejected bulk puts lastSnapRoot - or an empty leaf - back as root).  *)
(***************************************************************************)
EXTENDS Integers, Sequences, FiniteSets, TLC, Json

CONSTANTS Keys,          \* abstract keys: sequences of symbols (lexicographic order, prefix relation)
          Probes,        \* abstract byte strings used as seek/end/prefix/neq arguments (contains <<>>)
          MaxTs,         \* bound on the logical time
          MaxOps,        \* bound on the behaviour length
          MaxBulk,       \* entries per BulkInsert
          TChoices,      \* per entry: 0 = ts 0 (auto, current+1), d > 0 = explicit ts+d, 99 = explicit stale ts
          MaxSnaps, MaxReaders,
          MaxFail,       \* rejected operations per behaviour
          Decision,      \* "any" | "code" | "current"
          RollbackQuirk, \* TRUE: rejected bulk behaves as the pinned code
          ReadOps,       \* TRUE: point queries are actions (simulation); FALSE: only state changing actions
          Sim,           \* TRUE: parameters are drawn from the pseudo random stream rnd (one successor per action instance)
          SeedSpace,     \* simulation: number of initial values of rnd
          EmitDepth,     \* print the history as JSON when a behaviour has this many steps (0 = never)
          ScriptNo       \* 0: none; n in 1..NScripts: follow Scripts[n]; 99: every script (one initial state each);
                         \* 98: every reader-matrix script (MatrixScripts)
                         \* (directed behaviours; the expected results still come from this module)

\* key universes for the cfg files (a cfg cannot spell tuples): Keys <- Keys3 etc.
Keys3 == {<<1>>, <<1, 2>>, <<2>>}
Probes3 == {<<>>, <<1>>, <<2>>}
Keys5 == {<<1>>, <<1, 1>>, <<1, 3>>, <<2>>, <<2, 2>>}
Probes5 == Keys5 \cup {<<>>, <<1, 2>>, <<2, 1>>, <<3>>}       \* between keys, beyond the last key, empty

\* reader matrix: every string of up to two symbols over {1,2,3} is a probe (closed under prefixes); the stored keys
\* of the matrix trees leave probes below the first key, between keys and above the last key
ProbesAll == {<<>>} \cup {<<a>> : a \in 1..3} \cup {<<a, b>> : a, b \in 1..3}
KeysM == {<<1>>, <<1, 1>>, <<1, 3>>, <<2>>, <<2, 1>>, <<2, 2>>, <<2, 3>>, <<3>>, <<3, 2>>, <<3, 3>>}

VARIABLES map, ts,
          past,      \* ghost: every distinct state [map, ts] the tree went through (strictly increasing ts)
          snaps,     \* [1..MaxSnaps -> [open, j, map, ts, must, created]]
          readers,   \* [1..MaxReaders -> [open, snap, spec, calls]]
          base,      \* durable image of the live folder: [map, ts] as of the last flush
          liveId,    \* id (= ts at compaction) of the folder in use, 0 for the initial one
          pend,      \* compaction dumps on disk not yet chosen: set of [ts, map]
          lastFl,    \* "code" decision: index in past of lastSnapRoot (0 = nil)
          dirty,     \* "code" decision: root.mutated()
          nextv,     \* next fresh value atom
          nfail,
          rnd,       \* simulation only: state of the parameter generator
          hist
vars == <<map, ts, past, snaps, readers, base, liveId, pend, lastFl, dirty, nextv, nfail, rnd, hist>>

-----------------------------------------------------------------------------
MinOf(a, b) == IF a < b THEN a ELSE b
MaxOf(a, b) == IF a > b THEN a ELSE b
SMin(S) == CHOOSE x \in S : \A y \in S : x <= y
SMax(S) == CHOOSE x \in S : \A y \in S : x >= y
Rev(s) == [i \in 1..Len(s) |-> s[Len(s) + 1 - i]]
Drop(s, n) == IF n >= Len(s) THEN <<>> ELSE SubSeq(s, n + 1, Len(s))

\* lexicographic order on byte strings, prefix relation
Less(a, b) ==
  LET n == MinOf(Len(a), Len(b))
      d == {i \in 1..n : a[i] # b[i]}
  IN IF d = {} THEN Len(a) < Len(b) ELSE a[SMin(d)] < b[SMin(d)]
Leq(a, b) == a = b \/ Less(a, b)
HasPrefix(k, p) == Len(p) <= Len(k) /\ SubSeq(k, 1, Len(p)) = p

RECURSIVE SortKeys(_)
SortKeys(S) == IF S = {} THEN <<>>
               ELSE LET m == CHOOSE x \in S : \A y \in S : Leq(x, y) IN <<m>> \o SortKeys(S \ {m})
KeySeq == SortKeys(Keys)
EmptyMap == [k \in Keys |-> <<>>]
KeysOf(m) == {k \in Keys : m[k] # <<>>}

RECURSIVE SortInts(_)
SortInts(S) == IF S = {} THEN <<>> ELSE <<SMin(S)>> \o SortInts(S \ {SMin(S)})
ProbeSeq == SortKeys(Probes)

\* Parameters: every element when model checking.  When simulating, one element per action instance, drawn from
\* a Lehmer stream kept in rnd (TLC's RandomElement is strongly biased on small sets): R(n) is the n-th draw of
\* the step; an action instance with offset o uses the draws o+1, o+2, ...; every step advances the stream by 97.
\* x -> 75 x mod 46337 (75 is a primitive root of the prime 46337; all products stay below 2^31)
Pow75 == <<1, 75, 5625, 4842, 38791, 36431, 44779, 22161, 40280, 9095, 33407, 3327, 17840, 40564, 30395, 9112,
           34682, 6278, 7480, 4956, 1004, 28963, 40723, 42320, 23084, 16831, 11226, 7884, 35256, 2991, 38977, 4044,
           25278, 42370, 26834, 20059, 21641, 1280, 3326, 17765, 34939, 25553, 16658, 44588, 7836, 31656, 11013, 38246,
           41893, 37396, 24480, 28857, 32773, 2114, 19539, 28978, 41848, 34021, 3040, 42652, 1647, 30851, 43312, 4810,
           36391, 41779, 28846, 31948, 32913, 12614, 19310, 11803, 4822, 37291, 16605, 40613, 34070, 6715, 40255, 7220,
           31793, 21288, 21142, 10192, 23008, 11131, 759, 10588, 6371, 14455, 18374, 34277, 22240, 46205, 36437, 45229,
           9574, 22995, 10156, 20308, 40316, 11795, 4222, 38628, 24206, 8307, 20644, 19179, 1978, 9339, 5370, 32054,
           40863, 6483, 22855, 45993, 20537, 11154, 2484, 952, 25063, 26245, 22221, 44780, 22236, 45905, 13937, 25861>>       \* 75^n mod 46337, n = 0..127
R(n) == (rnd * Pow75[n + 1]) % 46337
At(seq, r) == seq[1 + (r % Len(seq))]
PickInt(S, o, n) == IF Sim THEN {At(SortInts(S), R(o + n))} ELSE S
PickKey(S, o, n) == IF Sim THEN {At(SortKeys(S), R(o + n))} ELSE S
PickBool(o, n) == IF Sim THEN {R(o + n) % 2 = 0} ELSE BOOLEAN
Chance(o, n, k) == R(o + n) % k = 0                 \* one in k

-----------------------------------------------------------------------------
(* Defined results.  Every result is a record with a tag r.               *)
NotFound(c) == [r |-> "notfound", cls |-> c]
NoMore == [r |-> "nomore"]
Entry(m, k, x) == [r |-> "ok", k |-> k, v |-> m[k][x].v, t |-> m[k][x].t, hc |-> x]

\* Get: latest version, its ts, number of versions
GetRes(m, k) == IF m[k] = <<>> THEN NotFound("nokey") ELSE Entry(m, k, Len(m[k]))

\* GetBetween(k, i, f), i <= f: the newest version with ts <= f (any if f = 0), provided its ts >= i; hc = its index
BetweenRes(m, k, i, f) ==
  IF m[k] = <<>> THEN NotFound("nokey")
  ELSE LET c == {x \in 1..Len(m[k]) : f = 0 \/ m[k][x].t <= f}
       IN IF c = {} THEN NotFound("final-below-oldest")
          ELSE IF m[k][SMax(c)].t < i THEN NotFound("gap") ELSE Entry(m, k, SMax(c))

\* History(k, offset, desc, limit): hCount versions; offset = hCount -> no more entries; offset > hCount -> out of range
HistoryRes(m, k, off, desc, lim) ==
  LET n == Len(m[k]) len == MinOf(lim, n - off) IN
  IF n = 0 THEN NotFound("nokey")
  ELSE IF off = n THEN NoMore
  ELSE IF off > n THEN [r |-> "outofrange"]
  ELSE [r |-> "ok", hc |-> n,
        tvs |-> IF desc THEN [x \in 1..len |-> m[k][n - off - x + 1]] ELSE SubSeq(m[k], off + 1, off + len)]

\* GetWithPrefix(p, neq): the first key >= p and (neq empty or key > neq); found iff p is a prefix of it
PrefixRes(m, p, neq) ==
  LET c == {k \in KeysOf(m) : Leq(p, k) /\ (neq = <<>> \/ Less(neq, k))} IN
  IF c = {} THEN NotFound("none")
  ELSE LET k == CHOOSE x \in c : \A y \in c : Leq(x, y)
       IN IF HasPrefix(k, p) THEN GetRes(m, k) ELSE NotFound("first-has-other-prefix")

\* Range readers.  An empty seek/end key is "unbounded"; seek is the lower bound ascending and the upper bound
\* descending; keys must carry the prefix; the first `off` keys of the range are skipped.
LowerOK(k, b, incl) == b = <<>> \/ Less(b, k) \/ (incl /\ b = k)
UpperOK(k, b, incl) == b = <<>> \/ Less(k, b) \/ (incl /\ b = k)
InRange(k, sp) ==
  /\ HasPrefix(k, sp.prefix)
  /\ IF sp.desc THEN UpperOK(k, sp.seek, sp.iseek) /\ LowerOK(k, sp.end, sp.iend)
                ELSE LowerOK(k, sp.seek, sp.iseek) /\ UpperOK(k, sp.end, sp.iend)
RangeKeys(m, sp) ==
  LET asc == SelectSeq(KeySeq, LAMBDA k : m[k] # <<>> /\ InRange(k, sp))
  IN Drop(IF sp.desc THEN Rev(asc) ELSE asc, sp.off)

\* reader with IncludeHistory: every version of every key of the range, oldest first (newest first when desc);
\* hc is the version's chronological index
RECURSIVE Flat(_, _, _, _)
Flat(m, K, i, desc) ==
  IF i > Len(K) THEN <<>>
  ELSE LET n == Len(m[K[i]])
           vs == [x \in 1..n |-> Entry(m, K[i], IF desc THEN n + 1 - x ELSE x)]
       IN vs \o Flat(m, K, i + 1, desc)

\* result of the last call of `calls` on a fresh (or reset) reader over map m.
\* plain reader: Read takes the next key, ReadBetween(i, f) the next key that has a version in the window.
RECURSIVE PlainRun(_, _, _, _, _)
PlainRun(m, K, calls, i, c) ==
  LET call == calls[i]
      q == IF call.op = "read" THEN (IF c < Len(K) THEN {c + 1} ELSE {})
           ELSE {x \in (c + 1)..Len(K) : BetweenRes(m, K[x], call.i, call.f).r = "ok"}
      res == IF q = {} THEN NoMore
             ELSE IF call.op = "read" THEN GetRes(m, K[SMin(q)]) ELSE BetweenRes(m, K[SMin(q)], call.i, call.f)
      c2 == IF q # {} THEN SMin(q) ELSE IF call.op = "read" THEN c ELSE Len(K)
  IN IF i = Len(calls) THEN res ELSE PlainRun(m, K, calls, i + 1, c2)

\* HistoryReader: pages of History(key, offset, desc, limit), offset advancing by the page length
RECURSIVE PageRun(_, _, _, _, _)
PageRun(m, sp, n, i, off) ==
  LET res == HistoryRes(m, sp.key, off, sp.desc, sp.lim)
  IN IF i = n THEN res ELSE PageRun(m, sp, n, i + 1, IF res.r = "ok" THEN off + Len(res.tvs) ELSE off)

ReaderRes(m, sp, calls) ==
  CASE sp.kind = "plain" -> PlainRun(m, RangeKeys(m, sp), calls, 1, 0)
    [] sp.kind = "hist"  -> LET F == Flat(m, RangeKeys(m, sp), 1, sp.desc)
                            IN IF Len(calls) <= Len(F) THEN F[Len(calls)] ELSE NoMore
    [] sp.kind = "pages" -> PageRun(m, sp, Len(calls), 1, sp.off)

\* a reader with IncludeHistory is in the middle of a key's versions after n reads
MidKey(m, sp, calls) ==
  sp.kind = "hist" /\ LET F == Flat(m, RangeKeys(m, sp), 1, sp.desc) n == Len(calls)
                      IN n >= 1 /\ n < Len(F) /\ F[n].k = F[n + 1].k

-----------------------------------------------------------------------------
(* Snapshots: admissible frozen states.                                    *)
NoSnap == [open |-> FALSE, j |-> 0, map |-> EmptyMap, ts |-> 0, must |-> 0, created |-> 0]
NoReader == [open |-> FALSE, snap |-> 0, spec |-> [kind |-> "none"], calls |-> <<>>]
OpenSnaps == {s \in 1..MaxSnaps : snaps[s].open}
OpenReaders == {r \in 1..MaxReaders : readers[r].open}

Admissible(must, upto) == {i \in 1..upto : past[i].ts >= must}
CandSeq(S) == LET RECURSIVE Up(_)
                  Up(T) == IF T = {} THEN <<>> ELSE <<SMin(T)>> \o Up(T \ {SMin(T)})
              IN Up(S)
\* candidates of a read target: 0 = the tree itself (current state), s = snapshot slot
Cands(tg) == IF tg = 0 THEN <<Len(past)>> ELSE CandSeq(Admissible(snaps[tg].must, snaps[tg].created))
ExpFor(tg, F(_)) == LET C == Cands(tg) IN [c \in 1..Len(C) |-> [ts |-> past[C[c]].ts, res |-> F(past[C[c]].map)]]

StJson(m) == [i \in 1..Len(KeySeq) |-> [x \in 1..Len(m[KeySeq[i]]) |-> <<m[KeySeq[i]][x].v, m[KeySeq[i]][x].t>>]]

NScripts == 5
NMatrix == 3
Init ==
  /\ map = EmptyMap /\ ts = 0 /\ past = <<[map |-> EmptyMap, ts |-> 0]>>
  /\ snaps = [s \in 1..MaxSnaps |-> NoSnap] /\ readers = [r \in 1..MaxReaders |-> NoReader]
  /\ base = [map |-> EmptyMap, ts |-> 0] /\ liveId = 0 /\ pend = {}
  /\ lastFl = 0 /\ dirty = TRUE      \* a fresh tree starts with a mutated empty leaf and no stored root
  /\ nextv = 1 /\ nfail = 0 /\ hist = <<>>
  /\ rnd \in (IF Sim THEN 1..SeedSpace ELSE IF ScriptNo = 99 THEN 1..NScripts ELSE IF ScriptNo = 98 THEN 1..NMatrix ELSE {1})

CanStep == Len(hist) < MaxOps
\* every history entry carries the abstract state after the step
Advance == rnd' = IF Sim THEN R(97) ELSE rnd
Log(e) == hist' = Append(hist, e @@ [ts |-> ts', st |-> StJson(map')]) /\ Advance      \* after map'/ts' are determined
LogSame(e) == hist' = Append(hist, e @@ [ts |-> ts, st |-> StJson(map)]) /\ Advance   \* steps that leave map/ts alone

\* the state changes: map/ts move, the ghost history grows
Moves(m2, t2) == /\ map' = m2 /\ ts' = t2 /\ past' = Append(past, [map |-> m2, ts |-> t2])

\* "code" decision: a mutating call leaves the root mutated.  The threshold driven flushes inside BulkInsert and
\* IncreaseTs (flush threshold, buffered data size) are the composition of this step with a Flush step before or
\* after it, so they add no reachable (lastFl, dirty, base) and are not separate choices.
Mutated == IF Decision = "code" THEN dirty' = TRUE /\ UNCHANGED <<lastFl, base>> ELSE UNCHANGED <<lastFl, dirty, base>>

-----------------------------------------------------------------------------
(* BulkInsert                                                              *)
StaleT == 99                                                            \* TChoices element: explicit ts = current ts
RawT(c) == IF c = 0 THEN 0 ELSE IF c = StaleT THEN ts ELSE ts + c     \* what is passed as KVT.T
EffT(c) == IF c = 0 THEN ts + 1 ELSE RawT(c)
BulkShapes == UNION {[1..n -> Keys \X TChoices] : n \in 1..MaxBulk}
\* accepted iff no explicit ts is <= the current ts and the ts of a repeated key never decreases inside the bulk
Stale(sh) == \E i \in 1..Len(sh) : sh[i][2] = StaleT
Descending(sh) == \E i, j \in 1..Len(sh) : i < j /\ sh[i][1] = sh[j][1] /\ EffT(sh[i][2]) > EffT(sh[j][2])
RECURSIVE ApplyBulk(_, _, _)
ApplyBulk(m, kv, i) ==          \* same-ts re-insert of a key is ignored (the first value stays)
  IF i > Len(kv) THEN m
  ELSE LET e == kv[i] old == m[e.k]
       IN ApplyBulk(IF old # <<>> /\ old[Len(old)].t = e.t THEN m
                    ELSE [m EXCEPT ![e.k] = Append(old, [v |-> e.v, t |-> e.t])], kv, i + 1)

\* simulation: a random shape (bias: one in three entries repeats the previous key); a shape that would be rejected
\* is made acceptable (ts 0 everywhere) once the budget of rejected calls is used up
TSeq == SortInts(TChoices)
SimShape(o) ==
  LET n == 1 + (R(o + 1) % MaxBulk)
      key(i) == At(KeySeq, R(o + 2 * i))
      raw == [i \in 1..n |-> <<IF i > 1 /\ Chance(o, 20 + i, 3) THEN key(i - 1) ELSE key(i),
                               LET c == At(TSeq, R(o + 2 * i + 1))
                               IN IF c = StaleT /\ (ts = 0 \/ ~Chance(o, 30 + i, 4)) THEN 0 ELSE c>>]
  IN IF (Stale(raw) \/ Descending(raw)) /\ nfail >= MaxFail THEN [i \in 1..n |-> <<raw[i][1], 0>>] ELSE raw

BulkInsert(o) ==
  /\ CanStep /\ ts + 2 <= MaxTs
  /\ \E sh \in (IF Sim THEN {SimShape(o)} ELSE {x \in BulkShapes : \A i \in 1..Len(x) : x[i][2] = StaleT => ts >= 1}) :
       LET kv == [i \in 1..Len(sh) |-> [k |-> sh[i][1], v |-> nextv + i - 1, t |-> EffT(sh[i][2])]]
           raw == [i \in 1..Len(sh) |-> [k |-> sh[i][1], v |-> nextv + i - 1, t |-> RawT(sh[i][2])]]
           newts == SMax({kv[i].t : i \in 1..Len(kv)})
       IN /\ nextv' = nextv + Len(sh)
          /\ IF ~Stale(sh) /\ ~Descending(sh)
             THEN /\ Moves(ApplyBulk(map, kv, 1), newts)
                  /\ Mutated
                  /\ UNCHANGED nfail
                  /\ Log([op |-> "bulk", kvts |-> raw, ok |-> TRUE, why |-> ""])
             ELSE /\ nfail < MaxFail /\ nfail' = nfail + 1
                  /\ IF RollbackQuirk /\ ~Stale(sh) /\ dirty
                     THEN \* pinned code: the most recent stored root (or an empty leaf) becomes the root again
                          /\ map' = IF lastFl = 0 THEN EmptyMap ELSE past[lastFl].map
                          /\ ts' = IF lastFl = 0 THEN 0 ELSE past[lastFl].ts
                          /\ UNCHANGED <<past, lastFl, dirty, base>>
                     ELSE UNCHANGED <<map, ts, past, lastFl, dirty, base>>
                  /\ Log([op |-> "bulk", kvts |-> raw, ok |-> FALSE,
                          why |-> IF Stale(sh) THEN "stale-ts" ELSE "descending-ts"])
  /\ UNCHANGED <<snaps, readers, liveId, pend>>

IncreaseTs(o) ==
  /\ CanStep
  /\ \E d \in (IF Sim THEN {IF nfail < MaxFail /\ Chance(o, 1, 5) THEN 0 ELSE 1 + (R(o + 2) % 2)} ELSE 0..2) :
       /\ ts + d <= MaxTs
       /\ IF d > 0
          THEN /\ Moves(map, ts + d) /\ Mutated /\ UNCHANGED nfail
               /\ Log([op |-> "incts", to |-> ts + d, ok |-> TRUE])
          ELSE /\ nfail < MaxFail /\ nfail' = nfail + 1       \* not greater than the current ts: rejected
               /\ UNCHANGED <<map, ts, past, lastFl, dirty, base>>
               /\ Log([op |-> "incts", to |-> ts, ok |-> FALSE])
  /\ UNCHANGED <<snaps, readers, liveId, pend, nextv>>

-----------------------------------------------------------------------------
(* Snapshots and readers                                                   *)
\* decision operator: which element of past the snapshot freezes; second component: the call flushed
SnapshotRoot(must, renew) ==
  CASE Decision = "current" -> {<<Len(past), TRUE>>}
    [] Decision = "any"     -> {<<j, FALSE>> : j \in Admissible(must, Len(past))}
    [] Decision = "code"    ->
         IF dirty /\ (lastFl = 0 \/ past[lastFl].ts < must \/ renew) THEN {<<Len(past), TRUE>>}   \* flush, current root
         ELSE IF dirty THEN {<<lastFl, FALSE>>}                                                      \* re-use the stored root
         ELSE {<<Len(past), TRUE>>}                                                                  \* root is stored: use it

\* requested ts: model checking: 0, the previous state's ts, the current ts, a future ts (rejected);
\* simulation: any past ts, 0 half of the time, a future ts now and then
Musts(o) == IF Sim THEN {IF nfail < MaxFail /\ Chance(o, 1, 9) THEN ts + 1
                         ELSE IF Chance(o, 2, 2) THEN 0 ELSE past[1 + (R(o + 3) % Len(past))].ts}
            ELSE {0, ts, ts + 1} \cup {past[i].ts : i \in MaxOf(1, Len(past) - 1)..Len(past)}
Snapshot(o) ==
  /\ CanStep
  /\ \E s \in {x \in 1..MaxSnaps : ~snaps[x].open /\ \A y \in 1..MaxSnaps : (y < x) => snaps[y].open} :
     \E must \in Musts(o), renew \in PickBool(o, 4) :
       IF must > ts
       THEN /\ nfail < MaxFail /\ nfail' = nfail + 1        \* ts greater than the current ts: rejected
            /\ UNCHANGED <<snaps, lastFl, dirty, base>>
            /\ LogSame([op |-> "snap", s |-> s, must |-> must, renew |-> renew, ok |-> FALSE, cands |-> <<>>])
       ELSE \E d \in SnapshotRoot(must, renew) :
            /\ snaps' = [snaps EXCEPT ![s] = [open |-> TRUE, j |-> d[1], map |-> past[d[1]].map, ts |-> past[d[1]].ts,
                                              must |-> must, created |-> Len(past)]]
            /\ IF Decision = "code" /\ d[2]
               THEN dirty' = FALSE /\ lastFl' = Len(past) /\ base' = [map |-> map, ts |-> ts]
               ELSE UNCHANGED <<lastFl, dirty, base>>
            /\ UNCHANGED nfail
            /\ LogSame([op |-> "snap", s |-> s, must |-> must, renew |-> renew, ok |-> TRUE,
                        cands |-> LET C == CandSeq(Admissible(must, Len(past)))
                                  IN [c \in 1..Len(C) |-> [ts |-> past[C[c]].ts, st |-> StJson(past[C[c]].map)]]])
  /\ UNCHANGED <<map, ts, past, readers, liveId, pend, nextv>>

\* simulation: once the budget of rejected calls is used up only snapshots without readers are closed
Closable == IF nfail < MaxFail THEN OpenSnaps ELSE {s \in OpenSnaps : \A r \in OpenReaders : readers[r].snap # s}
CloseSnapshot(o) ==
  /\ CanStep /\ OpenSnaps # {} /\ (Sim => Closable # {})
  /\ \E s \in PickInt(IF Sim THEN Closable ELSE OpenSnaps, o, 1) :
       IF \E r \in OpenReaders : readers[r].snap = s
       THEN /\ nfail < MaxFail /\ nfail' = nfail + 1 /\ UNCHANGED snaps      \* readers not closed: rejected
            /\ LogSame([op |-> "closesnap", s |-> s, ok |-> FALSE])
       ELSE /\ snaps' = [snaps EXCEPT ![s] = NoSnap] /\ UNCHANGED nfail
            /\ LogSame([op |-> "closesnap", s |-> s, ok |-> TRUE])
  /\ UNCHANGED <<map, ts, past, readers, base, liveId, pend, lastFl, dirty, nextv>>

\* reader specifications: a small fixed set when model checking, random when simulating
ModelSpecs ==
  {[kind |-> "hist", seek |-> <<>>, end |-> <<>>, prefix |-> <<>>, iseek |-> FALSE, iend |-> FALSE, desc |-> FALSE, off |-> 0],
   [kind |-> "plain", seek |-> <<>>, end |-> <<>>, prefix |-> <<1>>, iseek |-> TRUE, iend |-> TRUE, desc |-> TRUE, off |-> 0]}
SimSpec(o) ==
  IF Chance(o, 2, 6)
  THEN [kind |-> "pages", off |-> R(o + 4) % 3, desc |-> R(o + 5) % 2 = 0, lim |-> 1 + (R(o + 6) % 3),
        key |-> IF KeysOf(map) # {} /\ ~Chance(o, 7, 4) THEN At(SortKeys(KeysOf(map)), R(o + 3)) ELSE At(KeySeq, R(o + 3))]
  ELSE LET pfx == IF Chance(o, 8, 2) THEN <<>> ELSE At(ProbeSeq, R(o + 9)) IN        \* one in four bounds equals the prefix
       [kind |-> IF Chance(o, 3, 3) THEN "hist" ELSE "plain",
        seek |-> IF Chance(o, 4, 3) THEN <<>> ELSE IF Chance(o, 15, 4) THEN pfx ELSE At(ProbeSeq, R(o + 5)),
        end |-> IF Chance(o, 6, 2) THEN <<>> ELSE IF Chance(o, 16, 4) THEN pfx ELSE At(ProbeSeq, R(o + 7)),
        prefix |-> pfx,
        iseek |-> R(o + 10) % 2 = 0, iend |-> R(o + 11) % 2 = 0, desc |-> R(o + 12) % 2 = 0,
        off |-> IF Chance(o, 13, 3) THEN 1 + (R(o + 14) % 2) ELSE 0]

NewReader(o) ==
  /\ CanStep /\ OpenSnaps # {}
  /\ \E r \in {x \in 1..MaxReaders : ~readers[x].open /\ \A y \in 1..MaxReaders : (y < x) => readers[y].open} :
     \E s \in PickInt(OpenSnaps, o, 1) : \E sp \in (IF Sim THEN {SimSpec(o)} ELSE ModelSpecs) :
       /\ readers' = [readers EXCEPT ![r] = [open |-> TRUE, snap |-> s, spec |-> sp, calls |-> <<>>]]
       /\ LogSame([op |-> "newreader", rd |-> r, s |-> s, spec |-> sp])
  /\ UNCHANGED <<map, ts, past, snaps, base, liveId, pend, lastFl, dirty, nextv, nfail>>

\* time windows initial <= final; final = 0 means "no upper bound" and then initial must be 0
Windows == {x \in (0..(ts + 1)) \X (0..(ts + 1)) : x[1] <= x[2]}
SimWindow(o, n) == LET a == R(o + n) % (ts + 2) b == R(o + n + 1) % (ts + 2) IN {<<MinOf(a, b), MaxOf(a, b)>>}

ReaderCall(o) ==
  /\ CanStep /\ OpenReaders # {}
  /\ \E r \in PickInt(OpenReaders, o, 1) :
     \E call \in (IF readers[r].spec.kind # "plain" THEN {[op |-> "read"]}
                  ELSE IF ~Sim THEN {[op |-> "read"], [op |-> "between", i |-> 1, f |-> 2]}
                  ELSE IF Chance(o, 2, 3) THEN {[op |-> "between", i |-> w[1], f |-> w[2]] : w \in SimWindow(o, 3)}
                  ELSE {[op |-> "read"]}) :
       LET calls == Append(readers[r].calls, call) IN
       /\ readers' = [readers EXCEPT ![r].calls = calls]
       /\ LogSame([op |-> "rread", rd |-> r, call |-> call,
                   exp |-> ExpFor(readers[r].snap, LAMBDA m : ReaderRes(m, readers[r].spec, calls))])
  /\ UNCHANGED <<map, ts, past, snaps, base, liveId, pend, lastFl, dirty, nextv, nfail>>

ReaderReset(o) ==
  /\ CanStep
  /\ LET C == {x \in OpenReaders : readers[x].spec.kind # "pages" /\ readers[x].calls # <<>>} IN
     /\ C # {}
     /\ \E r \in PickInt(C, o, 1) :
          /\ readers' = [readers EXCEPT ![r].calls = <<>>]
          /\ LogSame([op |-> "rreset", rd |-> r,
                      exp |-> ExpFor(readers[r].snap, LAMBDA m : [r |-> "ok", mid |-> MidKey(m, readers[r].spec, readers[r].calls)])])
  /\ UNCHANGED <<map, ts, past, snaps, base, liveId, pend, lastFl, dirty, nextv, nfail>>

CloseReader(o) ==
  /\ CanStep /\ OpenReaders # {}
  /\ \E r \in PickInt(OpenReaders, o, 1) :
       /\ readers' = [readers EXCEPT ![r] = NoReader]
       /\ LogSame([op |-> "rclose", rd |-> r])
  /\ UNCHANGED <<map, ts, past, snaps, base, liveId, pend, lastFl, dirty, nextv, nfail>>

-----------------------------------------------------------------------------
(* Point queries on the tree (target 0) or on a snapshot                   *)
Targets == {0} \cup OpenSnaps
\* simulation: three of four queries ask for a key that exists in the current state
QKeys(o, n) == IF ~Sim THEN Keys
               ELSE IF KeysOf(map) # {} /\ ~Chance(o, n + 20, 4) THEN {At(SortKeys(KeysOf(map)), R(o + n))} ELSE PickKey(Keys, o, n)
Query(o) ==
  /\ ReadOps /\ CanStep
  /\ \E tg \in PickInt(Targets, o, 1) : \E kind \in PickInt(1..4, o, 2) :
       CASE kind = 1 ->
              \E k \in QKeys(o, 3) :
                LogSame([op |-> "get", tg |-> tg, k |-> k, exp |-> ExpFor(tg, LAMBDA m : GetRes(m, k))])
         [] kind = 2 ->
              \E k \in QKeys(o, 3), w \in (IF Sim THEN SimWindow(o, 4) ELSE Windows) :
                LogSame([op |-> "between", tg |-> tg, k |-> k, i |-> w[1], f |-> w[2],
                         exp |-> ExpFor(tg, LAMBDA m : BetweenRes(m, k, w[1], w[2]))])
         [] kind = 3 ->
              \E k \in QKeys(o, 3), off \in PickInt(0..4, o, 4), desc \in PickBool(o, 5), lim \in PickInt(1..4, o, 6) :
                LogSame([op |-> "history", tg |-> tg, k |-> k, off |-> off, desc |-> desc, lim |-> lim,
                         exp |-> ExpFor(tg, LAMBDA m : HistoryRes(m, k, off, desc, lim))])
         [] kind = 4 ->
              \E p \in PickKey(Probes, o, 3), neq \in (IF Sim /\ Chance(o, 4, 2) THEN {<<>>} ELSE PickKey(Probes, o, 5)) :
                LogSame([op |-> "prefix", tg |-> tg, p |-> p, neq |-> neq, exp |-> ExpFor(tg, LAMBDA m : PrefixRes(m, p, neq))])
  /\ UNCHANGED <<map, ts, past, snaps, readers, base, liveId, pend, lastFl, dirty, nextv, nfail>>

-----------------------------------------------------------------------------
(* Flush / Sync / Compact / Close+Open                                     *)
Flush(o) ==
  /\ CanStep
  /\ \E cl \in PickInt({0, 50, 100}, o, 1), sy \in PickBool(o, 2) :
       LogSame([op |-> "flush", cleanup |-> cl, synced |-> sy])
  /\ base' = [map |-> map, ts |-> ts]
  /\ IF Decision = "code" THEN dirty' = FALSE /\ lastFl' = Len(past) ELSE UNCHANGED <<dirty, lastFl>>
  /\ UNCHANGED <<map, ts, past, snaps, readers, liveId, pend, nextv, nfail>>

Sync ==
  /\ CanStep
  /\ LogSame([op |-> "sync"])
  /\ base' = [map |-> map, ts |-> ts]
  /\ IF Decision = "code" THEN dirty' = FALSE /\ lastFl' = Len(past) ELSE UNCHANGED <<dirty, lastFl>>
  /\ UNCHANGED <<map, ts, past, snaps, readers, liveId, pend, nextv, nfail>>

\* Compact flushes, then dumps the current root into the folder named after its ts and reports that ts.  It is
\* refused when that folder already exists (ts 0 is the initial folder).  The live tree is not affected.
CompactTargetExists == ts = liveId \/ \E p \in pend : p.ts = ts
Compact ==
  /\ CanStep
  /\ IF CompactTargetExists
     THEN /\ nfail < MaxFail /\ nfail' = nfail + 1 /\ UNCHANGED pend
          /\ LogSame([op |-> "compact", ok |-> FALSE, at |-> ts])
     ELSE /\ pend' = pend \cup {[ts |-> ts, map |-> map]} /\ UNCHANGED nfail
          /\ LogSame([op |-> "compact", ok |-> TRUE, at |-> ts])
  /\ base' = [map |-> map, ts |-> ts]
  /\ IF Decision = "code" THEN dirty' = FALSE /\ lastFl' = Len(past) ELSE UNCHANGED <<dirty, lastFl>>
  /\ UNCHANGED <<map, ts, past, snaps, readers, liveId, nextv>>

\* Close (refused while snapshots are open; it flushes) followed by Open: the newest compaction dump is loaded if
\* there is one (the tree is then the state at the ts the compaction reported), otherwise the live folder.
Reopen ==
  /\ CanStep
  /\ IF OpenSnaps # {}
     THEN /\ nfail < MaxFail /\ nfail' = nfail + 1
          /\ UNCHANGED <<map, ts, past, base, liveId, pend, lastFl, dirty>>
          /\ LogSame([op |-> "reopen", ok |-> FALSE, from |-> 0])
     ELSE LET closed == [map |-> map, ts |-> ts]                       \* Close flushes the live folder
              id == IF pend = {} THEN liveId ELSE SMax({p.ts : p \in pend})
              img == IF pend = {} THEN closed ELSE CHOOSE p \in pend : p.ts = id
          IN /\ map' = img.map /\ ts' = img.ts
             /\ past' = SubSeq(past, 1, SMax({i \in 1..Len(past) : past[i].ts <= img.ts}))
             /\ base' = [map |-> img.map, ts |-> img.ts] /\ liveId' = id /\ pend' = {}
             /\ lastFl' = 0 /\ dirty' = FALSE
             /\ UNCHANGED nfail
             /\ Log([op |-> "reopen", ok |-> TRUE, from |-> id])
  /\ UNCHANGED <<snaps, readers, nextv>>

McNext == BulkInsert(0) \/ IncreaseTs(0) \/ Snapshot(0) \/ CloseSnapshot(0) \/ NewReader(0) \/ ReaderCall(0)
          \/ ReaderReset(0) \/ CloseReader(0) \/ Query(0) \/ Flush(0) \/ Sync \/ Compact \/ Reopen
\* Simulation: TLC's simulator evaluates every successor of every state, so a step has exactly one successor:
\* the operation is drawn from a weighted table (first enabled entry from a random position), its parameters
\* from the same stream.  Guards as state predicates:
Guard(a) ==
  CASE a = "bulk"      -> ts + 2 <= MaxTs
    [] a = "incts"     -> ts + 2 <= MaxTs
    [] a = "snap"      -> \E x \in 1..MaxSnaps : ~snaps[x].open
    [] a = "closesnap" -> Closable # {}
    [] a = "newreader" -> OpenSnaps # {} /\ \E x \in 1..MaxReaders : ~readers[x].open
    [] a = "rcall"     -> OpenReaders # {}
    [] a = "rreset"    -> \E x \in OpenReaders : readers[x].spec.kind # "pages" /\ readers[x].calls # <<>>
    [] a = "rclose"    -> OpenReaders # {}
    [] a = "compact"   -> ~CompactTargetExists \/ nfail < MaxFail
    [] a = "reopen"    -> OpenSnaps = {} \/ nfail < MaxFail
    [] OTHER           -> TRUE
\* (an entry that is not enabled passes its turn to the next one: reader calls fall back to creating a reader,
\* that to taking a snapshot)
Table == <<"bulk", "rcall", "newreader", "snap", "query", "bulk", "rcall", "newreader", "snap", "bulk", "query", "flush",
           "bulk", "rreset", "rcall", "newreader", "snap", "query", "bulk", "closesnap", "rclose", "incts", "bulk", "query",
           "rcall", "newreader", "snap", "compact", "bulk", "rreset", "rcall", "newreader", "query", "reopen", "bulk",
           "rcall", "rclose", "closesnap", "sync", "bulk", "query", "flush">>
Sel == LET n == Len(Table) start == R(90) % n
           rot(i) == Table[1 + ((start + i) % n)]
       IN rot(SMin({i \in 0..(n - 1) : Guard(rot(i))}))
SimNext ==
  LET a == Sel IN
  CASE a = "bulk" -> BulkInsert(0)      [] a = "query" -> Query(0)             [] a = "snap" -> Snapshot(0)
    [] a = "newreader" -> NewReader(0)  [] a = "rcall" -> ReaderCall(0)        [] a = "rreset" -> ReaderReset(0)
    [] a = "rclose" -> CloseReader(0)   [] a = "closesnap" -> CloseSnapshot(0) [] a = "incts" -> IncreaseTs(0)
    [] a = "flush" -> Flush(0)          [] a = "sync" -> Sync                  [] a = "compact" -> Compact
    [] a = "reopen" -> Reopen
\* Directed behaviours: a script fixes the operation and its arguments step by step (the model-checking actions
\* filtered by MatchStep); TLC computes the expected results and states as for any other behaviour.
\* a = <<1>>, b = <<2>>, c = <<1, 2>>.
B(k, t) == <<k, t>>
Scripts == <<
  \* 1: a window below the oldest version of a key whose older versions were flushed together, after another key's
  \*    history was flushed first
  <<[op |-> "bulk", kv |-> <<B(<<1>>, 0)>>], [op |-> "bulk", kv |-> <<B(<<1>>, 0)>>], [op |-> "flush", cleanup |-> 0, synced |-> FALSE],
    [op |-> "bulk", kv |-> <<B(<<2>>, 0)>>], [op |-> "bulk", kv |-> <<B(<<2>>, 0)>>], [op |-> "bulk", kv |-> <<B(<<2>>, 0)>>],
    [op |-> "flush", cleanup |-> 0, synced |-> FALSE],
    [op |-> "between", tg |-> 0, k |-> <<2>>, i |-> 0, f |-> 2], [op |-> "between", tg |-> 0, k |-> <<2>>, i |-> 1, f |-> 2],
    [op |-> "between", tg |-> 0, k |-> <<2>>, i |-> 3, f |-> 4], [op |-> "get", tg |-> 0, k |-> <<2>>]>>,
  \* 2: Reset of a reader with IncludeHistory in the middle of a key's versions
  <<[op |-> "bulk", kv |-> <<B(<<1>>, 0)>>], [op |-> "bulk", kv |-> <<B(<<1>>, 0)>>], [op |-> "bulk", kv |-> <<B(<<1>>, 0)>>],
    [op |-> "bulk", kv |-> <<B(<<2>>, 0)>>], [op |-> "snap", must |-> 4, renew |-> FALSE],
    [op |-> "newreader", kind |-> "hist"], [op |-> "rread"], [op |-> "rreset"], [op |-> "rread"], [op |-> "rread"],
    [op |-> "rread"], [op |-> "rread"], [op |-> "rread"]>>,
  \* 3: a rejected bulk (ts of a repeated key decreases) after inserts that were not flushed yet
  <<[op |-> "bulk", kv |-> <<B(<<1>>, 0)>>], [op |-> "flush", cleanup |-> 0, synced |-> TRUE], [op |-> "bulk", kv |-> <<B(<<2>>, 0)>>],
    [op |-> "bulk", kv |-> <<B(<<1, 2>>, 4), B(<<1, 2>>, 3)>>], [op |-> "get", tg |-> 0, k |-> <<2>>],
    [op |-> "bulk", kv |-> <<B(<<1, 2>>, 0)>>]>>,
  \* 4: the same after a restart (no stored root in memory)
  <<[op |-> "bulk", kv |-> <<B(<<1>>, 0)>>], [op |-> "reopen"], [op |-> "bulk", kv |-> <<B(<<2>>, 0)>>],
    [op |-> "bulk", kv |-> <<B(<<1, 2>>, 4), B(<<1, 2>>, 3)>>], [op |-> "get", tg |-> 0, k |-> <<1>>], [op |-> "reopen"],
    [op |-> "get", tg |-> 0, k |-> <<1>>]>>,
  \* 5: compaction, more inserts, restart: the tree is the state at the reported ts; second restart keeps it
  <<[op |-> "bulk", kv |-> <<B(<<1>>, 0), B(<<2>>, 0)>>], [op |-> "bulk", kv |-> <<B(<<1>>, 0)>>], [op |-> "compact"],
    [op |-> "bulk", kv |-> <<B(<<1>>, 0), B(<<1, 2>>, 0)>>], [op |-> "compact"], [op |-> "bulk", kv |-> <<B(<<2>>, 0)>>],
    [op |-> "reopen"], [op |-> "history", tg |-> 0, k |-> <<1>>, off |-> 0, desc |-> TRUE, lim |-> 4], [op |-> "bulk", kv |-> <<B(<<2>>, 0)>>],
    [op |-> "reopen"], [op |-> "get", tg |-> 0, k |-> <<2>>]>>
>>
\* Reader matrix scripts: build a small tree (some versions flushed to the history log, some not), take a snapshot
\* of the current state and enumerate EVERY reader specification over the probe universe on it.
MatrixScripts == <<
  \* stored: <<2>> (a stored key that is the prefix of other stored keys), <<2,1>>, <<2,3>>, <<3>>, <<3,2>>;
  \* absent: everything below (<<1>>..), <<2,2>> and <<3,1>> in between, <<3,3>> above
  <<[op |-> "bulk", kv |-> <<B(<<2>>, 0), B(<<2, 1>>, 0), B(<<3>>, 0)>>], [op |-> "bulk", kv |-> <<B(<<2>>, 0), B(<<2, 3>>, 0)>>],
    [op |-> "flush", cleanup |-> 0, synced |-> TRUE], [op |-> "bulk", kv |-> <<B(<<2>>, 0), B(<<3, 2>>, 0), B(<<3>>, 0)>>],
    [op |-> "snap", must |-> 3, renew |-> FALSE], [op |-> "matrix"]>>,
  \* stored: the smallest and the greatest key of the universe, <<1>> with its extensions, <<2,2>> without its prefix <<2>>
  <<[op |-> "bulk", kv |-> <<B(<<1>>, 0), B(<<1, 1>>, 0), B(<<3, 3>>, 0)>>], [op |-> "bulk", kv |-> <<B(<<1, 3>>, 0), B(<<2, 2>>, 0), B(<<1, 3>>, 0)>>],
    [op |-> "bulk", kv |-> <<B(<<1, 3>>, 0)>>], [op |-> "snap", must |-> 3, renew |-> TRUE], [op |-> "matrix"]>>,
  \* a single stored key, and its extension
  <<[op |-> "bulk", kv |-> <<B(<<2>>, 0)>>], [op |-> "bulk", kv |-> <<B(<<2>>, 0), B(<<2, 2>>, 0)>>],
    [op |-> "snap", must |-> 2, renew |-> FALSE], [op |-> "matrix"]>>
>>
ASSUME NScripts = Len(Scripts) /\ NMatrix = Len(MatrixScripts)
Script == IF ScriptNo = 0 THEN <<>> ELSE IF ScriptNo = 99 THEN Scripts[rnd]           \* rnd is constant unless Sim
          ELSE IF ScriptNo = 98 THEN MatrixScripts[rnd] ELSE Scripts[ScriptNo]

\* The matrix: (prefix, seek, end) over ALL probes x inclusive seek x inclusive end x order for plain readers without
\* offset; over the reduced probes additionally IncludeHistory and offsets 1, 2.  A case is the tuple
\* <<prefix, seek, end (indexes into ProbeSeq), iseek, iend, desc, off, hist, out>>, out = sequence of
\* <<key (index into KeySeq), version (chronological index = hc)>> the reader must return before "no more entries".
RedProbes == {<<>>, <<1>>, <<2>>, <<2, 1>>, <<2, 2>>, <<3, 3>>} \cap Probes
PIdx(S) == {i \in 1..Len(ProbeSeq) : ProbeSeq[i] \in S}
KIdx(k) == CHOOSE i \in 1..Len(KeySeq) : KeySeq[i] = k
MatrixOut(m, sp) ==
  LET K == RangeKeys(m, sp) IN
  IF sp.kind = "plain" THEN [i \in 1..Len(K) |-> <<KIdx(K[i]), Len(m[K[i]])>>]
  ELSE LET F == Flat(m, K, 1, sp.desc) IN [i \in 1..Len(F) |-> <<KIdx(F[i].k), F[i].hc>>]
MatrixCase(m, p, se, e, is, ie, d, off, h) ==
  <<p, se, e, is, ie, d, off, h,
    MatrixOut(m, [kind |-> IF h THEN "hist" ELSE "plain", seek |-> ProbeSeq[se], end |-> ProbeSeq[e], prefix |-> ProbeSeq[p],
                  iseek |-> is, iend |-> ie, desc |-> d, off |-> off])>>
ReaderCases(m) ==
  {MatrixCase(m, p, se, e, is, ie, d, 0, FALSE) : p \in PIdx(Probes), se \in PIdx(Probes), e \in PIdx(Probes), is \in BOOLEAN, ie \in BOOLEAN, d \in BOOLEAN}
  \cup {MatrixCase(m, p, se, e, is, ie, d, off, h) : p \in PIdx(RedProbes), se \in PIdx(RedProbes), e \in PIdx(RedProbes),
                                                     is \in BOOLEAN, ie \in BOOLEAN, d \in BOOLEAN, off \in 0..2, h \in BOOLEAN}
\* HistoryReader: <<key (index into ProbeSeq; absent keys too), offset, desc, limit, pages, end>>: pages = the version indexes
\* of every page, end = why the reader stops
RECURSIVE Pages(_, _, _, _, _)
Pages(m, k, off, d, lim) ==
  LET res == IF k \in Keys THEN HistoryRes(m, k, off, d, lim) ELSE NotFound("nokey")
  IN IF res.r # "ok" THEN <<<<>>, res.r>>
     ELSE LET n == Len(m[k]) len == Len(res.tvs)
              page == [x \in 1..len |-> IF d THEN n - off - x + 1 ELSE off + x]
              rest == Pages(m, k, off + len, d, lim)
          IN <<<<page>> \o rest[1], rest[2]>>
PageCases(m) == {LET pg == Pages(m, ProbeSeq[k], off, d, lim) IN <<k, off, d, lim, pg[1], pg[2]>> :
                   k \in {i \in PIdx(Probes) : ProbeSeq[i] # <<>>}, off \in 0..4, d \in BOOLEAN, lim \in 1..3}

\* model fact the replay relies on: on a plain reader a sequence of ReadBetween(0, 0) calls returns what Read returns
\* (window without bounds = latest version, hc = number of versions); checked here on the reduced probe set
BetweenSeq(m, K, n) == PlainRun(m, K, [x \in 1..n |-> [op |-> "between", i |-> 0, f |-> 0]], 1, 0)
BetweenAgreesOn(m, K) == \A n \in 1..(Len(K) + 1) : BetweenSeq(m, K, n) = (IF n <= Len(K) THEN GetRes(m, K[n]) ELSE NoMore)
BetweenAgrees(m) ==
  \A c \in ReaderCases(m) : c[7] # 0 \/ c[8] \/ BetweenAgreesOn(m, [i \in 1..Len(c[9]) |-> KeySeq[c[9][i][1]]])
ReaderMatrix ==
  /\ ScriptNo # 0 /\ Len(hist) < Len(Script) /\ Script[Len(hist) + 1].op = "matrix"
  \* ("= TRUE": evaluated as an expression; as an action conjunct TLC would unfold the quantifiers recursively)
  /\ (\A s \in OpenSnaps : BetweenAgrees(snaps[s].map)) = TRUE
  /\ \E s \in OpenSnaps :
       LogSame([op |-> "matrix", s |-> s, probes |-> ProbeSeq, cases |-> ReaderCases(snaps[s].map), pages |-> PageCases(snaps[s].map)])
  /\ UNCHANGED <<map, ts, past, snaps, readers, base, liveId, pend, lastFl, dirty, nextv, nfail>>
MatchStep(e, d) ==
  /\ e.op = d.op
  /\ CASE d.op = "bulk" -> /\ Len(e.kvts) = Len(d.kv)
                           /\ \A i \in 1..Len(d.kv) : e.kvts[i].k = d.kv[i][1] /\ e.kvts[i].t = d.kv[i][2]
       [] d.op = "flush" -> e.cleanup = d.cleanup /\ e.synced = d.synced
       [] d.op = "snap" -> e.must = d.must /\ e.renew = d.renew
       [] d.op = "newreader" -> e.spec.kind = d.kind
       [] d.op = "rread" -> e.call.op = "read"
       [] d.op = "get" -> e.tg = d.tg /\ e.k = d.k
       [] d.op = "between" -> e.tg = d.tg /\ e.k = d.k /\ e.i = d.i /\ e.f = d.f
       [] d.op = "history" -> e.tg = d.tg /\ e.k = d.k /\ e.off = d.off /\ e.desc = d.desc /\ e.lim = d.lim
       [] OTHER -> TRUE
ScriptNext == /\ Len(hist) < Len(Script) /\ (McNext \/ ReaderMatrix) /\ MatchStep(hist'[Len(hist')], Script[Len(hist')])
Next == IF ScriptNo # 0 THEN ScriptNext ELSE IF Sim THEN SimNext ELSE McNext

Spec == Init /\ [][Next]_vars

-----------------------------------------------------------------------------
(* The property                                                            *)
StateAt(t) == {i \in 1..Len(past) : past[i].ts = t}
LastOp == IF hist = <<>> THEN [op |-> "init", ok |-> TRUE] ELSE hist[Len(hist)]

\* the ghost is the history of the tree: last element = current state, ts strictly increasing
GhostOK == /\ past[Len(past)] = [map |-> map, ts |-> ts]
           /\ \A i \in 1..(Len(past) - 1) : past[i].ts < past[i + 1].ts
\* versions of a key have strictly increasing ts, none newer than the tree
MapOK == \A k \in Keys : /\ \A x \in 1..Len(map[k]) : map[k][x].t <= ts
                         /\ \A x \in 1..(Len(map[k]) - 1) : map[k][x].t < map[k][x + 1].t
\* a snapshot is one state the tree went through, identified by its ts
SnapshotFrozen == \A s \in OpenSnaps : /\ snaps[s].j \in StateAt(snaps[s].ts)
                                       /\ snaps[s].map = past[snaps[s].j].map
\* ... no older than the logical time it was asked to include
SnapshotFresh == \A s \in OpenSnaps : snaps[s].ts >= snaps[s].must /\ snaps[s].ts <= ts
\* ... and nothing that happens later changes it
SnapshotImmutable == [][\A s \in 1..MaxSnaps : (snaps[s].open /\ snaps'[s].open) => snaps'[s] = snaps[s]]_vars
\* a rejected call changes nothing
RejectKeeps == [][(hist' # hist /\ hist'[Len(hist')].op \in {"bulk", "incts", "snap", "closesnap", "compact", "reopen"}
                   /\ ~hist'[Len(hist')].ok) => (map' = map /\ ts' = ts /\ snaps' = snaps)]_vars
\* flush, sync and compaction leave the content alone; what they store is the current state
FlushKeeps == [][(hist' # hist /\ hist'[Len(hist')].op \in {"flush", "sync", "compact"})
                 => (map' = map /\ ts' = ts /\ base' = [map |-> map, ts |-> ts])]_vars
\* a compaction dump equals the state at the ts it reports
CompactEqualsStateAtReportedTs ==
  \A p \in pend : \E i \in StateAt(p.ts) : past[i].map = p.map
\* restart: without a compaction dump the content is unchanged; with one the tree is the state at the reported ts
ReopenKeeps == [][(hist' # hist /\ hist'[Len(hist')].op = "reopen" /\ hist'[Len(hist')].ok) =>
                    IF pend = {} THEN map' = map /\ ts' = ts
                    ELSE LET T == SMax({p.ts : p \in pend})
                         IN ts' = T /\ \E i \in StateAt(T) : map' = past[i].map]_vars
\* "code" decision only: the stored root the snapshots re-use is a state of the tree and what is on disk
StoredRootOK == Decision = "code" =>
                  /\ lastFl <= Len(past)
                  /\ (~dirty => base = [map |-> map, ts |-> ts])
                  /\ (lastFl # 0 => base = past[lastFl])

\* behaviours for replay on the real tree
EmitAt == IF ScriptNo # 0 THEN Len(Script) ELSE EmitDepth
Emit == (EmitAt > 0 /\ Len(hist) = EmitAt) => PrintT(<<"JSON:", ToJson([keys |-> KeySeq, ops |-> hist])>>)
\* the history is observation only (BFS reaches a state first with the fewest steps, i.e. the largest remaining budget)
View == <<map, ts, past, snaps, readers, base, liveId, pend, lastFl, dirty, nextv, nfail>>
=============================================================================
