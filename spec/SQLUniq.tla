------------------------------- MODULE SQLUniq -------------------------------
(***************************************************************************)
(* Composite UNIQUE indexes (C12): a table                                 *)
(*   cu(id INTEGER PRIMARY KEY, a INTEGER NOT NULL, b VARCHAR[4], d BOOLEAN)*)
(* with a unique index over the columns IdxCols (2 or 3 columns, in the    *)
(* given order; mixed types, b and d nullable).  The engine's NULL rule,   *)
(* confirmed on the real code: NULL is a key value like any other, two     *)
(* rows whose indexed tuples are equal INCLUDING NULLs collide.            *)
(*                                                                         *)
(* The module is a directed enumeration: for every non-empty subset M of   *)
(* the indexed columns, for UPDATE and for UPSERT with the same primary    *)
(* key, a statement that changes exactly M of row 1, once towards the      *)
(* tuple of another live row 2 (must be refused) and once towards a free   *)
(* tuple (must be applied), executed autocommit or inside a transaction,   *)
(* after each of several histories of the two rows (inserted earlier;      *)
(* row 2 updated to its tuple earlier; the tuple held before by a deleted  *)
(* row; row 1 deleted and re-inserted; row 2 / row 1 written by the same   *)
(* transaction; NULL in the colliding tuple).  Exec is the design: own     *)
(* writes visible, a failed statement aborts its transaction, COMMIT       *)
(* applies everything.  TLC evaluates every case (ASSUME), proves that the *)
(* colliding ones are refused, the others applied and that no reachable    *)
(* table holds two live rows with equal tuples, and writes the cases with  *)
(* the expected observation after every step for harness/cmd/c12 -uniq.    *)
(***************************************************************************)
EXTENDS Integers, Sequences, FiniteSets, TLC, Json, SequencesExt

CONSTANTS IdxName,    \* the indexed columns in index order as one word: "ab", "ba", "abd", "dab", ...
          Histories,  \* which histories to enumerate (subset of AllHistories)
          OutFile

IdxCols == [i \in 1..Len(IdxName) |-> SubSeq(IdxName, i, i)]      \* "dab" -> <<"d", "a", "b">>
AllHistories == {"plain", "other-updated", "after-delete", "reinserted", "other-in-tx", "own-in-tx", "null"}
Cols == <<"a", "b", "d">>
IdxSet == {IdxCols[i] : i \in 1..Len(IdxCols)}
NoRow == [a |-> 0, b |-> "", d |-> ""]
Live(r) == r.a # 0
Ids == 1..3

Tup(r) == [c \in IdxSet |-> r[c]]
\* may row k hold r?  (no other live row with the same indexed tuple; NULL = NULL)
Free(rows, k, r) == \A i \in Ids \ {k} : Live(rows[i]) => Tup(rows[i]) # Tup(r)
UniqueHolds(rows) == \A i, j \in Ids : (i # j /\ Live(rows[i]) /\ Live(rows[j])) => Tup(rows[i]) # Tup(rows[j])

St(k, id, r, mask) == [k |-> k, id |-> id, a |-> r.a, b |-> r.b, d |-> r.d, mask |-> mask]
RowOf(m) == [a |-> m.a, b |-> m.b, d |-> m.d]
InSeq(c, q) == \E i \in 1..Len(q) : q[i] = c
Merge(old, m) == [c \in {"a", "b", "d"} |-> IF InSeq(c, m.mask) THEN RowOf(m)[c] ELSE old[c]]
AsRow(f) == [a |-> f["a"], b |-> f["b"], d |-> f["d"]]

\* state of the single session: committed rows, in a transaction?, its view
Sess(rows, intx, view) == [rows |-> rows, intx |-> intx, view |-> view]
RowsSeq(rows) ==
  LET ids == SelectSeq(<<1, 2, 3>>, LAMBDA i : Live(rows[i]))
  IN [j \in 1..Len(ids) |-> <<ids[j], rows[ids[j]].a, rows[ids[j]].b, rows[ids[j]].d>>]

\* one statement; returns the new state and the observation
Exec(S, m) ==
  LET V == IF S.intx THEN S.view ELSE S.rows
      done(ok, V2, cnt) ==
        IF ~ok THEN [S |-> Sess(S.rows, FALSE, S.rows), out |-> "err", cnt |-> 0]          \* failed statement: transaction aborted
        ELSE IF S.intx THEN [S |-> Sess(S.rows, TRUE, V2), out |-> "ok", cnt |-> cnt]
        ELSE [S |-> Sess(V2, FALSE, V2), out |-> "ok", cnt |-> cnt]
  IN CASE m.k = "begin" -> [S |-> Sess(S.rows, TRUE, S.rows), out |-> "ok", cnt |-> 0]
       [] m.k = "commit" -> [S |-> Sess(S.view, FALSE, S.view), out |-> "ok", cnt |-> 0]
       [] m.k = "ins" -> LET r == RowOf(m) IN
                         done(~Live(V[m.id]) /\ Free(V, m.id, r), [V EXCEPT ![m.id] = r], 1)
       [] m.k = "upd" -> IF ~Live(V[m.id]) THEN done(TRUE, V, 0)
                         ELSE LET r == AsRow(Merge(V[m.id], m)) IN done(Free(V, m.id, r), [V EXCEPT ![m.id] = r], 1)
       [] m.k = "ups" -> LET r == RowOf(m) IN done(Free(V, m.id, r), [V EXCEPT ![m.id] = r], 1)
       [] m.k = "del" -> done(TRUE, [V EXCEPT ![m.id] = NoRow], IF Live(V[m.id]) THEN 1 ELSE 0)

RECURSIVE Run(_, _, _, _)
Run(S, stmts, i, acc) ==
  IF i > Len(stmts) THEN acc
  ELSE LET r == Exec(S, stmts[i])
       IN Run(r.S, stmts, i + 1,
              Append(acc, [k |-> stmts[i].k, id |-> stmts[i].id, a |-> stmts[i].a, b |-> stmts[i].b, d |-> stmts[i].d,
                           mask |-> stmts[i].mask, out |-> r.out, cnt |-> r.cnt, intx |-> r.S.intx, tbl |-> RowsSeq(r.S.rows)]))

-----------------------------------------------------------------------------
\* the two rows: row 2 holds the tuple R2; row 1 differs from it exactly in the columns of M
Alt(c) == CASE c = "a" -> 2 [] c = "b" -> "y" [] c = "d" -> "F"
Third0(c) == CASE c = "a" -> 3 [] c = "b" -> "z" [] c = "d" -> "NULL"
R2(h) == IF h = "null" THEN [a |-> 1, b |-> "NULL", d |-> "NULL"] ELSE [a |-> 1, b |-> "x", d |-> "T"]
R1(h, M) == AsRow([c \in {"a", "b", "d"} |-> IF c \in M THEN Alt(c) ELSE R2(h)[c]])
Third(h, c) == IF h = "null" /\ c = "d" THEN "T" ELSE Third0(c)      \* a value that is neither row 2's nor row 1's
AllMask == <<"a", "b", "d">>
MaskSeq(M) == SelectSeq(AllMask, LAMBDA c : c \in M)
Begin == St("begin", 0, NoRow, <<>>)
Commit == St("commit", 0, NoRow, <<>>)

\* statements that build the history h of rows 1 and 2 (committed before the target statement unless "-in-tx")
Setup(h, M) ==
  LET r1 == R1(h, M)
      r2 == R2(h)
      i1 == St("ins", 1, r1, AllMask)
      i2 == St("ins", 2, r2, AllMask)
  IN CASE h \in {"plain", "null"} -> <<i1, i2>>
       [] h = "other-updated" -> <<i1, St("ins", 2, AsRow([c \in {"a", "b", "d"} |-> Third0(c)]), AllMask),
                                  St("upd", 2, r2, MaskSeq(IdxSet \cup {"d"}))>>
       [] h = "after-delete" -> <<St("ins", 3, r2, AllMask), St("del", 3, NoRow, <<>>), i1, i2>>
       [] h = "reinserted" -> <<i1, i2, St("del", 1, NoRow, <<>>), i1>>
       [] h = "other-in-tx" -> <<i1, Begin, i2>>
       [] h = "own-in-tx" -> <<i2, Begin, i1>>

\* the target: change exactly M of row 1, towards row 2's tuple (collide) or towards a free one
Target(kind, h, M, collide) ==
  LET new == AsRow([c \in {"a", "b", "d"} |-> IF c \in M THEN (IF collide THEN R2(h)[c] ELSE Third(h, c)) ELSE R1(h, M)[c]])
  IN IF kind = "upd" THEN St("upd", 1, new, MaskSeq(M)) ELSE St("ups", 1, new, AllMask)

Masks == (SUBSET IdxSet) \ {{}}
CaseKeys == {<<kind, h, M, collide, intx>> : kind \in {"upd", "ups"}, h \in Histories \cap AllHistories, M \in Masks,
                                              collide \in BOOLEAN, intx \in BOOLEAN}
\* histories that already opened the transaction run the target inside it; the others once autocommit, once in a transaction
Script(key) ==
  LET kind == key[1]  h == key[2]  M == key[3]  collide == key[4]  intx == key[5]
      open == h \in {"other-in-tx", "own-in-tx"}
      pre == Setup(h, M) \o (IF intx /\ ~open THEN <<Begin>> ELSE <<>>)
      t == Target(kind, h, M, collide)
  IN pre \o <<t>> \o (IF (intx \/ open) /\ ~collide THEN <<Commit>> ELSE <<>>)
Keys == {key \in CaseKeys : key[5] \/ key[2] \notin {"other-in-tx", "own-in-tx"}}
S0 == Sess([i \in Ids |-> NoRow], FALSE, [i \in Ids |-> NoRow])
CaseOf(key) ==
  LET steps == Run(S0, Script(key), 1, <<>>)
      ti == Len(Script(key)) - (IF (key[5] \/ key[2] \in {"other-in-tx", "own-in-tx"}) /\ ~key[4] THEN 1 ELSE 0)
  IN [kind |-> key[1], hist |-> key[2], mask |-> MaskSeq(key[3]), collide |-> key[4], intx |-> key[5] \/ key[2] \in {"other-in-tx", "own-in-tx"},
      target |-> ti, steps |-> steps]

Cases == LET ks == SetToSeq(Keys) IN [i \in 1..Len(ks) |-> CaseOf(ks[i])]

\* facts about the design, decided by TLC over the whole enumeration
Refused == \A i \in 1..Len(Cases) : Cases[i].collide => Cases[i].steps[Cases[i].target].out = "err"
Applied == \A i \in 1..Len(Cases) : ~Cases[i].collide => \A j \in 1..Len(Cases[i].steps) : Cases[i].steps[j].out = "ok"
NoDuplicates == \A i \in 1..Len(Cases) : \A j \in 1..Len(Cases[i].steps) :
                  LET t == Cases[i].steps[j].tbl IN
                  \A x, y \in 1..Len(t) : x # y => [c \in IdxSet |-> t[x][IF c = "a" THEN 2 ELSE IF c = "b" THEN 3 ELSE 4]]
                                                    # [c \in IdxSet |-> t[y][IF c = "a" THEN 2 ELSE IF c = "b" THEN 3 ELSE 4]]
ASSUME PrintT(<<"Refused", Refused>>) /\ PrintT(<<"Applied", Applied>>) /\ PrintT(<<"NoDuplicates", NoDuplicates>>)
ASSUME PrintT(<<"Cases", Len(Cases)>>)
ASSUME JsonSerialize(OutFile, [idx |-> IdxCols, cases |-> Cases])

VARIABLE x
Init == x = 0
Next == UNCHANGED x
=============================================================================
