CONSTANTS
  Genesis = 0
  Unavailable = 999999
SPECIFICATION TraceSpec
INVARIANTS StoreInv ReportBad
POSTCONDITION TraceAccepted
CHECK_DEADLOCK FALSE
