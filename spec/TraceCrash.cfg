CONSTANTS
  Genesis = 0
SPECIFICATION TraceSpec
INVARIANTS StoreInv ReportBad
POSTCONDITION TraceAccepted
CHECK_DEADLOCK FALSE
