-------------------------------- MODULE MVCC --------------------------------
(***************************************************************************)
(* Read-write transactions of embedded/store (property C05).               *)
(*                                                                         *)
(* Keys live in two indexes (multi-indexing): index of a key = its first   *)
(* letter.  Every index has an index time its[x] (txs indexed so far) and  *)
(* the time root[x] of its last flushed root (tbtree.lastSnapRoot).  A     *)
(* transaction takes one snapshot per index lazily, at the time tbtree     *)
(* gives it (SnapshotMustIncludeTsWithRenewalPeriod transcribed), overlays *)
(* its own writes, records its read-set as ongoing_tx.go does and at       *)
(* commit runs the transcription of precommit's critical section:          *)
(* WaitForIndexingUpto(precommitted) then checkPreconditions.              *)
(*                                                                         *)
(* EarlyReturn = TRUE is the code as pinned: the loop over the snapshots   *)
(* returns when it meets an up-to-date snapshot; FALSE continues with the  *)
(* next snapshot (the repaired code).                                      *)
(***************************************************************************)
EXTENDS Naturals, Sequences, FiniteSets, TLC, Json

CONSTANTS Txs,           \* read-write transactions
          MaxCommit,     \* bound on committed txs
          MaxReads,      \* reads per transaction
          EarlyReturn,
          AlwaysIndexed, \* TRUE: the indexer is always caught up (deterministic replay driver)
          AllowStale,    \* TRUE: transactions may ask for SnapshotMustIncludeTxID = 0
          EmitDepth

Keys == {"a1", "a2", "b1"}
Indexes == {"a", "b"}
Idx(k) == IF k = "b1" THEN "b" ELSE "a"
KeysOf(x) == IF x = "a" THEN <<"a1", "a2">> ELSE <<"b1">>      \* in key order

VARIABLES ver,        \* ver[k]: tx ids that wrote k (committed)
          committed,  \* last committed (= precommitted) tx id
          its, root,
          tx,         \* tx[t] = [pc, stale, snap, wrote, reads, writes]
          bad,        \* a committed tx whose reads were not what a serial execution at its commit would see
          hist
vars == <<ver, committed, its, root, tx, bad, hist>>

None == 99999
Fresh == [pc |-> "idle", stale |-> FALSE, snap |-> [x \in Indexes |-> None], wrote |-> [x \in Indexes |-> FALSE],
          order |-> <<>>, reads |-> <<>>, writes |-> {}]

Init == /\ ver = [k \in Keys |-> <<>>] /\ committed = 0
        /\ its = [x \in Indexes |-> 0] /\ root = [x \in Indexes |-> None]     \* None: no reusable root yet (lastSnapRoot = nil)
        /\ tx = [t \in Txs |-> Fresh] /\ bad = FALSE /\ hist = <<>>

Last(s) == IF s = <<>> THEN 0 ELSE s[Len(s)]
RECURSIVE LatestUpTo(_, _)
LatestUpTo(s, ts) == IF s = <<>> THEN 0 ELSE IF Last(s) <= ts THEN Last(s) ELSE LatestUpTo(SubSeq(s, 1, Len(s) - 1), ts)

\* content of index x as of time ts: sequence of <<key, tx>> in key order, keys without a version absent
RECURSIVE ScanSeq(_, _)
ScanSeq(ks, f) == IF ks = <<>> THEN <<>>
                  ELSE (IF f[Head(ks)] = 0 THEN <<>> ELSE <<<<Head(ks), f[Head(ks)]>>>>) \o ScanSeq(Tail(ks), f)
ScanAt(x, ts) == ScanSeq(KeysOf(x), [k \in Keys |-> LatestUpTo(ver[k], ts)])

Log(e) == hist' = Append(hist, e)

-----------------------------------------------------------------------------
(* snapshot acquisition: store.SnapshotMustIncludeTxIDWithRenewalPeriod + tbtree *)
MustInclude(t) == IF tx[t].stale THEN 0 ELSE committed
CanSnap(t, x) == its[x] >= MustInclude(t)                      \* WaitForIndexingUpto(must) returned
RootAfterSnap(t, x) == IF root[x] = None THEN its[x]
                       ELSE IF its[x] > root[x] /\ root[x] < MustInclude(t) THEN its[x] ELSE root[x]

HasSnap(t, x) == tx[t].snap[x] # None
\* state of tx t and of root after making sure t has a snapshot on x
SnapTs(t, x) == IF HasSnap(t, x) THEN tx[t].snap[x] ELSE RootAfterSnap(t, x)
RootWith(t, x) == IF HasSnap(t, x) THEN root ELSE [root EXCEPT ![x] = RootAfterSnap(t, x)]
OrderWith(t, x) == IF HasSnap(t, x) THEN tx[t].order ELSE Append(tx[t].order, x)      \* tx.snapshots, in creation order
Ready(t, x) == tx[t].pc = "run" /\ (HasSnap(t, x) \/ CanSnap(t, x))

Begin(t, stale) ==
  /\ tx[t].pc = "idle" /\ (stale => AllowStale)
  /\ tx' = [tx EXCEPT ![t] = [Fresh EXCEPT !.pc = "run", !.stale = stale]]
  /\ Log([op |-> "begin", t |-> t, stale |-> stale])
  /\ UNCHANGED <<ver, committed, its, root, bad>>

\* tx.Get(k): own write -> "own" (nothing recorded); else the version as of the snapshot (0 = not found) is recorded
Get(t, k) ==
  LET x == Idx(k) IN
  /\ Ready(t, x) /\ Len(tx[t].reads) < MaxReads
  /\ LET ts == SnapTs(t, x)
         own == k \in tx[t].writes
         e == LatestUpTo(ver[k], ts)
     IN /\ tx' = [tx EXCEPT ![t].snap[x] = ts, ![t].order = OrderWith(t, x),
                            ![t].reads = IF own THEN @ ELSE Append(@, [kind |-> "get", k |-> k, x |-> x, e |-> e])]
        /\ root' = RootWith(t, x)
        /\ Log([op |-> "get", t |-> t, k |-> k, res |-> IF own THEN 0 ELSE e, own |-> own])
  /\ UNCHANGED <<ver, committed, its, bad>>

\* full scan of index x through a key reader (until no more entries): own writes appear with tx 0
RECURSIVE TxScanSeq(_, _, _)
TxScanSeq(ks, t, ts) ==
  IF ks = <<>> THEN <<>>
  ELSE LET k == Head(ks)  e == LatestUpTo(ver[k], ts) IN
       (IF k \in tx[t].writes THEN <<<<k, 0>>>> ELSE IF e > 0 THEN <<<<k, e>>>> ELSE <<>>) \o TxScanSeq(Tail(ks), t, ts)
Scan(t, x) ==
  /\ Ready(t, x) /\ Len(tx[t].reads) < MaxReads
  /\ LET ts == SnapTs(t, x)
         es == TxScanSeq(KeysOf(x), t, ts)
     IN /\ tx' = [tx EXCEPT ![t].snap[x] = ts, ![t].order = OrderWith(t, x), ![t].reads = Append(@, [kind |-> "scan", k |-> "", x |-> x, e |-> 0, es |-> es])]
        /\ root' = RootWith(t, x)
        /\ Log([op |-> "scan", t |-> t, x |-> x, res |-> es])
  /\ UNCHANGED <<ver, committed, its, bad>>

\* tx.Set(k): the first write of a key goes into the tx's snapshot of its index (which makes that snapshot newer)
Set(t, k) ==
  LET x == Idx(k) IN
  /\ Ready(t, x) /\ k \notin tx[t].writes
  /\ tx' = [tx EXCEPT ![t].snap[x] = SnapTs(t, x), ![t].order = OrderWith(t, x), ![t].wrote[x] = TRUE, ![t].writes = @ \cup {k}]
  /\ root' = RootWith(t, x)
  /\ Log([op |-> "set", t |-> t, k |-> k])
  /\ UNCHANGED <<ver, committed, its, bad>>

-----------------------------------------------------------------------------
(* transcription of OngoingTx.checkPreconditions for the read-set kinds above *)
SnapshotTs(t, x) == IF tx[t].wrote[x] THEN tx[t].snap[x] + 1 ELSE tx[t].snap[x]     \* Snapshot.Ts() = root.ts()

\* replay of an expected scan against the current content cur (sequence of <<key, tx>>)
RECURSIVE ReaderOk(_, _, _)
ReaderOk(es, cur, pos) ==
  IF es = <<>> THEN pos > Len(cur)                  \* expectedNoMoreEntries: nothing more may come
  ELSE LET e == Head(es) IN
       IF e[2] = 0                                   \* written by the tx itself: consumed if it is there now
       THEN ReaderOk(Tail(es), cur, IF pos <= Len(cur) /\ cur[pos][1] = e[1] THEN pos + 1 ELSE pos)
       ELSE /\ pos <= Len(cur) /\ cur[pos] = e
            /\ ReaderOk(Tail(es), cur, pos + 1)

ReadValid(t, r) ==
  IF r.kind = "get" THEN Last(ver[r.k]) = r.e
  ELSE ReaderOk(r.es, ScanAt(r.x, committed), 1)

\* the code iterates tx.snapshots in creation order
RECURSIVE ValidateSnaps(_, _)
ValidateSnaps(t, order) ==
  IF order = <<>> THEN TRUE
  ELSE LET x == Head(order) IN
       IF SnapshotTs(t, x) > committed
       THEN (IF EarlyReturn THEN TRUE ELSE ValidateSnaps(t, Tail(order)))
       ELSE /\ \A q \in 1..Len(tx[t].reads) : tx[t].reads[q].x = x => ReadValid(t, tx[t].reads[q])
            /\ ValidateSnaps(t, Tail(order))

Serial(t) == \A q \in 1..Len(tx[t].reads) : ReadValid(t, tx[t].reads[q])

Commit(t) ==
  /\ tx[t].pc = "run" /\ tx[t].writes # {} /\ committed < MaxCommit
  /\ (tx[t].reads # <<>> => \A x \in Indexes : its[x] = committed)      \* WaitForIndexingUpto(currPrecommitted)
  /\ IF tx[t].reads = <<>> \/ ValidateSnaps(t, tx[t].order)
     THEN /\ committed' = committed + 1
          /\ ver' = [k \in Keys |-> IF k \in tx[t].writes THEN Append(ver[k], committed + 1) ELSE ver[k]]
          /\ bad' = (bad \/ ~Serial(t))
          /\ tx' = [tx EXCEPT ![t].pc = "committed"]
          /\ its' = IF AlwaysIndexed THEN [x \in Indexes |-> committed + 1] ELSE its
          /\ Log([op |-> "commit", t |-> t, ok |-> TRUE, id |-> committed + 1, serial |-> Serial(t)])
     ELSE /\ tx' = [tx EXCEPT ![t].pc = "conflict"]
          /\ Log([op |-> "commit", t |-> t, ok |-> FALSE, id |-> 0, serial |-> Serial(t)])
          /\ UNCHANGED <<committed, ver, bad, its>>
  /\ UNCHANGED root

WOCommit(k) ==
  /\ committed < MaxCommit
  /\ committed' = committed + 1
  /\ ver' = [ver EXCEPT ![k] = Append(@, committed + 1)]
  /\ its' = IF AlwaysIndexed THEN [x \in Indexes |-> committed + 1] ELSE its
  /\ Log([op |-> "wocommit", k |-> k, id |-> committed + 1])
  /\ UNCHANGED <<root, tx, bad>>

IndexStep(x) == /\ ~AlwaysIndexed /\ its[x] < committed /\ its' = [its EXCEPT ![x] = @ + 1]
                /\ UNCHANGED <<ver, committed, root, tx, bad, hist>>
\* a flush of index x (FlushIndexes / a snapshot that must include the current time) makes the current root reusable
FlushIdx(x) == /\ (root[x] = None \/ root[x] < its[x]) /\ root' = [root EXCEPT ![x] = its[x]]
               /\ Log([op |-> "flush", x |-> x])
               /\ UNCHANGED <<ver, committed, its, tx, bad>>

Next == \/ \E t \in Txs : \/ \E s \in BOOLEAN : Begin(t, s)
                          \/ \E k \in Keys : Get(t, k) \/ Set(t, k)
                          \/ \E x \in Indexes : Scan(t, x)
                          \/ Commit(t)
        \/ \E k \in Keys : WOCommit(k)
        \/ \E x \in Indexes : IndexStep(x) \/ FlushIdx(x)
Spec == Init /\ [][Next]_vars

Serializable == ~bad
View == <<ver, committed, its, root, tx, bad>>
Emit == (EmitDepth > 0 /\ Len(hist) = EmitDepth) => PrintT(<<"JSON:", ToJson([ops |-> hist])>>)
=============================================================================
