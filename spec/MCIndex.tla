------------------------------ MODULE MCIndex ------------------------------
(***************************************************************************)
(* Constant instantiations of Index.tla: key universes and index layouts   *)
(* (TLC configuration files cannot hold sequences or records).             *)
(*   "P"   one plain index (empty prefix): the store without multi-indexing*)
(*   "PI"  prefixed identity index on <<1>> + injective mapped index       *)
(*         (source prefix <<1>>, target prefix <<3>>) whose source index   *)
(*         is the first one                                                *)
(*   "PPI" two prefixed identity indexes (<<1>>, <<2>>) + the mapped one   *)
(***************************************************************************)
EXTENDS Index

CONSTANTS Layout, KeySet

Idn(p) == [src |-> p, tgt |-> p, mapped |-> FALSE, inj |-> FALSE, srcIdx |-> 0]
Inj(p, t, s) == [src |-> p, tgt |-> t, mapped |-> TRUE, inj |-> TRUE, srcIdx |-> s]
MCIndexes == CASE Layout = "P"   -> <<Idn(<<>>)>>
               [] Layout = "PI"  -> <<Idn(<<1>>), Inj(<<1>>, <<3>>, 1)>>
               [] Layout = "PPI" -> <<Idn(<<1>>), Idn(<<2>>), Inj(<<1>>, <<3>>, 1)>>
\* keys sharing prefixes; <<2>> / <<2,1>> lie outside the source prefix <<1>>
MCKeys == CASE KeySet = "k3" -> {<<1, 1>>, <<1, 2>>, <<2>>}
            [] KeySet = "k3p" -> {<<1>>, <<1, 2>>, <<2>>}
            [] KeySet = "k4" -> {<<1>>, <<1, 1>>, <<1, 2>>, <<2, 1>>}
            [] KeySet = "k6" -> {<<1>>, <<1, 1>>, <<1, 1, 2>>, <<1, 2>>, <<2>>, <<2, 1>>}
=============================================================================
