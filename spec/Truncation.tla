----------------------------- MODULE Truncation -----------------------------
(***************************************************************************)
(* Value-log truncation of embedded/store (property C14).                  *)
(*                                                                         *)
(* M value logs; a value log is a sequence of placements [owner, off, len] *)
(* (units of one "value unit"), cut into chunk files of F units.  A        *)
(* committer appends ALL values of its transaction contiguously into SOME  *)
(* value log (precommit's goroutine: fetchAnyVLog / appendValuesInto /     *)
(* releaseVLog) BEFORE it takes the store mutex and gets its id            *)
(* (performPrecommit), so the order of placements in a log differs from    *)
(* the order of ids and the distance is bounded only by the schedule.      *)
(* Empty values are not appended; their offset field is 0 (with the id of  *)
(* the log the transaction was given).  A committer may also fail after    *)
(* its values were appended (Abort) and leave placements nobody owns.      *)
(*                                                                         *)
(* TruncateUptoTx(n) is transcribed from immustore.go and split into the   *)
(* steps between which other goroutines run: the back walk from n until    *)
(* every value log has a tombstone offset (first entry of the tx only),    *)
(* reading LastCommittedTxID, the forward walk n..max that lowers the      *)
(* tombstones, and one DiscardUpto per value log (fetchVLog keeps every    *)
(* log it touched locked until the function returns; the logs are visited  *)
(* in Go map order, i.e. any order).  DiscardUpto(off) removes the chunk   *)
(* files strictly below the chunk that holds off.                          *)
(*                                                                         *)
(* SeeInFlight = FALSE, BoundPre = FALSE, HoldLogs = TRUE is the code as   *)
(* transcribed.  The design that keeps the property: a committer registers *)
(* (value log, size of the log) before it appends and deregisters after    *)
(* its id was assigned; TruncateUptoTx lowers its tombstones to the        *)
(* registered offsets (SeeInFlight, step TSnap) BEFORE it reads the walk   *)
(* bound, the bound is the last PRE-committed id (BoundPre), and a value   *)
(* log is released as soon as its chunks were discarded (HoldLogs = FALSE).*)
(* FrontLt = TRUE is the seeded variant `j < maxTxID` of the forward loop. *)
(*                                                                         *)
(* ExportTx(id) reads the values one by one under _valBsMux, modelled as   *)
(* the explicit variable exportLock; UnlockOnPartial = FALSE is the code   *)
(* before the repair (the two "partially truncated transaction" returns    *)
(* left the lock held).                                                    *)
(***************************************************************************)
EXTENDS Integers, Sequences, FiniteSets, TLC, Json

CONSTANTS M,               \* number of value logs (MaxIOConcurrency)
          F,               \* chunk size in value units
          NW,              \* number of committers (each writes one transaction)
          Shapes,          \* name of the set of value-length sequences a transaction may have
          MaxTrunc,        \* number of TruncateUptoTx calls
          NT,              \* truncator processes (NT = 2: concurrent truncation)
          MaxExports,      \* number of ExportTx calls
          NE,              \* exporter processes
          MaxAborts, MaxRestarts,
          MaxInFlight,     \* 0 = no limit; else at most that many committers between "values appended" and "id assigned"
                           \*     (MaxConcurrency: every committer holds a tx of the store's pool over that window)
          WalkWindow,      \* 0 (code): the forward walk goes up to the walk bound; W > 0 = the seeded variant that stops
                           \*     W transactions past the cut ("placement cannot be further out of order than ...")
          SeeInFlight, BoundPre, FrontLt, UnlockOnPartial,
          HoldLogs,        \* TRUE (code): every value log TruncateUptoTx touched stays locked until the call returns
          SplitCommit,     \* TRUE: pre-commit (id assigned) and commit are separate steps (external commit allowance)
          Atomic,          \* TRUE: a running TruncateUptoTx / ExportTx is not interleaved with anything else
                           \*       (what can be forced on the real code with the ValuesAppended gate alone)
          FineWalk,        \* TRUE: the walks advance one transaction per step
          Primed,          \* TRUE: the history starts with one committed 1-unit transaction per value log
          EmitTerminal     \* TRUE: print the history of every finished behaviour as JSON

Writers == 1..NW
Logs    == 1..M
Truncs  == 1..NT
Exps    == 1..NE

ShapeSet ==
  CASE Shapes = "min"  -> {<<1>>, <<2>>}
    [] Shapes = "exp"  -> {<<1>>, <<0, 1>>, <<1, 1>>}
    [] Shapes = "std"  -> {<<1>>, <<2>>, <<0, 1>>, <<1, 1>>}
    [] Shapes = "rich" -> {<<>>, <<0>>, <<1>>, <<2>>, <<3>>, <<0, 1>>, <<1, 0>>, <<1, 1>>, <<2, 1>>, <<1, 0, 1>>, <<0, 0, 2>>}
    [] OTHER           -> {<<1>>}

VARIABLES vlog,        \* vlog[k]: sequence of placements [owner, off, len]
          wr,          \* wr[w] = [pc, k, base, lens, offs, id]   pc: idle -> appended -> precommitted -> committed | aborted
          txlog,       \* txlog[id] = [w, k, lens, offs]: the transaction records (headers, entry offsets, digests)
          committed,   \* LastCommittedTxID ; Len(txlog) = LastPrecommittedTxID
          delBelow,    \* delBelow[k]: chunk files of log k with index < delBelow[k] were removed
          cut,         \* largest n of any TruncateUptoTx(n) started so far
          tr,          \* tr[t] = [ph, n, i, j, max, tomb, pend, want, held]
          ntrunc,
          ex,          \* ex[e] = [ph, id, i, trunc]
          exportLock,  \* 0 = free, e = held by exporter e (_valBsMux)
          nexp, xbad, naborts, nrestarts,
          hist         \* observation only
vars == <<vlog, wr, txlog, committed, delBelow, cut, tr, ntrunc, ex, exportLock, nexp, xbad, naborts, nrestarts, hist>>

Max(a, b) == IF a > b THEN a ELSE b
RECURSIVE SumTo(_, _)
SumTo(s, n) == IF n = 0 THEN 0 ELSE s[n] + SumTo(s, n - 1)
Size(k) == IF vlog[k] = <<>> THEN 0 ELSE vlog[k][Len(vlog[k])].off + vlog[k][Len(vlog[k])].len
NoTomb == [k \in Logs |-> -1]
IdleW == [pc |-> "idle", k |-> 0, base |-> 0, lens |-> <<>>, offs |-> <<>>, id |-> 0]
IdleT == [ph |-> "idle", n |-> 0, i |-> 0, j |-> 0, max |-> 0, tomb |-> NoTomb, pend |-> {}, want |-> 0, held |-> {}]
IdleX == [ph |-> "idle", id |-> 0, i |-> 0, trunc |-> FALSE]

TruncRunning == \E t \in Truncs : tr[t].ph # "idle"
ExpRunning   == \E e \in Exps : ex[e].ph # "idle"
Quiet        == Atomic => (~TruncRunning /\ ~ExpRunning)       \* guard of every step that starts something

\* what every history entry carries: the abstract state after the step
Obs == [ctd |-> committed', pre |-> Len(txlog'), del |-> [k \in Logs |-> delBelow'[k]], sz |-> [k \in Logs |-> Size(k)']]
E0 == [op |-> "", w |-> 0, k |-> 0, lens |-> <<>>, offs |-> <<>>, id |-> 0, t |-> 0, n |-> 0, e |-> 0, res |-> "", dist |-> 0]
Log(r) == hist' = Append(hist, [r EXCEPT !.op = r.op] @@ Obs)

-----------------------------------------------------------------------------
(* initial state *)
PrimedW(w) == [pc |-> "committed", k |-> w, base |-> 0, lens |-> <<1>>, offs |-> <<0>>, id |-> w]
Init ==
  /\ vlog = [k \in Logs |-> IF Primed THEN <<[owner |-> k, off |-> 0, len |-> 1]>> ELSE <<>>]
  /\ wr = [w \in Writers |-> IF Primed /\ w <= M THEN PrimedW(w) ELSE IdleW]
  /\ txlog = IF Primed THEN [id \in 1..M |-> [w |-> id, k |-> id, lens |-> <<1>>, offs |-> <<0>>]] ELSE <<>>
  /\ committed = IF Primed THEN M ELSE 0
  /\ delBelow = [k \in Logs |-> 0] /\ cut = 0
  /\ tr = [t \in Truncs |-> IdleT] /\ ntrunc = 0
  /\ ex = [e \in Exps |-> IdleX] /\ exportLock = 0 /\ nexp = 0 /\ xbad = FALSE
  /\ naborts = 0 /\ nrestarts = 0 /\ hist = <<>>

-----------------------------------------------------------------------------
(* committers *)
\* precommit's goroutine: all values of the tx, contiguously, into log k; vOff of an empty value is 0
AppendValues(w, k, ls) ==
  /\ Quiet /\ wr[w].pc = "idle" /\ (IF w = 1 THEN TRUE ELSE wr[w - 1].pc # "idle")          \* committers are interchangeable: start in order
  /\ (MaxInFlight = 0 \/ Cardinality({v \in Writers : wr[v].pc = "appended"}) < MaxInFlight)
  /\ LET base == Size(k)
         offs == [e \in 1..Len(ls) |-> IF ls[e] = 0 THEN 0 ELSE base + SumTo(ls, e - 1)]
         all  == [e \in 1..Len(ls) |-> [owner |-> w, off |-> offs[e], len |-> ls[e]]]
     IN /\ vlog' = [vlog EXCEPT ![k] = @ \o SelectSeq(all, LAMBDA p : p.len > 0)]
        /\ wr' = [wr EXCEPT ![w] = [pc |-> "appended", k |-> k, base |-> base, lens |-> ls, offs |-> offs, id |-> 0]]
        /\ UNCHANGED <<txlog, committed, delBelow, cut, tr, ntrunc, ex, exportLock, nexp, xbad, naborts, nrestarts>>
        /\ Log([E0 EXCEPT !.op = "append", !.w = w, !.k = k, !.lens = ls, !.offs = offs])

\* performPrecommit under the store mutex: the id is assigned, the tx record is written
Precommit(w) ==
  /\ Quiet /\ wr[w].pc = "appended"
  /\ LET id == Len(txlog) + 1 IN
     /\ txlog' = Append(txlog, [w |-> w, k |-> wr[w].k, lens |-> wr[w].lens, offs |-> wr[w].offs])
     /\ wr' = [wr EXCEPT ![w].pc = IF SplitCommit THEN "precommitted" ELSE "committed", ![w].id = id]
     /\ committed' = IF SplitCommit THEN committed ELSE id
     /\ UNCHANGED <<vlog, delBelow, cut, tr, ntrunc, ex, exportLock, nexp, xbad, naborts, nrestarts>>
     /\ Log([E0 EXCEPT !.op = "precommit", !.w = w, !.id = id])

\* mayCommit / AllowCommitUpto: the next pre-committed tx becomes committed
Commit ==
  /\ Quiet /\ SplitCommit /\ committed < Len(txlog)
  /\ committed' = committed + 1
  /\ wr' = [wr EXCEPT ![txlog[committed + 1].w].pc = "committed"]
  /\ UNCHANGED <<vlog, txlog, delBelow, cut, tr, ntrunc, ex, exportLock, nexp, xbad, naborts, nrestarts>>
  /\ Log([E0 EXCEPT !.op = "commit", !.id = committed + 1, !.w = txlog[committed + 1].w])

\* the commit fails after the values were appended (precondition, cancelled context, ...): orphan placements
Abort(w) ==
  /\ Quiet /\ wr[w].pc = "appended" /\ naborts < MaxAborts
  /\ committed = Len(txlog)          \* (the failing precondition is checked on an up-to-date index)
  /\ wr' = [wr EXCEPT ![w].pc = "aborted"] /\ naborts' = naborts + 1
  /\ UNCHANGED <<vlog, txlog, committed, delBelow, cut, tr, ntrunc, ex, exportLock, nexp, xbad, nrestarts>>
  /\ Log([E0 EXCEPT !.op = "abort", !.w = w])

-----------------------------------------------------------------------------
(* TruncateUptoTx: the decision (tombstone per value log), transcribed *)
\* readTxOffsetAt(id, false, 1): first entry of the record; a tx without entries is skipped (ErrTxEntryIndexOutOfRange)
HasFirst(id) == Len(txlog[id].lens) > 0
FirstLog(id) == txlog[id].k
FirstOff(id) == txlog[id].offs[1]
NTomb(tomb) == Cardinality({k \in Logs : tomb[k] >= 0})

BackOne(i, tomb) ==
  IF HasFirst(i) /\ tomb[FirstLog(i)] < 0 THEN [tomb EXCEPT ![FirstLog(i)] = FirstOff(i)] ELSE tomb
FrontOne(j, tomb) ==
  IF HasFirst(j) /\ tomb[FirstLog(j)] >= 0 /\ FirstOff(j) < tomb[FirstLog(j)] THEN [tomb EXCEPT ![FirstLog(j)] = FirstOff(j)] ELSE tomb
BackMore(i, tomb) == i > 0 /\ NTomb(tomb) # M                     \* for i > 0 && len(tombstones) != MaxIOConcurrency
FrontMore(j, max) == IF FrontLt THEN j < max ELSE j <= max        \* for j := minTxID; j <= maxTxID; j++

RECURSIVE BackRec(_, _)
BackRec(i, tomb) == IF BackMore(i, tomb) THEN BackRec(i - 1, BackOne(i, tomb)) ELSE tomb
RECURSIVE FrontRec(_, _, _)
FrontRec(j, max, tomb) == IF FrontMore(j, max) THEN FrontRec(j + 1, max, FrontOne(j, tomb)) ELSE tomb

\* design only: values that are in a value log while their committer has no id yet keep their chunks
InFlightIn(k) == {w \in Writers : wr[w].pc = "appended" /\ wr[w].k = k}
LowerToInFlight(tomb) ==
  [k \in Logs |-> IF tomb[k] < 0 THEN tomb[k]
                  ELSE LET bs == {wr[w].base : w \in InFlightIn(k)} \cup {tomb[k]}
                       IN CHOOSE b \in bs : \A c \in bs : b <= c]
WalkBound == IF BoundPre THEN Len(txlog) ELSE committed
WalkEnd(n) == IF WalkWindow = 0 \/ n + WalkWindow > WalkBound THEN WalkBound ELSE n + WalkWindow
\* the distance dimension: committed transactions after the cut tx n with a value in a chunk file of the same
\* value log BELOW the file of n's first value (written early, id assigned late); Dist(n) = how far the farthest one is
EarlyAfter(n) == {id \in (n + 1)..committed :
                    /\ HasFirst(n) /\ txlog[n].lens[1] > 0 /\ txlog[id].k = FirstLog(n)
                    /\ \E e \in 1..Len(txlog[id].lens) : txlog[id].lens[e] > 0 /\ txlog[id].offs[e] \div F < FirstOff(n) \div F}
Dist(n) == IF EarlyAfter(n) = {} THEN 0 ELSE (CHOOSE id \in EarlyAfter(n) : \A o \in EarlyAfter(n) : o <= id) - n
\* DiscardUpto(off): chunk files with index < off \div F are removed
DelAfter(del, tomb) == [k \in Logs |-> IF tomb[k] >= 0 THEN Max(del[k], tomb[k] \div F) ELSE del[k]]
\* the whole call on a quiescent store
TombstonesFor(n) == FrontRec(n, WalkEnd(n), IF SeeInFlight THEN LowerToInFlight(BackRec(n, NoTomb)) ELSE BackRec(n, NoTomb))
AtomicDel(n, del) == DelAfter(del, TombstonesFor(n))

(* TruncateUptoTx: the steps *)
OthersHold(t, k) == \E u \in Truncs \ {t} : k \in tr[u].held
TUnch == UNCHANGED <<vlog, wr, txlog, committed, ex, exportLock, nexp, xbad, naborts, nrestarts>>

\* n <= LastCommittedTxID: otherwise the first back(n) fails with "tx not found" and nothing happens
TBegin(t, n) ==
  /\ Quiet /\ tr[t].ph = "idle" /\ ntrunc < MaxTrunc /\ n \in 1..committed
  /\ tr' = [tr EXCEPT ![t] = [IdleT EXCEPT !.ph = "back", !.n = n, !.i = n]]
  /\ ntrunc' = ntrunc + 1 /\ cut' = Max(cut, n)
  /\ UNCHANGED delBelow /\ TUnch
  /\ Log([E0 EXCEPT !.op = "tbegin", !.t = t, !.n = n, !.dist = Dist(n)])

TBack(t) ==
  /\ tr[t].ph = "back"
  /\ IF FineWalk /\ BackMore(tr[t].i, tr[t].tomb)
       THEN tr' = [tr EXCEPT ![t].tomb = BackOne(tr[t].i, @), ![t].i = @ - 1]
       ELSE tr' = [tr EXCEPT ![t].tomb = BackRec(tr[t].i, @), ![t].ph = IF SeeInFlight THEN "snap" ELSE "readmax"]
  /\ UNCHANGED <<delBelow, cut, ntrunc>> /\ TUnch
  /\ Log([E0 EXCEPT !.op = "tback", !.t = t])

TSnap(t) ==
  /\ tr[t].ph = "snap"
  /\ tr' = [tr EXCEPT ![t].tomb = LowerToInFlight(@), ![t].ph = "readmax"]
  /\ UNCHANGED <<delBelow, cut, ntrunc>> /\ TUnch
  /\ Log([E0 EXCEPT !.op = "tsnap", !.t = t])

\* maxTxID := s.LastCommittedTxID()   (design: LastPrecommittedTxID)
TReadMax(t) ==
  /\ tr[t].ph = "readmax"
  /\ tr' = [tr EXCEPT ![t].max = WalkEnd(tr[t].n), ![t].j = tr[t].n, ![t].ph = "front"]
  /\ UNCHANGED <<delBelow, cut, ntrunc>> /\ TUnch
  /\ Log([E0 EXCEPT !.op = "treadmax", !.t = t, !.id = WalkEnd(tr[t].n)])

TFront(t) ==
  /\ tr[t].ph = "front"
  /\ IF FineWalk /\ FrontMore(tr[t].j, tr[t].max)
       THEN tr' = [tr EXCEPT ![t].tomb = FrontOne(tr[t].j, @), ![t].j = @ + 1]
       ELSE LET f == FrontRec(tr[t].j, tr[t].max, tr[t].tomb) IN
            tr' = [tr EXCEPT ![t].tomb = f, ![t].pend = {k \in Logs : f[k] >= 0},
                             ![t].ph = IF {k \in Logs : f[k] >= 0} = {} THEN "idle" ELSE "discard"]
  /\ UNCHANGED <<delBelow, cut, ntrunc>> /\ TUnch
  /\ Log([E0 EXCEPT !.op = "tfront", !.t = t])

\* for vLogID, offset := range tombstones (Go map order = any order): the next log is chosen, then waited for
\* (with a single truncator nobody else holds a log and the choice is taken together with the discard)
TWant(t, k) ==
  /\ NT > 1 /\ tr[t].ph = "discard" /\ tr[t].want = 0 /\ k \in tr[t].pend
  /\ tr' = [tr EXCEPT ![t].want = k]
  /\ UNCHANGED <<delBelow, cut, ntrunc>> /\ TUnch
  /\ Log([E0 EXCEPT !.op = "twant", !.t = t, !.k = k])

\* fetchVLog(k) (code: kept until return, `defer releaseVLog`), DiscardUpto(tombstones[k])
TDiscard(t, k) ==
  /\ tr[t].ph = "discard" /\ k \in tr[t].pend /\ ~OthersHold(t, k)
  /\ IF NT > 1 THEN tr[t].want = k ELSE TRUE
  /\ delBelow' = [delBelow EXCEPT ![k] = Max(@, tr[t].tomb[k] \div F)]
  /\ tr' = [tr EXCEPT ![t] = IF tr[t].pend = {k} THEN IdleT
                              ELSE [@ EXCEPT !.pend = @ \ {k}, !.want = 0, !.held = IF HoldLogs THEN @ \cup {k} ELSE {}]]
  /\ UNCHANGED <<cut, ntrunc>> /\ TUnch
  /\ Log([E0 EXCEPT !.op = "tdiscard", !.t = t, !.k = k, !.res = IF tr[t].pend = {k} THEN "done" ELSE ""])

-----------------------------------------------------------------------------
(* reads *)
\* a value is served iff the chunk holding its first unit exists (removal is a prefix); empty values always
Readable(rec, e) == rec.lens[e] = 0 \/ (rec.offs[e] \div F) >= delBelow[rec.k]

(* ExportTx *)
XUnch == UNCHANGED <<vlog, wr, txlog, committed, delBelow, cut, tr, ntrunc, naborts, nrestarts>>
XBegin(e, id) ==
  /\ Quiet /\ ex[e].ph = "idle" /\ nexp < MaxExports /\ id \in 1..committed
  /\ ex' = [ex EXCEPT ![e] = [ph |-> "run", id |-> id, i |-> 1, trunc |-> FALSE]]
  /\ nexp' = nexp + 1 /\ UNCHANGED <<exportLock, xbad>> /\ XUnch
  /\ Log([E0 EXCEPT !.op = "xbegin", !.e = e, !.id = id])

\* s._valBsMux.Lock()
XLock(e) ==
  /\ ex[e].ph = "run" /\ ex[e].i <= Len(txlog[ex[e].id].lens) /\ exportLock = 0
  /\ exportLock' = e /\ ex' = [ex EXCEPT ![e].ph = "locked"]
  /\ UNCHANGED <<nexp, xbad>> /\ XUnch
  /\ Log([E0 EXCEPT !.op = "xlock", !.e = e])

Finish(e, res) ==      \* the call returns: ids >= cut must have been exported with all their values
  /\ xbad' = (xbad \/ (ex[e].id >= cut /\ res # "values"))
  /\ Log([E0 EXCEPT !.op = "xend", !.e = e, !.id = ex[e].id, !.res = res])

\* readValueAt of entry i, then the "either all the values are sent or none" decisions and the unlock discipline
XEntry(e) ==
  /\ ex[e].ph = "locked"
  /\ UNCHANGED nexp /\ XUnch
  /\ LET rec == txlog[ex[e].id]
         i == ex[e].i
         ok == Readable(rec, i)
         partial == (ok /\ ex[e].trunc) \/ (~ok /\ ~ex[e].trunc /\ i > 1)
     IN IF partial
          THEN /\ ex' = [ex EXCEPT ![e] = IdleX]
               /\ exportLock' = IF UnlockOnPartial THEN 0 ELSE exportLock
               /\ Finish(e, "error")
          ELSE /\ ex' = [ex EXCEPT ![e].ph = "run", ![e].i = i + 1, ![e].trunc = ~ok]
               /\ exportLock' = 0 /\ UNCHANGED xbad
               /\ Log([E0 EXCEPT !.op = "xentry", !.e = e])

XEnd(e) ==
  /\ ex[e].ph = "run" /\ ex[e].i > Len(txlog[ex[e].id].lens)
  /\ ex' = [ex EXCEPT ![e] = IdleX]
  /\ UNCHANGED <<exportLock, nexp>> /\ XUnch
  /\ Finish(e, IF ex[e].trunc THEN "digests" ELSE "values")

\* Close + Open: a new store object (lock free), the files as they are
Restart ==
  /\ ~TruncRunning /\ ~ExpRunning /\ nrestarts < MaxRestarts
  /\ \A w \in Writers : wr[w].pc \in {"idle", "committed", "aborted"}
  /\ exportLock' = 0 /\ nrestarts' = nrestarts + 1
  /\ UNCHANGED <<vlog, wr, txlog, committed, delBelow, cut, tr, ntrunc, ex, nexp, xbad, naborts>>
  /\ Log([E0 EXCEPT !.op = "restart"])

Next ==
  \/ \E w \in Writers : (\E k \in Logs, ls \in ShapeSet : AppendValues(w, k, ls)) \/ Precommit(w) \/ Abort(w)
  \/ Commit
  \/ \E t \in Truncs : (\E n \in 1..committed : TBegin(t, n)) \/ TBack(t) \/ TSnap(t) \/ TReadMax(t) \/ TFront(t)
                       \/ (\E k \in Logs : TWant(t, k) \/ TDiscard(t, k))
  \/ \E e \in Exps : (\E id \in 1..committed : XBegin(e, id)) \/ XLock(e) \/ XEntry(e) \/ XEnd(e)
  \/ Restart
Spec == Init /\ [][Next]_vars

-----------------------------------------------------------------------------
(* the property *)
\* every entry of every committed tx with id >= n (committed now, or later: the invariant is evaluated after
\* every Commit) resolves to its original value
ReadableFromCut ==
  \A id \in 1..committed : id >= cut => \A e \in 1..Len(txlog[id].lens) : Readable(txlog[id], e)
\* headers, entry digests and offsets of every transaction are what was committed
HeadersIntact ==
  \A id \in 1..Len(txlog) : LET w == txlog[id].w IN
      wr[w].id = id /\ txlog[id] = [w |-> w, k |-> wr[w].k, lens |-> wr[w].lens, offs |-> wr[w].offs]
\* the lock is free whenever no ExportTx is inside its critical section
ExportTerminates == exportLock # 0 => ex[exportLock].ph = "locked"
\* ExportTx of a tx at or after the cut returned all its values
ExportFullFromCut == ~xbad
\* truncating again at the same point changes nothing
Idempotent ==
  ~TruncRunning => \A n \in 1..committed : AtomicDel(n, AtomicDel(n, delBelow)) = AtomicDel(n, delBelow)
\* two TruncateUptoTx calls never wait for each other's value logs
NoLockCycle ==
  \A t, u \in Truncs : t # u => ~(tr[t].want # 0 /\ tr[u].want # 0 /\ tr[t].want \in tr[u].held /\ tr[u].want \in tr[t].held)
\* the chunk being written is never removed and the placements are contiguous
TypeOK ==
  /\ \A k \in Logs : delBelow[k] >= 0 /\ (Size(k) > 0 => delBelow[k] <= (Size(k) - 1) \div F)
  /\ \A k \in Logs : \A p \in 1..Len(vlog[k]) : vlog[k][p].off = (IF p = 1 THEN 0 ELSE vlog[k][p - 1].off + vlog[k][p - 1].len)
  /\ committed <= Len(txlog)

\* nothing is enabled any more
Terminal ==
  /\ ~TruncRunning /\ ~ExpRunning /\ ntrunc = MaxTrunc /\ nexp = MaxExports /\ nrestarts = MaxRestarts
  /\ committed = Len(txlog) /\ \A w \in Writers : wr[w].pc \in {"committed", "aborted"}
\* behaviours for the replay on the real store; cuts[n] = chunks removed by a further TruncateUptoTx(n)
Emit == (EmitTerminal /\ Terminal) =>
          PrintT(<<"JSON:", ToJson([ops |-> hist, m |-> M, f |-> F, cut |-> cut, split |-> SplitCommit, primed |-> Primed, mc |-> MaxInFlight,
                                    cuts |-> [n \in 1..committed |-> [k \in Logs |-> AtomicDel(n, delBelow)[k]]]])>>)
View == <<vlog, wr, txlog, committed, delBelow, cut, tr, ntrunc, ex, exportLock, nexp, xbad, naborts, nrestarts>>
=============================================================================
