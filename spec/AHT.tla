-------------------------------- MODULE AHT --------------------------------
(***************************************************************************)
(* State machine of the on-disk append-only hash tree (embedded/ahtree):   *)
(* payload log, digest log and commit log, the in-memory commit buffer,    *)
(* Append / ResetSize / Sync / Close+Open / process kill.                  *)
(*                                                                         *)
(* Abstraction: payloads have a fixed size, so a "slot" n of the payload   *)
(* log and the group of digests appended with leaf n are addressed by n.   *)
(* The digests written with leaf n are a function of the leaves 1..n at    *)
(* the time of the append, so a slot of the digest log is represented by   *)
(* that sequence of leaf atoms.  (Merkle.tla proves that the node          *)
(* arithmetic on the digest log equals the reference tree.)                *)
(*                                                                         *)
(* StaleSuffix = TRUE is the code as pinned: SetOffset on an appendable is *)
(* logical only, the file keeps its bytes past the rewound offset and a    *)
(* re-open takes the size from the file.                                   *)
(***************************************************************************)
EXTENDS Naturals, Sequences, FiniteSets, TLC, Json

CONSTANTS MaxLeaves,     \* bound on the number of Append steps (atoms are 1..MaxLeaves, all distinct)
          MaxOps,        \* bound on the behaviour length
          SyncThld,      \* ahtree syncThld
          StaleSuffix,   \* TRUE: rewinding keeps the file's suffix (code as pinned)
          AllowFlush,    \* TRUE: the write buffers may reach the files spontaneously (FlushSome)
          EmitDepth      \* print the history as JSON when a behaviour reaches this length (0 = never)

VARIABLES mem,      \* logical leaves (sequence of atoms); size() = Len(mem)
          dmem,     \* per logical leaf n: the leaf sequence its digests were computed from
          synced,   \* latestSyncedNode
          pdisk,    \* payload slots physically in the file
          ddisk,    \* digest slots physically in the file
          pflushed, \* number of slots of the logical payload/digest logs already written to the files
          clen,     \* number of entries physically in the commit log file
          next,     \* next fresh atom
          open,     \* tree is open
          ideal,    \* what a persistent append-only log of leaves holds (the abstract state the property talks about)
          isync,    \* how many leaves of `ideal` a caller was told are durable
          hist      \* history (observation only)
vars == <<mem, dmem, synced, pdisk, ddisk, pflushed, clen, next, open, ideal, isync, hist>>

Prefix(s, n) == SubSeq(s, 1, n)
Min(a, b) == IF a < b THEN a ELSE b
Max(a, b) == IF a > b THEN a ELSE b

\* write logical slots (from+1..to) of mem/dmem over the files (overwrite at offset, files never shrink)
Overwrite(file, from, newslots) ==
  [n \in 1..Max(Len(file), from + Len(newslots)) |->
      IF n > from /\ n <= from + Len(newslots) THEN newslots[n - from] ELSE file[n]]

Init == /\ mem = <<>> /\ dmem = <<>> /\ synced = 0 /\ pdisk = <<>> /\ ddisk = <<>> /\ pflushed = 0
        /\ clen = 0 /\ next = 1 /\ open = TRUE /\ ideal = <<>> /\ isync = 0 /\ hist = <<>>

\* every history entry carries the abstract state after the step: logical leaves and whether the tree is
\* the Merkle tree of its own leaves
Log(e) == hist' = Append(hist, [op |-> e.op, a |-> e.a, leaves |-> mem', ideal |-> ideal',
                                ok |-> (\A n \in 1..Len(mem') : dmem'[n] = SubSeq(mem', 1, n))])

\* sync(): flush+fsync payload and digest logs, then write the buffered commit entries at latestSyncedNode
DoSync(m, dm, pd, dd, pf, cl, sy) ==
  LET n == Len(m) IN
  IF sy = n THEN <<pd, dd, pf, cl, sy>>
  ELSE <<Overwrite(pd, pf, SubSeq(m, pf + 1, n)), Overwrite(dd, pf, SubSeq(dm, pf + 1, n)), n,
         IF StaleSuffix THEN Max(cl, n) ELSE n, n>>

AppendLeaf ==
  /\ open /\ next <= MaxLeaves /\ Len(hist) < MaxOps
  /\ LET m == Append(mem, next)
         dm == Append(dmem, m)
         full == (Len(m) - synced) = SyncThld
         \* Append rewinds the payload/digest logs to the logical size first: slots past it are dropped from
         \* the write position (pflushed can only be ahead of the logical size after a ResetSize)
         pf0 == Min(pflushed, Len(mem))
         s == IF full THEN DoSync(m, dm, pdisk, ddisk, pf0, clen, synced) ELSE <<pdisk, ddisk, pf0, clen, synced>>
     IN /\ mem' = m /\ dmem' = dm
        /\ pdisk' = s[1] /\ ddisk' = s[2] /\ pflushed' = s[3] /\ clen' = s[4] /\ synced' = s[5]
        /\ ideal' = Append(ideal, next) /\ isync' = IF full THEN Len(ideal) + 1 ELSE isync
  /\ next' = next + 1 /\ UNCHANGED open
  /\ Log([op |-> "append", a |-> next])

\* the appendable's write buffer may reach the file at any time
FlushSome ==
  /\ AllowFlush /\ open /\ pflushed < Len(mem) /\ Len(hist) < MaxOps
  /\ UNCHANGED <<mem, dmem, synced, clen, next, open, ideal, isync>>
  /\ \E k \in (pflushed + 1)..Len(mem) :
        /\ pdisk' = Overwrite(pdisk, pflushed, SubSeq(mem, pflushed + 1, k))
        /\ ddisk' = Overwrite(ddisk, pflushed, SubSeq(dmem, pflushed + 1, k))
        /\ pflushed' = k
        /\ Log([op |-> "flush", a |-> k])

Sync ==
  /\ open /\ synced < Len(mem) /\ Len(hist) < MaxOps
  /\ LET s == DoSync(mem, dmem, pdisk, ddisk, pflushed, clen, synced)
     IN pdisk' = s[1] /\ ddisk' = s[2] /\ pflushed' = s[3] /\ clen' = s[4] /\ synced' = s[5]
  /\ UNCHANGED <<mem, dmem, next, open, ideal>> /\ isync' = Len(ideal)
  /\ Log([op |-> "sync", a |-> 0])

ResetSize(k) ==
  /\ open /\ k < Len(mem) /\ Len(hist) < MaxOps
  /\ LET s == DoSync(mem, dmem, pdisk, ddisk, pflushed, clen, synced)       \* ResetSize syncs first
     IN /\ pdisk' = s[1] /\ ddisk' = s[2] /\ pflushed' = s[3]
        /\ clen' = IF StaleSuffix THEN s[4] ELSE k
  /\ mem' = Prefix(mem, k) /\ dmem' = Prefix(dmem, k) /\ synced' = k
  /\ ideal' = Prefix(ideal, Min(k, Len(ideal))) /\ isync' = Min(k, Len(ideal))
  /\ UNCHANGED <<next, open>>
  /\ Log([op |-> "reset", a |-> k])

\* Close (which syncs) followed by Open: sizes come from the files
Reopen ==
  /\ open /\ Len(hist) < MaxOps
  /\ LET s == DoSync(mem, dmem, pdisk, ddisk, Min(pflushed, Len(mem)), clen, synced)
         cl == s[4]
     IN /\ pdisk' = s[1] /\ ddisk' = s[2] /\ clen' = cl
        /\ mem' = Prefix(s[1], cl) /\ dmem' = Prefix(s[2], cl)
        /\ synced' = cl /\ pflushed' = cl
  /\ UNCHANGED <<next, open, ideal>> /\ isync' = Len(ideal)
  /\ Log([op |-> "reopen", a |-> 0])

\* process kill (files keep what was written; buffers are lost) followed by Open
KillReopen ==
  /\ open /\ Len(hist) < MaxOps
  /\ mem' = Prefix(pdisk, clen) /\ dmem' = Prefix(ddisk, clen)
  /\ synced' = clen /\ pflushed' = clen
  \* after a kill any prefix of the log that contains everything reported durable is acceptable: take the
  \* one the implementation state shows if it is such a prefix, else the shortest acceptable one
  /\ LET got == Prefix(pdisk, clen)
         acceptable == Len(got) >= isync /\ Len(got) <= Len(ideal) /\ got = Prefix(ideal, Len(got))
     IN ideal' = IF acceptable THEN got ELSE Prefix(ideal, isync)
  /\ isync' = Len(ideal')
  /\ UNCHANGED <<pdisk, ddisk, clen, next, open>>
  /\ Log([op |-> "kill", a |-> 0])

Next == AppendLeaf \/ FlushSome \/ Sync \/ (\E k \in 0..MaxLeaves : ResetSize(k)) \/ Reopen \/ KillReopen
Spec == Init /\ [][Next]_vars

-----------------------------------------------------------------------------
\* the tree is the Merkle tree of its own leaves: every digest slot was computed from the current leaves
SelfConsistent == \A n \in 1..Len(mem) : dmem[n] = Prefix(mem, n)
\* synced leaves survive a restart (history-free formulation: the files agree with memory up to `synced`)
SyncedOnDisk == \A n \in 1..synced : n <= Len(mem) => (n <= Len(pdisk) /\ pdisk[n] = mem[n] /\ ddisk[n] = dmem[n])
\* refinement: the tree holds exactly the abstract log
Refines == mem = ideal
TypeOK == /\ Len(mem) = Len(dmem) /\ synced <= Len(mem) /\ Len(pdisk) = Len(ddisk)

\* behaviours for replay on the real tree: printed when a behaviour reaches EmitDepth steps
Emit == (EmitDepth > 0 /\ Len(hist) = EmitDepth) =>
          PrintT(<<"JSON:", ToJson([ops |-> hist])>>)
\* the behaviour length bounds the exploration, so it is part of the view (only the content of the history is hidden)
View == <<mem, dmem, synced, pdisk, ddisk, pflushed, clen, next, open, ideal, isync, Len(hist)>>
=============================================================================
