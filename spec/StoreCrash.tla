----------------------------- MODULE StoreCrash -----------------------------
(***************************************************************************)
(* Physical model of the commit pipeline of embedded/store (immustore.go)  *)
(* and of its recovery (OpenWith), for crash durability (C03).             *)
(*                                                                         *)
(* Store.tla speaks about the logical pipeline and is what real traces are *)
(* validated against; this module adds what is on disk: the transaction    *)
(* log, the commit log and a value log as files with an application write  *)
(* buffer, an OS file content and a durable (fsynced) content, written at  *)
(* offsets (records are slots: the driver that replays behaviours of this  *)
(* module uses records of one size).  Transcribed:                         *)
(*   precommit      txLog.SetOffset(precommittedTxLogSize); append         *)
(*   sync()         vLog flush, fsync; txLog flush, fsync; cLog            *)
(*                  SetOffset(committed), append, flush, fsync; committed  *)
(*                  (one step each, so that a crash can fall in between)   *)
(*   DiscardPrecommittedTxsSince   in-memory only: nothing is rewound      *)
(*   OpenWith       commit-log size from the file; last committed record   *)
(*                  must match; pre-committed records are reloaded while   *)
(*                  id, PrevAlh and values fit; the log offset is set      *)
(*                  behind the last reloaded record                        *)
(* Crash: kill (application buffers lost, OS content stays) or power loss  *)
(* (only fsynced content stays).  Behaviours are replayed on the real      *)
(* store by harness/cmd/c03 (-mode script): the recovered frontier the     *)
(* real OpenWith reaches must be the one Recover computes here.            *)
(***************************************************************************)
EXTENDS Naturals, Sequences, FiniteSets, TLC, Json

CONSTANTS MaxTx,         \* highest transaction id
          MaxGen,        \* number of precommits overall
          MaxCrash,      \* number of crashes in a behaviour
          MaxActive,
          AutoFlush,     \* a write buffer may fill up and be written to its file between two syncs (small WriteBufferSize)
          PrevChecked,   \* recovery compares PrevAlh of a reloaded record with its predecessor (the code does)
          EmitOn,        \* print the history (for replay on the real store) whenever a recovery completed
          ValuesChecked  \* recovery reloads a record only if its value bytes are in the value log (the code does since 54a574b)

VARIABLES txF, cF, vF,      \* files: [file, buf, wpos, dur]
          committed, inmemPre, preAlh, tsize, cbuf, allowed, ext,
          pc,               \* 0: idle; 1..6: inside sync(), after its k-th physical step
          mode,             \* "open", "crashed", "dead" (open failed)
          gen, crashes,
          acked,            \* <<id, alh>> reported committed by a synced store
          everPre,          \* every <<id, alh>> ever precommitted
          hist              \* labels of the steps taken (for replay)
vars == <<txF, cF, vF, committed, inmemPre, preAlh, tsize, cbuf, allowed, ext, pc, mode, gen, crashes, acked, everPre, hist>>

Genesis == <<0, 0>>
EmptyF == [file |-> <<>>, buf |-> <<>>, wpos |-> 0, dur |-> <<>>]
View(F) == SubSeq(F.file, 1, F.wpos) \o F.buf
LSize(F) == F.wpos + Len(F.buf)
\* appendable.SetOffset: below the flushed part only the offset moves (the file keeps its bytes), inside the buffer the buffer is cut
SetOff(F, p) == IF p >= F.wpos THEN [F EXCEPT !.buf = SubSeq(F.buf, 1, p - F.wpos)]
                ELSE [F EXCEPT !.wpos = p, !.buf = <<>>]
App(F, x) == [F EXCEPT !.buf = Append(F.buf, x)]
Flush(F) == [F EXCEPT !.file = SubSeq(F.file, 1, F.wpos) \o F.buf \o SubSeq(F.file, F.wpos + Len(F.buf) + 1, Len(F.file)),
                      !.buf = <<>>, !.wpos = F.wpos + Len(F.buf)]
Fsync(F) == [F EXCEPT !.dur = F.file]
Kill(F)  == [file |-> F.file, buf |-> <<>>, wpos |-> Len(F.file), dur |-> F.dur]   \* reopened: size taken from the file
Power(F) == [file |-> F.dur, buf |-> <<>>, wpos |-> Len(F.dur), dur |-> F.dur]

Init == /\ txF = EmptyF /\ cF = EmptyF /\ vF = EmptyF
        /\ committed = 0 /\ inmemPre = 0 /\ preAlh = Genesis /\ tsize = 0 /\ cbuf = <<>> /\ allowed = 0
        /\ ext \in BOOLEAN /\ pc = 0 /\ mode = "open" /\ gen = 0 /\ crashes = 0 /\ acked = {} /\ everPre = {}
        /\ hist = << <<"init", ext>> >>

AllowedUpto == IF ext THEN allowed ELSE inmemPre

Precommit(hasValue) ==
  /\ mode = "open" /\ pc = 0 /\ inmemPre < MaxTx /\ gen < MaxGen /\ inmemPre - committed < MaxActive
  /\ LET id == inmemPre + 1
         alh == <<id, gen + 1>>
         voff == IF hasValue THEN LSize(vF) + 1 ELSE 0
         rec == [id |-> id, alh |-> alh, prev |-> preAlh, voff |-> voff, vtok |-> IF hasValue THEN alh ELSE Genesis]
     IN /\ vF' = IF hasValue THEN App(vF, alh) ELSE vF
        /\ txF' = App(SetOff(txF, tsize), rec)
        /\ tsize' = tsize + 1
        /\ cbuf' = Append(cbuf, [id |-> id, alh |-> alh, pos |-> tsize + 1])
        /\ inmemPre' = id /\ preAlh' = alh /\ gen' = gen + 1
        /\ everPre' = everPre \cup {<<id, alh>>}
        /\ hist' = Append(hist, <<"pre", hasValue>>)
  /\ UNCHANGED <<cF, committed, allowed, ext, pc, mode, crashes, acked>>

Allow(n) ==
  /\ mode = "open" /\ pc = 0 /\ ext /\ n > allowed /\ n <= inmemPre
  /\ allowed' = n /\ hist' = Append(hist, <<"allow", n>>)
  /\ UNCHANGED <<txF, cF, vF, committed, inmemPre, preAlh, tsize, cbuf, ext, pc, mode, gen, crashes, acked, everPre>>

\* nothing on disk changes; the allowance granted for the discarded transactions is withdrawn
Discard(since) ==
  /\ mode = "open" /\ pc = 0 /\ since > committed /\ since <= inmemPre
  /\ allowed' = IF allowed > since - 1 THEN since - 1 ELSE allowed
  /\ LET k == inmemPre + 1 - since   keep == Len(cbuf) - k IN
     /\ cbuf' = SubSeq(cbuf, 1, keep)
     /\ inmemPre' = since - 1
     /\ preAlh' = IF keep = 0 THEN (IF committed = 0 THEN Genesis ELSE View(cF)[committed].alh) ELSE cbuf[keep].alh
  /\ hist' = Append(hist, <<"discard", since>>)
  /\ UNCHANGED <<txF, cF, vF, committed, tsize, ext, pc, mode, gen, crashes, acked, everPre>>

\* sync(), one physical step at a time
SyncStep ==
  /\ mode = "open"
  /\ \/ /\ pc = 0 /\ inmemPre > committed /\ vF' = Flush(vF) /\ pc' = 1 /\ hist' = Append(hist, <<"sync">>)
        /\ UNCHANGED <<txF, cF, committed, cbuf, acked>>
     \/ /\ pc = 1 /\ vF' = Fsync(vF) /\ pc' = 2 /\ UNCHANGED <<txF, cF, committed, cbuf, acked, hist>>
     \/ /\ pc = 2 /\ txF' = Flush(txF) /\ pc' = 3 /\ UNCHANGED <<vF, cF, committed, cbuf, acked, hist>>
     \/ /\ pc = 3 /\ txF' = Fsync(txF) /\ UNCHANGED <<vF, cF, committed, cbuf, acked, hist>>
        /\ pc' = IF AllowedUpto > committed THEN 4 ELSE 0          \* nothing to commit: sync() returns
     \/ /\ pc = 4 /\ pc' = 5 /\ UNCHANGED <<txF, vF, committed, cbuf, acked, hist>>
        /\ LET k == AllowedUpto - committed
               C1 == SetOff(cF, committed)
           IN cF' = Flush([C1 EXCEPT !.buf = C1.buf \o [i \in 1..k |-> cbuf[i]]])
     \/ /\ pc = 5 /\ cF' = Fsync(cF) /\ pc' = 6 /\ UNCHANGED <<txF, vF, committed, cbuf, acked, hist>>
     \/ /\ pc = 6 /\ pc' = 0 /\ UNCHANGED <<txF, vF, cF, hist>>
        /\ LET k == AllowedUpto - committed IN
           /\ committed' = AllowedUpto
           /\ acked' = acked \cup {<<cbuf[i].id, cbuf[i].alh>> : i \in 1..k}
           /\ cbuf' = SubSeq(cbuf, k + 1, Len(cbuf))
  /\ UNCHANGED <<inmemPre, preAlh, tsize, allowed, ext, mode, gen, crashes, everPre>>

\* the application buffer of the transaction log or of the value log fills up: written to the file, not fsynced
BufFlush(which) ==
  /\ AutoFlush /\ mode = "open" /\ pc = 0
  /\ IF which = "tx" THEN txF.buf # <<>> /\ txF' = Flush(txF) /\ vF' = vF
                      ELSE vF.buf # <<>> /\ vF' = Flush(vF) /\ txF' = txF
  /\ hist' = Append(hist, <<"bufflush", which>>)
  /\ UNCHANGED <<cF, committed, inmemPre, preAlh, tsize, cbuf, allowed, ext, pc, mode, gen, crashes, acked, everPre>>

Crash(m) ==
  /\ mode = "open" /\ crashes < MaxCrash
  /\ txF' = (IF m = "kill" THEN Kill(txF) ELSE Power(txF))
  /\ cF' = (IF m = "kill" THEN Kill(cF) ELSE Power(cF))
  /\ vF' = (IF m = "kill" THEN Kill(vF) ELSE Power(vF))
  /\ mode' = "crashed" /\ crashes' = crashes + 1 /\ pc' = 0
  /\ hist' = Append(hist, <<"crash", m, pc>>)
  /\ UNCHANGED <<committed, inmemPre, preAlh, tsize, cbuf, allowed, ext, gen, acked, everPre>>

\* Close + Open: everything is flushed and fsynced, then the same recovery runs
Restart ==
  /\ mode = "open" /\ pc = 0 /\ crashes < MaxCrash
  /\ txF' = Kill(Fsync(Flush(txF))) /\ cF' = Kill(Fsync(Flush(cF))) /\ vF' = Kill(Fsync(Flush(vF)))
  /\ mode' = "crashed" /\ crashes' = crashes + 1
  /\ hist' = Append(hist, <<"restart">>)
  /\ UNCHANGED <<committed, inmemPre, preAlh, tsize, cbuf, allowed, ext, pc, gen, acked, everPre>>

ValueThere(rec, vfile) == rec.voff = 0 \/ (rec.voff <= Len(vfile) /\ vfile[rec.voff] = rec.vtok)
RECURSIVE Reload(_, _, _, _, _)
Reload(file, vfile, pos, pre, alh) ==
  IF /\ pos <= Len(file) /\ file[pos].id = pre + 1
     /\ (PrevChecked => file[pos].prev = alh)
     /\ (ValuesChecked => ValueThere(file[pos], vfile))
  THEN Reload(file, vfile, pos + 1, pre + 1, file[pos].alh)
  ELSE <<pos, pre, alh>>

Recover ==
  /\ mode = "crashed"
  /\ LET c == Len(cF.file)
         lastPos == IF c = 0 THEN 0 ELSE cF.file[c].pos
         ok == c = 0 \/ (lastPos <= Len(txF.file) /\ txF.file[lastPos].id = c /\ txF.file[lastPos].alh = cF.file[c].alh)
     IN IF ~ok
        THEN /\ mode' = "dead" /\ hist' = Append(hist, <<"recover", FALSE, 0, 0, <<>>>>)
             /\ UNCHANGED <<txF, cF, vF, committed, inmemPre, preAlh, tsize, cbuf, allowed>>
        ELSE LET calh == IF c = 0 THEN Genesis ELSE cF.file[c].alh
                 r == Reload(txF.file, vF.file, lastPos + 1, c, calh)
             IN /\ committed' = c /\ inmemPre' = r[2] /\ preAlh' = r[3] /\ allowed' = c
                /\ tsize' = r[1] - 1
                /\ cbuf' = [i \in 1..(r[2] - c) |-> [id |-> c + i, alh |-> txF.file[lastPos + i].alh, pos |-> lastPos + i]]
                /\ mode' = "open"
                \* gens: which precommit (its number) each recovered transaction 1..pre is
                /\ hist' = Append(hist, <<"recover", TRUE, c, r[2],
                                          [n \in 1..r[2] |-> IF n <= c THEN cF.file[n].alh[2] ELSE txF.file[lastPos + (n - c)].alh[2]]>>)
                /\ UNCHANGED <<txF, cF, vF>>
  /\ UNCHANGED <<ext, pc, gen, crashes, acked, everPre>>

Next == (\E v \in BOOLEAN : Precommit(v)) \/ (\E n \in 1..MaxTx : Allow(n)) \/ (\E s \in 1..MaxTx : Discard(s))
        \/ SyncStep \/ (\E w \in {"tx", "val"} : BufFlush(w)) \/ (\E m \in {"kill", "power"} : Crash(m)) \/ Restart \/ Recover
Spec == Init /\ [][Next]_vars
\* for -simulate: crashes and restarts only where there is something at stake (a backlog, a sync under way, stale records behind the log end)
AtStake == pc > 0 \/ inmemPre > committed \/ Len(txF.file) > tsize \/ txF.buf # <<>>
SimNext == (\E v \in BOOLEAN : Precommit(v)) \/ (\E n \in 1..MaxTx : Allow(n)) \/ (\E s \in 1..MaxTx : Discard(s))
           \/ SyncStep \/ (AtStake /\ \E m \in {"kill", "power"} : Crash(m)) \/ (AtStake /\ Restart) \/ Recover
SimSpec == Init /\ [][SimNext]_vars

-----------------------------------------------------------------------------
CommittedRec(n) == txF.file[View(cF)[n].pos]
\* the recovered / running store always opens
OpensOk == mode # "dead"
\* what a synced store reported committed is committed for good, unchanged
AckedSurvive == mode = "open" => \A a \in acked : a[1] <= committed /\ View(cF)[a[1]].alh = a[2]
\* the committed history is a chain of records that were really precommitted, each with its values
CommittedChained == mode = "open" /\ pc = 0 => \A n \in 1..committed :
   /\ View(cF)[n].pos <= Len(txF.file)
   /\ CommittedRec(n).id = n /\ CommittedRec(n).alh = View(cF)[n].alh
   /\ CommittedRec(n).prev = (IF n = 1 THEN Genesis ELSE View(cF)[n - 1].alh)
   /\ <<n, View(cF)[n].alh>> \in everPre
CommittedValues == mode = "open" /\ pc = 0 => \A n \in 1..committed : ValueThere(CommittedRec(n), vF.file)
\* the pre-committed backlog is a chain on top of the committed history
BacklogChained == mode = "open" => \A i \in 1..Len(cbuf) :
   cbuf[i].id = committed + i /\ <<cbuf[i].id, cbuf[i].alh>> \in everPre
CrashInv == OpensOk /\ AckedSurvive /\ CommittedChained /\ CommittedValues /\ BacklogChained

Emit == (EmitOn /\ hist[Len(hist)][1] = "recover") => PrintT(<<"JSON:", ToJson([ops |-> hist])>>)

MCView == <<txF, cF, vF, committed, inmemPre, preAlh, tsize, cbuf, allowed, ext, pc, mode, gen, crashes, acked, everPre>>
=============================================================================
