-------------------------------- MODULE Wire --------------------------------
(***************************************************************************)
(* Property C16 - decoders / parsers are total.                            *)
(*                                                                         *)
(* Enumeration module (no behaviours).  Every binary format the property   *)
(* names is described as a list of FIELD DESCRIPTORS; an instance shape    *)
(* (which optional parts are present, how many group elements, how long    *)
(* the variable parts are) is flattened into a sequence of concrete        *)
(* fields with sizes and the values of all length / count / tag fields.    *)
(* From that layout TLC enumerates, for every shape,                       *)
(*   - every truncation point (0 .. total-1: before / inside / after every *)
(*     field),                                                             *)
(*   - for every length or count field the values 0, actual-1, actual+1,   *)
(*     actual/2, remaining+1 and the maximum of its width,                 *)
(*   - for every tag / version byte every other valid value and the first  *)
(*     invalid one,                                                        *)
(*   - for every element of a group: drop it and duplicate it, with the    *)
(*     count left alone and with the count adjusted,                       *)
(*   - for every string terminator: remove it,                             *)
(* and states the post-condition of the stateful decoders                  *)
(* (store.ReplicateTx):   outcome = error  =>  state' = state.             *)
(*                                                                         *)
(* The Go harness (cmd/c16) builds the valid bytes of each shape with the  *)
(* REAL encoder, checks that the layout printed here describes those bytes *)
(* (total length, value of every length/count/tag field at its offset),    *)
(* applies each mutation to the bytes and calls the real decoder under     *)
(* recover + deadline + allocation accounting.                             *)
(* Not covered: SQL text, purely random bytes.                             *)
(***************************************************************************)
EXTENDS Integers, Sequences, FiniteSets, TLC, Json, SequencesExt

CONSTANTS OutFile

MAXV == -1      \* symbolic "all bits set" for the width of the field
UNKNOWN == -2   \* the value of the field is not predicted by the layout (ids, timestamps, payload)

-----------------------------------------------------------------------------
(* field descriptors                                                        *)
Fld(n, role, sz, v) == [n |-> n, role |-> role, sz |-> sz, v |-> v, valid |-> {}, grp |-> "", elem |-> 0, of |-> ""]
U16(n) == Fld(n, "plain", 2, UNKNOWN)
U32(n) == Fld(n, "plain", 4, UNKNOWN)
U64(n) == Fld(n, "plain", 8, UNKNOWN)
Digest(n) == Fld(n, "digest", 32, UNKNOWN)
Bytes(n, len) == Fld(n, "bytes", len, UNKNOWN)
LenF(w, n, v) == Fld(n, "len", w, v)                                   \* length prefix of w bytes announcing v bytes
Count(w, n, v, g) == [Fld(n, "count", w, v) EXCEPT !.of = g]          \* count prefix of group g
Tag(n, v, valid) == [Fld(n, "tag", 1, v) EXCEPT !.valid = valid]      \* one byte out of a set of valid values
Ver(n, v, valid) == [Fld(n, "tag", 2, v) EXCEPT !.valid = valid]      \* two-byte version field
CStr(n, len) == <<Bytes(n, len), Fld(n \o ".nul", "nul", 1, 0)>>      \* NUL-terminated string
InElem(fs, g, e) == [i \in 1..Len(fs) |-> IF fs[i].grp = "" THEN [fs[i] EXCEPT !.grp = g, !.elem = e] ELSE fs[i]]

RECURSIVE SumSz(_, _)
SumSz(fs, upto) == IF upto = 0 THEN 0 ELSE fs[upto].sz + SumSz(fs, upto - 1)
Size(fs) == SumSz(fs, Len(fs))
Off(fs, i) == SumSz(fs, i - 1)
Flat(seqs) == FoldLeft(LAMBDA acc, s : acc \o s, <<>>, seqs)

-----------------------------------------------------------------------------
(* formats                                                                  *)

\* store.TxMetadata: attributes in code order; 0 = truncatedUptoTx (u64), 1 = extra (u16 length + bytes, <= 256)
TxMdAttrCodes == {0, 1}
TxMd(trunc, extraLen) ==
  (IF trunc THEN InElem(<<Tag("attr", 0, TxMdAttrCodes), U64("truncatedTxID")>>, "txattrs", 1) ELSE <<>>)
  \o (IF extraLen >= 0 THEN InElem(<<Tag("attr", 1, TxMdAttrCodes), LenF(2, "extraLen", extraLen), Bytes("extra", extraLen)>>, "txattrs", 2) ELSE <<>>)

\* store.KVMetadata: 0 = deleted, 1 = expiresAt (u64 seconds), 2 = nonIndexable
KvMdAttrCodes == {0, 1, 2}
KvMd(deleted, expires, nonIndexable) ==
  (IF deleted THEN InElem(<<Tag("attr", 0, KvMdAttrCodes)>>, "kvattrs", 1) ELSE <<>>)
  \o (IF expires THEN InElem(<<Tag("attr", 1, KvMdAttrCodes), U64("expiresAt")>>, "kvattrs", 2) ELSE <<>>)
  \o (IF nonIndexable THEN InElem(<<Tag("attr", 2, KvMdAttrCodes)>>, "kvattrs", 3) ELSE <<>>)

\* store.TxHeader (tx.go): version 0 has a u16 entry count and no metadata; version 1 a length-prefixed
\* metadata record and a u32 entry count
TxHdr(ver, md, nentries) ==
  <<U64("id"), Digest("prevAlh"), U64("ts"), Ver("version", ver, {0, 1})>>
  \o (IF ver = 0 THEN <<Count(2, "nentries", nentries, "entries")>>
      ELSE <<LenF(2, "mdLen", Size(md))>> \o md \o <<Count(4, "nentries", nentries, "entries")>>)
  \o <<Digest("eh"), U64("blTxID"), Digest("blRoot")>>

\* exported transaction (ExportTx output / ReplicateTx input)
ExpEntry(e, klen, md, vlen) ==
  InElem(<<LenF(2, "kLen", klen), Bytes("key", klen), LenF(2, "kvmdLen", Size(md))>> \o md \o <<LenF(4, "vLen", vlen), Bytes("value", vlen)>>, "entries", e)
ExportedTx(hdr, entries) ==
  <<LenF(4, "hdrLen", Size(hdr))>> \o hdr \o Flat(entries) \o <<LenF(2, "tLen", 1), Tag("truncated", 0, {0, 1})>>

\* appendable.Metadata: every item is a u32-length-prefixed field; the first field holds the u32 number of pairs
AppMd(pairs) ==     \* pairs: sequence of <<keyLen, valueLen>>
  <<LenF(4, "countLen", 4), Count(4, "count", Len(pairs), "pairs")>>
  \o Flat([i \in 1..Len(pairs) |-> InElem(<<LenF(4, "kLen", pairs[i][1]), Bytes("key", pairs[i][1]), LenF(4, "vLen", pairs[i][2]), Bytes("val", pairs[i][2])>>, "pairs", i)])
\* header of a singleapp file: u32 metadata length, metadata, then the payload
AppFile(md, payload) == <<LenF(4, "mLen", Size(md))>> \o md \o <<Bytes("payload", payload)>>

\* PostgreSQL wire, frontend messages (payload after type byte and length)
PgParse(nameLen, queryLen, ntypes) ==
  CStr("stmtName", nameLen) \o CStr("query", queryLen) \o <<Count(2, "ntypes", ntypes, "types")>>
  \o Flat([i \in 1..ntypes |-> InElem(<<U32("oid")>>, "types", i)])
PgBind(portalLen, stmtLen, nfmt, params, nres) ==   \* params: sequence of value lengths, -1 = NULL
  CStr("portal", portalLen) \o CStr("stmt", stmtLen)
  \o <<Count(2, "nfmt", nfmt, "fmts")>> \o Flat([i \in 1..nfmt |-> InElem(<<U16("fmt")>>, "fmts", i)])
  \o <<Count(2, "nparams", Len(params), "params")>>
  \o Flat([i \in 1..Len(params) |-> InElem(IF params[i] < 0 THEN <<Fld("pLen", "plain", 4, MAXV)>>
                                           ELSE <<LenF(4, "pLen", params[i]), Bytes("pVal", params[i])>>, "params", i)])
  \o <<Count(2, "nres", nres, "resfmts")>> \o Flat([i \in 1..nres |-> InElem(<<U16("resfmt")>>, "resfmts", i)])
PgDescribe(kind, nameLen) == <<Tag("kind", kind, {80, 83})>> \o CStr("name", nameLen)      \* 'P' = 80, 'S' = 83
PgExecute(portalLen) == CStr("portal", portalLen) \o <<U32("maxRows")>>
PgPassword(len) == CStr("password", len)
PgQuery(len) == CStr("query", len)
\* a whole frame as read from the connection: type byte, u32 length that counts itself, payload
PgFrameTypes == {66, 67, 68, 69, 72, 80, 81, 82, 83, 84, 85, 88, 90, 99, 100, 102, 112, 116}   \* pgmeta.MTypes: B C D E H P Q R S T U X Z c d f p t
PgFrame(t, payloadLen) == <<Tag("type", t, PgFrameTypes), LenF(4, "len", payloadLen + 4), Bytes("payload", payloadLen)>>
\* startup packet: u32 length counting itself, u32 protocol version, NUL-terminated key/value strings, final NUL
PgStartup(pairs) ==
  <<LenF(4, "len", 8 + 1 + Size(Flat([i \in 1..Len(pairs) |-> CStr("k", pairs[i][1]) \o CStr("v", pairs[i][2])]))), U32("protocol")>>
  \o Flat([i \in 1..Len(pairs) |-> InElem(CStr("k", pairs[i][1]) \o CStr("v", pairs[i][2]), "params", i)]) \o <<Fld("end.nul", "nul", 1, 0)>>

\* pkg/stream: a message is a u64 length followed by that many bytes; a key-value stream alternates key and value
StreamMsgs(lens) == Flat([i \in 1..Len(lens) |-> InElem(<<LenF(8, "size", lens[i]), Bytes("content", lens[i])>>, "msgs", i)])

-----------------------------------------------------------------------------
(* instance shapes: [fmt, id, p (parameters the harness needs to build the valid bytes), f (layout)]       *)
B == BOOLEAN
TxMdShapes == {[fmt |-> "TxMetadata", p |-> [trunc |-> t, extraLen |-> x], f |-> TxMd(t, x)] : t \in B, x \in {-1, 1, 2, 5}}
KvMdShapes == {[fmt |-> "KVMetadata", p |-> [deleted |-> d, expires |-> x, nonIndexable |-> n], f |-> KvMd(d, x, n)] : d \in B, x \in B, n \in B}
TxHdrShapes == {[fmt |-> "TxHeader", p |-> [ver |-> 0, trunc |-> FALSE, extraLen |-> -1, nentries |-> 1], f |-> TxHdr(0, <<>>, 1)]}
               \cup {[fmt |-> "TxHeader", p |-> [ver |-> 1, trunc |-> t, extraLen |-> x, nentries |-> n], f |-> TxHdr(1, TxMd(t, x), n)] :
                        t \in B, x \in {-1, 2, 100}, n \in {1, 3}}

\* entries of an exported tx: <<key length, <<deleted, expires, nonIndexable>>, value length>>
NoMd == <<FALSE, FALSE, FALSE>>
EntryLists == { << <<1, NoMd, 0>> >>,
                << <<3, <<TRUE, FALSE, FALSE>>, 5>> >>,
                << <<2, NoMd, 3>>, <<3, <<FALSE, TRUE, TRUE>>, 1>> >>,
                << <<1, <<TRUE, TRUE, TRUE>>, 2>>, <<2, NoMd, 0>>, <<4, NoMd, 6>> >> }
\* version-0 transactions (1.1 compatibility mode) carry neither tx metadata nor entry metadata
EntryListsV0 == { << <<1, NoMd, 0>> >>, << <<2, NoMd, 3>>, <<4, NoMd, 6>> >> }
ExpShape(v, x, es) == [fmt |-> "ExportedTx", p |-> [ver |-> v, extraLen |-> x, entries |-> es],
                       f |-> ExportedTx(TxHdr(v, IF v = 0 THEN <<>> ELSE TxMd(FALSE, x), Len(es)),
                                        [i \in 1..Len(es) |-> ExpEntry(i, es[i][1], KvMd(es[i][2][1], es[i][2][2], es[i][2][3]), es[i][3])])]
ExpShapesOK == {ExpShape(1, x, es) : x \in {-1, 2}, es \in EntryLists} \cup {ExpShape(0, -1, es) : es \in EntryListsV0}

AppMdShapes == {[fmt |-> "AppMetadata", p |-> [pairs |-> ps], f |-> AppMd(ps)] :
                  ps \in {<<>>, << <<3, 8>> >>, << <<2, 1>>, <<4, 8>> >>, << <<1, 8>>, <<2, 0>>, <<3, 8>> >>}}
\* the metadata singleapp itself writes: 3 integer items and the wrapped metadata (keys of 13, 18, 17 and 16 bytes)
SingleAppMd(wrapped) == AppMd(<< <<13, 8>>, <<18, 8>>, <<17, 8>>, <<16, wrapped>> >>)
AppFileShapes == {[fmt |-> "AppFile", p |-> [wrapped |-> w, payload |-> pl], f |-> AppFile(SingleAppMd(w), pl)] : w \in {5}, pl \in {7}}

PgShapes ==
  {[fmt |-> "PgParse", p |-> [nameLen |-> a, queryLen |-> 8, ntypes |-> n], f |-> PgParse(a, 8, n)] : a \in {0, 2}, n \in {0, 2}}
  \cup {[fmt |-> "PgBind", p |-> [portalLen |-> a, stmtLen |-> 2, nfmt |-> nf, params |-> ps, nres |-> nr], f |-> PgBind(a, 2, nf, ps, nr)] :
          a \in {0, 1}, nf \in {0, 1, 2}, ps \in {<<>>, <<3, -1>>}, nr \in {0, 2}}
  \cup {[fmt |-> "PgDescribe", p |-> [kind |-> k, nameLen |-> a], f |-> PgDescribe(k, a)] : k \in {80, 83}, a \in {0, 3}}
  \cup {[fmt |-> "PgExecute", p |-> [portalLen |-> a], f |-> PgExecute(a)] : a \in {0, 3}}
  \cup {[fmt |-> "PgPassword", p |-> [len |-> a], f |-> PgPassword(a)] : a \in {0, 6}}
  \cup {[fmt |-> "PgQuery", p |-> [len |-> a], f |-> PgQuery(a)] : a \in {0, 8}}
  \cup {[fmt |-> "PgFrame", p |-> [type |-> t, payloadLen |-> a], f |-> PgFrame(t, a)] : t \in {81, 83}, a \in {0, 5}}
\* (PgStartup is described above for completeness; its parser is an unexported session method that can only be
\*  reached through a listening server whose goroutines have no recover, so no shapes are instantiated for it)

StreamShapes == {[fmt |-> "Stream", p |-> [lens |-> ls], f |-> StreamMsgs(ls)] : ls \in {<<0>>, <<3>>, <<3, 5>>, <<2, 40>>, <<1, 0, 2, 9>>}}

Shapes == TxMdShapes \cup KvMdShapes \cup TxHdrShapes \cup ExpShapesOK \cup AppMdShapes \cup AppFileShapes \cup PgShapes \cup StreamShapes

-----------------------------------------------------------------------------
(* mutation operators                                                       *)
FieldAt(fs, t) == CHOOSE i \in 1..Len(fs) : Off(fs, i) <= t /\ t < Off(fs, i) + fs[i].sz
HasFieldAt(fs, t) == \E i \in 1..Len(fs) : Off(fs, i) <= t /\ t < Off(fs, i) + fs[i].sz

Truncations(fs) ==
  {[op |-> "trunc", at |-> t, w |-> 0, val |-> 0, to |-> 0, cat |-> 0, cw |-> 0, cval |-> 0,
    field |-> (LET i == FieldAt(fs, t) IN fs[i].n), how |-> (LET i == FieldAt(fs, t) IN IF Off(fs, i) = t THEN "before" ELSE "inside")]
     : t \in {t \in 0..(Size(fs) - 1) : HasFieldAt(fs, t)}}

MaxOf(w) == MAXV
LenValues(fs, i) ==
  LET v == fs[i].v
      rem == Size(fs) - Off(fs, i) - fs[i].sz
  IN {<<0, "zero">>, <<v - 1, "minus1">>, <<v + 1, "plus1">>, <<rem + 1, "remaining+1">>, <<MAXV, "max">>}
     \cup (IF v >= 4 THEN {<<v \div 2, "half">>} ELSE {})     \* cuts an enclosed structure in the middle
SetLens(fs) ==
  UNION {{[op |-> "set", at |-> Off(fs, i), w |-> fs[i].sz, val |-> x[1], to |-> 0, cat |-> 0, cw |-> 0, cval |-> 0, field |-> fs[i].n, how |-> x[2]]
            : x \in {y \in LenValues(fs, i) : (y[1] >= 0 \/ y[1] = MAXV) /\ y[1] # fs[i].v}}
         : i \in {j \in 1..Len(fs) : fs[j].role \in {"len", "count"}}}

FirstInvalid(valid) == CHOOSE x \in 0..256 : x \notin valid /\ \A y \in 0..(x - 1) : y \in valid
SetTags(fs) ==
  UNION {{[op |-> "set", at |-> Off(fs, i), w |-> fs[i].sz, val |-> x[1], to |-> 0, cat |-> 0, cw |-> 0, cval |-> 0, field |-> fs[i].n, how |-> x[2]]
            : x \in {<<y, "other-valid">> : y \in fs[i].valid \ {fs[i].v}} \cup {<<FirstInvalid(fs[i].valid), "first-invalid">>}}
         : i \in {j \in 1..Len(fs) : fs[j].role = "tag"}}

Elems(fs) == {<<fs[i].grp, fs[i].elem>> : i \in {j \in 1..Len(fs) : fs[j].grp # ""}}
ElemFrom(fs, ge) == Off(fs, CHOOSE i \in 1..Len(fs) : fs[i].grp = ge[1] /\ fs[i].elem = ge[2] /\ \A j \in 1..(i - 1) : ~(fs[j].grp = ge[1] /\ fs[j].elem = ge[2]))
ElemTo(fs, ge) == LET i == CHOOSE i \in 1..Len(fs) : fs[i].grp = ge[1] /\ fs[i].elem = ge[2] /\ \A j \in (i + 1)..Len(fs) : ~(fs[j].grp = ge[1] /\ fs[j].elem = ge[2])
                  IN Off(fs, i) + fs[i].sz
CountIdx(fs, g) == {i \in 1..Len(fs) : fs[i].role = "count" /\ fs[i].of = g}
GroupOps(fs) ==
  UNION {
    {[op |-> o, at |-> ElemFrom(fs, ge), w |-> 0, val |-> 0, to |-> ElemTo(fs, ge), cat |-> 0, cw |-> 0, cval |-> 0,
      field |-> ge[1] \o "[" \o ToString(ge[2]) \o "]", how |-> "count-unchanged"] : o \in {"drop", "dup"}}
    \cup {[op |-> o[1], at |-> ElemFrom(fs, ge), w |-> 0, val |-> 0, to |-> ElemTo(fs, ge),
           cat |-> Off(fs, c), cw |-> fs[c].sz, cval |-> fs[c].v + o[2],
           field |-> ge[1] \o "[" \o ToString(ge[2]) \o "]", how |-> "count-adjusted"] : o \in {<<"drop", -1>>, <<"dup", 1>>}, c \in CountIdx(fs, ge[1])}
    : ge \in Elems(fs)}
DropNuls(fs) ==
  {[op |-> "drop", at |-> Off(fs, i), w |-> 0, val |-> 0, to |-> Off(fs, i) + 1, cat |-> 0, cw |-> 0, cval |-> 0, field |-> fs[i].n, how |-> "unterminated"]
     : i \in {j \in 1..Len(fs) : fs[j].role = "nul"}}
None == [op |-> "none", at |-> 0, w |-> 0, val |-> 0, to |-> 0, cat |-> 0, cw |-> 0, cval |-> 0, field |-> "", how |-> "valid"]

Mutations(fs) == {None} \cup Truncations(fs) \cup SetLens(fs) \cup SetTags(fs) \cup GroupOps(fs) \cup DropNuls(fs)

-----------------------------------------------------------------------------
(* Post-condition of a decoder call.  st / st2: abstract state of the      *)
(* receiving store before / after (committed, precommitted tx count and    *)
(* the two accumulated hashes); pure decoders have the state "none".       *)
(*   outcome = "error"  =>  nothing changed                                *)
(*   outcome = "value"  =>  a valid value (usable without a crash); for    *)
(*                          ReplicateTx exactly one more transaction        *)
(*   "panic", "hang", "runaway-allocation" are never acceptable            *)
Acceptable(outcome, st, st2, stateful) ==
  CASE outcome = "error" -> st2 = st
    [] outcome = "value" -> IF stateful THEN st2.precommitted = st.precommitted + 1 /\ st2.committed \in {st.committed, st.committed + 1} ELSE st2 = st
    [] OTHER -> FALSE
\* the expectation attached to a mutation: the untouched encoding must decode (to the original value)
Expect(m) == IF m.op = "none" THEN "value" ELSE "error-or-value"

-----------------------------------------------------------------------------
(* proof messages (pkg/api/schema *FromProto): protobuf messages are       *)
(* mutated structurally - an optional sub-message is absent (nil), a       *)
(* digest is nil / short / long, a list of digests loses or repeats an     *)
(* element or contains a short one.                                        *)
ProofMsgs ==
  [DualProof |-> <<[n |-> "SourceTxHeader", k |-> "msg"], [n |-> "TargetTxHeader", k |-> "msg"], [n |-> "InclusionProof", k |-> "digests"],
                   [n |-> "ConsistencyProof", k |-> "digests"], [n |-> "TargetBlTxAlh", k |-> "digest"], [n |-> "LastInclusionProof", k |-> "digests"],
                   [n |-> "LinearProof", k |-> "msg"], [n |-> "LinearAdvanceProof", k |-> "msg"]>>,
   DualProofV2 |-> <<[n |-> "SourceTxHeader", k |-> "msg"], [n |-> "TargetTxHeader", k |-> "msg"], [n |-> "InclusionProof", k |-> "digests"],
                     [n |-> "ConsistencyProof", k |-> "digests"]>>,
   TxHeader |-> <<[n |-> "PrevAlh", k |-> "digest"], [n |-> "EH", k |-> "digest"], [n |-> "BlRoot", k |-> "digest"], [n |-> "Metadata", k |-> "msg"]>>,
   LinearProof |-> <<[n |-> "Terms", k |-> "digests"]>>,
   LinearAdvanceProof |-> <<[n |-> "LinearProofTerms", k |-> "digests"], [n |-> "InclusionProofs", k |-> "msgs"]>>,
   InclusionProof |-> <<[n |-> "Terms", k |-> "digests"]>>,
   Tx |-> <<[n |-> "Header", k |-> "msg"], [n |-> "Entries", k |-> "msgs"]>>,
   TxEntry |-> <<[n |-> "Metadata", k |-> "msg"], [n |-> "HValue", k |-> "digest"]>>,
   KVMetadata |-> <<[n |-> "Expiration", k |-> "msg"]>>,
   VerifiableTx |-> <<[n |-> "Tx", k |-> "msg"], [n |-> "DualProof", k |-> "msg"]>>]
ProofOps(k) == CASE k = "msg" -> {"nil"}
                 [] k = "digest" -> {"nil", "short", "long"}
                 [] k = "digests" -> {"nil", "drop-element", "dup-element", "short-element", "nil-element"}
                 [] k = "msgs" -> {"nil", "drop-element", "dup-element"}     \* (a nil element cannot be expressed on the wire)
ProofMuts == UNION {UNION {{[msg |-> m, field |-> ProofMsgs[m][i].n, kind |-> ProofMsgs[m][i].k, op |-> o] : o \in ProofOps(ProofMsgs[m][i].k)}
                              : i \in 1..Len(ProofMsgs[m])} : m \in DOMAIN ProofMsgs}

-----------------------------------------------------------------------------
Layout(fs) == [i \in 1..Len(fs) |-> [n |-> fs[i].n, role |-> fs[i].role, off |-> Off(fs, i), sz |-> fs[i].sz, v |-> fs[i].v, grp |-> fs[i].grp, elem |-> fs[i].elem]]
ShapeOut(s) == [fmt |-> s.fmt, p |-> s.p, total |-> Size(s.f), layout |-> Layout(s.f),
                muts |-> SetToSeq({[m EXCEPT !.field = m.field] @@ [expect |-> Expect(m)] : m \in Mutations(s.f)})]

Out == SetToSeq({ShapeOut(s) : s \in Shapes})

ASSUME /\ TLCSet(1, Out)
       /\ PrintT(<<"shapes", Len(TLCGet(1))>>)
       /\ PrintT(<<"mutations", FoldLeft(LAMBDA acc, s : acc + Len(s.muts), 0, TLCGet(1))>>)
       \* every enumerated mutation is inside the buffer it is applied to, and (except "none") changes it
       /\ PrintT(<<"WellFormed", \A i \in 1..Len(TLCGet(1)) : \A j \in 1..Len(TLCGet(1)[i].muts) :
                      LET s == TLCGet(1)[i]  m == s.muts[j]
                      IN /\ m.at >= 0 /\ m.at <= s.total
                         /\ (m.op = "trunc" => m.at < s.total)
                         /\ (m.op = "set" => m.at + m.w <= s.total)
                         /\ (m.op \in {"drop", "dup"} => m.at < m.to /\ m.to <= s.total)>>)
       \* the post-condition is what the harness enforces: an error leaves the state alone
       /\ PrintT(<<"PostCondition", \A c \in 0..2 : LET st == [committed |-> c, precommitted |-> c] IN
                      /\ Acceptable("error", st, st, TRUE) /\ ~Acceptable("error", st, [st EXCEPT !.precommitted = c + 1], TRUE)
                      /\ Acceptable("value", st, [committed |-> c + 1, precommitted |-> c + 1], TRUE)
                      /\ ~Acceptable("panic", st, st, TRUE) /\ ~Acceptable("hang", st, st, FALSE)>>)
       /\ JsonSerialize(OutFile, [shapes |-> TLCGet(1), proofs |-> SetToSeq(ProofMuts)])

VARIABLE x
Init == x = 0
Next == x < 1 /\ x' = x + 1
=============================================================================
