------------------------------ MODULE Watchers ------------------------------
(***************************************************************************)
(* embedded/watchers.WatchersHub: the wait/notify primitive behind the     *)
(* commit pipeline (inmem-precommit, durable-precommit, commit and index   *)
(* hubs).  Beyond the listed properties; part of the growth of the         *)
(* specification (DESIGN.md §8).                                           *)
(*                                                                         *)
(* Waiters are goroutines calling WaitFor(t); the hub state is doneUpto,   *)
(* the registered waiters and the closed flag.  A waiter's call is Call    *)
(* (under the hub mutex: immediate return, limit error, or registration),  *)
(* then it is woken by DoneUpto / Close or cancelled by its context.       *)
(***************************************************************************)
EXTENDS Naturals, FiniteSets, Sequences, TLC, Json

CONSTANTS Waiters, MaxT, MaxWaiting, MaxOps, EmitDepth

VARIABLES doneUpto, reg,      \* reg: function waiter -> point it is registered at (0 = not registered)
          res,                \* res[w] \in {"none", "ok", "limit", "closed", "cancelled"}: result of its last call
          closed, hist
vars == <<doneUpto, reg, res, closed, hist>>

Waiting == Cardinality({w \in Waiters : reg[w] > 0})
Log(e) == hist' = Append(hist, e)

Init == doneUpto = 0 /\ reg = [w \in Waiters |-> 0] /\ res = [w \in Waiters |-> "none"] /\ closed = FALSE /\ hist = <<>>

\* WaitFor(ctx, t) up to the point where it parks
Call(w, t) ==
  /\ reg[w] = 0 /\ Len(hist) < MaxOps
  /\ IF closed THEN res' = [res EXCEPT ![w] = "closed"] /\ UNCHANGED reg
     ELSE IF doneUpto >= t THEN res' = [res EXCEPT ![w] = "ok"] /\ UNCHANGED reg
     ELSE IF Waiting = MaxWaiting THEN res' = [res EXCEPT ![w] = "limit"] /\ UNCHANGED reg
     ELSE reg' = [reg EXCEPT ![w] = t] /\ res' = [res EXCEPT ![w] = "none"]
  /\ UNCHANGED <<doneUpto, closed>>
  /\ Log([op |-> "wait", w |-> w, t |-> t, res |-> res'[w], done |-> doneUpto, waiting |-> Cardinality({x \in Waiters : reg'[x] > 0})])

DoneUpto(t) ==
  /\ ~closed /\ Len(hist) < MaxOps
  /\ IF doneUpto >= t THEN UNCHANGED <<doneUpto, reg, res>>
     ELSE /\ doneUpto' = t
          /\ reg' = [w \in Waiters |-> IF reg[w] > 0 /\ reg[w] <= t THEN 0 ELSE reg[w]]
          /\ res' = [w \in Waiters |-> IF reg[w] > 0 /\ reg[w] <= t THEN "ok" ELSE res[w]]
  /\ UNCHANGED closed
  /\ Log([op |-> "done", w |-> 0, t |-> t, res |-> "", done |-> doneUpto', waiting |-> Cardinality({x \in Waiters : reg'[x] > 0})])

RecedeTo(t) ==
  /\ ~closed /\ t <= doneUpto /\ Len(hist) < MaxOps
  /\ doneUpto' = t /\ UNCHANGED <<reg, res, closed>>
  /\ Log([op |-> "recede", w |-> 0, t |-> t, res |-> "", done |-> t, waiting |-> Waiting])

Cancel(w) ==
  /\ reg[w] > 0 /\ ~closed /\ Len(hist) < MaxOps
  /\ reg' = [reg EXCEPT ![w] = 0] /\ res' = [res EXCEPT ![w] = "cancelled"]
  /\ UNCHANGED <<doneUpto, closed>>
  /\ Log([op |-> "cancel", w |-> w, t |-> 0, res |-> "cancelled", done |-> doneUpto, waiting |-> Cardinality({x \in Waiters : reg'[x] > 0})])

Close ==
  /\ ~closed /\ Len(hist) < MaxOps
  /\ closed' = TRUE
  /\ res' = [w \in Waiters |-> IF reg[w] > 0 THEN "closed" ELSE res[w]]
  /\ reg' = [w \in Waiters |-> 0] /\ UNCHANGED doneUpto
  /\ Log([op |-> "close", w |-> 0, t |-> 0, res |-> "", done |-> doneUpto, waiting |-> 0])

Next == \/ \E w \in Waiters, t \in 1..MaxT : Call(w, t)
        \/ \E t \in 1..MaxT : DoneUpto(t)
        \/ \E t \in 0..MaxT : RecedeTo(t)
        \/ \E w \in Waiters : Cancel(w)
        \/ Close
Spec == Init /\ [][Next]_vars

\* no lost wake-up: nobody stays parked on a point that is already done
NoLostWakeup == \A w \in Waiters : reg[w] > 0 => reg[w] > doneUpto
\* the limit is respected
WithinLimit == Waiting <= MaxWaiting
\* a waiter is told "ok" only for a point that had been reached when it was told
OkMeansDone == [][\A w \in Waiters : (res'[w] = "ok" /\ res[w] # "ok" /\ reg[w] > 0) => doneUpto' >= reg[w]]_vars
View == <<doneUpto, reg, res, closed, Len(hist)>>
Emit == (EmitDepth > 0 /\ Len(hist) = EmitDepth) => PrintT(<<"JSON:", ToJson([ops |-> hist])>>)
=============================================================================
