------------------------- MODULE TraceReplicationDB -------------------------
(***************************************************************************)
(* Trace validation of real pkg/database nodes replicated by the real      *)
(* pkg/replication.TxReplicator against ReplicationDB.tla.  The ndjson     *)
(* trace (env VERIF_TRACE) merges, in the order in which they were logged, *)
(* the store hook events of every node (Precommit, TxLogSynced, Committed, *)
(* Discard, Allow, Opened) and the driver events logged when the real call *)
(* returned (Report = CurrentState of the replica, Arrive / Answer around  *)
(* ExportTxByID of the followed node, RAllow = AllowCommitUpto of the      *)
(* replica, Switch / Connected / Promote).  Structural conditions must     *)
(* hold (otherwise the trace is rejected at that line); safety guards that *)
(* are false are collected in `bad` and the state follows the real         *)
(* execution, so that the rest of the run is still examined.               *)
(***************************************************************************)
EXTENDS ReplicationDB, Json, IOUtils, TLCExt

TraceLog == ndJsonDeserialize(IOEnv.VERIF_TRACE)
VARIABLES l, bad,
          arrOk    \* arrOk[p][r]: the state of r's request was a prefix of p's history when the request arrived (before ExportTxByID ran)
tvars == <<vars, l, bad, arrOk>>
Ev == TraceLog[l]
Is(e) == l <= Len(TraceLog) /\ Ev.ev = e /\ l' = l + 1
N == Ev.node
Note(what, id) == bad' = Append(bad, [what |-> what, node |-> N, id |-> id, line |-> l])
\* check a guard: collect its name when false
Chk(g, what, id) == IF g THEN UNCHANGED bad ELSE Note(what, id)
EvSt == St(Ev.cid, Ev.calh, Ev.pid, Ev.palh)
FollowOf(x) == IF x = "" THEN None ELSE x

Cf0 == [n \in Nodes |-> [role |-> "replica", follows |-> None, sync |-> FALSE, need |-> 0]]
TraceInit == Init(Cf0) /\ l = 1 /\ bad = <<>> /\ arrOk = [p \in Nodes |-> [r \in Nodes |-> FALSE]]

TReset ==
  /\ Is("Reset") /\ UNCHANGED bad /\ arrOk' = [p \in Nodes |-> [r \in Nodes |-> FALSE]]
  /\ LET cf == [n \in Nodes |-> LET c == CHOOSE c \in Range(Ev.init) : c.node = n
                                IN [role |-> c.role, follows |-> FollowOf(c.follows), sync |-> c.sync, need |-> c.need]]
     IN /\ pre' = [n \in Nodes |-> <<>>] /\ dur' = [n \in Nodes |-> 0] /\ com' = [n \in Nodes |-> 0]
        /\ role' = [n \in Nodes |-> cf[n].role] /\ follows' = [n \in Nodes |-> cf[n].follows]
        /\ syncOn' = [n \in Nodes |-> cf[n].sync] /\ need' = [n \in Nodes |-> cf[n].need]
        /\ everDur' = [n \in Nodes |-> {}] /\ created' = {}
        /\ rep' = [n \in Nodes |-> NoSt] /\ acked' = [p \in Nodes |-> [r \in Nodes |-> 0]] /\ pend' = [p \in Nodes |-> [r \in Nodes |-> NoSt]]
        /\ allowBy' = [n \in Nodes |-> None] /\ srcs' = [n \in Nodes |-> IF cf[n].follows = None THEN {} ELSE {cf[n].follows}]

TPrecommit ==
  /\ Is("Precommit") /\ UNCHANGED arrOk /\ PrecommitS(N, Ev.id, Ev.alh, Ev.prev) /\ PrecommitE(N, Ev.id, Ev.alh, Ev.prev)
  /\ Chk(PrecommitG(N, Ev.id, Ev.alh, Ev.prev), "replica-precommits-tx-no-primary-created", Ev.id)

TDurable == Is("TxLogSynced") /\ UNCHANGED arrOk /\ Durable(N, Ev.upto) /\ UNCHANGED bad

CommitBadName(n, upto) ==
  IF role[n] = "primary" THEN "primary-commits-without-durable-acks"
  ELSE IF Auth(n) = {} THEN "replica-commits-while-following-nobody"
  ELSE IF \E p \in Auth(n) : upto <= Len(pre[p]) /\ \A k \in 1..upto : pre[n][k] = pre[p][k] THEN "replica-commits-before-primary"
  ELSE "replica-commits-tx-not-in-primary-history"
TCommitted ==
  /\ Is("Committed") /\ UNCHANGED arrOk /\ CommittedS(N, Ev.upto, Ev.alh) /\ CommittedE(N, Ev.upto, Ev.alh)
  /\ Chk(CommittedG(N, Ev.upto, Ev.alh), CommitBadName(N, Ev.upto), Ev.upto)

TDiscard == Is("Discard") /\ UNCHANGED arrOk /\ Discard(N, Ev.since) /\ UNCHANGED bad

TOpened == /\ Is("Opened") /\ UNCHANGED arrOk /\ UNCHANGED bad
           /\ Reopened(N, Ev.c, SubSeq(pre[N], 1, Ev.c) \o [k \in 1..Len(Ev.reloaded) |-> Ev.reloaded[k].alh])

\* store hook: on a primary the allowance computed from the acks; on a replica the allowance of the followed node takes force
TAllow ==
  /\ Is("Allow") /\ UNCHANGED arrOk
  /\ IF role[N] = "primary"
     THEN PAllowE(N) /\ Chk(PAllowG(N, Ev.upto), "primary-allows-commit-without-acks", Ev.upto)
     ELSE /\ allowBy' = [allowBy EXCEPT ![N] = follows[N]] /\ UNCHANGED bad
          /\ UNCHANGED <<pre, dur, com, role, follows, syncOn, need, everDur, created, rep, acked, pend, srcs>>

ReportBadName(r, st) ==
  IF ~ReportCommitG(r, st) THEN "replica-reports-commit-it-does-not-hold"
  ELSE IF ~ReportHeldG(r, st) THEN "replica-reports-precommit-it-does-not-hold"
  ELSE "replica-reports-non-durable-precommit"
TReport == Is("Report") /\ UNCHANGED arrOk /\ ReportE(N, EvSt) /\ Chk(ReportG(N, EvSt), ReportBadName(N, EvSt), Ev.pid)

TArrive ==
  /\ Is("Arrive")
  /\ LET st == IF Ev.has THEN EvSt ELSE NoSt
     IN /\ ArriveE(N, Ev.from, Ev.has, st, TRUE) /\ Chk(ArriveG(N, Ev.from, Ev.has, st), "replicator-sends-state-it-did-not-read", Ev.tx)
        /\ arrOk' = [arrOk EXCEPT ![N][Ev.from] = StatePrefix(N, st)]

AnswerBadName(p, has, st, withTx) ==
  IF has /\ ~StatePrefix(p, st) THEN (IF ~CommitPartOk(p, st) THEN "primary-answers-replica-with-diverged-commit-state" ELSE "primary-answers-replica-with-diverged-precommit-state")
  ELSE IF has /\ ~MayG(p, st, Ev.may, Ev.mayAlh) THEN "primary-allows-replica-commit-beyond-its-own-commit"
  ELSE "primary-exports-tx-not-in-its-history"
TAnswer ==
  /\ Is("Answer") /\ UNCHANGED arrOk /\ PAllowE(N)
  /\ LET st == IF Ev.has THEN EvSt ELSE NoSt IN
     CASE Ev.res = "tx" -> Chk(AnswerTxG(N, Ev.to, Ev.has, st, Ev.tx, Ev.txAlh, Ev.allowPre, Ev.may, Ev.mayAlh), AnswerBadName(N, Ev.has, st, TRUE), Ev.tx)
       [] Ev.res = "state" -> Chk(AnswerStateG(N, Ev.to, Ev.has, st, Ev.may, Ev.mayAlh), AnswerBadName(N, Ev.has, st, FALSE), Ev.tx)
       \* being a prefix is monotone in the primary's progress: a rejection is unjustified only if the state was a prefix already when the
       \* request arrived (the primary may have caught up between its check and this event)
       [] Ev.res \in {"diverged-commit", "diverged-precommit"} -> Chk(AnswerDivergedG(N, Ev.to, st) \/ ~arrOk[N][Ev.to], "primary-rejects-replica-whose-state-is-a-prefix", Ev.tx)
       [] Ev.res = "garbled" -> Note("primary-exports-another-tx-than-requested", Ev.tx)
       [] OTHER -> UNCHANGED bad

TRAllow ==
  /\ Is("RAllow") /\ UNCHANGED arrOk /\ UNCHANGED vars
  /\ IF Ev.ok THEN Chk(RAllowG(N, Ev.upto, Ev.alh), "replica-accepts-allowance-for-tx-the-primary-did-not-commit", Ev.upto) ELSE UNCHANGED bad

TSwitch == Is("Switch") /\ UNCHANGED arrOk /\ Switch(N, Ev.to, Ev.sync) /\ UNCHANGED bad
TConnected == Is("Connected") /\ UNCHANGED arrOk /\ Connected(N, Ev.to) /\ UNCHANGED bad
TPromote == Is("Promote") /\ UNCHANGED arrOk /\ Promote(N, Ev.sync, Ev.need) /\ UNCHANGED bad

Ignored == {"VLogsSynced", "CLogFlushed", "CLogSynced", "Closed", "Applied", "RDiscardCall", "Lost", "Final"}
TOther == l <= Len(TraceLog) /\ Ev.ev \in Ignored /\ l' = l + 1 /\ UNCHANGED <<vars, bad, arrOk>>

TraceNext == TReset \/ TPrecommit \/ TDurable \/ TCommitted \/ TDiscard \/ TOpened \/ TAllow \/ TReport \/ TArrive \/ TAnswer
             \/ TRAllow \/ TSwitch \/ TConnected \/ TPromote \/ TOther
TraceSpec == TraceInit /\ [][TraceNext]_tvars
TraceAccepted ==
  LET d == TLCGet("stats").diameter IN
  IF d - 1 = Len(TraceLog) THEN TRUE
  ELSE Print(<<"TRACE-REJECTED-AT-LINE", d, IF d <= Len(TraceLog) THEN TraceLog[d] ELSE "eof">>, FALSE)
ReportBad == (l = Len(TraceLog) + 1 /\ bad # <<>>) => PrintT(<<"JSON:", ToJson([bad |-> bad])>>)
=============================================================================
