------------------------------- MODULE Docs -------------------------------
(***************************************************************************)
(* C19 - document collections store and find documents faithfully          *)
(* (embedded/document over embedded/sql, pkg/database document API).        *)
(*                                                                         *)
(* Abstract state: one collection = the id field, a set of declared typed  *)
(* fields (STRING, INTEGER, DOUBLE, BOOLEAN; "n.x", "n.y.z" nested paths), *)
(* a set of indexes (one or two fields, unique or not), the documents as    *)
(* id -> sequence of revisions.  A revision is a deletion mark or a        *)
(* content: a value per field of the universe (-1 = the field is missing,  *)
(* 0 = JSON null, 1..K = the k-th value of the field's type in the type's  *)
(* order) plus a stamp that identifies the rest of the document (the       *)
(* harness expands the stamp into nested JSON, arrays, unicode text).      *)
(*                                                                         *)
(* What a comparison with a missing/null field means is taken from the     *)
(* engine (document/engine.go generateRowSpecForDocument,                  *)
(* type_conversions.go structValueToSqlValue, sql NullValue.Compare,       *)
(* LikeBoolExp.reduce): a missing field and a JSON null are the same value *)
(* NULL; NULL equals NULL and is smaller than every other value (two       *)
(* valued logic); x LIKE p is false and x NOT_LIKE p is true for NULL x;   *)
(* a null constant in a query is the value NULL.  With 0 for NULL all      *)
(* comparisons are integer comparisons on 0..K.                            *)
(*                                                                         *)
(* Every read has a DEFINED result: GetById, Search (AND groups OR-ed      *)
(* together, ORDER BY, offset/limit), Count, Audit (every revision in      *)
(* order, numbered from 1, desc/offset/limit).  Where the property leaves  *)
(* freedom (order without ORDER BY, order of ties) the result is a         *)
(* sequence of candidate sets, one per position.                           *)
(*                                                                         *)
(* Implementation-shaped part of the model: every revision carries `cols`, *)
(* the typed columns extracted from the content when the revision was      *)
(* written, and ix holds the live entries of every index, maintained       *)
(* incrementally.  Decisions are separated from transitions:               *)
(*   AddFieldQuirk = TRUE  transcribes AddField as pinned (the new column  *)
(*     is not filled for the documents already stored),                    *)
(*   UniqueQuirk = TRUE transcribes the uniqueness decision as pinned      *)
(*     (sql doUpsert / CreateIndexStmt look at the FIRST entry with the    *)
(*     key prefix only and take a deletion mark for "no entry").           *)
(* With both FALSE the module is the design and TLC proves the invariants; *)
(* with TRUE TLC finds counterexamples which are replayed on the real      *)
(* engine.  Expected results of reads are ALWAYS computed from the         *)
(* contents (the property); `cres` is the result the pinned-code model     *)
(* gives (used only to name the finding).                                  *)
(***************************************************************************)
EXTENDS Integers, Sequences, FiniteSets, TLC, Json

CONSTANTS Fields,        \* declarable field names, subset of the elements of AllFields
          K,             \* values per field: 1..K (BOOLEAN: 1..2)
          MaxDocs,       \* bound on the number of inserted documents
          MaxRevs,       \* bound on the number of revisions of one document
          MaxOps,        \* bound on the behaviour length (0 = unbounded: model checking runs to the fixpoint)
          MaxFail,       \* rejected operations per behaviour
          Composite,     \* TRUE: a two-field index is among the index choices
          AddFieldQuirk, UniqueQuirk,
          ReadOps,       \* TRUE: reads are actions (simulation)
          Sim,           \* TRUE: parameters are drawn from the pseudo random stream rnd
          SeedSpace, EmitDepth,
          Rich,          \* model checking: TRUE = queries of write operations use every operator
          KeepSt         \* TRUE: every history entry carries the abstract collection after the step

VARIABLES created,   \* the collection exists
          declared,  \* set of declared fields
          indexes,   \* set of [fs |-> <<f>> or <<f, g>>, uq |-> BOOLEAN]
          docs,      \* id -> Seq([del, vals, stamp, cols])
          ix,        \* live index entries: set of [fs, k, id]
          wlog,      \* ghost: every write in order: [id, stamp] (stamp 0 = deletion)
          stampc,    \* last stamp used
          nfail, rnd, hist
vars == <<created, declared, indexes, docs, ix, wlog, stampc, nfail, rnd, hist>>

-----------------------------------------------------------------------------
\* nesting depth 1: s i d b; depth 2: n.x; depth 3 (the engine's maximum): n.y.z; TooDeep has depth 4 and must be refused
AllFields == <<"s", "i", "d", "b", "n.x", "n.y.z">>
TypeOf(f) == CASE f = "s" -> "STRING" [] f = "i" -> "INTEGER" [] f = "d" -> "DOUBLE" [] f = "b" -> "BOOLEAN"
               [] f = "n.x" -> "INTEGER" [] f = "n.y.z" -> "STRING"
TooDeep == "n.y.z.w"
FieldSeq == SelectSeq(AllFields, LAMBDA f : f \in Fields)
NVals(f) == IF TypeOf(f) = "BOOLEAN" THEN 2 ELSE K
Null == 0
Missing == -1
Col(v) == IF v = Missing THEN Null ELSE v        \* generateRowSpecForDocument: a missing field is stored as NULL

MinOf(a, b) == IF a < b THEN a ELSE b
MaxOf(a, b) == IF a > b THEN a ELSE b
SMin(S) == CHOOSE x \in S : \A y \in S : x <= y
RECURSIVE SortInts(_)
SortInts(S) == IF S = {} THEN <<>> ELSE <<SMin(S)>> \o SortInts(S \ {SMin(S)})
Rev(s) == [i \in 1..Len(s) |-> s[Len(s) + 1 - i]]

\* STRING values as symbol sequences (lexicographic order = order of 1..K), LIKE patterns over symbols,
\* 8 = '%' (any sequence), 9 = '_' (exactly one character)
StrOf(v) == CASE v = 1 -> <<1>> [] v = 2 -> <<1, 2>> [] v = 3 -> <<2>> [] OTHER -> <<2, v>>
Patterns == << <<1, 8>>, <<8, 2>>, <<9>>, <<1, 9>>, <<8>>, <<1, 2>>, <<9, 8>>, <<>> >>
RECURSIVE Match(_, _)
Match(s, p) ==
  IF p = <<>> THEN s = <<>>
  ELSE IF p[1] = 8 THEN Match(s, Tail(p)) \/ (s # <<>> /\ Match(Tail(s), p))
  ELSE s # <<>> /\ (p[1] = 9 \/ p[1] = s[1]) /\ Match(Tail(s), Tail(p))

-----------------------------------------------------------------------------
(* pseudo random parameters (simulation): as in TBTree.tla                  *)
Pow75 == <<1, 75, 5625, 4842, 38791, 36431, 44779, 22161, 40280, 9095, 33407, 3327, 17840, 40564, 30395, 9112,
           34682, 6278, 7480, 4956, 1004, 28963, 40723, 42320, 23084, 16831, 11226, 7884, 35256, 2991, 38977, 4044,
           25278, 42370, 26834, 20059, 21641, 1280, 3326, 17765, 34939, 25553, 16658, 44588, 7836, 31656, 11013, 38246,
           41893, 37396, 24480, 28857, 32773, 2114, 19539, 28978, 41848, 34021, 3040, 42652, 1647, 30851, 43312, 4810,
           36391, 41779, 28846, 31948, 32913, 12614, 19310, 11803, 4822, 37291, 16605, 40613, 34070, 6715, 40255, 7220,
           31793, 21288, 21142, 10192, 23008, 11131, 759, 10588, 6371, 14455, 18374, 34277, 22240, 46205, 36437, 45229,
           9574, 22995, 10156, 20308, 40316, 11795, 4222, 38628, 24206, 8307, 20644, 19179, 1978, 9339, 5370, 32054,
           40863, 6483, 22855, 45993, 20537, 11154, 2484, 952, 25063, 26245, 22221, 44780, 22236, 45905, 13937, 25861>>
R(n) == (rnd * Pow75[n + 1]) % 46337
At(seq, r) == seq[1 + (r % Len(seq))]
Chance(o, n, k) == R(o + n) % k = 0

-----------------------------------------------------------------------------
(* documents                                                               *)
Ids == 1..Len(docs)
Latest(id) == docs[id][Len(docs[id])]
Live(id) == ~Latest(id).del
LiveIds == {id \in Ids : Live(id)}
NoVals == [f \in Fields |-> Missing]
NoCols == [f \in Fields |-> Null]
Extract(vals, decl) == [f \in Fields |-> IF f \in decl THEN Col(vals[f]) ELSE Null]
\* the two views of a document: what its content says, and what the stored columns say
ContentView == [id \in Ids |-> Extract(Latest(id).vals, declared)]
ColsView == [id \in Ids |-> Latest(id).cols]

\* index choices and keys
IndexChoices == {[fs |-> <<f>>, uq |-> u] : f \in Fields, u \in BOOLEAN}
                \cup (IF Composite /\ Len(FieldSeq) >= 2
                      THEN {[fs |-> <<FieldSeq[1], FieldSeq[2]>>, uq |-> u] : u \in BOOLEAN} ELSE {})
KeyOf(c, fs) == [j \in 1..Len(fs) |-> c[fs[j]]]
Uses(ixd, f) == \E j \in 1..Len(ixd.fs) : ixd.fs[j] = f
EntriesOf(V, L, ixs) == {[fs |-> x.fs, k |-> KeyOf(V[id], x.fs), id |-> id] : x \in ixs, id \in L}

-----------------------------------------------------------------------------
(* queries                                                                 *)
\* comparison [f, op, c]: f a declared field or "_id"; c: 0 = null constant, 1..K value, pattern number for LIKE,
\* document number for "_id"
CmpOps == <<"EQ", "NE", "LT", "LE", "GT", "GE">>
SatInt(v, op, c) == CASE op = "EQ" -> v = c [] op = "NE" -> v # c [] op = "LT" -> v < c [] op = "LE" -> v <= c
                      [] op = "GT" -> v > c [] op = "GE" -> v >= c
SatC(V, id, cm) ==
  IF cm.f = "_id" THEN SatInt(id, cm.op, cm.c)
  ELSE IF cm.op = "LIKE" THEN V[id][cm.f] # Null /\ Match(StrOf(V[id][cm.f]), Patterns[cm.c])
  ELSE IF cm.op = "NOT_LIKE" THEN V[id][cm.f] = Null \/ ~Match(StrOf(V[id][cm.f]), Patterns[cm.c])
  ELSE SatInt(V[id][cm.f], cm.op, cm.c)
SatQ(V, id, q) == q = <<>> \/ \E g \in 1..Len(q) : \A x \in 1..Len(q[g]) : SatC(V, id, q[g][x])
Matching(V, q) == {id \in LiveIds : SatQ(V, id, q)}

\* order: tuple of the ORDER BY columns (negated for DESC), NULL lowest; ties: any order
SortKey(V, id, ob) == [j \in 1..Len(ob) |-> IF ob[j].desc THEN 0 - V[id][ob[j].f] ELSE V[id][ob[j].f]]
LessT(a, b) == \E j \in 1..Len(a) : a[j] < b[j] /\ \A x \in 1..(j - 1) : a[x] = b[x]
RECURSIVE SortBy(_, _, _)
SortBy(V, S, ob) ==            \* canonical sorted sequence: by key, ties by id
  IF S = {} THEN <<>>
  ELSE LET m == CHOOSE x \in S : \A y \in S : ~LessT(SortKey(V, y, ob), SortKey(V, x, ob))
                                              /\ (SortKey(V, y, ob) = SortKey(V, x, ob) => x <= y)
       IN <<m>> \o SortBy(V, S \ {m}, ob)

\* Search(q, ob, off, lim): lim = 0 means no limit.  One set of admissible documents per position.
PageLen(n, off, lim) == LET rest == MaxOf(0, n - off) IN IF lim = 0 THEN rest ELSE MinOf(lim, rest)
SearchRes(V, q, ob, off, lim) ==
  LET M == Matching(V, q)
      S == SortBy(V, M, ob)
      n == PageLen(Len(S), off, lim)
  IN [p \in 1..n |-> SortInts({id \in M : SortKey(V, id, ob) = SortKey(V, S[off + p], ob)})]
CountRes(V, q, lim) == PageLen(Cardinality(Matching(V, q)), 0, lim)

\* the documents a write by query selects (the first lim in order); Determined: the property fixes the selection
Selected(V, q, ob, lim) ==
  IF lim = 0 THEN Matching(V, q)
  ELSE LET S == SortBy(V, Matching(V, q), ob) IN {S[p] : p \in 1..PageLen(Len(S), 0, lim)}
Determined(V, q, ob, lim) ==
  LET S == SortBy(V, Matching(V, q), ob) IN
  \* (IF, not a disjunction: a disjunction inside an action is a choice for TLC and every branch is evaluated)
  IF lim = 0 THEN TRUE ELSE IF lim >= Len(S) THEN TRUE
  ELSE IF ob = <<>> THEN FALSE ELSE SortKey(V, S[lim], ob) # SortKey(V, S[lim + 1], ob)

\* GetById: content, stamp and revision number of the latest revision
GetRes(id) == IF id \in Ids /\ Live(id)
              THEN [r |-> "ok", vals |-> Latest(id).vals, stamp |-> Latest(id).stamp, rev |-> Len(docs[id])]
              ELSE [r |-> "notfound"]
\* Audit(id, desc, off, lim), lim >= 1: every revision in order, numbered from 1
AuditRes(id, desc, off, lim) ==
  LET n == Len(docs[id])
      all == [x \in 1..n |-> [rev |-> x, del |-> docs[id][x].del, vals |-> docs[id][x].vals, stamp |-> docs[id][x].stamp]]
      s == IF desc THEN Rev(all) ELSE all
  IN IF off >= n THEN <<>> ELSE SubSeq(s, off + 1, MinOf(n, off + lim))

-----------------------------------------------------------------------------
(* uniqueness decisions                                                     *)
\* design (= the property): no other live document has the key (NULL is a key value like any other: the engine
\* admits one document without the field)
DesignUniqueOK(V, L, c, self) ==
  \A x \in {y \in indexes : y.uq} : \A id \in L \ {self} : KeyOf(V[id], x.fs) # KeyOf(c, x.fs)
\* pinned code: the first entry with the key prefix (entries are ordered by document id; entries of old revisions
\* and of deleted documents are deletion marks) decides: conflict iff it is a live entry
EverHad(id, fs, k) == \E r \in 1..Len(docs[id]) : ~docs[id][r].del /\ KeyOf(docs[id][r].cols, fs) = k
CodeUniqueOK(c) ==
  \A x \in {y \in indexes : y.uq} :
    LET S == {id \in Ids : EverHad(id, x.fs, KeyOf(c, x.fs))}
    IN S = {} \/ ~(Live(SMin(S)) /\ KeyOf(Latest(SMin(S)).cols, x.fs) = KeyOf(c, x.fs))
\* CREATE UNIQUE INDEX: design: only on a collection without live documents; pinned code: the first entry of the
\* primary index must be absent or a deletion mark
DesignEmpty == LiveIds = {}
CodeEmpty == Len(docs) = 0 \/ ~Live(1)

-----------------------------------------------------------------------------
\* the abstract collection after a step, as printed for the replay: schema, documents (latest revision) and the
\* table of every atomic comparison over the declared fields: per field and constant c (0 = null constant) the
\* live documents whose value is < c, = c (the others are > c); per STRING field and pattern the documents LIKE it
SetSeq(S) == LET RECURSIVE Up(_)
                 Up(T) == IF T = {} THEN <<>> ELSE LET m == CHOOSE x \in T : TRUE IN <<m>> \o Up(T \ {m})
             IN Up(S)
StOf(decl, ixs, dd) ==
  LET L == {id \in 1..Len(dd) : ~dd[id][Len(dd[id])].del}
      V == [id \in 1..Len(dd) |-> Extract(dd[id][Len(dd[id])].vals, decl)]
      ds == SelectSeq(FieldSeq, LAMBDA f : f \in decl)
  IN [decl |-> ds,
      ix |-> SetSeq(ixs),
      docs |-> [id \in 1..Len(dd) |-> [live |-> id \in L, n |-> Len(dd[id]), vals |-> dd[id][Len(dd[id])].vals,
                                        stamp |-> dd[id][Len(dd[id])].stamp]],
      \* declared fields whose stored column differs from the content for some live document (pinned AddField)
      stale |-> SelectSeq(ds, LAMBDA f : \E id \in L : dd[id][Len(dd[id])].cols[f] # V[id][f]),
      atoms |-> [j \in 1..Len(ds) |->
                   [f |-> ds[j],
                    lt |-> [c \in 1..(NVals(ds[j]) + 1) |-> SortInts({id \in L : V[id][ds[j]] < c - 1})],
                    eq |-> [c \in 1..(NVals(ds[j]) + 1) |-> SortInts({id \in L : V[id][ds[j]] = c - 1})],
                    like |-> IF TypeOf(ds[j]) = "STRING"
                             THEN [p \in 1..Len(Patterns) |->
                                     SortInts({id \in L : V[id][ds[j]] # Null /\ Match(StrOf(V[id][ds[j]]), Patterns[p])})]
                             ELSE <<>>]]]
StJson == StOf(declared, indexes, docs)
StJsonNext == StOf(declared', indexes', docs')

Init == /\ created = FALSE /\ declared = {} /\ indexes = {} /\ docs = <<>> /\ ix = {} /\ wlog = <<>>
        /\ stampc = 0 /\ nfail = 0 /\ hist = <<>>
        /\ rnd \in (IF Sim THEN 1..SeedSpace ELSE {1})

CanStep == IF MaxOps = 0 THEN TRUE ELSE Len(hist) < MaxOps
Advance == rnd' = IF Sim THEN R(97) ELSE rnd
Log(e) == hist' = Append(hist, IF KeepSt THEN e @@ [st |-> StJsonNext] ELSE e) /\ Advance
LogSame(e) == hist' = Append(hist, IF KeepSt THEN e @@ [st |-> StJson] ELSE e) /\ Advance
Reject == nfail < MaxFail /\ nfail' = nfail + 1
SchemaSame == UNCHANGED <<created, declared, indexes>>
DataSame == UNCHANGED <<docs, ix, wlog, stampc>>

-----------------------------------------------------------------------------
(* schema operations                                                        *)
SubsetByBits(seq, r) == {seq[j] : j \in {x \in 1..Len(seq) : (r \div (2 ^ (x - 1))) % 2 = 1}}

CreateCollection(o) ==
  /\ ~created /\ CanStep
  /\ \E fl \in (IF Sim THEN {SubsetByBits(FieldSeq, R(o + 1))} ELSE SUBSET Fields) :
     \E ixs \in (IF Sim THEN {LET f1 == At(FieldSeq, R(o + 2)) IN
                              IF f1 \in fl /\ Chance(o, 3, 2) THEN {[fs |-> <<f1>>, uq |-> Chance(o, 4, 2)]} ELSE {}}
                 ELSE {S \in SUBSET {x \in IndexChoices : \A j \in 1..Len(x.fs) : x.fs[j] \in fl} :
                         Cardinality(S) <= 1}) :
       /\ created' = TRUE /\ declared' = fl /\ indexes' = ixs
       /\ DataSame /\ UNCHANGED nfail
       /\ Log([op |-> "create", fields |-> SelectSeq(FieldSeq, LAMBDA f : f \in fl), ok |-> TRUE])

AddField(o) ==
  /\ created /\ CanStep
  /\ \E f \in (IF Sim THEN {At(FieldSeq, R(o + 1))} ELSE Fields) :
       /\ f \notin declared
       /\ declared' = declared \cup {f}
       \* design: the field of every stored document becomes searchable; pinned code: the new column stays NULL
       /\ docs' = IF AddFieldQuirk THEN docs
                  ELSE [id \in Ids |-> [r \in 1..Len(docs[id]) |->
                          [docs[id][r] EXCEPT !.cols = [@ EXCEPT ![f] = IF docs[id][r].del THEN Null ELSE Col(docs[id][r].vals[f])]]]]
       /\ UNCHANGED <<created, indexes, ix, wlog, stampc, nfail>>
       /\ Log([op |-> "addfield", f |-> f, ok |-> TRUE, nonempty |-> LiveIds # {}])

RemoveField(o) ==
  /\ created /\ CanStep
  /\ \E f \in (IF Sim THEN {At(FieldSeq, R(o + 1))} ELSE Fields) :
       /\ f \in declared
       /\ IF \E x \in indexes : Uses(x, f)
          THEN /\ Reject /\ SchemaSame /\ DataSame            \* an index requires the column
               /\ LogSame([op |-> "removefield", f |-> f, ok |-> FALSE])
          ELSE /\ declared' = declared \ {f}
               /\ docs' = [id \in Ids |-> [r \in 1..Len(docs[id]) |-> [docs[id][r] EXCEPT !.cols = [@ EXCEPT ![f] = Null]]]]
               /\ UNCHANGED <<created, indexes, ix, wlog, stampc, nfail>>
               /\ Log([op |-> "removefield", f |-> f, ok |-> TRUE])

SimIndex(o) == LET f1 == At(FieldSeq, R(o + 1)) IN
               IF Composite /\ Len(FieldSeq) >= 2 /\ Chance(o, 2, 5)
               THEN [fs |-> <<FieldSeq[1], FieldSeq[2]>>, uq |-> Chance(o, 3, 3)]
               ELSE [fs |-> <<f1>>, uq |-> Chance(o, 3, 3)]
CreateIndex(o) ==
  /\ created /\ CanStep
  /\ \E x \in (IF Sim THEN {SimIndex(o)} ELSE IndexChoices) :
     \E exists \in {\E y \in indexes : y.fs = x.fs} :
     \E want \in {~exists /\ (x.uq => DesignEmpty)} :
     \E ok \in {~exists /\ (x.uq => IF UniqueQuirk THEN CodeEmpty ELSE DesignEmpty)} :
     \E dup \in {\E a, b \in LiveIds : a # b /\ KeyOf(ContentView[a], x.fs) = KeyOf(ContentView[b], x.fs)} :
       /\ \A j \in 1..Len(x.fs) : x.fs[j] \in declared
       /\ IF ok
          THEN /\ indexes' = indexes \cup {x}
               /\ ix' = ix \cup EntriesOf(ColsView, LiveIds, {x})
               /\ UNCHANGED <<created, declared, docs, wlog, stampc, nfail>>
               /\ Log([op |-> "createindex", ixd |-> x, ok |-> TRUE, want |-> want, exists |-> exists, dup |-> dup])
          ELSE /\ Reject /\ SchemaSame /\ DataSame
               /\ LogSame([op |-> "createindex", ixd |-> x, ok |-> FALSE, want |-> want, exists |-> exists, dup |-> dup])

DeleteIndex(o) ==
  /\ created /\ CanStep /\ indexes # {}
  /\ \E x \in (IF Sim THEN {At(SetSeq(indexes), R(o + 1))} ELSE indexes) :
       /\ indexes' = indexes \ {x}
       /\ ix' = {e \in ix : e.fs # x.fs}
       /\ UNCHANGED <<created, declared, docs, wlog, stampc, nfail>>
       /\ Log([op |-> "deleteindex", ixd |-> x, ok |-> TRUE])

-----------------------------------------------------------------------------
(* parameters of the data operations                                        *)
SimVals(o) == [f \in Fields |-> LET j == CHOOSE x \in 1..Len(FieldSeq) : FieldSeq[x] = f
                                IN (R(o + j) % (NVals(f) + 2)) - 1]
ValChoices == IF Sim THEN {} ELSE [Fields -> Missing..K]      \* BOOLEAN fields: see OkVals
OkVals(v) == \A f \in Fields : v[f] <= NVals(f)

DeclSeq == SelectSeq(FieldSeq, LAMBDA f : f \in declared)
\* one random comparison (draws o+1..o+4)
SimCmp(o) ==
  IF DeclSeq = <<>> \/ Chance(o, 1, 7)
  THEN [f |-> "_id", op |-> IF Chance(o, 2, 4) THEN "NE" ELSE "EQ", c |-> 1 + (R(o + 3) % (Len(docs) + 1))]
  ELSE LET f == At(DeclSeq, R(o + 2)) IN
       IF TypeOf(f) = "STRING" /\ Chance(o, 3, 4)
       THEN [f |-> f, op |-> IF Chance(o, 4, 3) THEN "NOT_LIKE" ELSE "LIKE", c |-> 1 + (R(o + 1) % Len(Patterns))]
       ELSE [f |-> f, op |-> At(CmpOps, R(o + 3)), c |-> R(o + 4) % (NVals(f) + 1)]
\* random query: no filter (1 in 5), else one or two AND groups of one or two comparisons (draws o+1..o+20)
SimQuery(o) ==
  IF Chance(o, 1, 5) THEN <<>>
  ELSE LET ng == 1 + (R(o + 2) % 2)
       IN [g \in 1..ng |-> [x \in 1..(1 + (R(o + 2 + g) % 2)) |-> SimCmp(o + 4 * (2 * g + x - 2) + 4)]]
SimOrder(o) ==
  IF DeclSeq = <<>> \/ Chance(o, 1, 2) THEN <<>>
  ELSE LET n == 1 + (R(o + 2) % 2)
       IN [j \in 1..n |-> [f |-> At(DeclSeq, R(o + 2 + j)), desc |-> Chance(o, 4 + j, 2)]]

\* model checking: atomic queries over the declared fields (every operator when Rich)
McOps == IF Rich THEN {"EQ", "NE", "LT", "LE", "GT", "GE"} ELSE {"EQ", "GT"}
McQueries == {<<>>} \cup {<< <<[f |-> f, op |-> op, c |-> c]>> >> : f \in declared, op \in McOps, c \in 0..K}
McOrders == {<<>>} \cup {<<[f |-> f, desc |-> d]>> : f \in declared, d \in (IF Rich THEN BOOLEAN ELSE {FALSE})}

-----------------------------------------------------------------------------
(* data operations                                                          *)
NewRev(v, st) == [del |-> FALSE, vals |-> v, stamp |-> st, cols |-> Extract(v, declared)]
DelRev == [del |-> TRUE, vals |-> NoVals, stamp |-> 0, cols |-> NoCols]

Insert(o) ==
  /\ created /\ CanStep /\ Len(docs) < MaxDocs
  /\ \E v \in (IF Sim THEN {SimVals(o)} ELSE {x \in ValChoices : OkVals(x)}) :
     \E c \in {Extract(v, declared)} :
     \E want \in {DesignUniqueOK(ContentView, LiveIds, c, 0)} :
     \E ok \in {IF UniqueQuirk THEN CodeUniqueOK(c) ELSE want} :
     \E id \in {Len(docs) + 1} :
       IF ok
       THEN /\ docs' = Append(docs, <<NewRev(v, stampc + 1)>>)
            /\ ix' = ix \cup {[fs |-> x.fs, k |-> KeyOf(c, x.fs), id |-> id] : x \in indexes}
            /\ wlog' = Append(wlog, [id |-> id, stamp |-> stampc + 1])
            /\ stampc' = stampc + 1
            /\ SchemaSame /\ UNCHANGED nfail
            /\ Log([op |-> "insert", vals |-> v, stamp |-> stampc + 1, ok |-> TRUE, want |-> want, id |-> id])
       ELSE /\ Reject /\ SchemaSame /\ DataSame
            /\ LogSame([op |-> "insert", vals |-> v, stamp |-> stampc + 1, ok |-> FALSE, want |-> want, id |-> 0])

\* ReplaceDocuments(query, doc): every selected document gets a new revision with the content of doc.
\* byid > 0: doc carries the id of document byid, the comparison _id = byid is added to every AND group.
WithId(q, byid) == IF byid = 0 THEN q
                   ELSE IF q = <<>> THEN << <<[f |-> "_id", op |-> "EQ", c |-> byid]>> >>
                   ELSE [g \in 1..Len(q) |-> <<[f |-> "_id", op |-> "EQ", c |-> byid]>> \o q[g]]
\* model checking: one representative (query, order, limit) per selectable set of documents
McTriples == {[q |-> q, lim |-> 0, ob |-> <<>>] : q \in McQueries}
             \cup {[q |-> q, lim |-> 1, ob |-> ob] : q \in McQueries, ob \in McOrders}
McUsable == {t \in McTriples : /\ Matching(ContentView, t.q) # {}
                                /\ Determined(ContentView, t.q, t.ob, t.lim)
                                /\ Determined(ColsView, t.q, t.ob, t.lim)
                                /\ Selected(ColsView, t.q, t.ob, t.lim) = Selected(ContentView, t.q, t.ob, t.lim)}

\* (TLC neither caches LET definitions nor operator arguments at the action level: every value that is used more
\* than once is bound by "\E x \in {expression}", which evaluates the expression once)
ReplaceDo(q, lim, ob, byid, v, q2, S, SS, c, want, e) ==
  /\ Determined(ContentView, q2, ob, lim)
  /\ Determined(ColsView, q2, ob, lim)              \* ... and the stored columns determine the selection as well
  /\ Selected(ColsView, q2, ob, lim) = S            \* the stored columns select the same documents
  /\ \A id \in S : Len(docs[id]) < MaxRevs
  /\ IF S = {}
     THEN /\ SchemaSame /\ DataSame /\ UNCHANGED nfail      \* nothing selected: nothing written
          /\ LogSame(e @@ [ok |-> TRUE, sel |-> <<>>, revs |-> <<>>])
     ELSE IF want
     THEN /\ docs' = [id \in Ids |-> IF id \in S THEN Append(docs[id], NewRev(v, stampc + 1)) ELSE docs[id]]
          /\ ix' = {y \in ix : y.id \notin S}
                   \cup {[fs |-> x.fs, k |-> KeyOf(c, x.fs), id |-> id] : x \in indexes, id \in S}
          /\ wlog' = wlog \o [p \in 1..Len(SS) |-> [id |-> SS[p], stamp |-> stampc + 1]]
          /\ stampc' = stampc + 1
          /\ SchemaSame /\ UNCHANGED nfail
          /\ Log(e @@ [ok |-> TRUE, sel |-> SS, revs |-> [p \in 1..Len(SS) |-> <<SS[p], Len(docs[SS[p]]) + 1>>]])
     ELSE /\ Reject /\ SchemaSame /\ DataSame
          /\ LogSame(e @@ [ok |-> FALSE, sel |-> SS, revs |-> <<>>])
ReplaceStep(q, lim, ob, byid, v) ==
  \E q2 \in {WithId(q, byid)} :
  \E S \in {Selected(ContentView, q2, ob, lim)} :
  \E SS \in {SortInts(S)} :
  \E c \in {Extract(v, declared)} :
  \* uniqueness of the result: the replaced documents all get the same key
  \E want \in {DesignUniqueOK(ContentView, LiveIds \ S, c, 0) /\ (Cardinality(S) > 1 => ~\E x \in indexes : x.uq)} :
  \E e \in {[op |-> "replace", q |-> q, ob |-> ob, lim |-> lim, byid |-> byid, vals |-> v, stamp |-> stampc + 1]} :
    ReplaceDo(q, lim, ob, byid, v, q2, S, SS, c, want, e)
McPick(U, S) == CHOOSE x \in U : Selected(ContentView, x.q, x.ob, x.lim) = S
Replace(o) ==
  /\ created /\ CanStep
  /\ IF Sim
     THEN \E q \in {SimQuery(o + 8)} :
          \E lim \in {IF Chance(o, 50, 3) THEN 1 + (R(o + 51) % 2) ELSE 0} :
          \E ob \in {SimOrder(o + 40)} :
          \E byid \in {IF Len(docs) > 0 /\ Chance(o, 52, 4) THEN 1 + (R(o + 53) % Len(docs)) ELSE 0} :
          \E v \in {SimVals(o)} : ReplaceStep(q, lim, ob, byid, v)
     ELSE \E U \in {McUsable} :
          \E S \in {Selected(ContentView, t.q, t.ob, t.lim) : t \in U} :
          \E t \in {McPick(U, S)} :
          \E v \in {x \in ValChoices : OkVals(x)} : ReplaceStep(t.q, t.lim, t.ob, 0, v)

DeleteDo(q, lim, ob, S, SS) ==
  /\ Determined(ContentView, q, ob, lim)
  /\ Determined(ColsView, q, ob, lim)
  /\ Selected(ColsView, q, ob, lim) = S
  /\ \A id \in S : Len(docs[id]) < MaxRevs
  /\ docs' = [id \in Ids |-> IF id \in S THEN Append(docs[id], DelRev) ELSE docs[id]]
  /\ ix' = {y \in ix : y.id \notin S}
  /\ wlog' = wlog \o [p \in 1..Len(SS) |-> [id |-> SS[p], stamp |-> 0]]
  /\ SchemaSame /\ UNCHANGED <<stampc, nfail>>
  /\ Log([op |-> "delete", q |-> q, ob |-> ob, lim |-> lim, ok |-> TRUE, ids |-> SS])
DeleteStep(q, lim, ob) ==
  \E S \in {Selected(ContentView, q, ob, lim)} : \E SS \in {SortInts(S)} : DeleteDo(q, lim, ob, S, SS)
Delete(o) ==
  /\ created /\ CanStep
  /\ IF Sim
     THEN \E q \in {SimQuery(o + 8)} :
          \E lim \in {IF Chance(o, 50, 2) THEN 1 + (R(o + 51) % 2) ELSE 0} :
          \E ob \in {SimOrder(o + 40)} :
            /\ (IF q # <<>> THEN TRUE ELSE IF lim > 0 THEN TRUE ELSE Chance(o, 60, 4))
            /\ DeleteStep(q, lim, ob)
     ELSE \E U \in {McUsable} :
          \E S \in {Selected(ContentView, t.q, t.ob, t.lim) : t \in U} :
          \E t \in {McPick(U, S)} : DeleteStep(t.q, t.lim, t.ob)

\* a field nested deeper than the maximum is refused; nothing changes
AddTooDeep ==
  /\ created /\ CanStep /\ Sim /\ Chance(0, 75, 6)
  /\ SchemaSame /\ DataSame /\ UNCHANGED nfail
  /\ LogSame([op |-> "addfield", f |-> TooDeep, ok |-> FALSE, nonempty |-> LiveIds # {}])

Reopen ==
  /\ created /\ CanStep /\ Sim /\ Chance(0, 70, 3)
  /\ SchemaSame /\ DataSame /\ UNCHANGED nfail
  /\ LogSame([op |-> "reopen", ok |-> TRUE])

-----------------------------------------------------------------------------
(* reads as actions (simulation): expected result from the contents, cres from the stored columns              *)
Search(o) ==
  /\ ReadOps /\ created /\ CanStep
  /\ \E q \in {SimQuery(o + 8)} :
     \E ob \in {SimOrder(o + 40)} :
     \E off \in {IF Chance(o, 50, 3) THEN 1 + (R(o + 51) % 2) ELSE 0} :
     \E lim \in {IF Chance(o, 52, 2) THEN 1 + (R(o + 53) % 3) ELSE 0} :
     \E res \in {SearchRes(ContentView, q, ob, off, lim)} :
       LogSame([op |-> "search", q |-> q, ob |-> ob, off |-> off, lim |-> lim, ok |-> TRUE, res |-> res,
                count |-> CountRes(ContentView, q, lim), total |-> Cardinality(Matching(ContentView, q)),
                same |-> (res = SearchRes(ColsView, q, ob, off, lim) /\ CountRes(ColsView, q, lim) = CountRes(ContentView, q, lim))])
  /\ SchemaSame /\ DataSame /\ UNCHANGED nfail

Audit(o) ==
  /\ ReadOps /\ created /\ CanStep /\ Len(docs) > 0
  /\ \E id \in {1 + (R(o + 1) % Len(docs))} :
     \E desc \in {Chance(o, 2, 2)} :
     \E off \in {R(o + 3) % 3} :
     \E lim \in {1 + (R(o + 4) % 3)} :
       LogSame([op |-> "audit", id |-> id, desc |-> desc, off |-> off, lim |-> lim, ok |-> TRUE,
                res |-> AuditRes(id, desc, off, lim)])
  /\ SchemaSame /\ DataSame /\ UNCHANGED nfail

GetById(o) ==
  /\ ReadOps /\ created /\ CanStep /\ Len(docs) > 0
  /\ \E id \in {1 + (R(o + 1) % (Len(docs) + 1))} :
       LogSame([op |-> "get", id |-> id, ok |-> TRUE, res |-> GetRes(id)])
  /\ SchemaSame /\ DataSame /\ UNCHANGED nfail

Next == \/ CreateCollection(0) \/ AddField(0) \/ RemoveField(3) \/ CreateIndex(6) \/ DeleteIndex(10)
        \/ Insert(0) \/ Insert(12) \/ Replace(0) \/ Delete(0) \/ Reopen \/ AddTooDeep
        \/ Search(0) \/ Search(60) \/ Audit(0) \/ GetById(0)
Spec == Init /\ [][Next]_vars

-----------------------------------------------------------------------------
(* invariants                                                               *)
TypeOK == /\ declared \subseteq Fields /\ indexes \subseteq IndexChoices
          /\ \A id \in Ids : Len(docs[id]) >= 1 /\ ~docs[id][1].del
          /\ \A x \in indexes : \A j \in 1..Len(x.fs) : x.fs[j] \in declared

\* the comparisons the invariants quantify over (AND/OR composition is monotone in them)
Atoms == {[f |-> f, op |-> op, c |-> c] : f \in declared, op \in {"EQ", "NE", "LT", "LE", "GT", "GE"}, c \in 0..K}
         \cup {[f |-> f, op |-> op, c |-> c] : f \in {g \in declared : TypeOf(g) = "STRING"}, op \in {"LIKE", "NOT_LIKE"},
                                              c \in 1..Len(Patterns)}
\* Faithful: id lookup returns the stored content with its revision number; a search over the stored columns
\* returns a document iff its content satisfies the filter, in the order its content defines
Faithful ==
  /\ \A id \in LiveIds : GetRes(id).vals = Latest(id).vals /\ GetRes(id).rev = Len(docs[id])
  /\ \A a \in Atoms : Matching(ColsView, << <<a>> >>) = Matching(ContentView, << <<a>> >>)
  /\ \A f \in declared : \A d \in BOOLEAN :
       SearchRes(ColsView, <<>>, <<[f |-> f, desc |-> d]>>, 0, 0) = SearchRes(ContentView, <<>>, <<[f |-> f, desc |-> d]>>, 0, 0)
\* IndexIndependent: the incrementally maintained entries of every index are exactly the entries of the live
\* documents, so a range scan of an index finds what a scan of the collection finds
IndexScan(x, a) == {e.id : e \in {y \in ix : y.fs = x.fs /\ SatInt(y.k[1], a.op, a.c)}}
IndexIndependent ==
  /\ ix = EntriesOf(ColsView, LiveIds, indexes)
  /\ \A x \in indexes : \A a \in {b \in Atoms : b.f = x.fs[1] /\ b.op \notin {"LIKE", "NOT_LIKE"}} :
       IndexScan(x, a) = Matching(ColsView, << <<a>> >>)
\* UniqueHolds: no two live documents agree on the fields of a unique index
UniqueHolds ==
  \A x \in {y \in indexes : y.uq} : \A a, b \in LiveIds :
    a # b => KeyOf(ContentView[a], x.fs) # KeyOf(ContentView[b], x.fs)
\* AuditComplete: the revisions of a document are exactly the writes to it, in order, numbered from 1
WritesTo(id) == SelectSeq(wlog, LAMBDA w : w.id = id)
AuditComplete ==
  \A id \in Ids :
    LET a == AuditRes(id, FALSE, 0, MaxRevs + 1) w == WritesTo(id)
    IN /\ Len(a) = Len(w)
       /\ \A x \in 1..Len(a) : a[x].rev = x /\ a[x].stamp = w[x].stamp /\ a[x].del = (w[x].stamp = 0)
       /\ AuditRes(id, TRUE, 0, MaxRevs + 1) = Rev(a)

\* behaviours for replay: printed when a behaviour reaches EmitDepth steps
Emit == (EmitDepth > 0 /\ Len(hist) = EmitDepth) =>
          PrintT(<<"JSON:", ToJson([ops |-> hist, k |-> K, fields |-> FieldSeq])>>)
View == <<created, declared, indexes, docs, ix, wlog, stampc>>
=============================================================================
