-------------------------------- MODULE SQLDdl --------------------------------
(***************************************************************************)
(* Transactional DDL isolation (C13, shared with C12).                     *)
(*                                                                         *)
(* Catalog changes made INSIDE an explicit transaction are invisible to    *)
(* every other transaction until COMMIT and vanish on ROLLBACK; the        *)
(* per-transaction catalog is a private copy of the engine's cached        *)
(* catalog (or freshly loaded when the cache is cold).                     *)
(*                                                                         *)
(* Tables:  k(id INTEGER PRIMARY KEY, u VARCHAR[4] NOT NULL, w INTEGER,    *)
(*            CONSTRAINT ck CHECK (w >= 0))   and, when created, k2(id).   *)
(* Catalog (what DDL can change): chk - the CHECK constraint exists        *)
(* (ALTER TABLE k DROP CONSTRAINT ck), uidx / widx - unique index on u /   *)
(* plain index on w (CREATE [UNIQUE] INDEX, DROP INDEX), col - the extra   *)
(* column: "" / "x" / "y" (ADD COLUMN x, RENAME COLUMN x TO y, DROP        *)
(* COLUMN), t2 - table k2 (CREATE TABLE, DROP TABLE).  DML whose outcome   *)
(* depends on the catalog: INSERT with w = -1 (refused iff chk), UPDATE    *)
(* .. SET w = -1, INSERT of a duplicate u (refused iff uidx), INSERT       *)
(* naming column x (works iff col = "x"), INSERT INTO k2 (works iff t2).   *)
(* DDL and DML mix freely inside a transaction; statements run against the *)
(* transaction's own catalog and rows.                                     *)
(*                                                                         *)
(* The cache protocol is the one of SQLCat.tla (warm: clone, cold: load;   *)
(* read-only transactions populate; DDL commit invalidates; other commits  *)
(* populate under the version check).  "shared_clone" breaks the design in *)
(* the model the way a shallow clone would: DDL in a transaction that was  *)
(* opened on a warm cache changes the cached catalog at once.              *)
(*                                                                         *)
(* Invariants: UncommittedDdlInvisible (the cache, and so every other      *)
(* transaction's starting catalog, is the committed catalog whatever open  *)
(* transactions did), RollbackRestores (action), NewTxFresh,               *)
(* ConstraintsHold (chk => all committed w >= 0; uidx => u unique).        *)
(***************************************************************************)
EXTENDS Integers, Sequences, FiniteSets, TLC, Json

CONSTANTS NS, MaxId, UVals, MaxStmts, Kinds, DdlQuirks, EmitDepth

VARIABLES cat, rows, rows2, cache, ever, sess, last, hist
vars == <<cat, rows, rows2, cache, ever, sess, last, hist>>

Sessions == 1..NS
Ids == 1..MaxId
Cat0 == [chk |-> TRUE, uidx |-> FALSE, widx |-> FALSE, col |-> "", t2 |-> FALSE]
DdlKinds == {"dropChk", "crUIdx", "dropUIdx", "crWIdx", "dropWIdx", "addCol", "renCol", "dropCol", "crT2", "dropT2"}
DmlKinds == {"ins", "insx", "ins2", "updw"}
NoRow == [u |-> "", w |-> 0]
NoRows == [i \in Ids |-> NoRow]
Live(r) == r.u # ""
LiveIds(r) == {i \in Ids : Live(r[i])}
RowsSeq(r) == LET ids == SelectSeq([i \in Ids |-> i], LAMBDA i : Live(r[i])) IN [j \in 1..Len(ids) |-> <<ids[j], r[ids[j]].u, r[ids[j]].w>>]
SetSeq(S) == SelectSeq([i \in Ids |-> i], LAMBDA i : i \in S)
CatSeq(c) == <<c.chk, c.uidx, c.widx, c.col, c.t2>>

St(k, id, u, w) == [k |-> k, id |-> id, u |-> u, w |-> w]
Idle(n) == [st |-> "idle", n |-> n, cat |-> Cat0, cat0 |-> Cat0, begincat |-> Cat0, openv |-> 0, cold |-> FALSE, warm |-> FALSE, snapd |-> FALSE,
            view |-> NoRows, view2 |-> {}, wrote |-> {}, wrote2 |-> {}, dropped2 |-> FALSE, ak |-> {}, ak2 |-> {}, au |-> {}, ddl |-> FALSE, rempty |-> FALSE,
            ddlSince |-> FALSE, stale |-> {}, stale2 |-> {}]

Open(n) == LET c == IF cache.on THEN cache.cat ELSE cat IN
           [Idle(n) EXCEPT !.st = "tx", !.cat = c, !.cat0 = c, !.begincat = cat, !.openv = ever, !.cold = ~cache.on, !.warm = cache.on]

DdlOk(c, V, k) ==
  CASE k = "dropChk" -> c.chk
    [] k = "crUIdx" -> ~c.uidx /\ LiveIds(V) = {}
    [] k = "dropUIdx" -> c.uidx
    [] k = "crWIdx" -> ~c.widx
    [] k = "dropWIdx" -> c.widx
    [] k = "addCol" -> c.col = ""
    [] k = "renCol" -> c.col = "x"
    [] k = "dropCol" -> c.col # ""
    [] k = "crT2" -> ~c.t2
    [] k = "dropT2" -> c.t2
ApplyDdl(c, k) ==
  CASE k = "dropChk" -> [c EXCEPT !.chk = FALSE]
    [] k = "crUIdx" -> [c EXCEPT !.uidx = TRUE] [] k = "dropUIdx" -> [c EXCEPT !.uidx = FALSE]
    [] k = "crWIdx" -> [c EXCEPT !.widx = TRUE] [] k = "dropWIdx" -> [c EXCEPT !.widx = FALSE]
    [] k = "addCol" -> [c EXCEPT !.col = "x"] [] k = "renCol" -> [c EXCEPT !.col = "y"] [] k = "dropCol" -> [c EXCEPT !.col = ""]
    [] k = "crT2" -> [c EXCEPT !.t2 = TRUE] [] k = "dropT2" -> [c EXCEPT !.t2 = FALSE]

\* a statement inside transaction state S
Exec(S0, m) ==
  LET S == IF S0.snapd \/ (m.k \in DdlKinds /\ m.k # "crUIdx") THEN S0 ELSE [S0 EXCEPT !.snapd = TRUE, !.view = rows, !.view2 = rows2, !.stale = {}, !.stale2 = {}]
      V == S.view
      ok(S2, cnt) == [ok |-> TRUE, S |-> S2, cnt |-> cnt]
      no == [ok |-> FALSE, S |-> S, cnt |-> 0]
  IN CASE m.k \in DdlKinds ->
            IF ~DdlOk(S.cat, V, m.k) THEN no
            ELSE ok([S EXCEPT !.cat = ApplyDdl(@, m.k), !.ddl = TRUE, !.rempty = @ \/ (m.k = "crUIdx"),
                              !.view2 = IF m.k \in {"crT2", "dropT2"} THEN {} ELSE @,
                              !.wrote2 = IF m.k \in {"crT2", "dropT2"} THEN {} ELSE @,
                              !.dropped2 = @ \/ (m.k = "dropT2")], 0)
       [] m.k \in {"ins", "insx"} ->
            IF Live(V[m.id]) \/ (m.k = "insx" /\ S.cat.col # "x") \/ (S.cat.chk /\ m.w < 0)
               \/ (S.cat.uidx /\ \E i \in Ids : Live(V[i]) /\ V[i].u = m.u) THEN no
            ELSE ok([S EXCEPT !.view[m.id] = [u |-> m.u, w |-> m.w], !.wrote = @ \cup {m.id}, !.ak = @ \cup {m.id},
                              !.au = IF S.cat.uidx THEN @ \cup {m.u} ELSE @], 1)
       [] m.k = "updw" ->
            IF ~Live(V[m.id]) THEN ok(S, 0)
            ELSE IF S.cat.chk /\ m.w < 0 THEN no
            ELSE ok([S EXCEPT !.view[m.id].w = m.w, !.wrote = @ \cup {m.id}], 1)
       [] m.k = "ins2" ->
            IF ~S.cat.t2 \/ m.id \in S.view2 THEN no
            ELSE ok([S EXCEPT !.view2 = @ \cup {m.id}, !.wrote2 = @ \cup {m.id}, !.ak2 = @ \cup {m.id}], 1)

\* MVCC validation as the engine defines it (see SQLCat.tla)
Conflict(S) ==
  /\ (S.wrote # {} \/ S.wrote2 # {} \/ S.ddl)
  /\ \/ S.ddlSince
     \/ \E k \in S.ak : Live(rows[k]) /\ k \in S.stale
     \/ \E k \in S.ak2 : k \in rows2 /\ k \in S.stale2
     \/ \E u \in S.au : \E i \in S.stale : rows[i].u = u
     \/ S.rempty /\ S.stale # {}
     \/ \E k \in S.wrote \ S.ak : k \in S.stale          \* a row read and updated was written by somebody else

TryPopulate(S) == IF ~cache.on /\ ever = S.openv THEN [on |-> TRUE, cat |-> S.cat0] ELSE cache

Obs(s, m, out, res, seen, cnt, flags) ==
  [s |-> s, k |-> m.k, id |-> m.id, u |-> m.u, w |-> m.w, out |-> out, res |-> res, seen |-> seen, cnt |-> cnt,
   rows |-> RowsSeq(rows'), rows2 |-> SetSeq(rows2'), cat |-> CatSeq(cat'), flags |-> flags]
NoFlags == [warm |-> FALSE, ddl |-> FALSE, otherOpenDdl |-> FALSE]
OtherOpenDdl(s) == \E t \in Sessions \ {s} : sess[t].st = "tx" /\ sess[t].ddl

DoCommit(s, S, n1) ==
  LET others == [t \in Sessions |-> IF t # s /\ sess[t].st = "tx"
                                    THEN [sess[t] EXCEPT !.stale = @ \cup S.wrote, !.stale2 = @ \cup S.wrote2, !.ddlSince = @ \/ S.ddl] ELSE sess[t]]
  IN IF S.wrote = {} /\ S.wrote2 = {} /\ ~S.ddl
     THEN /\ cache' = TryPopulate(S) /\ UNCHANGED <<cat, rows, rows2, ever>> /\ sess' = [sess EXCEPT ![s] = Idle(n1)]
     ELSE /\ rows' = [i \in Ids |-> IF i \in S.wrote THEN S.view[i] ELSE rows[i]]
          /\ rows2' = IF S.ddl /\ (S.dropped2 \/ S.cat.t2 # cat.t2) THEN (IF S.cat.t2 THEN S.view2 ELSE {}) ELSE rows2 \cup S.wrote2
          /\ IF S.ddl THEN /\ cat' = S.cat /\ cache' = [on |-> FALSE, cat |-> Cat0] /\ ever' = ever + 1
             ELSE /\ cache' = TryPopulate(S) /\ UNCHANGED <<cat, ever>>
          /\ sess' = [others EXCEPT ![s] = Idle(n1)]

\* "shared_clone": DDL of a transaction opened on a warm cache writes through to the cached catalog
WriteThrough(S, m) == IF "shared_clone" \in DdlQuirks /\ S.warm /\ cache.on /\ m.k \in DdlKinds /\ DdlOk(S.cat, IF S.snapd THEN S.view ELSE rows, m.k)
                      THEN [cache EXCEPT !.cat = ApplyDdl(@, m.k)] ELSE cache

Step(s, m) ==
  LET S == sess[s]
      n1 == S.n + 1
      fl == [warm |-> S.warm, ddl |-> S.ddl, otherOpenDdl |-> OtherOpenDdl(s)]
  IN
  /\ S.n < MaxStmts
  /\ CASE m.k = "begin" ->
            /\ S.st = "idle" /\ sess' = [sess EXCEPT ![s] = Open(n1)] /\ UNCHANGED <<cat, rows, rows2, cache, ever>>
            /\ last' = Obs(s, m, "ok", <<>>, <<>>, 0, [fl EXCEPT !.warm = cache.on])
       [] m.k = "rollback" ->
            /\ S.st = "tx" /\ sess' = [sess EXCEPT ![s] = Idle(n1)] /\ UNCHANGED <<cat, rows, rows2, cache, ever>>
            /\ last' = Obs(s, m, "ok", <<>>, <<>>, 0, fl)
       [] m.k = "commit" ->
            /\ S.st = "tx"
            /\ IF Conflict(S)
               THEN /\ sess' = [sess EXCEPT ![s] = Idle(n1)] /\ UNCHANGED <<cat, rows, rows2, cache, ever>>
                    /\ last' = Obs(s, m, "conflict", <<>>, <<>>, 0, fl)
               ELSE /\ DoCommit(s, S, n1) /\ last' = Obs(s, m, "ok", <<>>, <<>>, 0, fl)
       [] m.k \in {"sel", "showcat"} ->
            /\ S.st = "idle"
            /\ LET c == IF cache.on THEN cache.cat ELSE cat IN
               /\ cache' = [on |-> TRUE, cat |-> c] /\ UNCHANGED <<cat, rows, rows2, ever>>
               /\ sess' = [sess EXCEPT ![s] = Idle(n1)]
               /\ last' = Obs(s, m, "ok", IF m.k = "sel" THEN RowsSeq(rows) ELSE <<>>, IF m.k = "showcat" THEN CatSeq(c) ELSE <<>>, 0, fl)
       [] OTHER ->
            IF S.st = "tx"
            THEN LET r == Exec(S, m) IN
                 /\ cache' = WriteThrough(S, m) /\ UNCHANGED <<cat, rows, rows2, ever>>
                 /\ sess' = [sess EXCEPT ![s] = IF r.ok THEN [r.S EXCEPT !.n = n1] ELSE Idle(n1)]
                 /\ last' = Obs(s, m, IF r.ok THEN "ok" ELSE "err", <<>>, <<>>, r.cnt, fl)
            ELSE LET r == Exec(Open(n1), m) IN
                 IF r.ok THEN DoCommit(s, r.S, n1) /\ last' = Obs(s, m, "ok", <<>>, <<>>, r.cnt, fl)
                 ELSE /\ sess' = [sess EXCEPT ![s] = Idle(n1)] /\ UNCHANGED <<cat, rows, rows2, cache, ever>>
                      /\ last' = Obs(s, m, "err", <<>>, <<>>, 0, fl)
  /\ hist' = IF EmitDepth > 0 THEN Append(hist, last') ELSE hist

Offered(s) ==
  LET S == sess[s]
      dml == {St("ins", i, u, w) : i \in Ids, u \in UVals, w \in {1, -1}} \cup {St("insx", i, u, 1) : i \in Ids, u \in UVals}
             \cup {St("ins2", i, "", 0) : i \in Ids} \cup {St("updw", i, "", w) : i \in Ids, w \in {1, -1}}
      mycat == IF S.st = "tx" THEN S.cat ELSE IF cache.on THEN cache.cat ELSE cat
      ddl == {St(k, 0, IF k = "dropCol" THEN mycat.col ELSE "", 0) : k \in DdlKinds}      \* DROP COLUMN names the column as the session sees it
      ctl == IF S.st = "tx" THEN {St("commit", 0, "", 0), St("rollback", 0, "", 0)}
             ELSE {St("begin", 0, "", 0), St("sel", 0, "", 0), St("showcat", 0, "", 0)}
      \* a transaction that created the unique index does nothing else on k (the index is built at commit)
      dmlok == IF S.st = "tx" /\ S.cat.uidx /\ ~S.cat0.uidx THEN {m \in dml : m.k = "ins2"} ELSE dml
      \* generator restrictions (what the property does not speak about): a second extra column is never added; inside
      \* one transaction each catalog component is changed at most once (creating and dropping the same index / table /
      \* column in one transaction makes the engine's COMMIT fail with "index not found" - noted in docs/C13.md)
      Comp(k) == CASE k = "dropChk" -> "chk" [] k \in {"crUIdx", "dropUIdx"} -> "uidx" [] k \in {"crWIdx", "dropWIdx"} -> "widx"
                   [] k \in {"addCol", "renCol", "dropCol"} -> "col" [] OTHER -> "t2"
      once == {m \in ddl : (m.k = "addCol" => mycat.col = "") /\ (S.st = "tx" => S.cat[Comp(m.k)] = S.cat0[Comp(m.k)])}
      ddlok == IF S.st = "tx" /\ (S.wrote # {} \/ S.snapd) THEN {m \in once : m.k # "crUIdx"} ELSE once
  IN {m \in ctl \cup dmlok \cup ddlok : m.k \in Kinds}

Init == /\ cat = Cat0 /\ rows = NoRows /\ rows2 = {} /\ cache = [on |-> FALSE, cat |-> Cat0] /\ ever = 0
        /\ sess = [s \in Sessions |-> Idle(0)]
        /\ last = [s |-> 0, k |-> "init", id |-> 0, u |-> "", w |-> 0, out |-> "ok", res |-> <<>>, seen |-> <<>>, cnt |-> 0,
                   rows |-> <<>>, rows2 |-> <<>>, cat |-> CatSeq(Cat0), flags |-> NoFlags]
        /\ hist = <<>>
Finish == /\ EmitDepth > 0 /\ last.k # "end" /\ \A s \in Sessions : sess[s].n >= MaxStmts
          /\ last' = [last EXCEPT !.k = "end"] /\ UNCHANGED <<cat, rows, rows2, cache, ever, sess, hist>>
Next == (\E s \in Sessions : \E m \in Offered(s) : Step(s, m)) \/ Finish
Spec == Init /\ [][Next]_vars

Weight(k) == CASE k \in {"commit", "begin"} -> 5 [] k = "rollback" -> 3 [] k \in DdlKinds -> 1 [] k = "ins" -> 4 [] OTHER -> 2
RNext ==
  \/ LET live == {s \in Sessions : sess[s].n < MaxStmts} IN
     /\ live # {}
     /\ \E s \in {RandomElement(live)} :
          \E wk \in {RandomElement(UNION {{<<i, m.k>> : i \in 1..Weight(m.k)} : m \in Offered(s)})} :
            \E m \in {RandomElement({x \in Offered(s) : x.k = wk[2]})} : Step(s, m)
  \/ Finish
RSpec == Init /\ [][RNext]_vars

-----------------------------------------------------------------------------
\* what open transactions did to their own catalog is invisible: a warm cache is the committed catalog
UncommittedDdlInvisible == cache.on => cache.cat = cat
NewTxFresh == \A s \in Sessions : sess[s].st = "tx" => sess[s].cat0 = sess[s].begincat
ConstraintsHold == /\ cat.chk => \A i \in LiveIds(rows) : rows[i].w >= 0
                   /\ cat.uidx => \A i, j \in LiveIds(rows) : i # j => rows[i].u # rows[j].u
QuerySeesCommitted == last.k = "showcat" => last.seen = CatSeq(cat)
\* ROLLBACK (and a failed statement, and a failed COMMIT) leave catalog, rows and cache exactly as they were
RollbackRestoresStep == (last'.k = "rollback" \/ last'.out \in {"err", "conflict"}) => UNCHANGED <<cat, rows, rows2, cache>>
RollbackRestores == [][RollbackRestoresStep]_vars

Emit == (EmitDepth > 0 /\ last.k = "end") => PrintT(<<"JSON:", ToJson([steps |-> hist])>>)
View == <<cat, rows, rows2, cache, ever, sess>>
=============================================================================
