-------------------------- MODULE MCReplicationDB --------------------------
(***************************************************************************)
(* Model-checking configuration of ReplicationDB.tla: the decisions of the *)
(* code are transcribed (database.CurrentState / store.PrecommittedAlh,    *)
(* database.ExportTxByID + mayUpdateReplicaState, the fetch loop and the   *)
(* workers of replication.TxReplicator, database.AllowCommitUpto, the      *)
(* commit rule of a store with external commit allowance) and composed     *)
(* with clients, durability, replica restarts and failover (the primary is *)
(* lost, any replica is promoted, the others are re-pointed either by      *)
(* reconfiguration or by re-routing the primary address, the lost primary  *)
(* may come back as a replica).  Every step evaluates the safety guards of *)
(* ReplicationDB.tla; a false guard is recorded in `bad`.                  *)
(*                                                                         *)
(* Variant switches (all FALSE = the design that must be safe):            *)
(*   ReportInMem          the replica advertises its in-memory precommit   *)
(*   SkipPrecommitCheck   the primary does not compare the precommitted    *)
(*                        alh of the replica state with its own history    *)
(*   SkipPrecommitCheckBelowCommitted   ... only skips it when the         *)
(*                        replica's precommitted id is at or below the     *)
(*                        primary's own committed tx ("covered by the      *)
(*                        commit-state validation")                        *)
(*   SkipReplicaAlhCheck  the replica accepts an allowance without         *)
(*                        comparing the alh with the tx it holds           *)
(*   DiscardKeepsAllowance  a discard leaves the commit allowance of the   *)
(*                        store untouched (the code as pinned)             *)
(***************************************************************************)
EXTENDS ReplicationDB, Json

CONSTANTS MaxTx, MaxFail, MaxRestart, SyncRepl, Acks, AllowDiscard, WithReroute, Rejoin,
          PrimaryAsync,   \* database-level configuration: primaries keep replicaStates (SyncAcks > 0) but commit without waiting for acks

          ReportInMem, SkipPrecommitCheck, SkipPrecommitCheckBelowCommitted, SkipReplicaAlhCheck, DiscardKeepsAllowance,
          RecordSched, EmitDepth, First,
          Script    \* directed model checking: the behaviour starts with these steps (labels as recorded in sched); <<>>: free

VARIABLES allow,    \* allow[n]: commit allowance of the store (meaningful with synchronous replication)
          rs,       \* rs[p][r]: replicaStates of primary p: precommitted id informed by r (0: no entry)
          lastTx,   \* cursor of r's replicator (0: not initialised)
          running,  \* r's replicator runs
          pc,       \* "idle" | "reported" | "answered"
          ans,      \* the answer r's fetch loop holds
          queue,    \* exported txs fetched by r and not yet handled by a worker
          lost, nextAlh, nfail, nrestart, bad, sched
ivars == <<allow, rs, lastTx, running, pc, ans, queue, lost, nextAlh, nfail, nrestart, bad, sched>>
mcvars == <<vars, ivars>>

Others == Nodes \ {First}
NoAns == [kind |-> "none", id |-> 0, alh |-> 0, prev |-> 0, may |-> 0, mayalh |-> 0]
MCInit ==
  /\ Init([n \in Nodes |-> IF n = First THEN [role |-> "primary", follows |-> None, sync |-> SyncRepl /\ ~PrimaryAsync, need |-> IF SyncRepl THEN Acks ELSE 0]
                           ELSE [role |-> "replica", follows |-> First, sync |-> SyncRepl, need |-> 0]])
  /\ allow = [n \in Nodes |-> 0] /\ rs = [p \in Nodes |-> [r \in Nodes |-> 0]]
  /\ lastTx = [n \in Nodes |-> 0] /\ running = [n \in Nodes |-> n # First] /\ pc = [n \in Nodes |-> "idle"]
  /\ ans = [n \in Nodes |-> NoAns] /\ queue = [n \in Nodes |-> {}]
  /\ lost = [n \in Nodes |-> FALSE] /\ nextAlh = 1 /\ nfail = 0 /\ nrestart = 0 /\ bad = {} /\ sched = <<>>

NoScript == <<>>
\* (a script needs RecordSched: the position in the script is the length of sched)
Rec(label) == /\ sched' = IF RecordSched THEN Append(sched, label) ELSE sched
              /\ (Len(sched) < Len(Script) => Script[Len(sched) + 1] = label)
\* pairs <<name, guard>>: the names of the false guards are collected
BadIf(ps) == bad' = bad \cup {p[1] : p \in {q \in ps : ~q[2]}}
Last(s) == AlhAt(s, Len(s))
LivePrimaries == {n \in Nodes : role[n] = "primary" /\ ~lost[n]}

-----------------------------------------------------------------------------
ClientWrite(p) ==
  /\ role[p] = "primary" /\ ~lost[p] /\ nextAlh <= MaxTx
  /\ PrecommitS(p, Len(pre[p]) + 1, nextAlh, Last(pre[p])) /\ PrecommitE(p, Len(pre[p]) + 1, nextAlh, Last(pre[p]))
  /\ nextAlh' = nextAlh + 1 /\ Rec(<<"write", p>>)
  /\ UNCHANGED <<allow, rs, lastTx, running, pc, ans, queue, lost, nfail, nrestart, bad>>

SyncStep(n) ==
  /\ dur[n] < Len(pre[n]) /\ Durable(n, Len(pre[n])) /\ Rec(<<"sync", n>>)
  /\ UNCHANGED <<allow, rs, lastTx, running, pc, ans, queue, lost, nextAlh, nfail, nrestart, bad>>

\* store.sync(): commits what is durable and allowed (everything durable without external allowance)
CommitStep(n) ==
  LET a == IF syncOn[n] THEN allow[n] ELSE Len(pre[n]) IN
  /\ a > com[n] /\ a <= dur[n]
  /\ CommittedS(n, a, pre[n][a]) /\ CommittedE(n, a, pre[n][a])
  /\ BadIf({<<IF role[n] = "primary" THEN "primary-commits-without-durable-acks" ELSE "replica-commits-what-its-primary-did-not", CommittedG(n, a, pre[n][a])>>})
  /\ Rec(<<"sync", n>>)
  /\ UNCHANGED <<allow, rs, lastTx, running, pc, ans, queue, lost, nextAlh, nfail, nrestart>>

\* fetchNextTx, first part: db.CurrentState()
ReportStep(r) ==
  /\ role[r] = "replica" /\ running[r] /\ ~lost[r] /\ pc[r] = "idle" /\ follows[r] # None
  /\ LET d == IF ReportInMem THEN Len(pre[r]) ELSE dur[r]
         st == St(com[r], AlhAt(pre[r], com[r]), d, AlhAt(pre[r], d))
     IN /\ ReportE(r, st)
        /\ BadIf({<<"replica-reports-non-durable-precommit", ReportG(r, st)>>})
        /\ lastTx' = [lastTx EXCEPT ![r] = IF @ = 0 THEN st.pid ELSE @]
  /\ pc' = [pc EXCEPT ![r] = "reported"] /\ Rec(<<"report", r>>)
  /\ UNCHANGED <<allow, rs, running, ans, queue, lost, nextAlh, nfail, nrestart>>

\* database.ExportTxByID (with mayUpdateReplicaState) on the followed node
Entries(p, r, st) == [x \in Nodes |-> IF x = r THEN st.pid ELSE IF rs[p][x] > com[p] THEN rs[p][x] ELSE 0]
MinEntry(e) == CHOOSE m \in {e[x] : x \in {y \in Nodes : e[y] > 0}} : \A x \in {y \in Nodes : e[y] > 0} : m <= e[x]
PrimaryServe(r) ==
  LET p == follows[r] st == rep[r] has == syncOn[r] n == lastTx[r] + 1 IN
  /\ pc[r] = "reported" /\ running[r] /\ Rec(<<"export", r>>)
  /\ IF lost[p] \/ (has /\ (role[p] # "primary" \/ need[p] = 0))
     THEN \* no connection / "replica state was NOT expected": the round fails
          /\ pc' = [pc EXCEPT ![r] = "idle"] /\ UNCHANGED <<vars, allow, rs, lastTx, running, ans, queue, lost, nextAlh, nfail, nrestart, bad>>
     ELSE
     /\ ArriveE(p, r, has, st, FALSE)
     /\ IF has /\ ~CommitPartOk(p, st)
        THEN /\ ans' = [ans EXCEPT ![r] = [NoAns EXCEPT !.kind = "diverged-commit"]]
             /\ BadIf({<<"replicator-sends-state-it-did-not-read", ArriveG(p, r, has, st)>>, <<"primary-rejects-replica-whose-state-is-a-prefix", AnswerDivergedG(p, r, st)>>})
             /\ UNCHANGED <<allow, rs>>
        ELSE IF has /\ st.pid > 0 /\ (st.pid > Len(pre[p]) \/ (~SkipPrecommitCheck /\ ~(SkipPrecommitCheckBelowCommitted /\ st.pid <= com[p]) /\ pre[p][st.pid] # st.palh))
        THEN /\ ans' = [ans EXCEPT ![r] = [NoAns EXCEPT !.kind = "diverged-precommit"]]
             /\ BadIf({<<"replicator-sends-state-it-did-not-read", ArriveG(p, r, has, st)>>, <<"primary-rejects-replica-whose-state-is-a-prefix", AnswerDivergedG(p, r, st)>>})
             /\ UNCHANGED <<allow, rs>>
        ELSE
          LET may == IF has /\ st.pid > 0 THEN Min(st.pid, com[p]) ELSE 0
              mayalh == IF has /\ st.pid > 0 /\ st.pid < com[p] THEN st.palh ELSE AlhAt(pre[p], may)      \* the replica's own alh is echoed when it lags
              old == IF rs[p][r] > com[p] THEN rs[p][r] ELSE 0           \* r's entry after the clean-up of entries at or below the committed tx
              counted == has /\ st.pid > com[p]
              lags == counted /\ st.pid < old
              e == Entries(p, r, st)
              cnt == Cardinality({x \in Nodes : e[x] > 0})
              newAllow == IF counted /\ ~lags /\ st.pid # old /\ cnt >= need[p] THEN Max(allow[p], Min(MinEntry(e), Len(pre[p]))) ELSE allow[p]
              exists == IF has THEN n <= dur[p] ELSE n <= com[p]
              ackedNew == IF has /\ StatePrefix(p, st) THEN [acked[p] EXCEPT ![r] = Max(@, st.pid)] ELSE acked[p]
          IN IF lags \/ (~syncOn[p] /\ newAllow # allow[p])            \* (store: "the external commit allowance mode is not enabled")
             THEN /\ ans' = [ans EXCEPT ![r] = [NoAns EXCEPT !.kind = "error"]]           \* "the newly informed replica state lags behind the previously informed one"
                  /\ UNCHANGED <<allow, rs, bad>>
             ELSE
             /\ rs' = IF counted THEN [rs EXCEPT ![p] = e] ELSE rs
             /\ allow' = [allow EXCEPT ![p] = newAllow]
             /\ ans' = [ans EXCEPT ![r] = IF exists THEN [kind |-> "tx", id |-> n, alh |-> pre[p][n], prev |-> AlhAt(pre[p], n - 1), may |-> may, mayalh |-> mayalh]
                                                    ELSE [NoAns EXCEPT !.kind = "state", !.may = may, !.mayalh = mayalh]]
             /\ BadIf({<<"replicator-sends-state-it-did-not-read", ArriveG(p, r, has, st)>>,
                       <<"primary-allows-commit-without-acks", newAllow = allow[p] \/ \A id \in (com[p] + 1)..newAllow : Cardinality({x \in Nodes \ {p} : ackedNew[x] >= id}) >= need[p]>>,
                       <<"primary-answers-replica-whose-state-diverged", AnswerStateG(p, r, has, st, may, mayalh)>>,
                       <<"primary-exports-tx-not-in-its-history", ~exists \/ ExportTxG(p, n, pre[p][n], has)>>})
     /\ pc' = [pc EXCEPT ![r] = "answered"]
     /\ UNCHANGED <<lastTx, running, queue, lost, nextAlh, nfail, nrestart>>

\* fetchNextTx, second part: what the replicator does with the answer
HandleAnswer(r) ==
  LET a == ans[r] st == rep[r] has == syncOn[r] IN
  /\ pc[r] = "answered" /\ running[r] /\ Rec(<<"handle", r>>)
  /\ pc' = [pc EXCEPT ![r] = "idle"] /\ ans' = [ans EXCEPT ![r] = NoAns]
  /\ CASE a.kind = "error" -> UNCHANGED <<vars, allow, lastTx, queue, bad, running>>
       [] a.kind = "diverged-commit" ->
            /\ running' = [running EXCEPT ![r] = FALSE]
            /\ UNCHANGED <<vars, allow, lastTx, queue, bad>>
       [] a.kind = "diverged-precommit" ->
            IF ~AllowDiscard THEN running' = [running EXCEPT ![r] = FALSE] /\ UNCHANGED <<vars, allow, lastTx, queue, bad>>
            ELSE IF st.cid + 1 <= com[r] THEN UNCHANGED <<vars, allow, lastTx, queue, bad, running>>   \* discard refused: only precommitted txs can be discarded
            ELSE /\ IF st.cid + 1 <= Len(pre[r]) THEN DiscardE(r, st.cid + 1) ELSE UNCHANGED vars
                 /\ lastTx' = [lastTx EXCEPT ![r] = st.cid]
                 /\ allow' = IF DiscardKeepsAllowance THEN allow ELSE [allow EXCEPT ![r] = Min(@, st.cid)]
                 /\ UNCHANGED <<queue, bad, running>>
       [] OTHER ->
            LET wantAllow == has /\ a.may > st.cid
                same == com[r] = a.may
                holds == a.may <= Len(pre[r])
                match == holds /\ (SkipReplicaAlhCheck \/ pre[r][a.may] = a.mayalh)
            IN IF wantAllow /\ ((same \/ holds) /\ ~match)
               THEN running' = [running EXCEPT ![r] = FALSE] /\ UNCHANGED <<vars, allow, lastTx, queue, bad>>     \* commit state diverged
               ELSE IF wantAllow /\ ~same /\ ~holds
               THEN UNCHANGED <<vars, allow, lastTx, queue, bad, running>>                                          \* tx not found: the round fails
               ELSE /\ IF wantAllow /\ ~same /\ a.may > allow[r]
                       THEN /\ allow' = [allow EXCEPT ![r] = a.may] /\ RAllowE(r, a.may, a.mayalh)
                            /\ BadIf({<<"replica-accepts-allowance-for-tx-the-primary-did-not-commit", RAllowG(r, a.may, a.mayalh)>>})
                       ELSE UNCHANGED <<vars, allow, bad>>
                    /\ IF a.kind = "tx"
                       THEN /\ queue' = [queue EXCEPT ![r] = @ \cup {TxRec(a.id, a.alh, a.prev)}]
                            /\ lastTx' = [lastTx EXCEPT ![r] = @ + 1]
                       ELSE UNCHANGED <<queue, lastTx>>
                    /\ UNCHANGED running
  /\ UNCHANGED <<rs, lost, nextAlh, nfail, nrestart>>

\* replicateSingleTx -> db.ReplicateTx -> store precommit driven by the exported header
ApplyStep(r, m) ==
  /\ m \in queue[r] /\ role[r] = "replica"
  /\ Rec(<<"apply", r, m.id>>)
  /\ IF m.id <= Len(pre[r])
     THEN queue' = [queue EXCEPT ![r] = @ \ {m}] /\ UNCHANGED <<vars, bad>>                                         \* "tx already committed"
     ELSE /\ m.id = Len(pre[r]) + 1 /\ m.prev = Last(pre[r])                                                        \* otherwise it waits / is retried
          /\ PrecommitE(r, m.id, m.alh, m.prev) /\ queue' = [queue EXCEPT ![r] = @ \ {m}]
          /\ BadIf({<<"replica-precommits-tx-no-primary-created", PrecommitG(r, m.id, m.alh, m.prev)>>})
  /\ UNCHANGED <<allow, rs, lastTx, running, pc, ans, lost, nextAlh, nfail, nrestart>>

ApplyAny(r) == \E m \in queue[r] : ApplyStep(r, m)

-----------------------------------------------------------------------------
LoseStep(p) ==
  /\ role[p] = "primary" /\ ~lost[p] /\ nfail < MaxFail
  /\ lost' = [lost EXCEPT ![p] = TRUE] /\ nfail' = nfail + 1 /\ Rec(<<"lose", p>>)
  /\ UNCHANGED <<vars, allow, rs, lastTx, running, pc, ans, queue, nextAlh, nrestart, bad>>

PromoteStep(n) ==
  /\ LivePrimaries = {} /\ role[n] = "replica" /\ ~lost[n]
  /\ Promote(n, SyncRepl /\ ~PrimaryAsync, IF SyncRepl THEN Acks ELSE 0)
  /\ running' = [running EXCEPT ![n] = FALSE] /\ pc' = [pc EXCEPT ![n] = "idle"] /\ ans' = [ans EXCEPT ![n] = NoAns]
  /\ allow' = [allow EXCEPT ![n] = com[n]] /\ rs' = [rs EXCEPT ![n] = [x \in Nodes |-> 0]]
  /\ Rec(<<"promote", n>>)
  /\ UNCHANGED <<lastTx, queue, lost, nextAlh, nfail, nrestart, bad>>

\* server.UpdateDatabase: stop the replicator, AsReplica (the allowance falls back to the committed tx), start a new replicator
SwitchStep(r, p) ==
  /\ p \in LivePrimaries /\ r # p /\ follows[r] # p /\ (role[r] = "replica" \/ (Rejoin /\ lost[r]))
  /\ Switch(r, p, SyncRepl)
  /\ lost' = [lost EXCEPT ![r] = FALSE] /\ running' = [running EXCEPT ![r] = TRUE] /\ lastTx' = [lastTx EXCEPT ![r] = 0]
  /\ pc' = [pc EXCEPT ![r] = "idle"] /\ ans' = [ans EXCEPT ![r] = NoAns] /\ allow' = [allow EXCEPT ![r] = com[r]]
  /\ Rec(<<"switch", r, p>>)
  /\ UNCHANGED <<rs, queue, nextAlh, nfail, nrestart, bad>>

\* the address of the primary now reaches p: the running replicator reconnects, nothing else changes
RerouteStep(r, p) ==
  /\ WithReroute /\ p \in LivePrimaries /\ r # p /\ follows[r] # p /\ role[r] = "replica" /\ ~lost[r] /\ running[r] /\ pc[r] = "idle"
  /\ Connected(r, p) /\ Rec(<<"reroute", r, p>>)
  /\ UNCHANGED <<allow, rs, lastTx, running, pc, ans, queue, lost, nextAlh, nfail, nrestart, bad>>

RestartStep(r) ==
  /\ role[r] = "replica" /\ ~lost[r] /\ nrestart < MaxRestart /\ follows[r] # None
  /\ Reopened(r, com[r], pre[r])
  /\ allow' = [allow EXCEPT ![r] = com[r]] /\ queue' = [queue EXCEPT ![r] = {}] /\ lastTx' = [lastTx EXCEPT ![r] = 0]
  /\ pc' = [pc EXCEPT ![r] = "idle"] /\ ans' = [ans EXCEPT ![r] = NoAns] /\ running' = [running EXCEPT ![r] = TRUE]
  /\ nrestart' = nrestart + 1 /\ Rec(<<"restart", r>>)
  /\ UNCHANGED <<rs, lost, nextAlh, nfail, bad>>

MCNext ==
  \/ \E n \in Nodes : ClientWrite(n) \/ SyncStep(n) \/ CommitStep(n) \/ ReportStep(n) \/ PrimaryServe(n) \/ HandleAnswer(n)
                       \/ LoseStep(n) \/ PromoteStep(n) \/ RestartStep(n)
  \/ \E r \in Nodes : ApplyAny(r)
  \/ \E r, p \in Nodes : SwitchStep(r, p) \/ RerouteStep(r, p)
MCSpec == MCInit /\ [][MCNext]_mcvars

-----------------------------------------------------------------------------
NoBad == bad = {}
\* (directed search for the deepest consequence of a weakened variant: a replica commits what its primary did not)
NoForeignCommit == "replica-commits-what-its-primary-did-not" \notin bad
MCTypeOK == \A n \in Nodes : com[n] <= dur[n] /\ dur[n] <= Len(pre[n]) /\ Cardinality(queue[n]) <= MaxTx
\* state form of the property: whatever a replica has committed under an allowance in force is committed, identically, on the node that granted it
CommittedOnGrantor == \A r \in Nodes : (role[r] = "replica" /\ syncOn[r] /\ allowBy[r] # None) =>
                          (allow[r] <= com[allowBy[r]] \/ allow[r] <= com[r])
\* link to the store-level module: as long as no failover happened, the first node and the others are Replication.tla's primary
\* and replicas and its invariants hold
R == INSTANCE Replication WITH Replicas <- Others, ppre <- pre[First], pcommitted <- com[First], phist <- SubSeq(pre[First], 1, com[First]),
                               rpre <- [r \in Others |-> pre[r]], rdur <- [r \in Others |-> dur[r]], rcommitted <- [r \in Others |-> com[r]],
                               syncAcks <- need[First]
StoreLevelInv == nfail = 0 => R!ReplInv
Emit == (EmitDepth > 0 /\ Len(sched) = EmitDepth) => PrintT(<<"JSON:", ToJson([steps |-> sched])>>)
\* dead values are hidden: the state a replicator read is used only until the round is over, the cursor of a stopped replicator
\* is re-initialised before its next use, the fetched-from set matters only for asynchronous replication
View == <<pre, dur, com, role, follows, syncOn, need, everDur, created, acked, pend, allowBy,
          [n \in Nodes |-> IF pc[n] = "idle" THEN NoSt ELSE rep[n]], IF SyncRepl THEN 0 ELSE srcs,
          allow, rs, [n \in Nodes |-> IF running[n] THEN lastTx[n] ELSE 0], running, pc, ans, queue, lost, nextAlh, nfail, nrestart, bad>>
\* the replicas are interchangeable
Sym == Permutations(Others)
=============================================================================
