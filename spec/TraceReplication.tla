-------------------------- MODULE TraceReplication --------------------------
(***************************************************************************)
(* Trace validation of real primary + replica stores against               *)
(* Replication.tla.  The ndjson trace (env VERIF_TRACE) is the merged hook *)
(* trace of all stores of a run (field "store": "p" for the primary, the   *)
(* replica name otherwise), in the global order in which the hooks fired.  *)
(* Events that only concern a store's own pipeline are consumed without    *)
(* effect here (they are validated per store against Store.tla).           *)
(***************************************************************************)
EXTENDS Replication, Json, IOUtils, TLCExt

TraceLog == ndJsonDeserialize(IOEnv.VERIF_TRACE)
VARIABLES l, bad     \* bad: replica transactions that are not the primary's (collected; the rest of the run is still examined)
tvars == <<vars, l, bad>>
Ev == TraceLog[l]
Is(e) == l <= Len(TraceLog) /\ Ev.ev = e /\ l' = l + 1
IsP == Ev.store = "p"

TraceInit == Init(0) /\ l = 1 /\ bad = <<>>
TReset == /\ Is("Reset") /\ IsP /\ UNCHANGED bad /\ syncAcks' = Ev.syncAcks /\ ppre' = <<>> /\ pcommitted' = 0 /\ phist' = <<>>
          /\ rpre' = [r \in Replicas |-> <<>>] /\ rdur' = [r \in Replicas |-> 0] /\ rcommitted' = [r \in Replicas |-> 0]
\* a replica transaction that is not the primary's transaction of that id violates the guard of RPrecommit / RCommitted:
\* it is recorded and the replica state follows the real execution
TPrecommit == /\ Is("Precommit")
              /\ IF IsP THEN PPrecommit(Ev.id, Ev.alh) /\ UNCHANGED bad
                 ELSE IF Ev.id <= Len(ppre) /\ Ev.alh = ppre[Ev.id] THEN RPrecommit(Ev.store, Ev.id, Ev.alh) /\ UNCHANGED bad
                 ELSE /\ Ev.id = Len(rpre[Ev.store]) + 1
                      /\ rpre' = [rpre EXCEPT ![Ev.store] = Append(@, Ev.alh)]
                      /\ UNCHANGED <<ppre, pcommitted, phist, rdur, rcommitted, syncAcks>>
                      /\ bad' = Append(bad, [what |-> "replica-precommitted-a-tx-that-is-not-the-primarys", store |-> Ev.store, id |-> Ev.id, line |-> l])
TCommitted == /\ Is("Committed")
              /\ IF IsP THEN PCommitted(Ev.upto, Ev.alh) /\ UNCHANGED bad
                 ELSE IF Ev.upto <= pcommitted /\ Ev.alh = phist[Ev.upto] /\ \A n \in (rcommitted[Ev.store] + 1)..Ev.upto : rpre[Ev.store][n] = phist[n]
                      THEN RCommitted(Ev.store, Ev.upto, Ev.alh) /\ UNCHANGED bad
                 ELSE /\ rcommitted' = [rcommitted EXCEPT ![Ev.store] = Ev.upto]
                      /\ UNCHANGED <<ppre, pcommitted, phist, rpre, rdur, syncAcks>>
                      /\ bad' = Append(bad, [what |-> IF Ev.upto > pcommitted THEN "replica-committed-before-the-primary" ELSE "replica-committed-a-tx-that-is-not-the-primarys",
                                              store |-> Ev.store, id |-> Ev.upto, line |-> l])
TDiscard == Is("Discard") /\ UNCHANGED bad /\ IF IsP THEN PDiscard(Ev.since) ELSE RDiscard(Ev.store, Ev.since)
TDurable == Is("TxLogSynced") /\ UNCHANGED bad /\ IF IsP THEN UNCHANGED vars ELSE RDurable(Ev.store, Ev.upto)
TOpened == Is("Opened") /\ UNCHANGED bad /\ IF IsP THEN UNCHANGED vars
           ELSE RReopened(Ev.store, Ev.c, SubSeq(rpre[Ev.store], 1, Ev.c) \o [k \in 1..Len(Ev.reloaded) |-> Ev.reloaded[k].alh])
Ignored == {"VLogsSynced", "CLogFlushed", "CLogSynced", "Allow", "Ack", "Observed", "State", "Closed", "Rejected", "Accepted"}
TOther == l <= Len(TraceLog) /\ (Ev.ev \in Ignored \/ (Ev.ev = "Reset" /\ ~IsP)) /\ l' = l + 1 /\ UNCHANGED <<vars, bad>>
\* end of a run: every replica holds exactly the primary's history and its proofs verify against the primary's states
TConverged == /\ Is("Converged") /\ UNCHANGED vars
              /\ bad' = IF Ev.same /\ Ev.proofOk THEN bad
                        ELSE Append(bad, [what |-> IF Ev.same THEN "replica-proofs-do-not-verify-against-primary-states" ELSE "replica-history-differs-from-primary", store |-> Ev.store, id |-> Ev.n, line |-> l])

TraceNext == TReset \/ TPrecommit \/ TCommitted \/ TDiscard \/ TDurable \/ TOpened \/ TOther \/ TConverged
TraceSpec == TraceInit /\ [][TraceNext]_tvars
TraceAccepted ==
  LET d == TLCGet("stats").diameter IN
  IF d - 1 = Len(TraceLog) THEN TRUE
  ELSE Print(<<"TRACE-REJECTED-AT-LINE", d, IF d <= Len(TraceLog) THEN TraceLog[d] ELSE "eof">>, FALSE)
ReportBad == (l = Len(TraceLog) + 1 /\ bad # <<>>) => PrintT(<<"JSON:", ToJson([bad |-> bad])>>)
=============================================================================
