------------------------------ MODULE MCStore ------------------------------
(***************************************************************************)
(* Model-checking configuration of Store.tla: every interleaving of the    *)
(* pipeline actions whose guards hold, for both durability modes and with  *)
(* / without external commit allowance.  Shows that the guards (the safety *)
(* content trace validation enforces on real executions) are sufficient    *)
(* for the C02 invariants.                                                 *)
(***************************************************************************)
EXTENDS Store

CONSTANTS MaxTx, MaxGen, MaxActive

VARIABLE gen          \* number of precommits so far: makes every accumulated hash distinct
mcvars == <<vars, gen>>

MCInit == gen = 0 /\ \E s \in BOOLEAN, e \in BOOLEAN : StoreInit(s, e)

MCPrecommit ==
  /\ InmemPre < MaxTx /\ gen < MaxGen
  /\ \E bl \in 0..InmemPre :
       Precommit(InmemPre + 1, <<InmemPre + 1, gen + 1>>, AlhAt(InmemPre), bl, TRUE, InmemPre + 1, MaxActive)
  /\ gen' = gen + 1

MCNext ==
  \/ MCPrecommit
  \/ (UNCHANGED gen /\
       \/ VLogsSynced
       \/ TxLogSynced(InmemPre)
       \/ \E to \in (committed + 1)..InmemPre : CLogFlushed(committed, to)
       \/ CLogSynced(cflushed)
       \/ \E upto \in (committed + 1)..InmemPre : Committed(upto, AlhAt(upto))
       \/ \E since \in (committed + 1)..InmemPre : Discard(since, InmemPre + 1 - since)
       \/ \E upto \in 0..InmemPre : Allow(upto)
       \/ \E id \in 1..committed : Ack(id, hist[id], id)
       \/ \E id \in 1..committed : Observed(id, hist[id], TRUE, id, "ReadTx")
       \/ \E id \in 1..committed : id < cut /\ Observed(id, hist[id], TRUE, Unavailable, "ReadTx")
       \/ \E n \in 1..committed : Truncated(n)
       \/ Close
       \/ Opened(committed, [k \in 1..(InmemPre - committed) |-> [alh |-> log[committed + k].alh, prev |-> log[committed + k].prev, bl |-> log[committed + k].bl]]))

MCSpec == MCInit /\ [][MCNext]_mcvars
MCAppendOnly == [][Len(hist') >= Len(hist) /\ SubSeq(hist', 1, Len(hist)) = hist]_mcvars
\* acknowledged (synced) commits are durable: commit-log entries fsynced, tx record and values durable
AckedDurable == synced => \A id \in acked : id <= cdurable \/ ~open
MCView == <<synced, extAllow, log, committed, allowed, cflushed, cdurable, hist, open, gen, cut>>
=============================================================================
