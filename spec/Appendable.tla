----------------------------- MODULE Appendable -----------------------------
(***************************************************************************)
(* Property C17: single-file and multi-file appendables behave as one      *)
(* persistent growable byte array.                                         *)
(*                                                                         *)
(* Abstract state (what the property talks about): log, disc (bytes below  *)
(* disc were given up with DiscardUpto), see ByteLog.tla.                  *)
(*                                                                         *)
(* Implementation-shaped state (variable impl, a record):                  *)
(*   fb[k]   bytes physically present in chunk file k (a file never        *)
(*           shrinks: SetOffset does not truncate when StaleSuffix)        *)
(*   ex      chunk files that exist          fm[k]  metadata stored in k   *)
(*   cur     currAppID                       cm     Metadata() of currApp  *)
(*   a       the current singleapp.AppendableFile:                         *)
(*             file (= fb[cur]), fo = fileOffset, wb = writeBuffer[0 ..    *)
(*             wbufUnwrittenOffset), fl = wbufFlushedOffset,               *)
(*             sk = seekRequired, fp = position of the file descriptor     *)
(*   ro      read-only switch                                              *)
(*   cache   open read handles of non-current chunks: cache[k] = -1        *)
(*           (closed) or the fileOffset the handle got when it was opened  *)
(*           (= physical size of the file at that moment); at most MaxOpen *)
(*           are open, the victim of an eviction is arbitrary              *)
(* A single-file appendable is the instance Multi = FALSE with F larger    *)
(* than any reachable size (no rotation, DiscardUpto is a bound check).    *)
(*                                                                         *)
(* StaleSuffix = TRUE, ClampRead = FALSE is the code as pinned:            *)
(*   - SetOffset is logical only: the file keeps its bytes past the        *)
(*     rewound offset, later chunk files stay, and Open takes the size     *)
(*     from the file (last file by name for the multi-file appendable);    *)
(*   - readAt reads the file part of a request with f.ReadAt(bs, off) for  *)
(*     the whole request, i.e. it is not clamped at fileOffset, so bytes   *)
(*     physically present past fileOffset (stale after a rewind, zeros in  *)
(*     a preallocated file) are returned instead of the buffered bytes or  *)
(*     EOF.                                                                *)
(* StaleSuffix = FALSE, ClampRead = TRUE is the design that satisfies the  *)
(* property (rewind truncates / removes later chunks; the file part of a   *)
(* read stops at fileOffset).                                              *)
(***************************************************************************)
EXTENDS ByteLog, FiniteSets, TLC, Json

CONSTANTS Multi,        \* TRUE: multiapp over singleapp chunks; FALSE: one singleapp
          F,            \* chunk size (fileSize)
          W,            \* write buffer size
          MaxOpen,      \* maxOpenedFiles
          Retry, Auto,  \* retryableSync, autoSync
          Pre,          \* bytes preallocated per file (0: none; multiapp: F)
          MaxChunk,     \* chunk files 0..MaxChunk (0 for the single-file appendable)
          MaxBytes,     \* atoms 1..MaxBytes may be appended
          MaxApp,       \* largest single Append
          MaxOps,       \* bound on the behaviour length (simulation, counterexample search with one worker); exhaustive
                        \* runs use 99 = none: the state graph is explored to its fixpoint
          RB,           \* reads are examined up to RB bytes past the end of the log
          StaleSuffix, ClampRead,
          SimMode,      \* TRUE: thin out the ReadAt/SetOffset/DiscardUpto instances (behaviour generation)
          FullHist,     \* TRUE: history entries carry the reads on which the transcribed code deviates
          EmitDepth     \* print the history as JSON when a behaviour reaches this length (0 = never)

VARIABLES impl,   \* implementation-shaped state (record, see above)
          log,    \* the byte array
          disc,   \* DiscardUpto high-water mark
          nb,     \* next fresh atom
          rew,    \* some SetOffset has moved the end backwards (history)
          last,   \* [op, ok]: the operation that led here and whether its own result was right
          hist    \* history for replay (not part of the VIEW)
vars == <<impl, log, disc, nb, rew, last, hist>>

Chunks == 0..MaxChunk
Cap == (MaxChunk + 1) * F

-----------------------------------------------------------------------------
(* singleapp.AppendableFile                                                *)

\* pwrite: data lands at 0-based position pos, holes read as zeros, the file never shrinks
Pwrite(file, pos, data) ==
  [i \in 1..Max(Len(file), pos + Len(data)) |->
      IF i > pos /\ i <= pos + Len(data) THEN data[i - pos] ELSE IF i <= Len(file) THEN file[i] ELSE 0]

\* Open of an existing (or just created) file: Seek(0, End) gives fileOffset
SOpen(file) == [file |-> file, fo |-> Len(file), fl |-> 0, wb |-> <<>>, sk |-> FALSE, fp |-> Len(file)]

Off(a) == a.fo + Len(a.wb) - a.fl

\* flush(): write buffer[fl..unwritten) at the descriptor position (after seekIfRequired)
SFlush(a) ==
  IF Len(a.wb) = a.fl THEN a
  ELSE LET pos == IF a.sk THEN a.fo ELSE a.fp
           data == SubSeq(a.wb, a.fl + 1, Len(a.wb))
           n == Len(data)
       IN [a EXCEPT !.file = Pwrite(a.file, pos, data), !.fo = a.fo + n, !.fp = pos + n, !.sk = FALSE,
                    !.fl = IF Retry THEN a.fl + n ELSE 0, !.wb = IF Retry THEN a.wb ELSE <<>>]

\* sync() (fsync never fails here): with retryable sync the buffer space is released only now
SSync(a) == LET b == SFlush(a) IN IF Retry THEN [b EXCEPT !.fl = 0, !.wb = <<>>] ELSE b

\* write(bs): fill the buffer, flush (or auto-sync) when it is full; ErrBufferFull without auto-sync
RECURSIVE SWrite(_, _)
SWrite(a, bs) ==
  IF bs = <<>> THEN [a |-> a, full |-> FALSE]
  ELSE IF Len(a.wb) = W
       THEN IF Retry /\ ~Auto THEN [a |-> a, full |-> TRUE]
            ELSE SWrite(IF Retry THEN SSync(a) ELSE SFlush(a), bs)
       ELSE LET k == Min(Len(bs), W - Len(a.wb))
            IN SWrite([a EXCEPT !.wb = a.wb \o SubSeq(bs, 1, k)], SubSeq(bs, k + 1, Len(bs)))

\* SetOffset(p), p <= Off(a): in memory if p >= fileOffset, else fileOffset := p, seekRequired, buffer dropped
SSetOffset(a, p) ==
  LET c == Off(a) IN
  IF p = c THEN a
  ELSE IF p >= a.fo THEN [a EXCEPT !.wb = SubSeq(a.wb, 1, Len(a.wb) - (c - p))]
  ELSE [a EXCEPT !.fo = p, !.sk = TRUE, !.fl = 0, !.wb = <<>>,
                 !.file = IF StaleSuffix \/ Pre > 0 THEN a.file ELSE Prefix(a.file, p)]

\* readAt(bs, off) with len(bs) = n; clamp = the file part stops at fileOffset
SRead(a, off, n, clamp) ==
  IF off > Off(a) THEN [bs |-> <<>>, eof |-> TRUE]
  ELSE LET inFile == off < a.fo
           hi == IF clamp THEN Min(a.fo, Len(a.file)) ELSE Len(a.file)
           fpart == IF inFile THEN SubSeq(a.file, off + 1, Min(off + n, hi)) ELSE <<>>
           boff == IF inFile THEN 0 ELSE off - a.fo
           pending == n - Len(fpart)
           rc == Min(pending, (Len(a.wb) - a.fl) - boff)
           bpart == IF pending > 0 /\ rc > 0 THEN SubSeq(a.wb, a.fl + boff + 1, a.fl + boff + rc) ELSE <<>>
       IN [bs |-> fpart \o bpart, eof |-> pending > 0 /\ rc < pending]

-----------------------------------------------------------------------------
(* multiapp.MultiFileAppendable (S is an impl record)                      *)

Size(S) == S.cur * F + Off(S.a)
Norm(S) == [S EXCEPT !.fb = [S.fb EXCEPT ![S.cur] = S.a.file]]
NoCache == [k \in Chunks |-> -1]

\* cache.Put of handles <<id, lim>> in order; when MaxOpen others are open an arbitrary one is evicted and closed
RECURSIVE Puts(_, _)
Puts(c, ins) ==
  IF ins = <<>> THEN {c}
  ELSE LET id == ins[1][1]
           lim == ins[1][2]
           open == {k \in Chunks : c[k] >= 0 /\ k # id}
           c1s == IF Cardinality(open) < MaxOpen THEN {[c EXCEPT ![id] = lim]}
                  ELSE {[c EXCEPT ![v] = -1, ![id] = lim] : v \in open}
       IN UNION {Puts(c1, Tail(ins)) : c1 \in c1s}

\* Append(bs): split at chunk boundaries; a full chunk is switched to read-only (flush, and sync when retryable),
\* put into the cache, the next chunk is opened/created and SetOffset(0) is called on it.
\* m = [S, ins (handles put into the cache), full (ErrBufferFull), off (returned offset)]
RECURSIVE MApp(_, _, _)
MApp(m, bs, first) ==
  IF bs = <<>> \/ m.full THEN m
  ELSE LET S == m.S
           avail == F - Off(S.a)
       IN IF avail <= 0
          THEN LET old == IF Retry THEN SSync(S.a) ELSE SFlush(S.a)
                   fb1 == [S.fb EXCEPT ![S.cur] = old.file]
                   nc == S.cur + 1
                   isNew == nc \notin S.ex
                   na == SSetOffset(SOpen(IF isNew THEN Zeros(Pre) ELSE fb1[nc]), 0)
               IN MApp([m EXCEPT !.S = [S EXCEPT !.fb = [fb1 EXCEPT ![nc] = na.file], !.ex = S.ex \cup {nc},
                                                 !.fm = [S.fm EXCEPT ![nc] = IF isNew THEN S.cm ELSE @],
                                                 !.cm = IF isNew THEN S.cm ELSE S.fm[nc],
                                                 !.cur = nc, !.a = na],
                                 !.ins = Append(m.ins, <<S.cur, old.fo>>)], bs, first)
          ELSE LET d == Min(avail, Len(bs))
                   w == SWrite(S.a, SubSeq(bs, 1, d))
               IN MApp([m EXCEPT !.S = [S EXCEPT !.a = w.a], !.full = w.full,
                                 !.off = IF first THEN S.cur * F + Off(S.a) ELSE m.off],
                       SubSeq(bs, d + 1, Len(bs)), FALSE)

\* SetOffset(p), p <= Size(S), not read-only
MSetOffset(S, p) ==
  IF p = Size(S) THEN S
  ELSE LET id == p \div F IN
       IF id = S.cur THEN [S EXCEPT !.a = SSetOffset(S.a, p % F)]
       ELSE LET a1 == SFlush(S.a)                    \* Close() of the current appendable flushes it
                fb1 == [S.fb EXCEPT ![S.cur] = a1.file]
                na == SSetOffset(SOpen(fb1[id]), p % F)
                rm == ~StaleSuffix                   \* design: chunks after the new head are removed
            IN [S EXCEPT !.fb = [k \in Chunks |-> IF k = id THEN na.file ELSE IF rm /\ k > id THEN <<>> ELSE fb1[k]],
                         !.ex = IF rm THEN {k \in S.ex : k <= id} ELSE S.ex,
                         !.cache = [k \in Chunks |-> IF k >= id /\ (rm \/ k < S.cur) THEN -1 ELSE S.cache[k]],
                         !.cur = id, !.a = na, !.cm = S.fm[id]]

\* DiscardUpto(p): remove the chunk files wholly below p (never the current one)
MDiscard(S, p) ==
  LET rmv == IF Multi THEN {k \in Chunks : k < p \div F /\ k < S.cur} ELSE {}
  IN [S EXCEPT !.ex = S.ex \ rmv, !.fb = [k \in Chunks |-> IF k \in rmv THEN <<>> ELSE S.fb[k]],
               !.cache = [k \in Chunks |-> IF k \in rmv THEN -1 ELSE S.cache[k]]]

MSwitchRO(S) == [S EXCEPT !.a = IF Retry THEN SSync(S.a) ELSE SFlush(S.a), !.ro = TRUE]

\* what a fresh Open finds: current chunk = last file by name, size from that file
OpenView(S) ==
  LET lastId == CHOOSE k \in S.ex : \A j \in S.ex : j <= k
  IN [S EXCEPT !.cur = lastId, !.a = SOpen(S.fb[lastId]), !.ro = FALSE, !.cache = NoCache, !.cm = S.fm[lastId]]

\* Close() (flushes unless read-only) followed by Open()
MReopen(S) == OpenView(Norm([S EXCEPT !.a = IF S.ro THEN S.a ELSE SFlush(S.a)]))

\* Copy(dst): multiapp syncs and copies every file; singleapp flushes, copies through the descriptor
\* (which moves it to the end) and sets seekRequired
MCopy(S) ==
  IF Multi THEN [S EXCEPT !.a = IF S.ro THEN S.a ELSE SSync(S.a)]
  ELSE LET b == SFlush(S.a) IN [S EXCEPT !.a = [b EXCEPT !.sk = TRUE, !.fp = Len(b.file)]]

\* ReadAt(off, n): route per chunk (current appendable, cached handle, or a handle opened now and cached)
RECURSIVE MReadRec(_, _, _, _, _, _, _)
MReadRec(S, off, n, acc, c, ins, clamp) ==
  IF Len(acc) >= n THEN [bs |-> acc, eof |-> FALSE, ins |-> ins]
  ELSE LET offr == off + Len(acc)
           id == offr \div F
           isCur == id = S.cur
       IN IF ~isCur /\ (id > MaxChunk \/ (c[id] < 0 /\ id \notin S.ex))
          THEN [bs |-> acc, eof |-> TRUE, ins |-> ins]               \* os.IsNotExist: EOF
          ELSE LET lim == IF c[id] >= 0 THEN c[id] ELSE Len(S.fb[id])
                   h == IF isCur THEN S.a ELSE [file |-> S.fb[id], fo |-> lim, fl |-> 0, wb |-> <<>>, sk |-> FALSE, fp |-> 0]
                   r == SRead(h, offr % F, n - Len(acc), clamp)
                   miss == ~isCur /\ c[id] < 0
                   c1 == IF miss THEN [c EXCEPT ![id] = lim] ELSE c
                   ins1 == IF miss THEN Append(ins, <<id, lim>>) ELSE ins
               IN IF r.eof /\ Len(r.bs) = 0 THEN [bs |-> acc, eof |-> TRUE, ins |-> ins1]
                  ELSE IF r.eof THEN MReadRec(S, off, n, acc \o r.bs, c1, ins1, clamp)
                  ELSE [bs |-> acc \o r.bs, eof |-> FALSE, ins |-> ins1]
MRead(S, off, n, clamp) == MReadRec(S, off, n, <<>>, S.cache, <<>>, clamp)

-----------------------------------------------------------------------------
(* refinement                                                              *)

ReadDom(L, d) == {q \in (d..(L + RB)) \X (1..(L + RB + 1)) : q[1] + q[2] <= L + RB + 1}
SameRead(r, e) == r.bs = e.bs /\ r.eof = e.eof
ReadsOK(S, lg, d) == \A off \in d..(Len(lg) + RB) : \A n \in 1..(Len(lg) + RB + 1 - off) :
                        SameRead(MRead(S, off, n, ClampRead), AbsReadOn(lg, off, n))
\* reads on which the transcribed code deviates from the byte array, with what it returns instead and whether
\* clamping the file part at fileOffset would repair it
Devs(S, lg, d) ==
  {[off |-> q[1], n |-> q[2], bs |-> MRead(S, q[1], q[2], ClampRead).bs, eof |-> MRead(S, q[1], q[2], ClampRead).eof,
    cls |-> IF SameRead(MRead(S, q[1], q[2], TRUE), AbsReadOn(lg, q[1], q[2])) THEN "unclamped" ELSE "stale-chunk"]
     : q \in {x \in ReadDom(Len(lg), d) : ~SameRead(MRead(S, x[1], x[2], ClampRead), AbsReadOn(lg, x[1], x[2]))}}
\* everything a caller can read from offset d on
Content(S, d) == MRead(S, d, Size(S) - d, ClampRead).bs

SizeAgrees == Size(impl) = Len(log)
Conv == SizeAgrees                  \* nothing is explored past a state whose size already differs from the byte array

Init ==
  /\ impl = [fb |-> [k \in Chunks |-> IF k = 0 THEN Zeros(Pre) ELSE <<>>], ex |-> {0},
             fm |-> [k \in Chunks |-> IF k = 0 THEN 1 ELSE 0], cm |-> 1,
             cur |-> 0, a |-> SOpen(Zeros(Pre)), ro |-> FALSE, cache |-> NoCache]
  /\ log = Zeros(Pre) /\ disc = 0 /\ nb = 1 /\ rew = FALSE
  /\ last = [op |-> "init", ok |-> TRUE] /\ hist = <<>>

Log(op, x, y, ret) ==
  hist' = Append(hist, [op |-> op, a |-> x, b |-> y, ret |-> ret, ideal |-> log', disc |-> disc',
                        isize |-> Size(impl'), meta |-> impl'.cm,
                        devs |-> IF FullHist THEN Devs(impl', log', disc') ELSE {},
                        S |-> IF EmitDepth > 0 THEN impl' ELSE 0])
Enabled == Len(hist) < MaxOps /\ Conv

DoAppend(n) ==
  /\ Enabled /\ ~impl.ro /\ nb + n - 1 <= MaxBytes /\ Len(log) + n <= Cap
  /\ LET bs == [i \in 1..n |-> nb + i - 1]
         m == MApp([S |-> impl, ins |-> <<>>, full |-> FALSE, off |-> -1], bs, TRUE)
     IN /\ ~m.full                        \* ErrBufferFull (retryable sync without auto-sync) is outside the property
        /\ \E c \in Puts(impl.cache, m.ins) : impl' = Norm([m.S EXCEPT !.cache = c])
        /\ log' = AbsAppend(log, bs).log
        /\ last' = [op |-> "append", ok |-> m.off = AbsAppend(log, bs).off]
        /\ nb' = nb + n /\ UNCHANGED <<disc, rew>>
        /\ Log("append", n, nb, m.off)

\* ReadAt as an action only matters through the handles it opens (the results of all reads are examined in every
\* state by ReadsOK): for exhaustive runs one representative per contiguous range of chunks is enough
ReadOffs == IF SimMode THEN {disc, (disc + Len(log)) \div 2, Max(disc, Len(log) - 1), Len(log)}
            ELSE {disc} \cup {k * F : k \in (disc \div F + 1)..(Len(log) \div F)}
ReadLens(off) == IF SimMode THEN {1, Min(F, Len(log) + RB + 1 - off), Len(log) + 1 - off}
                 ELSE {1} \cup {j * F + 1 : j \in 1..((Len(log) - off) \div F)}
DoRead(off, n) ==
  /\ Enabled
  /\ LET r == MRead(impl, off, n, ClampRead)
     IN \E c \in Puts(impl.cache, r.ins) : impl' = [impl EXCEPT !.cache = c]
  /\ last' = [op |-> "read", ok |-> TRUE]
  /\ UNCHANGED <<log, disc, nb, rew>>
  /\ Log("read", off, n, 0)

\* (simulation: besides the ends and the middle, the chunk start and the flushed offset of the current file and the byte
\* after it, so that rewinds land on both sides of fileOffset)
Positions == IF SimMode THEN {disc, (disc + Len(log)) \div 2, (F * (Len(log) \div F)), Max(disc, Len(log) - 1), Len(log),
                              impl.cur * F + impl.a.fo, impl.cur * F + impl.a.fo + 1}
             ELSE 0..Len(log)
\* (simulation only: while flushed-unsynced bytes are buffered, every position of the unflushed tail is a likely rewind target)
TailPositions == IF SimMode /\ impl.a.fl > 0 THEN (impl.cur * F + impl.a.fo)..(Size(impl) - 1) ELSE {}
\* SetOffset(p) takes the in-memory branch while flushed but unsynced bytes are still held in the write buffer (retryable
\* sync): the new wbufUnwrittenOffset has to account for the flushed window.  Recorded in the history (field b) so that
\* the replay can count how often the real code was driven through this branch.
IntoTailWithFlushedHeld(S, p) ==
  p \div F = S.cur /\ S.a.fl > 0 /\ p % F >= S.a.fo /\ p < Size(S)
DoSetOffset(p) ==
  /\ Enabled /\ ~impl.ro /\ p >= disc /\ p <= Len(log) /\ (SimMode => p < Len(log))
  /\ impl' = Norm(MSetOffset(impl, p))
  /\ log' = AbsRewind(log, p)
  /\ last' = [op |-> "setoffset", ok |-> TRUE]
  /\ rew' = (rew \/ p < Len(log))
  /\ UNCHANGED <<disc, nb>>
  /\ Log("setoffset", p, IF IntoTailWithFlushedHeld(impl, p) THEN 1 ELSE 0, 0)

DoFlush ==
  /\ Enabled /\ ~impl.ro
  /\ impl' = Norm([impl EXCEPT !.a = SFlush(impl.a)])
  /\ last' = [op |-> "flush", ok |-> TRUE] /\ UNCHANGED <<log, disc, nb, rew>> /\ Log("flush", 0, 0, 0)

DoSync ==
  /\ Enabled /\ ~impl.ro
  /\ impl' = Norm([impl EXCEPT !.a = SSync(impl.a)])
  /\ last' = [op |-> "sync", ok |-> TRUE] /\ UNCHANGED <<log, disc, nb, rew>> /\ Log("sync", 0, 0, 0)

DoDiscard(p) ==
  /\ Enabled /\ p <= Len(log) /\ p > disc
  /\ impl' = Norm(MDiscard(impl, p))
  /\ disc' = p
  /\ last' = [op |-> "discard", ok |-> TRUE] /\ UNCHANGED <<log, nb, rew>> /\ Log("discard", p, 0, 0)

DoSwitchRO ==
  /\ Enabled /\ ~impl.ro
  /\ impl' = Norm(MSwitchRO(impl))
  /\ last' = [op |-> "switchro", ok |-> TRUE] /\ UNCHANGED <<log, disc, nb, rew>> /\ Log("switchro", 0, 0, 0)

\* after Close and Open the byte array is the same; with preallocated files the size (and whatever follows the old
\* end) is what the files hold, as long as everything below the old end is unchanged
DoReopen ==
  /\ Enabled
  /\ impl' = MReopen(impl)
  /\ log' = IF Pre > 0 /\ Size(impl') >= Len(log) /\ Size(impl') <= Cap
               /\ SubSeq(Content(impl', disc), 1, Len(log) - disc) = SubSeq(log, disc + 1, Len(log))
            THEN SubSeq(log, 1, disc) \o Content(impl', disc) ELSE log
  /\ last' = [op |-> "reopen", ok |-> impl'.cm = 1] /\ UNCHANGED <<disc, nb, rew>> /\ Log("reopen", 0, 0, 0)

\* the copy, opened, must show the same byte array (a holds the size a fresh Open of the copy reports)
DoCopy ==
  /\ Enabled
  /\ impl' = Norm(MCopy(impl))
  /\ LET v == OpenView(impl')
     IN /\ last' = [op |-> "copy", ok |-> /\ v.cm = 1
                                          /\ IF Pre > 0 THEN Size(v) >= Len(log) ELSE Size(v) = Len(log)
                                          /\ SubSeq(Content(v, disc), 1, Len(log) - disc) = SubSeq(log, disc + 1, Len(log))]
        /\ UNCHANGED <<log, disc, nb, rew>> /\ Log("copy", Size(v), 0, 0)

\* (in SimMode some disjuncts are repeated: TLC's simulator draws uniformly from the list of successors)
Wt(k) == IF SimMode THEN 1..k ELSE {1}
Next ==
  \/ \E n \in 1..MaxApp : DoAppend(n)
  \/ \E off \in ReadOffs : \E n \in ReadLens(off) : DoRead(off, n)
  \/ \E p \in Positions : \E w \in Wt(2) : DoSetOffset(p)
  \/ \E p \in TailPositions : DoSetOffset(p)
  \/ \E p \in IF SimMode THEN {(disc + Len(log)) \div 2, F * (Len(log) \div F)} ELSE Positions : DoDiscard(p)
  \/ \E w \in Wt(IF Retry THEN 6 ELSE 3) : DoFlush
  \/ \E w \in Wt(2) : DoSync
  \/ DoReopen
  \/ DoSwitchRO \/ DoCopy
Spec == Init /\ [][Next]_vars

-----------------------------------------------------------------------------
(* the property                                                            *)

TypeOK == /\ impl.cur \in impl.ex /\ impl.a.file = impl.fb[impl.cur] /\ impl.a.fl <= Len(impl.a.wb) /\ Len(impl.a.wb) <= W
          /\ Cardinality({k \in Chunks : impl.cache[k] >= 0}) <= MaxOpen
          /\ disc <= Len(log)
Good == SizeAgrees /\ ReadsOK(impl, log, disc)
\* Good is required of every reachable state; it is split by the operation that led to the state, so that every
\* clause of the property has its own invariant (and its own counterexample), and TLC evaluates the reads once:
\*   any ReadAt returns the bytes of the array (from buffer or file, across chunks) and EOF exactly at its end
\*   - in the initial state and after operations that do not change the array
ReadsAgree == last.op \in {"init", "read", "flush", "sync", "switchro"} => Good
\*   - after Append, which also returns the previous size
AppendReturnsPrevSize == last.op = "append" => (last.ok /\ Good)
\*   - after SetOffset(p): size p, EOF at p, what is appended later is what is read later
RewindDiscardsSuffix == last.op = "setoffset" => Good
\*   - after Close and Open: same bytes, same metadata, same size (with preallocated files: size from the files)
ReopenSame == last.op = "reopen" => (last.ok /\ Good)
\*   - Copy: the copy, opened, shows the same array; the source is unaffected
CopySame == last.op = "copy" => (last.ok /\ Good)
\*   - after DiscardUpto(p): nothing at or after p changed
DiscardKeepsSuffix == last.op = "discard" => Good
\* the conjunction, for configurations in which only the verdict matters
Refines == TypeOK /\ last.ok /\ Good

\* For the configuration that transcribes the code as pinned (StaleSuffix, ~ClampRead): the code refines the byte array
\* as long as the end was never moved backwards and files are not preallocated (this is the precondition under which
\* the replay classifies a deviation of the real code as the known one); with preallocated files sizes and returned
\* offsets are right in every state.
CodeEnvelope == /\ TypeOK
                /\ (Pre = 0 /\ ~rew) => (last.ok /\ Good)
                /\ Pre > 0 => (last.ok /\ SizeAgrees)

\* behaviours for replay on real appendables.  The simulator evaluates invariants on the successors it generates, not
\* only on the one it follows: a simulation prints about two histories per trace; each is a behaviour of the spec.
\* (the deviating reads of every step are computed here, once per printed behaviour, from the recorded impl states)
Emit == (EmitDepth > 0 /\ Len(hist) > 0 /\ (Len(hist) = EmitDepth \/ ~Conv)) =>
          PrintT(<<"JSON:", ToJson([ops |-> [i \in 1..Len(hist) |->
                     [op |-> hist[i].op, a |-> hist[i].a, b |-> hist[i].b, ret |-> hist[i].ret, ideal |-> hist[i].ideal,
                      disc |-> hist[i].disc, isize |-> hist[i].isize, meta |-> hist[i].meta,
                      devs |-> Devs(hist[i].S, hist[i].ideal, hist[i].disc)]]])>>)
View == <<impl, log, disc, nb, last>>
ViewRew == <<impl, log, disc, nb, rew, last>>
=============================================================================
