--------------------------- MODULE MCReplication ---------------------------
(***************************************************************************)
(* Model-checking configuration of Replication.tla: a primary, replicas,   *)
(* and a network that duplicates, reorders and alters exported txs.  A     *)
(* replica's accept decision is the transcription of the header-driven     *)
(* precommit (store.ReplicateTx -> precommit): right id, PrevAlh equal to  *)
(* its last accumulated hash, entries hash matching the entries.           *)
(* UndetectedAlterations = TRUE models the code as pinned: the export      *)
(* format carries no Alh, so alterations of header fields that are not     *)
(* re-derived from the payload (Ts, Version, ...) are accepted.            *)
(***************************************************************************)
EXTENDS Replication

CONSTANTS MaxTx, UndetectedAlterations, MaxAlter, SyncAcks

VARIABLES net, nalter
mcvars == <<vars, net, nalter>>

MCInit == Init(SyncAcks) /\ net = {} /\ nalter = 0

Alh(n) == <<"alh", n>>
AltAlh(n) == <<"altered", n>>
PrevOf(s, n) == IF n = 1 THEN <<"genesis">> ELSE s[n - 1]

PrimaryPrecommit == /\ Len(ppre) < MaxTx /\ PPrecommit(Len(ppre) + 1, Alh(Len(ppre) + 1)) /\ UNCHANGED <<net, nalter>>
PrimaryCommit == /\ \E upto \in (pcommitted + 1)..Len(ppre) : PCommitted(upto, ppre[upto]) /\ UNCHANGED <<net, nalter>>
\* ExportTx(n, allowPrecommitted): the message carries the header (prev) and the payload; never removed: duplicates / reordering
Export(n) == /\ n <= Len(ppre) /\ net' = net \cup {[id |-> n, alh |-> ppre[n], prev |-> PrevOf(ppre, n), alt |-> "none"]}
             /\ UNCHANGED <<vars, nalter>>
Alter(m, kind) == /\ m \in net /\ m.alt = "none" /\ nalter < MaxAlter
                  /\ net' = net \cup {[m EXCEPT !.alh = AltAlh(m.id), !.alt = kind]}
                  /\ nalter' = nalter + 1 /\ UNCHANGED vars
Accepts(r, m) == /\ m.id = Len(rpre[r]) + 1
                 /\ m.prev = PrevOf(rpre[r], m.id)
                 /\ (m.alt = "none" \/ (m.alt = "undetectable" /\ UndetectedAlterations))
Deliver(r, m) == /\ m \in net /\ Accepts(r, m)
                 /\ rpre' = [rpre EXCEPT ![r] = Append(@, m.alh)]
                 /\ UNCHANGED <<ppre, pcommitted, phist, rdur, rcommitted, syncAcks, net, nalter>>
ReplicaSync(r) == /\ rdur[r] < Len(rpre[r]) /\ RDurable(r, Len(rpre[r])) /\ UNCHANGED <<net, nalter>>
ReplicaCommit(r) == /\ \E upto \in (rcommitted[r] + 1)..Min(Len(rpre[r]), pcommitted) :
                          rcommitted' = [rcommitted EXCEPT ![r] = upto]
                    /\ UNCHANGED <<ppre, pcommitted, phist, rpre, rdur, syncAcks, net, nalter>>
ReplicaDiscard(r) == /\ \E since \in (rcommitted[r] + 1)..Len(rpre[r]) : RDiscard(r, since) /\ UNCHANGED <<net, nalter>>

MCNext == \/ PrimaryPrecommit \/ PrimaryCommit
          \/ \E n \in 1..MaxTx : Export(n)
          \/ \E m \in net, k \in {"detectable", "undetectable"} : Alter(m, k)
          \/ \E r \in Replicas : (\E m \in net : Deliver(r, m)) \/ ReplicaSync(r) \/ ReplicaCommit(r) \/ ReplicaDiscard(r)
MCSpec == MCInit /\ [][MCNext]_mcvars

\* what a replica holds under an id is what the primary holds under that id
ReplicaHoldsPrimaryTxs == \A r \in Replicas : \A n \in 1..Len(rpre[r]) : n <= Len(ppre) /\ rpre[r][n] = ppre[n]
=============================================================================
