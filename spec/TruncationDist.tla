--------------------------- MODULE TruncationDist ---------------------------
(***************************************************************************)
(* The distance dimension of property C14 as a family of histories of      *)
(* Truncation.tla: a committer A writes its values EARLY and gets its id   *)
(* LATE, d ids after the cut transaction n.                                *)
(*                                                                         *)
(*   A appends (stalls before the store mutex), B appends behind A in the  *)
(*   same value log and commits as tx n, d-1 further committers commit as  *)
(*   n+1 .. n+d-1, A commits as n+d, TruncateUptoTx(n), restart.           *)
(*                                                                         *)
(* A's first value lies in a chunk file below the file of n's first value, *)
(* so the forward walk has to reach n+d to keep that file.  d ranges over  *)
(* 1..D with D larger than every store option that could be mistaken for a *)
(* bound of the walk (MaxConcurrency, MaxIOConcurrency, MaxActive-         *)
(* Transactions of the replayed stores are <= 4).  At most two committers  *)
(* are ever in flight, so every history runs on a store with               *)
(* MaxConcurrency = 2.  The steps are the actions of Truncation.tla; TLC   *)
(* evaluates its invariants on every history and prints the histories with *)
(* the expected placements / chunk files for the replay on the real store. *)
(***************************************************************************)
EXTENDS Truncation

CONSTANT D
VARIABLES sid, pos
dvars == <<vars, sid, pos>>

Lays == IF M = 1 THEN {1, 2} ELSE {1, 2, 3, 4}
ScriptIds == {[d |-> d, lay |-> l] : d \in 1..D, l \in Lays}

St(op, w, k, ls, n) == [op |-> op, w |-> w, k |-> k, lens |-> ls, n |-> n]
\* layouts: 1 everything in value log 1, A = one value of two units (spans two chunk files)
\*          2 everything in value log 1, A = two values of one unit (the second one in the cut transaction's file)
\*          3 A and the cut tx in value log 2, the txs in between alternate between the logs
\*          4 A and the cut tx in value log 1, the txs in between in value log 2
Script(d, lay) ==
  LET A == M + 1
      B == M + 2
      n == M + 1
      kA == IF lay = 3 THEN 2 ELSE 1
      lenA == IF lay = 2 THEN <<1, 1>> ELSE <<2>>
      kC(i) == IF lay = 3 THEN 1 + (i % 2) ELSE IF lay = 4 THEN 2 ELSE 1
      mid == [x \in 1..(2 * (d - 1)) |->
                IF x % 2 = 1 THEN St("append", B + (x + 1) \div 2, kC((x + 1) \div 2), <<1>>, 0)
                             ELSE St("precommit", B + x \div 2, 0, <<>>, 0)]
  IN <<St("append", A, kA, lenA, 0), St("append", B, kA, <<1>>, 0), St("precommit", B, 0, <<>>, 0)>>
     \o mid
     \o <<St("precommit", A, 0, <<>>, 0), St("tbegin", 0, 0, <<>>, n), St("restart", 0, 0, <<>>, 0)>>

Cur == Script(sid.d, sid.lay)
DInit == Init /\ sid \in ScriptIds /\ pos = 0

DStep ==
  /\ pos < Len(Cur) /\ ~TruncRunning
  /\ LET s == Cur[pos + 1] IN
       \/ s.op = "append" /\ AppendValues(s.w, s.k, s.lens)
       \/ s.op = "precommit" /\ Precommit(s.w)
       \/ s.op = "tbegin" /\ TBegin(1, s.n)
       \/ s.op = "restart" /\ Restart
  /\ pos' = pos + 1 /\ UNCHANGED sid

DInternal ==
  /\ TruncRunning
  /\ TBack(1) \/ TSnap(1) \/ TReadMax(1) \/ TFront(1) \/ (\E k \in Logs : TDiscard(1, k))
  /\ UNCHANGED <<sid, pos>>

DNext == DStep \/ DInternal
DSpec == DInit /\ [][DNext]_dvars

DDone == pos = Len(Cur) /\ ~TruncRunning
\* the history really has the distance it is named after (checked, not assumed)
DistanceAsNamed == DDone => \E i \in 1..Len(hist) : hist[i].op = "tbegin" /\ hist[i].dist = sid.d
DEmit == DDone =>
  PrintT(<<"JSON:", ToJson([ops |-> hist, m |-> M, f |-> F, cut |-> cut, split |-> SplitCommit, primed |-> Primed, mc |-> 2,
                            d |-> sid.d, lay |-> sid.lay,
                            cuts |-> [n \in 1..committed |-> [k \in Logs |-> AtomicDel(n, delBelow)[k]]]])>>)
=============================================================================
