------------------------- MODULE AppendableScript -------------------------
(***************************************************************************)
(* Directed behaviours of Appendable.tla: TLC follows the given scripts    *)
(* (all of the same length) step by step and prints the history with the   *)
(* byte array after every step (Emit), for replay on the real code.        *)
(* Used for sequences random simulation reaches too rarely, e.g.           *)
(*   rewind below the flushed offset (or preallocated file); Append        *)
(*   (unflushed); Copy; Append; Flush; ReadAt; Close+Open; ReadAt          *)
(* where the physical end of the file is beyond its logical end while Copy *)
(* flushes and moves the descriptor.                                       *)
(* A script step is <<op, a, b>>; Scripts is substituted by the generated  *)
(* root module (checks/C17.py).                                            *)
(***************************************************************************)
EXTENDS Appendable

CONSTANT Scripts

Step(e) ==
  CASE e[1] = "append"    -> DoAppend(e[2])
    [] e[1] = "read"      -> DoRead(e[2], e[3])
    [] e[1] = "setoffset" -> DoSetOffset(e[2])
    [] e[1] = "discard"   -> DoDiscard(e[2])
    [] e[1] = "flush"     -> DoFlush
    [] e[1] = "sync"      -> DoSync
    [] e[1] = "switchro"  -> DoSwitchRO
    [] e[1] = "reopen"    -> DoReopen
    [] e[1] = "copy"      -> DoCopy

\* the history so far is a prefix of script s
Follows(s) == /\ Len(hist) < Len(s)
              /\ \A i \in 1..Len(hist) :
                    /\ hist[i].op = s[i][1]
                    /\ s[i][1] \in {"append", "read", "setoffset", "discard"} => hist[i].a = s[i][2]
                    /\ s[i][1] = "read" => hist[i].b = s[i][3]

ScriptNext == \E s \in Scripts : Follows(s) /\ Step(s[Len(hist) + 1])
ScriptSpec == Init /\ [][ScriptNext]_vars

\* Seeded simulation: the scripts are prefixes (all of one length), after which the behaviour continues with Next.
\* Used to start random behaviours in states plain simulation reaches rarely (e.g. retryable sync with flushed but
\* unsynced bytes and an unflushed tail in the write buffer: Append; Flush; Append).
PrefixLen == Len(CHOOSE s \in Scripts : TRUE)
PrefixNext == IF Len(hist) < PrefixLen THEN ScriptNext ELSE Next
PrefixSpec == Init /\ [][PrefixNext]_vars
=============================================================================
