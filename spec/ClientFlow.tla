----------------------------- MODULE ClientFlow -----------------------------
(***************************************************************************)
(* The client side of verified reads and writes (property C01): which      *)
(* parts of a Verifiable* response the Go client (pkg/client/client.go     *)
(* verifiedGet, VerifiedTxByID, VerifiedSet) ties to its trusted state,    *)
(* and what it hands back to the caller.                                   *)
(*                                                                         *)
(* Proofs.tla / ProofCases.tla settle that an accepted dual proof links    *)
(* two accumulated hashes (replayed on the real VerifyDualProof).  Here    *)
(* that result is used as a black box (`body`): a dual proof body proves   *)
(* exactly the pair of Alh values it was generated for.  What this module  *)
(* adds is the response as a whole: it carries several copies of the same  *)
(* header (VerifiableTx.Tx.Header, DualProof.SourceTxHeader /              *)
(* TargetTxHeader), an entry, the transaction entries, an inclusion proof. *)
(* Digests are free terms.  The adversary alters any set of up to K        *)
(* response fields, including consistent recomputation of derived digests  *)
(* (an entries hash recomputed for a forged entry and written into any     *)
(* subset of the header copies).                                           *)
(*                                                                         *)
(* Client(op, ...) is transcribed from the Go code, statement by           *)
(* statement; Harmful says the caller would be handed something that is    *)
(* not in the history or the trusted state would leave the history.        *)
(* Sound: accepted => not Harmful.                                         *)
(***************************************************************************)
EXTENDS Naturals, Sequences, FiniteSets, FiniteSetsExt, TLC, Json, SequencesExt

CONSTANTS K,                \* at most K fields altered together
          OutFile,
          TxByIdChecked,    \* VerifiedTxByID: TRUE = the returned Tx is tied to the proven header
          EntryIdentChecked,\* verifiedGet: TRUE = Entry.Key / Entry.Tx (ReferencedBy.Key / Tx) are compared with what was proven
          SetHdrChecked,    \* VerifiedSet: TRUE = the returned header's EH is compared with the one recomputed from the entries
          StreamIdentChecked \* StreamVerifiedGet: TRUE = requested key and proven tx are compared with the returned entry / reference

HdrFields == <<"id", "prev", "ts", "ver", "nent", "eh", "bl", "blroot">>
HAlh(h) == <<"A", h.id, h.prev, <<"I", h.ts, h.ver, h.nent, h.eh, h.bl, h.blroot>>>>
HV(val) == <<"H", val>>                                      \* sha256(value)
Dig(ver, key, md, hv) == <<"D", ver, key, md, hv>>          \* EntrySpecDigest_v0/v1 (ver is part of the term: the two encodings differ)
RefVal(refKey, atTx) == <<"ref", refKey, atTx>>              \* the value stored for a reference (database.EncodeReference)
EHof(ds) == <<"EH", ds>>                                     \* root of the per-transaction tree over the digests ds
InclRoot(p, d) ==                                            \* htree.VerifyInclusion: root computed from leaf digest and proof
  IF p.width = 1 THEN (IF p.leaf = 1 THEN EHof(<<d>>) ELSE <<"bad">>)
  ELSE IF p.leaf = 1 THEN EHof(<<d, p.sib>>) ELSE IF p.leaf = 2 THEN EHof(<<p.sib, d>>) ELSE <<"bad">>

-----------------------------------------------------------------------------
(* the honest world: trusted tx T, proven tx P *)
Ops  == {"get0", "getAt", "txbyid", "getRef", "set", "sget0", "sgetRef", "vrowT", "vrowF", "vrow2T", "vrow2F"}
\* s...: the streaming variants (pkg/client/streams.go); vrowT / vrowF: VerifyRow (pkg/client/sql.go) of a true / a false claim
RefOps == {"getRef", "sgetRef"}
RowOps == {"vrowT", "vrowF", "vrow2T", "vrow2F"}     \* vrow2*: a table whose composite primary key (b, a) is not in declaration order, with columns of different types
Row2Ops == {"vrow2T", "vrow2F"}
Rels == {"newer", "same", "older"}                           \* proven tx is newer than / the same as / older than the trusted one
RelsOf(op) == IF op = "set" THEN {"newer"} ELSE Rels          \* a write is always newer than the trusted state
POf(op) == CASE op \in RefOps -> 6 [] op = "set" -> 16 [] op \in Row2Ops -> 13 [] op \in RowOps -> 10 [] OTHER -> 3
SwapP(op) == IF op \in RefOps THEN 7 ELSE POf(op)          \* the tx proven by the honest answer to ANOTHER request (key k2 / reference r2)
TOf(op, rel) == IF op = "set" THEN 2 ELSE CASE rel = "newer" -> POf(op) - 1 [] rel = "same" -> POf(op) [] rel = "older" -> POf(op) + 1

\* the SQL row of tx 10: table t (id 1 in database 1), columns id = 1 (primary key), a = 2, b = 3; the row (1, 100, 5)
HonRow == [c \in {1, 2, 3} |-> CASE c = 1 -> 1 [] c = 2 -> 100 [] c = 3 -> 5]
\* the SQL row of tx 13: table t2 (id 2), columns a = 1 (VARCHAR), b = 2, c = 3 (INTEGER), PRIMARY KEY (b, a); the row ('x', 2, 7)
HonRow2 == [c \in {1, 2, 3} |-> CASE c = 1 -> "x" [] c = 2 -> 2 [] c = 3 -> 7]
RowOf(op) == IF op \in Row2Ops THEN HonRow2 ELSE HonRow
TblOf(op) == IF op \in Row2Ops THEN 2 ELSE 1
ColType(op, c) == IF op \in Row2Ops /\ c = 1 THEN "S" ELSE "I"
PkIdsOf(op) == IF op \in Row2Ops THEN <<2, 1>> ELSE <<1>>            \* ids of the primary-key columns, in key order
PkValsOf(op) == IF op \in Row2Ops THEN <<2, "x">> ELSE <<1>>          \* what the caller passes, in key order
ClaimCol(op) == IF op \in Row2Ops THEN "c" ELSE "a"                  \* the column the caller makes a claim about
FalseVal(op) == IF op \in Row2Ops THEN 2 ELSE 5                      \* a value another column of the row holds
OtherColId(op) == IF op \in Row2Ops THEN 2 ELSE 3                    \* ... the id of that column
\* sql.MapKey(prefix, RowPrefix, dbID, tableID, PKIndexID, pk values): every pk value is encoded with the type of the column id found in PKIDs
RowKey(op, db, tbl, pkIds) == <<"row", db, tbl, [i \in 1..Len(PkValsOf(op)) |-> <<ColType(op, pkIds[i]), PkValsOf(op)[i]>>]>>
\* the entries of the proven transaction
Entries(op) ==
  CASE op \in RowOps -> <<[key |-> RowKey(op, 1, TblOf(op), PkIdsOf(op)), md |-> "md0", hv |-> HV(RowOf(op))]>>
    [] op \in RefOps -> <<[key |-> "r1", md |-> "md0", hv |-> HV(RefVal("k1", 0))]>>
    [] op = "set"    -> <<[key |-> "ks", md |-> "md0", hv |-> HV(<<"v", "new">>)]>>
    [] OTHER         -> <<[key |-> "k1", md |-> "md0", hv |-> HV(<<"v", 3>>)], [key |-> "k2", md |-> "md0", hv |-> HV(<<"w", 3>>)]>>
Digs(ver, es) == [q \in 1..Len(es) |-> Dig(ver, es[q].key, es[q].md, es[q].hv)]
OtherRefEntries == <<[key |-> "r2", md |-> "md0", hv |-> HV(RefVal("k2", 0))]>>     \* tx 7: the reference r2 -> k2
Hon(op, id) == [id |-> id, prev |-> <<"alh", id - 1>>, ts |-> <<"ts", id>>, ver |-> 1,
                nent |-> IF id = POf(op) THEN Len(Entries(op)) ELSE 1,
                eh |-> IF id = POf(op) THEN EHof(Digs(1, Entries(op)))
                       ELSE IF op \in RefOps /\ id = 7 THEN EHof(Digs(1, OtherRefEntries)) ELSE <<"EHo", id, id>>,
                bl |-> id - 1, blroot |-> <<"blroot", id>>]

HonResp(op, rel, swapped) ==
  LET T == TOf(op, rel)  P == IF swapped THEN SwapP(op) ELSE POf(op)
      lo == IF T <= P THEN T ELSE P   hi == IF T <= P THEN P ELSE T
      ref == op \in RefOps
      es == IF swapped /\ ref THEN OtherRefEntries ELSE Entries(op)
      me == IF swapped /\ ~ref THEN 2 ELSE 1                \* position of the answered key in its transaction
      ot == 3 - me IN
  [\* schema.Entry (for a reference: the resolved entry and ReferencedBy)
   ekey |-> IF swapped THEN "k2" ELSE "k1", eval |-> IF swapped THEN <<"w", 3>> ELSE <<"v", 3>>, emd |-> "md0",
   etx |-> IF ref THEN 3 ELSE P,
   isRef |-> ref, rkey |-> IF swapped THEN "r2" ELSE "r1", rtx |-> P, rmd |-> "md0", rat |-> 0,
   \* schema.VerifiableSQLEntry: the raw row and the catalog data the server sends along (nothing proves the latter)
   srow |-> RowOf(op), stx |-> P, dbId |-> 1, tblId |-> TblOf(op), pkIds |-> PkIdsOf(op),
   colOf |-> IF op \in Row2Ops THEN [n \in {"a", "b", "c"} |-> CASE n = "a" -> 1 [] n = "b" -> 2 [] n = "c" -> 3]
             ELSE [n \in {"id", "a", "b"} |-> CASE n = "id" -> 1 [] n = "a" -> 2 [] n = "b" -> 3],
   \* schema.VerifiableTx
   txhdr |-> Hon(op, P), te |-> es,
   dpS |-> Hon(op, lo), dpT |-> Hon(op, hi), body |-> <<"B", HAlh(Hon(op, lo)), HAlh(Hon(op, hi))>>,
   \* schema.InclusionProof
   incl |-> IF Len(es) = 1 THEN [leaf |-> 1, width |-> 1, sib |-> <<"none">>]
            ELSE [leaf |-> me, width |-> 2, sib |-> Dig(1, es[ot].key, es[ot].md, es[ot].hv)]]

-----------------------------------------------------------------------------
(* the adversary *)
HdrMuts(c) == {c \o "." \o HdrFields[q] : q \in 1..Len(HdrFields)}
EntryMuts == {"e.key", "e.val", "e.md", "e.tx"}
RefMuts   == {"ref.key", "ref.tx", "ref.md", "ref.atTx"}
InclMuts  == {"incl.leaf", "incl.sib"}
TeMuts    == {"te1.key", "te1.md", "te1.hv", "te.drop"}
Muts == EntryMuts \cup RefMuts \cup InclMuts \cup TeMuts
        \cup HdrMuts("txhdr") \cup {"txhdr.ehC"}
        \cup HdrMuts("dpP") \cup {"dpP.ehC"}            \* the dual-proof header on the proven side
        \cup HdrMuts("dpO")                                \* the dual-proof header on the trusted side
        \cup {"body", "swap"}
        \cup {"sql.val", "sql.tx", "cat.db", "cat.table", "cat.pkcol", "cat.colmap"}   \* cat.colmap: column name a mapped to the id of column b                           \* swap: the honest answer to another request (key k2 / reference r2)
SqlMuts == {"sql.val", "sql.tx", "cat.db", "cat.table", "cat.pkcol", "cat.colmap"}
Conflicts == {{"txhdr.eh", "txhdr.ehC"}, {"dpP.eh", "dpP.ehC"}}
\* fields the operation neither reads nor returns are left out (they cannot matter)
Irrelevant(op) ==
  CASE op \in {"get0", "getAt", "sget0"} -> TeMuts \cup RefMuts \cup SqlMuts
    [] op \in RefOps -> TeMuts \cup {"incl.sib"} \cup SqlMuts
    [] op = "txbyid" -> EntryMuts \cup RefMuts \cup InclMuts \cup {"swap"} \cup SqlMuts
    [] op = "set"    -> EntryMuts \cup RefMuts \cup InclMuts \cup {"te.drop", "swap"} \cup SqlMuts
    [] op \in RowOps -> EntryMuts \cup RefMuts \cup TeMuts \cup {"incl.sib", "swap"}
MutSets(op) == {S \in UNION {kSubset(k, Muts \ Irrelevant(op)) : k \in 0..K} : \A c \in Conflicts : ~(c \subseteq S)}

Bogus(f, old) == IF f = "id" THEN old + 7 ELSE IF f = "ver" THEN 1 - old ELSE IF f = "nent" THEN old + 1 ELSE IF f = "bl" THEN old + 1 ELSE <<"bogus", f, f>>
AlterHdr(h, c, S) ==
  [f \in DOMAIN h |-> IF (c \o "." \o f) \in S THEN Bogus(f, h[f]) ELSE h[f]]

\* the leaf digest the client computes for the entry of a VerifiableGet response (see ClientGet)
GetLeaf(ver, reqKey, r) ==
  IF r.isRef THEN Dig(ver, reqKey, r.rmd, HV(RefVal(r.ekey, r.rat)))
  ELSE Dig(ver, reqKey, r.emd, HV(r.eval))

\* the leaf digest VerifyRow computes: the row key is built from the ids found in the response and the caller's pk value
RowLeaf(op, ver, r) == Dig(ver, RowKey(op, r.dbId, r.tblId, r.pkIds), "md0", HV(r.srow))
ReqKey(op) == IF op \in RefOps THEN "r1" ELSE "k1"
\* the streaming client encodes a reference under the key found in the response (ReferencedBy.Key)
LeafKey(op, r) == IF op = "sgetRef" THEN r.rkey ELSE ReqKey(op)

Altered(op, rel, S) ==
  LET swapped == "swap" \in S
      r == HonResp(op, rel, swapped)
      T == TOf(op, rel)  P == IF swapped THEN SwapP(op) ELSE POf(op)
      provenIsTgt == T <= P
      same == T = P
      e1 == [r EXCEPT !.ekey = IF "e.key" \in S THEN "kX" ELSE @,
                      !.eval = IF "e.val" \in S THEN <<"forged">> ELSE @,
                      !.emd  = IF "e.md" \in S THEN "mdX" ELSE @,
                      !.etx  = IF "e.tx" \in S THEN @ + 5 ELSE @,
                      !.rkey = IF "ref.key" \in S THEN "kX" ELSE @,
                      !.rtx  = IF "ref.tx" \in S THEN @ + 5 ELSE @,
                      !.rmd  = IF "ref.md" \in S THEN "mdX" ELSE @,
                      !.rat  = IF "ref.atTx" \in S THEN @ + 2 ELSE @,
                      !.srow = IF "sql.val" \in S THEN [@ EXCEPT ![r.colOf[ClaimCol(op)]] = FalseVal(op)] ELSE @,   \* forged row: the claimed column holds the false value
                      !.stx  = IF "sql.tx" \in S THEN @ + 5 ELSE @,
                      !.dbId = IF "cat.db" \in S THEN @ + 1 ELSE @,
                      !.tblId = IF "cat.table" \in S THEN @ + 1 ELSE @,
                      \* another column id in PKIDs: an INTEGER one for t (same encoding), the swapped order for t2 (other types)
                      !.pkIds = IF "cat.pkcol" \in S THEN (IF op \in Row2Ops THEN <<1, 2>> ELSE <<2>>) ELSE @,
                      !.colOf = IF "cat.colmap" \in S THEN [@ EXCEPT ![ClaimCol(op)] = OtherColId(op)] ELSE @,
                      !.incl.leaf = IF "incl.leaf" \in S THEN 2 ELSE @,
                      !.incl.sib = IF "incl.sib" \in S THEN <<"bogus", "sib", "sib">> ELSE @,
                      !.body = IF "body" \in S THEN <<"bogus", "body">> ELSE @]
      te0 == IF "te.drop" \in S THEN <<r.te[1]>> ELSE r.te
      te1 == [te0 EXCEPT ![1] = [key |-> IF "te1.key" \in S THEN "kX" ELSE @.key,
                                 md  |-> IF "te1.md" \in S THEN "mdX" ELSE @.md,
                                 hv  |-> IF "te1.hv" \in S THEN HV(<<"forged">>) ELSE @.hv]]
      txh0 == AlterHdr(r.txhdr, "txhdr", S)
      \* the entries hash a forger would recompute: the one the client's own computation yields for the forged content
      ehC == IF op \in {"txbyid", "set"} THEN EHof(Digs(txh0.ver, te1))
             ELSE IF op \in RowOps THEN InclRoot(e1.incl, RowLeaf(op, txh0.ver, e1))
             ELSE InclRoot(e1.incl, GetLeaf(txh0.ver, LeafKey(op, e1), e1))
      txh == IF "txhdr.ehC" \in S THEN [txh0 EXCEPT !.eh = ehC] ELSE txh0
      pr0 == AlterHdr(IF provenIsTgt THEN r.dpT ELSE r.dpS, "dpP", S)
      pr  == IF "dpP.ehC" \in S THEN [pr0 EXCEPT !.eh = ehC] ELSE pr0
      ot  == AlterHdr(IF provenIsTgt THEN r.dpS ELSE r.dpT, "dpO", S)
  IN [e1 EXCEPT !.txhdr = txh, !.te = te1,
                !.dpS = IF same THEN pr ELSE IF provenIsTgt THEN ot ELSE pr,
                !.dpT = IF same THEN pr ELSE IF provenIsTgt THEN pr ELSE ot]

-----------------------------------------------------------------------------
(* store.VerifyDualProof, with the proof body as a black box (see header) *)
VerifyDualAbs(r, srcID, tgtID, srcAlh, tgtAlh) ==
  /\ r.dpS.id = srcID /\ r.dpT.id = tgtID
  /\ srcAlh = HAlh(r.dpS) /\ tgtAlh = HAlh(r.dpT)
  /\ r.body = <<"B", srcAlh, tgtAlh>>

(* pkg/client/client.go verifiedGet *)
ClientGet(reqKey, atTx, T, trustedAlh, r) ==
  LET ver == r.txhdr.ver
      vTx == IF atTx # 0 THEN atTx ELSE IF r.isRef THEN r.rtx ELSE r.etx
      e   == GetLeaf(ver, reqKey, r)                    \* EncodeEntrySpec(kReq.Key, md, value) / EncodeReference(kReq.Key, ref.md, entry.Key, ref.AtTx)
      tgtBranch == T <= vTx
      eh  == IF tgtBranch THEN r.dpT.eh ELSE r.dpS.eh
      srcID == IF tgtBranch THEN T ELSE vTx
      tgtID == IF tgtBranch THEN vTx ELSE T
      srcAlh == IF tgtBranch THEN trustedAlh ELSE HAlh(r.dpS)
      tgtAlh == IF tgtBranch THEN HAlh(r.dpT) ELSE trustedAlh
  IN [ok |-> /\ (EntryIdentChecked => IF r.isRef THEN r.rkey = reqKey /\ r.rtx = vTx ELSE r.ekey = reqKey /\ r.etx = vTx)
             /\ InclRoot(r.incl, e) = eh
             /\ VerifyDualAbs(r, srcID, tgtID, srcAlh, tgtAlh),
      ret |-> IF r.isRef THEN <<r.ekey, r.eval, r.emd, r.etx, r.rkey, r.rtx, r.rmd, r.rat>> ELSE <<r.ekey, r.eval, r.emd, r.etx>>,
      state |-> <<tgtID, tgtAlh>>]

(* pkg/client/streams.go _streamVerifiedGet: AtTx is not looked at, a reference is encoded under ReferencedBy.Key *)
ClientStreamGet(reqKey, T, trustedAlh, r) ==
  LET ver == r.txhdr.ver
      vTx == IF r.isRef THEN r.rtx ELSE r.etx
      e   == IF r.isRef THEN Dig(ver, r.rkey, r.rmd, HV(RefVal(r.ekey, r.rat))) ELSE Dig(ver, reqKey, r.emd, HV(r.eval))
      tgtBranch == T <= vTx
      eh  == IF tgtBranch THEN r.dpT.eh ELSE r.dpS.eh
      srcID == IF tgtBranch THEN T ELSE vTx
      tgtID == IF tgtBranch THEN vTx ELSE T
      srcAlh == IF tgtBranch THEN trustedAlh ELSE HAlh(r.dpS)
      tgtAlh == IF tgtBranch THEN HAlh(r.dpT) ELSE trustedAlh
  IN [ok |-> /\ (StreamIdentChecked => IF r.isRef THEN r.rkey = reqKey ELSE r.ekey = reqKey)
             /\ InclRoot(r.incl, e) = eh
             /\ VerifyDualAbs(r, srcID, tgtID, srcAlh, tgtAlh),
      ret |-> IF r.isRef THEN <<r.ekey, r.eval, r.emd, r.etx, r.rkey, r.rtx, r.rmd, r.rat>> ELSE <<r.ekey, r.eval, r.emd, r.etx>>,
      state |-> <<tgtID, tgtAlh>>]

(* pkg/client/sql.go VerifyRow(row = {a: claim}, table t, pk 1) *)
ClientVerifyRow(op, claim, T, trustedAlh, r) ==
  LET ver == r.txhdr.ver
      vTx == r.stx
      tgtBranch == T <= vTx
      eh  == IF tgtBranch THEN r.dpT.eh ELSE r.dpS.eh
      srcID == IF tgtBranch THEN T ELSE vTx
      tgtID == IF tgtBranch THEN vTx ELSE T
      srcAlh == IF tgtBranch THEN trustedAlh ELSE HAlh(r.dpS)
      tgtAlh == IF tgtBranch THEN HAlh(r.dpT) ELSE trustedAlh
  IN [ok |-> /\ r.srow[r.colOf[ClaimCol(op)]] = claim      \* verifyRowAgainst(row, decodeRow(value), ColIdsByName)
             /\ InclRoot(r.incl, RowLeaf(op, ver, r)) = eh
             /\ VerifyDualAbs(r, srcID, tgtID, srcAlh, tgtAlh),
      ret |-> <<claim>>,                                      \* what the caller now believes: column a of row 1 holds `claim`
      state |-> <<tgtID, tgtAlh>>]

(* pkg/client/client.go VerifiedTxByID *)
ClientTxByID(P, T, trustedAlh, r) ==
  LET tgtBranch == T <= P
      srcID == IF tgtBranch THEN T ELSE P
      tgtID == IF tgtBranch THEN P ELSE T
      srcAlh == IF tgtBranch THEN trustedAlh ELSE HAlh(r.dpS)
      tgtAlh == IF tgtBranch THEN HAlh(r.dpT) ELSE trustedAlh
      provenAlh == IF tgtBranch THEN tgtAlh ELSE srcAlh
      ehCalc == EHof(Digs(r.txhdr.ver, r.te))          \* TxFromProto + BuildHashTree
  IN [ok |-> /\ (TxByIdChecked => /\ r.txhdr.nent = Len(r.te)
                                  /\ r.txhdr.eh = ehCalc
                                  /\ HAlh([r.txhdr EXCEPT !.eh = ehCalc]) = provenAlh)
             /\ VerifyDualAbs(r, srcID, tgtID, srcAlh, tgtAlh),
      ret |-> <<r.txhdr, r.te>>,
      state |-> <<tgtID, tgtAlh>>]

(* pkg/client/client.go VerifiedSet(key "ks", value <<"v","new">>) *)
ClientSet(T, trustedAlh, r) ==
  LET ehCalc == EHof(Digs(r.txhdr.ver, r.te))          \* TxFromProto + BuildHashTree overwrite header.Eh
      hdr == [r.txhdr EXCEPT !.eh = ehCalc]
      e == Dig(hdr.ver, "ks", r.te[1].md, HV(<<"v", "new">>))
      tgtAlh == HAlh(hdr)
  IN [ok |-> /\ r.txhdr.nent = 1 /\ Len(r.te) = 1
             /\ r.te[1].key = "ks"                       \* tx.Proof(EncodeKey(key))
             /\ EHof(<<e>>) = ehCalc                      \* VerifyInclusion(proof, digest(e), tx.Header().Eh)
             /\ ehCalc = r.dpT.eh
             /\ (SetHdrChecked => r.txhdr.eh = ehCalc)
             /\ VerifyDualAbs(r, T, hdr.id, trustedAlh, tgtAlh),
      ret |-> <<r.txhdr>>,
      state |-> <<hdr.id, tgtAlh>>]

Client(op, rel, r) ==
  LET T == TOf(op, rel)  P == POf(op)  trusted == HAlh(Hon(op, T)) IN
  CASE op = "get0" -> ClientGet("k1", 0, T, trusted, r)
    [] op = "getAt" -> ClientGet("k1", P, T, trusted, r)
    [] op = "getRef" -> ClientGet("r1", 0, T, trusted, r)
    [] op = "sget0" -> ClientStreamGet("k1", T, trusted, r)
    [] op = "sgetRef" -> ClientStreamGet("r1", T, trusted, r)
    [] op = "txbyid" -> ClientTxByID(P, T, trusted, r)
    [] op = "set" -> ClientSet(T, trusted, r)
    [] op = "vrowT" -> ClientVerifyRow(op, 100, T, trusted, r)
    [] op = "vrowF" -> ClientVerifyRow(op, 5, T, trusted, r)
    [] op = "vrow2T" -> ClientVerifyRow(op, 7, T, trusted, r)
    [] op = "vrow2F" -> ClientVerifyRow(op, 2, T, trusted, r)

\* what the history holds
Truth(op, rel) ==
  LET T == TOf(op, rel)  P == POf(op)  hi == IF T <= P THEN P ELSE T IN
  [ret |-> CASE op = "txbyid" -> <<Hon(op, P), Entries(op)>>
             [] op = "set" -> <<Hon(op, P)>>
             [] op \in RefOps -> <<"k1", <<"v", 3>>, "md0", 3, "r1", P, "md0", 0>>
             [] op \in RowOps -> <<RowOf(op)[IF op \in Row2Ops THEN 3 ELSE 2]>>
             [] OTHER -> <<"k1", <<"v", 3>>, "md0", P>>,
   state |-> <<hi, HAlh(Hon(op, hi))>>]

Case(op, rel, S) ==
  LET v == Client(op, rel, Altered(op, rel, S))  t == Truth(op, rel) IN
  [op |-> op, rel |-> rel, muts |-> SetToSeq(S),
   accept |-> v.ok, harmful |-> v.ret # t.ret \/ v.state # t.state]
AllCases == UNION {{Case(op, rel, S) : rel \in RelsOf(op), S \in MutSets(op)} : op \in Ops}

Complete == \A c \in AllCases : c.muts = <<>> => IF c.op \in {"vrowF", "vrow2F"} THEN ~c.accept ELSE c.accept /\ ~c.harmful
Sound    == \A c \in AllCases : c.accept => ~c.harmful
Unsound  == {c \in AllCases : c.accept /\ c.harmful}

ASSUME PrintT(<<"cases", Cardinality(AllCases)>>)
ASSUME PrintT(<<"Complete", Complete>>)
ASSUME PrintT(<<"Sound", Sound>>)
ASSUME PrintT(<<"unsound", {<<c.op, c.rel, c.muts>> : c \in {c \in Unsound : Len(c.muts) <= 1}}>>)
ASSUME PrintT(<<"accepted-altered", Cardinality({c \in AllCases : c.accept /\ c.muts # <<>>})>>)
ASSUME JsonSerialize(OutFile, [K |-> K, cases |-> SetToSeq(AllCases)])

VARIABLE x
Init == x = 0
Next == x < 1 /\ x' = x + 1
=============================================================================
