CONSTANTS
  Clients <- TClients
  KeySeq <- TKeySeq
  KeyGroup <- TKeyGroup
SPECIFICATION TraceSpec
INVARIANT CutInv
CONSTRAINT HighWater
POSTCONDITION TraceAccepted
CHECK_DEADLOCK FALSE
