------------------------------- MODULE IndexCrash -------------------------------
(* Persistence protocol of the index tree (embedded/tbtree): flushTree / Sync / Close write three logs
   - nodes log   (nF): one chunk per flush (the mutated nodes, root last)
   - history log (hF): one chunk per flush that moved older versions of a key out of a leaf
   - commit log  (cF): one fixed-size entry per flush {ranges, checksums of the two chunks, synced flag}
   and OpenWith recovers the newest entry E such that every entry from the last synced one up to E has
   chunks with matching checksums (tbtree.go OpenWith "checksum validation up to latest synced entry").

   Files are modelled as functions position -> generation id of the content (0 = nothing / zeroes / garbage):
   `cur` is what the operating system holds (what reads see, what a process kill leaves), `dur` what has been
   fsynced.  Rewinding a log is LOGICAL only (appendable.SetOffset never shrinks a file): after a recovery that
   discards entries, the discarded entries and chunks stay in the files until something is written over them.
   A tree of generation g references the chunks of all its ancestors (copy-on-write: reg[g].lin), so it is
   readable iff every ancestor's chunks are still in place.

   Decisions (transcriptions of the Go code) are separate operators: Walk (the recovery loop), with the
   switches
     StopAtFirstValid  - recovery stops at the newest entry whose own checksums match           (a seeded change)
     WipeStale         - OpenWith zero-fills the discarded commit-log entries and fsyncs          (fix in /repo)
   The properties: Sound (the loaded tree is readable and is a tree that was flushed), Durable (it is not older
   than the last flush whose sync was acknowledged). *)
EXTENDS Integers, Sequences, FiniteSets, TLC, Json

CONSTANTS MaxGen,          \* generations (flushes) per behaviour
          MaxPos,          \* positions per file
          MaxCrash,        \* crashes per behaviour
          StopAtFirstValid, WipeStale,
          EmitOn

VARIABLES reg,     \* gid -> [lin, synced, h]   registry of every generation ever flushed (bookkeeping)
          cur, dur,\* [n, h, c] -> [1..MaxPos -> gid]
          cl,      \* lineage of the tree the running process has committed (<<>> = empty tree)
          mem,     \* [dirty, hpend] in-memory tree relative to Last(cl)
          pc,      \* "idle" | "data" | "dsync" | "clog" | "csync" | "down" | "wipe" | "wsync"
          fl,      \* the flush in progress [g, sync]
          acked,   \* generation of the last flush whose sync returned (0 = none)
          crashes,
          hist     \* operations, for replay on the real tree

vars == <<reg, cur, dur, cl, mem, pc, fl, acked, crashes, hist>>
Files == {"n", "h", "c"}
Pos == 1..MaxPos
Zero == [p \in Pos |-> 0]
Last(s) == s[Len(s)]
NextGen == Cardinality(DOMAIN reg) + 1

Init == /\ reg = <<>>
        /\ cur = [f \in Files |-> Zero] /\ dur = [f \in Files |-> Zero]
        /\ cl = <<>> /\ mem = [dirty |-> FALSE, hpend |-> FALSE]
        /\ pc = "idle" /\ fl = [g |-> 0, sync |-> FALSE] /\ acked = 0 /\ crashes = 0 /\ hist = <<>>

Log(op) == hist' = Append(hist, op)

(* ---- the running process ---- *)
Insert(over) ==      \* a batch; `over` = it rewrites a key that is already in the tree (an older version goes to hF at the next flush)
    /\ pc = "idle"
    /\ mem' = [dirty |-> TRUE, hpend |-> mem.hpend \/ (over /\ (cl # <<>> \/ mem.dirty))]
    /\ Log([op |-> "insert", over |-> over])
    /\ UNCHANGED <<reg, cur, dur, cl, pc, fl, acked, crashes>>

FlushBegin(sync) ==  \* hLog/nLog SetOffset(committed sizes); WriteTo; hLog.Flush; nLog.Flush
    /\ pc = "idle" /\ mem.dirty /\ Len(cl) < MaxPos /\ NextGen <= MaxGen
    /\ LET g == NextGen  p == Len(cl) + 1 IN
       /\ reg' = Append(reg, [lin |-> Append(cl, g), synced |-> sync, h |-> mem.hpend])
       /\ cur' = [cur EXCEPT !.n[p] = g, !.h[p] = IF mem.hpend THEN g ELSE @]
       /\ fl' = [g |-> g, sync |-> sync]
    /\ pc' = "data"
    /\ Log([op |-> "flush", sync |-> sync])
    /\ UNCHANGED <<dur, cl, mem, acked, crashes>>

SyncData ==          \* hLog.Sync; nLog.Sync (an fsync makes everything written to the file durable)
    /\ pc = "data" /\ fl.sync
    /\ dur' = [dur EXCEPT !.n = cur.n, !.h = cur.h]
    /\ pc' = "dsync"
    /\ UNCHANGED <<reg, cur, cl, mem, fl, acked, crashes, hist>>

WriteCLog ==         \* cLog.SetOffset(committedLogSize); cLog.Append(entry); cLog.Flush
    /\ \/ pc = "data" /\ ~fl.sync
       \/ pc = "dsync"
    /\ cur' = [cur EXCEPT !.c[Len(cl) + 1] = fl.g]
    /\ pc' = "clog"
    /\ UNCHANGED <<reg, dur, cl, mem, fl, acked, crashes, hist>>

SyncCLog ==          \* cLog.Sync
    /\ pc = "clog" /\ fl.sync
    /\ dur' = [dur EXCEPT !.c = cur.c]
    /\ pc' = "csync"
    /\ UNCHANGED <<reg, cur, cl, mem, fl, acked, crashes, hist>>

FlushEnd ==          \* committed sizes advance; the call returns
    /\ \/ pc = "clog" /\ ~fl.sync
       \/ pc = "csync"
    /\ cl' = Append(cl, fl.g)
    /\ mem' = [dirty |-> FALSE, hpend |-> FALSE]
    /\ acked' = IF fl.sync THEN fl.g ELSE acked
    /\ pc' = "idle"
    /\ UNCHANGED <<reg, cur, dur, fl, crashes, hist>>

(* ---- stopping ---- *)
Diff == {fp \in Files \X Pos : dur[fp[1]][fp[2]] # cur[fp[1]][fp[2]]}
ImageOf(K, Z) == [f \in Files |-> [p \in Pos |-> IF <<f, p>> \in K THEN cur[f][p] ELSE IF <<f, p>> \in Z THEN 0 ELSE dur[f][p]]]
Images(kind) ==      \* the files a stop leaves: kill = cur; power = per position written since its last fsync: the written content (K),
                     \* nothing / garbage (Z: torn) or the fsynced content
    IF kind = "kill" THEN {cur}
    ELSE UNION {{ImageOf(K, Z) : Z \in SUBSET (Diff \ K)} : K \in SUBSET Diff}

Crash(kind) ==
    /\ pc \notin {"down"} /\ crashes < MaxCrash
    /\ \E img \in Images(kind) :
        /\ cur' = img /\ dur' = img
        /\ Log([op |-> "crash", kind |-> kind, at |-> pc, img |-> img])
    /\ crashes' = crashes + 1
    /\ pc' = "down" /\ cl' = <<>> /\ mem' = [dirty |-> FALSE, hpend |-> FALSE] /\ fl' = [g |-> 0, sync |-> FALSE]
    /\ UNCHANGED <<reg, acked>>

CloseClean ==        \* Close of a tree without pending changes (a dirty tree is flushed+synced first: FlushBegin(TRUE) .. FlushEnd)
    /\ pc = "idle" /\ ~mem.dirty /\ crashes < MaxCrash
    /\ pc' = "down" /\ cl' = <<>>
    /\ crashes' = crashes + 1
    /\ Log([op |-> "close"])
    /\ UNCHANGED <<reg, cur, dur, mem, fl, acked>>

(* ---- OpenWith ---- *)
Valid(p) == LET g == cur.c[p] IN g # 0 /\ cur.n[p] = g /\ (reg[g].h => cur.h[p] = g)

RECURSIVE Walk(_, _)
Walk(p, v) ==        \* tbtree.go OpenWith, the loop over the commit log from its end
    IF p = 0 THEN v
    ELSE IF ~Valid(p) THEN Walk(p - 1, 0)
    ELSE LET v2 == IF v = 0 THEN p ELSE v IN
         IF reg[cur.c[p]].synced \/ StopAtFirstValid THEN v2 ELSE Walk(p - 1, v2)

Top == IF \E p \in Pos : cur.c[p] # 0 THEN CHOOSE p \in Pos : cur.c[p] # 0 /\ \A q \in Pos : q > p => cur.c[q] = 0 ELSE 0
Recovered == Walk(MaxPos, 0)    \* entries beyond Top are zero = invalid: same result as starting at the physical end

Open ==
    /\ pc = "down"
    /\ LET v == Recovered IN
       /\ cl' = IF v = 0 THEN <<>> ELSE reg[cur.c[v]].lin
       /\ pc' = IF WipeStale /\ \E p \in Pos : p > v /\ cur.c[p] # 0 THEN "wipe" ELSE "idle"
       /\ Log([op |-> "open", loaded |-> IF v = 0 THEN 0 ELSE cur.c[v]])
    /\ UNCHANGED <<reg, cur, dur, mem, fl, acked, crashes>>

WipeWrite ==         \* discarded entries are zero-filled ...
    /\ pc = "wipe"
    /\ cur' = [cur EXCEPT !.c = [p \in Pos |-> IF p > Len(cl) THEN 0 ELSE @[p]]]
    /\ pc' = "wsync"
    /\ UNCHANGED <<reg, dur, cl, mem, fl, acked, crashes, hist>>

WipeSync ==          \* ... and the commit log fsynced before OpenWith returns
    /\ pc = "wsync"
    /\ dur' = [dur EXCEPT !.c = cur.c]
    /\ pc' = "idle"
    /\ UNCHANGED <<reg, cur, cl, mem, fl, acked, crashes, hist>>

Next == \/ \E o \in BOOLEAN : Insert(o)
        \/ \E s \in BOOLEAN : FlushBegin(s)
        \/ SyncData \/ WriteCLog \/ SyncCLog \/ FlushEnd
        \/ \E k \in {"kill", "power"} : Crash(k)
        \/ CloseClean \/ Open \/ WipeWrite \/ WipeSync

Spec == Init /\ [][Next]_vars

(* ---- properties ---- *)
Readable(g) == \A i \in 1..Len(reg[g].lin) :
                 LET a == reg[g].lin[i] IN cur.n[i] = a /\ (reg[a].h => cur.h[i] = a)

Sound   == (pc \notin {"down"} /\ cl # <<>>) => (Last(cl) \in DOMAIN reg /\ Readable(Last(cl)))
Durable == (pc \notin {"down"} /\ acked # 0) => (\E i \in 1..Len(cl) : cl[i] = acked)
\* write ordering the recovery relies on: an entry flagged synced is in the commit log only over fsynced chunks
SyncedEntryOverDurableData ==
    \A p \in Pos : LET g == cur.c[p] IN (g # 0 /\ reg[g].synced /\ pc # "down" /\ g = fl.g /\ pc \in {"clog", "csync"})
                     => (dur.n[p] = g /\ (reg[g].h => dur.h[p] = g))
Inv == Sound /\ Durable /\ SyncedEntryOverDurableData

View == <<reg, cur, dur, cl, mem, pc, fl, acked, crashes>>
Emit == (EmitOn /\ pc = "idle" /\ crashes = MaxCrash /\ Len(hist) > 0 /\ hist[Len(hist)].op = "open") => PrintT(<<"JSON:", ToJson([ops |-> hist])>>)
\* behaviours of a variant that end in a state the properties reject (to be replayed on the real tree)
EmitBad == (EmitOn /\ ~Inv /\ pc \in {"idle", "wipe"} /\ Len(hist) > 0 /\ hist[Len(hist)].op = "open") => PrintT(<<"JSON:", ToJson([ops |-> hist])>>)
=============================================================================
