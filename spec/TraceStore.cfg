CONSTANTS
  Genesis = 0
SPECIFICATION TraceSpec
INVARIANTS StoreInv
POSTCONDITION TraceAccepted
CHECK_DEADLOCK FALSE
