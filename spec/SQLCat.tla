-------------------------------- MODULE SQLCat --------------------------------
(***************************************************************************)
(* Catalog visibility across the sessions of one sql.Engine (C12).         *)
(*                                                                         *)
(* One engine over one store keeps a catalog cache (engine.go:             *)
(* cachedCatalog + cachedCatalogVersion).  NewTx of a read-write tx clones *)
(* the cache when it is warm, else loads the catalog from its snapshot; a  *)
(* read-only tx shares a warm cache, else loads and POPULATES it.  A       *)
(* committing tx that executed DDL INVALIDATES the cache (and bumps the    *)
(* version); any other committing tx - also one that wrote nothing, an     *)
(* empty commit is tolerated - tries to POPULATE a cold cache with its own *)
(* catalog, which is only legal when no invalidation happened since the tx *)
(* was opened (version check).                                             *)
(*                                                                         *)
(* State: the committed catalog (flags for what DDL can add to the table   *)
(* k(id INTEGER PRIMARY KEY, u VARCHAR[4] NOT NULL, w INTEGER): a unique   *)
(* index on u, a plain index on w, a column x, a second table k2) with its *)
(* version, the committed rows, the cache, and per session an open tx      *)
(* pinned to the catalog of its snapshot.  Rows of k have no generated     *)
(* key, so - as in the engine - a tx takes its row snapshot with its first *)
(* statement on the table.                                                 *)
(*                                                                         *)
(* Invariants: CacheFresh (a warm cache equals the committed catalog, i.e. *)
(* it is never older than the last committed DDL), NewTxFresh (every tx    *)
(* starts from the catalog committed at that moment), ConstraintsHold (the *)
(* unique index, once committed, is enforced on everything committed       *)
(* later).  CatQuirks are NOT transcriptions of the pinned code; they are  *)
(* the two ways the protocol can be broken (used to show that TLC and the  *)
(* replay notice): "populate_ignores_version", "no_invalidate".            *)
(***************************************************************************)
EXTENDS Integers, Sequences, FiniteSets, TLC, Json

CONSTANTS NS, MaxId, UVals, MaxStmts, Kinds, CatQuirks, EmitDepth

VARIABLES cat, cver, rows, cache, ever, sess, last, hist
vars == <<cat, cver, rows, cache, ever, sess, last, hist>>

Sessions == 1..NS
Ids == 1..MaxId
Cat0 == [uidx |-> FALSE, widx |-> FALSE, colx |-> FALSE, t2 |-> FALSE]
DdlKinds == {"crUIdx", "crWIdx", "addCol", "crT2"}
NoRows == [i \in Ids |-> ""]
LiveIds(r) == {i \in Ids : r[i] # ""}
RowsSeq(r) == LET ids == SelectSeq([i \in Ids |-> i], LAMBDA i : r[i] # "") IN [j \in 1..Len(ids) |-> <<ids[j], r[ids[j]]>>]
CatSeq(c) == <<c.uidx, c.widx, c.colx, c.t2>>

St(k, id, u) == [k |-> k, id |-> id, u |-> u]
Idle(n) == [st |-> "idle", n |-> n, cat |-> Cat0, cat0 |-> Cat0, begincat |-> Cat0, openv |-> 0, cold |-> FALSE, snapd |-> FALSE,
            view |-> NoRows, wrote |-> {}, ak |-> {}, au |-> {}, ddl |-> FALSE, rempty |-> FALSE, ddlSince |-> FALSE, stale |-> {}]

\* NewTx of a read-write transaction
Open(n) == LET c == IF cache.on THEN cache.cat ELSE cat IN
           [Idle(n) EXCEPT !.st = "tx", !.cat = c, !.cat0 = c, !.begincat = cat, !.openv = ever, !.cold = ~cache.on]

ApplyDdl(c, k) == CASE k = "crUIdx" -> [c EXCEPT !.uidx = TRUE] [] k = "crWIdx" -> [c EXCEPT !.widx = TRUE]
                    [] k = "addCol" -> [c EXCEPT !.colx = TRUE] [] k = "crT2" -> [c EXCEPT !.t2 = TRUE]
DdlOk(S, V, k) == CASE k = "crUIdx" -> ~S.cat.uidx /\ LiveIds(V) = {}         \* unique index only on an empty table
                    [] k = "crWIdx" -> ~S.cat.widx [] k = "addCol" -> ~S.cat.colx [] k = "crT2" -> ~S.cat.t2

\* a statement inside transaction state S (row snapshot taken at the first statement that touches the table)
Exec(S0, m) ==
  LET S == IF S0.snapd THEN S0 ELSE [S0 EXCEPT !.snapd = TRUE, !.view = rows, !.stale = {}]
      V == S.view
  IN IF m.k \in DdlKinds
     THEN IF DdlOk(S, V, m.k) THEN [ok |-> TRUE, S |-> [S EXCEPT !.cat = ApplyDdl(@, m.k), !.ddl = TRUE, !.rempty = (m.k = "crUIdx")], cnt |-> 0]
          ELSE [ok |-> FALSE, S |-> S, cnt |-> 0]
     ELSE \* "ins"
          IF V[m.id] # "" \/ (S.cat.uidx /\ \E i \in Ids : V[i] = m.u) THEN [ok |-> FALSE, S |-> S, cnt |-> 0]
          ELSE [ok |-> TRUE, cnt |-> 1,
                S |-> [S EXCEPT !.view[m.id] = m.u, !.wrote = @ \cup {m.id}, !.ak = @ \cup {m.id},
                                !.au = IF S.cat.uidx THEN @ \cup {m.u} ELSE @]]

\* MVCC validation as the engine defines it: a tx that wrote nothing is never validated; a catalog change since the
\* tx was opened invalidates every writer; a key / unique value looked up and not found must still be absent
Conflict(S) ==
  /\ (S.wrote # {} \/ S.ddl)
  /\ \/ S.ddlSince
     \/ \E k \in S.ak : rows[k] # "" /\ k \in S.stale
     \/ \E u \in S.au : \E i \in S.stale : rows[i] = u
     \/ S.rempty /\ S.stale # {}                   \* "the table is empty" was read by CREATE UNIQUE INDEX

TryPopulate(S) == IF ~cache.on /\ (ever = S.openv \/ "populate_ignores_version" \in CatQuirks) THEN [on |-> TRUE, cat |-> S.cat0] ELSE cache
Invalidate == IF "no_invalidate" \in CatQuirks THEN <<cache, ever>> ELSE <<[on |-> FALSE, cat |-> Cat0], ever + 1>>

Obs(s, m, out, res, rcat, flags) ==
  [s |-> s, k |-> m.k, id |-> m.id, u |-> m.u, out |-> out, res |-> res, seen |-> rcat,
   rows |-> RowsSeq(rows'), cat |-> CatSeq(cat'), flags |-> flags]
NoFlags == [cold |-> FALSE, ddlSince |-> FALSE, empty |-> FALSE]

\* committing transaction state S of session s (also the implicit transaction of an autocommit statement)
DoCommit(s, S, n1) ==
  LET others(W, d) == [t \in Sessions |-> IF t # s /\ sess[t].st = "tx"
                                          THEN [sess[t] EXCEPT !.stale = @ \cup W, !.ddlSince = @ \/ d] ELSE sess[t]]
  IN IF S.wrote = {} /\ ~S.ddl
     THEN /\ cache' = TryPopulate(S) /\ UNCHANGED <<cat, cver, rows, ever>>
          /\ sess' = [sess EXCEPT ![s] = Idle(n1)]
     ELSE /\ rows' = [i \in Ids |-> IF i \in S.wrote THEN S.view[i] ELSE rows[i]]
          /\ IF S.ddl THEN /\ cat' = [uidx |-> cat.uidx \/ S.cat.uidx, widx |-> cat.widx \/ S.cat.widx, colx |-> cat.colx \/ S.cat.colx, t2 |-> cat.t2 \/ S.cat.t2]
                           /\ cver' = cver + 1 /\ cache' = Invalidate[1] /\ ever' = Invalidate[2]
             ELSE /\ cache' = TryPopulate(S) /\ UNCHANGED <<cat, cver, ever>>
          /\ sess' = [others(S.wrote, S.ddl) EXCEPT ![s] = Idle(n1)]

Step(s, m) ==
  LET S == sess[s]
      n1 == S.n + 1
      fl == [cold |-> S.cold, ddlSince |-> S.ddlSince, empty |-> S.wrote = {} /\ ~S.ddl]
  IN
  /\ S.n < MaxStmts
  /\ CASE m.k = "begin" ->
            /\ S.st = "idle" /\ sess' = [sess EXCEPT ![s] = Open(n1)] /\ UNCHANGED <<cat, cver, rows, cache, ever>>
            /\ last' = Obs(s, m, "ok", <<>>, <<>>, [NoFlags EXCEPT !.cold = ~cache.on])
       [] m.k = "rollback" ->
            /\ S.st = "tx" /\ sess' = [sess EXCEPT ![s] = Idle(n1)] /\ UNCHANGED <<cat, cver, rows, cache, ever>>
            /\ last' = Obs(s, m, "ok", <<>>, <<>>, NoFlags)
       [] m.k = "commit" ->
            /\ S.st = "tx"
            /\ IF Conflict(S)
               THEN /\ sess' = [sess EXCEPT ![s] = Idle(n1)] /\ UNCHANGED <<cat, cver, rows, cache, ever>>
                    /\ last' = Obs(s, m, "conflict", <<>>, <<>>, fl)
               ELSE /\ DoCommit(s, S, n1) /\ last' = Obs(s, m, "ok", <<>>, <<>>, fl)
       [] m.k \in {"sel", "showcat"} ->
            \* autocommit read-only query: shares a warm cache, else loads the committed catalog and populates the cache
            /\ S.st = "idle"
            /\ LET c == IF cache.on THEN cache.cat ELSE cat IN
               /\ cache' = [on |-> TRUE, cat |-> c] /\ UNCHANGED <<cat, cver, rows, ever>>
               /\ sess' = [sess EXCEPT ![s] = Idle(n1)]
               /\ last' = Obs(s, m, "ok", IF m.k = "sel" THEN RowsSeq(rows) ELSE <<>>, IF m.k = "showcat" THEN CatSeq(c) ELSE <<>>, NoFlags)
       [] OTHER ->
            IF S.st = "tx"
            THEN LET r == Exec(S, m) IN
                 /\ UNCHANGED <<cat, cver, rows, cache, ever>>
                 /\ sess' = [sess EXCEPT ![s] = IF r.ok THEN [r.S EXCEPT !.n = n1] ELSE Idle(n1)]
                 /\ last' = Obs(s, m, IF r.ok THEN "ok" ELSE "err", <<>>, <<>>, NoFlags)
            ELSE LET r == Exec(Open(n1), m) IN
                 IF r.ok THEN DoCommit(s, r.S, n1) /\ last' = Obs(s, m, "ok", <<>>, <<>>, NoFlags)
                 ELSE /\ sess' = [sess EXCEPT ![s] = Idle(n1)] /\ UNCHANGED <<cat, cver, rows, cache, ever>>
                      /\ last' = Obs(s, m, "err", <<>>, <<>>, NoFlags)
  /\ hist' = IF EmitDepth > 0 THEN Append(hist, last') ELSE hist

Offered(s) ==
  LET S == sess[s]
      dml == {St("ins", i, u) : i \in Ids, u \in UVals}
      ddl == {St(k, 0, "") : k \in DdlKinds}
  IN {m \in (IF S.st = "tx"
             THEN {St("commit", 0, ""), St("rollback", 0, "")}
                  \cup (IF S.ddl THEN {} ELSE dml)                                 \* a DDL transaction holds one DDL statement only
                  \cup (IF S.wrote = {} /\ ~S.ddl /\ ~S.snapd THEN ddl ELSE {})
             ELSE {St("begin", 0, ""), St("sel", 0, ""), St("showcat", 0, "")} \cup dml \cup ddl) : m.k \in Kinds}

Init == /\ cat = Cat0 /\ cver = 0 /\ rows = NoRows /\ cache = [on |-> FALSE, cat |-> Cat0] /\ ever = 0
        /\ sess = [s \in Sessions |-> Idle(0)]
        /\ last = [s |-> 0, k |-> "init", id |-> 0, u |-> "", out |-> "ok", res |-> <<>>, seen |-> <<>>, rows |-> <<>>, cat |-> CatSeq(Cat0), flags |-> NoFlags]
        /\ hist = <<>>
Finish == /\ EmitDepth > 0 /\ last.k # "end" /\ \A s \in Sessions : sess[s].n >= MaxStmts
          /\ last' = [last EXCEPT !.k = "end"] /\ UNCHANGED <<cat, cver, rows, cache, ever, sess, hist>>
Next == (\E s \in Sessions : \E m \in Offered(s) : Step(s, m)) \/ Finish
Spec == Init /\ [][Next]_vars

Weight(k) == CASE k \in {"commit", "begin"} -> 4 [] k \in DdlKinds -> 2 [] k = "ins" -> 4 [] OTHER -> 1
RNext ==
  \/ LET live == {s \in Sessions : sess[s].n < MaxStmts} IN
     /\ live # {}
     /\ \E s \in {RandomElement(live)} :
          \E wk \in {RandomElement(UNION {{<<i, m.k>> : i \in 1..Weight(m.k)} : m \in Offered(s)})} :
            \E m \in {RandomElement({x \in Offered(s) : x.k = wk[2]})} : Step(s, m)
  \/ Finish
RSpec == Init /\ [][RNext]_vars

-----------------------------------------------------------------------------
\* a warm cache is the committed catalog: never older than the last committed DDL
CacheFresh == cache.on => cache.cat = cat
\* every transaction started from the catalog that was committed when it was opened
NewTxFresh == \A s \in Sessions : sess[s].st = "tx" => sess[s].cat0 = sess[s].begincat
\* the unique index, once committed, holds
ConstraintsHold == cat.uidx => \A i, j \in LiveIds(rows) : i # j => rows[i] # rows[j]
\* a read-only query shows the committed catalog
QuerySeesCommitted == last.k = "showcat" => last.seen = CatSeq(cat)

Emit == (EmitDepth > 0 /\ last.k = "end") => PrintT(<<"JSON:", ToJson([steps |-> hist])>>)
View == <<cat, cver, rows, cache, ever, sess>>
=============================================================================
