-------------------------------- MODULE SQLTx --------------------------------
(***************************************************************************)
(* SQL transactions and integrity constraints of embedded/sql (C12, C13).  *)
(*                                                                         *)
(* One table                                                               *)
(*   t(id INTEGER AUTO_INCREMENT PRIMARY KEY,                              *)
(*     u VARCHAR[4] NOT NULL  -- UNIQUE INDEX ON t(u),                     *)
(*     v VARCHAR[2] NOT NULL, CHECK (v <> 'x'))                            *)
(* committed rows, and sessions that run autocommit statements or          *)
(* multi-statement transactions: fixed snapshot, own writes on top of it,  *)
(* savepoints, MVCC read-set validated at COMMIT.                          *)
(*                                                                         *)
(* The semantics of one statement is ONE operator, Exec(Q, T, S, m),       *)
(* parameterised by a set Q of "quirks": transcriptions of places where    *)
(* the pinned code decides differently from the design the properties      *)
(* state.  Q = {} is the design (the property oracle).  The state machine  *)
(* runs with the constant Quirks; the invariants compare its state with    *)
(* the reference interpreter  Replay = fold of Exec({}, ..) over the        *)
(* transaction's effective statements, so with Quirks = {} TLC proves the  *)
(* design keeps the properties over every interleaving inside the bounds,  *)
(* and with Quirks = code-as-pinned it prints the property violations the  *)
(* transcribed code admits (each is then replayed on the real engine).     *)
(*                                                                         *)
(* Quirks (all confirmed on the real engine, see docs/C12.md, C13.md):     *)
(*  sp_keeps_writes     ROLLBACK TO SAVEPOINT restores counters only       *)
(*  uniq_tombstone_first the unique check / its validation at commit looks *)
(*                      at the FIRST index entry of the value only; a      *)
(*                      tombstone there hides live entries behind it       *)
(*  lazy_usnap          the snapshot of the unique index is taken at its   *)
(*                      first use, not at BEGIN                            *)
(*  uidx_no_own_removal own DELETE / change of u leave the old entry live  *)
(*                      in the transaction's view of the unique index      *)
(*  auto_ignores_explicit an explicit PK does not advance the tx-local     *)
(*                      auto-increment counter                             *)
(*  pk_get_sees_own_deleted the PK existence check of INSERT/UPSERT finds  *)
(*                      a row the transaction itself deleted               *)
(*  upd_own_inserted_u_fails UPDATE/UPSERT changing u of a row whose u was    *)
(*                      written earlier in the same transaction fails      *)
(*  ddl_first_pk_only   CREATE UNIQUE INDEX tests "table is empty" on the  *)
(*                      first PK entry only (a tombstone there = empty)    *)
(***************************************************************************)
EXTENDS Integers, Sequences, FiniteSets, TLC, Json

CONSTANTS NS,          \* sessions are 1..NS
          MaxId,       \* primary keys are 1..MaxId
          UVals,       \* legal values of the unique column
          VVals,       \* legal values of the checked column
          MaxStmts,    \* steps per session
          SpNames,     \* savepoint names
          Kinds,       \* statement kinds the sessions may issue
          ExplIds,     \* primary keys used by statements that name a row (explicit insert, upsert, update, delete, select by pk)
          TxSessions,  \* sessions that may open multi-statement transactions (the others are autocommit only)
          Quirks,      \* see above; {} = design
          InitUIdx,    \* TRUE: the unique index exists from the start; FALSE: it may be created by "crIdx"
          EmitDepth    \* > 0: keep the history and print it as JSON at the end of each behaviour (-simulate)

VARIABLES tbl,    \* committed table
          sess,   \* per session state
          last,   \* observation of the last step (what a client sees)
          hist,   \* history of observations (only kept when EmitDepth > 0)
          fired   \* quirks that changed a decision so far (attribution of deviations)
vars == <<tbl, sess, last, hist, fired>>

Ids == 1..MaxId
Sessions == 1..NS
NoRow == [u |-> "", v |-> ""]
DeadRow(u) == [u |-> u, v |-> ""]          \* tombstone of a row whose last value of u was u
Live(r) == r.v # ""
Ever(r) == r.u # ""
BadU == {"NULL"}
BadV == {"NULL", "x", "lll"}                \* NOT NULL, CHECK (v <> 'x'), VARCHAR[2]
Max(S) == IF S = {} THEN 0 ELSE CHOOSE m \in S : \A x \in S : x <= m
Min(S) == CHOOSE m \in S : \A x \in S : m <= x
Min1(S) == CHOOSE x \in S : TRUE

\* committed table: rows (live / tombstone / never written), tombstoned entries of the unique index,
\* whether the unique index exists, and a sticky flag for a lost auto-increment collision
EmptyTable == [rows |-> [i \in Ids |-> NoRow], ut |-> {}, uidx |-> InitUIdx, clash |-> FALSE]

LiveIds(rows) == {i \in Ids : Live(rows[i])}
EverIds(rows) == {i \in Ids : Ever(rows[i])}
RECURSIVE SeqOfIds(_, _)
SeqOfIds(S, acc) == IF S = {} THEN acc ELSE LET m == Min(S) IN SeqOfIds(S \ {m}, Append(acc, m))
RowsSeq(rows, S) == LET ids == SeqOfIds(S, <<>>) IN [j \in 1..Len(ids) |-> <<ids[j], rows[ids[j]].u, rows[ids[j]].v>>]
IdsSeq(S) == LET ids == SeqOfIds(S, <<>>) IN [j \in 1..Len(ids) |-> <<ids[j]>>]
TableSeq(rows) == RowsSeq(rows, LiveIds(rows))

-----------------------------------------------------------------------------
\* statements: [k, id, u, v]; u also carries the savepoint name
St(k, id, u, v) == [k |-> k, id |-> id, u |-> u, v |-> v]
DmlKinds == {"insA", "insE", "insN", "ups", "updU", "updV", "updAllV", "del", "delAll", "crIdx"}
QryKinds == {"selAll", "selPk", "selU"}
SpKinds == {"sp", "rbto", "rel"}

NoSp == [on |-> FALSE, view |-> [i \in Ids |-> NoRow], wrote |-> {}, autoids |-> {}, ulive |-> {}, loglen |-> 0,
         seq |-> 0, zombie |-> FALSE, cidx |-> FALSE]

\* a session outside a transaction (canonical value)
IdleSession(n, st) ==
  [st |-> st, n |-> n, snap |-> EmptyTable, usnap |-> EmptyTable, utaken |-> FALSE,
   view |-> [i \in Ids |-> NoRow], maxpk |-> 0, wrote |-> {}, autoids |-> {}, ulive |-> {},
   rk |-> {}, rall |-> FALSE, rmax |-> 0, ak |-> {}, au |-> {}, rus |-> {}, rempty |-> FALSE, stale |-> {}, catstale |-> FALSE,
   cidx |-> FALSE, ddl |-> FALSE, sps |-> [x \in SpNames |-> NoSp], spseq |-> 0, log |-> <<>>]

\* NewTx: snapshot of the committed table; the max PK ever written is read (auto-increment) and recorded
BeginSession(Q, T, n) ==
  [IdleSession(n, "tx") EXCEPT !.snap = T, !.usnap = T, !.utaken = ("lazy_usnap" \notin Q), !.view = T.rows,
                              !.maxpk = Max(EverIds(T.rows)), !.rmax = Max(EverIds(T.rows)), !.cidx = T.uidx]

-----------------------------------------------------------------------------
\* the transaction's view of the unique index
UBase(Q, S) == IF "lazy_usnap" \in Q THEN S.usnap ELSE S.snap
ULive(Q, S, x) ==
  IF "uidx_no_own_removal" \in Q
  THEN {i \in Ids : Live(UBase(Q, S).rows[i]) /\ UBase(Q, S).rows[i].u = x} \cup {i \in Ids : <<x, i>> \in S.ulive}
  ELSE {i \in Ids : LET r == IF i \in S.wrote THEN S.view[i] ELSE UBase(Q, S).rows[i] IN Live(r) /\ r.u = x}
UDead(Q, S, x) ==
  ({i \in Ids : <<x, i>> \in UBase(Q, S).ut}
     \cup (IF "uidx_no_own_removal" \in Q THEN {}
           ELSE {i \in S.wrote : Live(UBase(Q, S).rows[i]) /\ UBase(Q, S).rows[i].u = x})) \ ULive(Q, S, x)
\* may row k take the value x for u?
UFree(Q, S, x, k) ==
  LET L == IF "uidx_no_own_removal" \in Q THEN ULive(Q, S, x) ELSE ULive(Q, S, x) \ {k}
      E == L \cup UDead(Q, S, x)
  IN IF "uniq_tombstone_first" \in Q THEN (E = {} \/ Min(E) \notin L) ELSE L = {}
\* the same question on a committed table (validation of a "not found" unique lookup at commit)
UFreeT(Q, T, x) ==
  LET L == {i \in Ids : Live(T.rows[i]) /\ T.rows[i].u = x}
      E == L \cup {i \in Ids : <<x, i>> \in T.ut}
  IN IF "uniq_tombstone_first" \in Q THEN (E = {} \/ Min(E) \notin L) ELSE L = {}
\* which quirks are responsible for a decision that differs from the design's
Blame(Q, cand, f(_)) == LET r == {q \in Q \cap cand : f(Q \ {q}) # f(Q)} IN IF r = {} THEN Q \cap cand ELSE r
UQuirks == {"uniq_tombstone_first", "lazy_usnap", "uidx_no_own_removal"}

\* first use of the unique index inside a transaction
TouchU(Q, T, S) == IF S.utaken THEN S ELSE [S EXCEPT !.utaken = TRUE, !.usnap = T]

PKFound(Q, S, k) == IF "pk_get_sees_own_deleted" \in Q THEN (k \in S.wrote \/ Live(S.snap.rows[k])) ELSE Live(S.view[k])
\* read-set entries of a point lookup / single-row range scan of primary key k
ReadPK(S, k) == IF k \in S.wrote THEN S
                ELSE IF Live(S.snap.rows[k]) THEN [S EXCEPT !.rk = @ \cup {k}] ELSE [S EXCEPT !.ak = @ \cup {k}]

Res(ok, S, cnt, pk, res, tags) == [ok |-> ok, S |-> S, cnt |-> cnt, pk |-> pk, res |-> res, tags |-> tags]
Fail(S, tags) == Res(FALSE, S, 0, 0, <<>>, tags)

\* write row k := (u, v) after the constraint checks of doUpsert; reuse = the statement may keep an unchanged index entry
PutRow(Q, T, S0, k, u, v, reuse, newmax, auto) ==
  LET cur == S0.view[k]
      same == reuse /\ Live(cur) /\ cur.u = u
      chk == S0.cidx /\ ~same
      \* the old index entry of a row whose u changes is "deprecated" with a non-transient write; when that entry was
      \* written by this very transaction (transient) the store refuses the write and the statement fails
      trans == "upd_own_inserted_u_fails" \in Q /\ S0.cidx /\ reuse /\ Live(cur) /\ cur.u # u /\ (\E j \in Ids : <<cur.u, j>> \in S0.ulive)
      S == IF chk THEN TouchU(Q, T, S0) ELSE S0
      free == ~chk \/ UFree(Q, S, u, k)
      dfree == ~chk \/ UFree({}, S, u, k)
      tags == IF free # dfree THEN Blame(Q, UQuirks, LAMBDA q : UFree(q, TouchU(q, T, S0), u, k)) ELSE {}
  IN IF trans THEN Fail(S0, IF dfree THEN {"upd_own_inserted_u_fails"} ELSE {})
     ELSE IF ~free THEN Fail(S, tags)
     ELSE Res(TRUE,
              [S EXCEPT !.view[k] = [u |-> u, v |-> v], !.wrote = @ \cup {k},
                        !.au = IF chk THEN @ \cup {u} ELSE @,
                        !.ulive = IF S0.cidx /\ ~same /\ Q \cap {"uidx_no_own_removal", "upd_own_inserted_u_fails"} # {} THEN @ \cup {<<u, k>>} ELSE @,
                        !.maxpk = newmax, !.autoids = IF auto THEN @ \cup {k} ELSE @],
              1, k, <<>>, tags)

\* UPDATE / DELETE of the rows in K (all live in the view), one after the other; any failure fails the statement
RECURSIVE UpdRows(_, _, _, _, _, _, _, _)
UpdRows(Q, T, S, K, setu, x, cnt, tags) ==
  IF K = {} THEN Res(TRUE, S, cnt, 0, <<>>, tags)
  ELSE LET k == Min(K)
           cur == S.view[k]
           r == PutRow(Q, T, S, k, IF setu THEN x ELSE cur.u, IF setu THEN cur.v ELSE x, TRUE, S.maxpk, FALSE)
       IN IF r.ok THEN UpdRows(Q, T, r.S, K \ {k}, setu, x, cnt + 1, tags \cup r.tags) ELSE Fail(r.S, tags \cup r.tags)

DelRows(S, K) == [S EXCEPT !.view = [i \in Ids |-> IF i \in K THEN DeadRow(S.view[i].u) ELSE S.view[i]], !.wrote = @ \cup K]

\* one DML statement or query inside transaction state S; T is the committed table at this instant
Exec(Q, T, S, m) ==
  LET bad == m.u \in BadU \/ m.v \in BadV
      mustExist == m.id <= S.maxpk
      found == PKFound(Q, S, m.id)
      dfound == PKFound({}, S, m.id)
      ftag == IF found # dfound THEN {"pk_get_sees_own_deleted"} ELSE {}
      advance == IF "auto_ignores_explicit" \in Q THEN S.maxpk ELSE Max({S.maxpk, m.id})
      atag == IF advance # Max({S.maxpk, m.id}) THEN {"auto_ignores_explicit"} ELSE {}
  IN
  CASE m.k = "insA" ->
         LET k == IF m.id # 0 THEN m.id ELSE S.maxpk + 1 IN     \* m.id # 0 only in the reference replay: the key that was generated
         IF bad THEN Fail(S, {})
         ELSE IF PKFound(Q, S, k) THEN Fail(S, Q \cap {"auto_ignores_explicit"})   \* the generated key exists (own explicit insert): statement fails
         ELSE LET r == PutRow(Q, T, ReadPK(S, k), k, m.u, m.v, FALSE, k, TRUE)
              IN [r EXCEPT !.tags = @ \cup (IF k # Max({S.maxpk} \cup S.wrote) + 1 THEN Q \cap {"auto_ignores_explicit"} ELSE {})]
    [] m.k \in {"insE", "insN"} ->
         IF bad THEN Fail(S, {})
         ELSE IF ~found /\ mustExist THEN Fail(ReadPK(S, m.id), ftag)    \* "specified value must be greater than current one"
         ELSE IF found THEN (IF m.k = "insN" THEN Res(TRUE, ReadPK(S, m.id), 0, 0, <<>>, ftag) ELSE Fail(ReadPK(S, m.id), ftag))
         ELSE LET r == PutRow(Q, T, ReadPK(S, m.id), m.id, m.u, m.v, FALSE, advance, FALSE)
              IN [r EXCEPT !.tags = @ \cup ftag \cup (IF r.ok THEN atag ELSE {})]
    [] m.k = "ups" ->
         IF bad THEN Fail(S, {})
         ELSE IF ~found /\ mustExist THEN Fail(ReadPK(S, m.id), ftag)
         ELSE LET r == PutRow(Q, T, ReadPK(S, m.id), m.id, m.u, m.v, TRUE, advance, FALSE)
              IN [r EXCEPT !.tags = @ \cup ftag \cup (IF r.ok THEN atag ELSE {})]
    [] m.k \in {"updU", "updV"} ->
         LET S1 == ReadPK(S, m.id)
             x == IF m.k = "updU" THEN m.u ELSE m.v
         IN IF ~Live(S.view[m.id]) THEN Res(TRUE, S1, 0, 0, <<>>, {})
            ELSE IF bad THEN Fail(S1, {})
            ELSE UpdRows(Q, T, S1, {m.id}, m.k = "updU", x, 0, {})
    [] m.k = "updAllV" ->
         LET S1 == [S EXCEPT !.rall = TRUE] IN
         IF LiveIds(S.view) = {} THEN Res(TRUE, S1, 0, 0, <<>>, {})
         ELSE IF bad THEN Fail(S1, {})
         ELSE UpdRows(Q, T, S1, LiveIds(S.view), FALSE, m.v, 0, {})
    [] m.k = "del" ->
         LET S1 == ReadPK(S, m.id) IN
         IF ~Live(S.view[m.id]) THEN Res(TRUE, S1, 0, 0, <<>>, {}) ELSE Res(TRUE, DelRows(S1, {m.id}), 1, 0, <<>>, {})
    [] m.k = "delAll" ->
         LET K == LiveIds(S.view) IN Res(TRUE, DelRows([S EXCEPT !.rall = TRUE], K), Cardinality(K), 0, <<>>, {})
    [] m.k = "selAll" -> Res(TRUE, [S EXCEPT !.rall = TRUE], 0, 0, TableSeq(S.view), {})
    [] m.k = "selPk" -> Res(TRUE, ReadPK(S, m.id), 0, 0, RowsSeq(S.view, {m.id} \cap LiveIds(S.view)), {})
    [] m.k = "selU" ->
         \* SELECT id FROM t WHERE u = x: through the unique index when it exists, else a filtered primary scan
         IF S.cidx
         THEN LET S1 == TouchU(Q, T, S)
                  got == ULive(Q, S1, m.u)
                  want == ULive({}, S1, m.u)
              IN Res(TRUE, [S1 EXCEPT !.rus = @ \cup {<<m.u, got \ S1.wrote>>}], 0, 0, IdsSeq(got),     \* own entries are not validated
                     IF got # want THEN Blame(Q, UQuirks, LAMBDA q : ULive(q, TouchU(q, T, S), m.u)) ELSE {})
         ELSE Res(TRUE, [S EXCEPT !.rall = TRUE], 0, 0, IdsSeq({i \in LiveIds(S.view) : S.view[i].u = m.u}), {})
    [] m.k = "crIdx" ->
         \* CREATE UNIQUE INDEX ON t(u): only on an empty table
         LET E == EverIds(S.view)
             empty == IF "ddl_first_pk_only" \in Q THEN (E = {} \/ ~Live(S.view[Min(E)])) ELSE LiveIds(S.view) = {}
             dempty == LiveIds(S.view) = {}
         IN IF S.cidx \/ ~empty THEN Fail([S EXCEPT !.rempty = TRUE], {})
            ELSE Res(TRUE, [S EXCEPT !.cidx = TRUE, !.ddl = TRUE, !.rempty = TRUE], 0, 0, <<>>,
                     IF empty # dempty THEN {"ddl_first_pk_only"} ELSE {})

\* reference interpreter: the design's state of a transaction = its snapshot and its effective statements
RECURSIVE ReplayFrom(_, _, _)
ReplayFrom(S, log, i) == IF i > Len(log) THEN S ELSE ReplayFrom(Exec({}, S.snap, S, log[i]).S, log, i + 1)
Replay(S) == ReplayFrom(BeginSession({}, S.snap, 0), S.log, 1)

-----------------------------------------------------------------------------
\* MVCC validation at COMMIT (transcription of OngoingTx.checkPreconditions at the grain of rows):
\* a transaction that wrote nothing is never validated
Conflict(Q, T, S) ==
  /\ (S.wrote # {} \/ S.ddl)
  /\ (S.stale # {} \/ S.catstale)        \* nothing committed since the snapshot: nothing to validate against
  /\ \/ S.catstale
     \/ S.rk \cap S.stale # {}
     \/ S.rall /\ S.stale # {}
     \/ \E i \in S.stale : i >= S.rmax
     \/ \E k \in S.ak : Live(T.rows[k])
     \/ \E x \in S.au : T.uidx /\ ~UFreeT(Q, T, x)
     \/ \E f \in S.rus : f[2] \cap S.stale # {} \/ {i \in Ids \ S.wrote : Live(T.rows[i]) /\ T.rows[i].u = f[1]} # f[2] \ S.wrote
     \/ S.rempty /\ (LET E == EverIds(T.rows) IN
                     IF "ddl_first_pk_only" \in Q THEN E # {} /\ (Min(E) \in S.stale \/ Live(T.rows[Min(E)]) # Live(S.snap.rows[Min(E)]))
                     ELSE S.stale # {})

\* the committed table after the transaction's writes
ApplyTx(T, S) ==
  LET W == S.wrote
      newr == [i \in Ids |-> IF i \in W THEN S.view[i] ELSE T.rows[i]]
      gone == {<<T.rows[i].u, i>> : i \in {j \in W : Live(T.rows[j]) /\ (~Live(S.view[j]) \/ S.view[j].u # T.rows[j].u)}}
      dead == {<<S.view[i].u, i>> : i \in {j \in W : ~Live(S.view[j]) /\ Ever(S.view[j])}}
      back == {<<S.view[i].u, i>> : i \in {j \in W : Live(S.view[j])}}
  IN [rows |-> newr,
      \* a freshly created index is built from the whole log: deleted rows leave tombstones in it
      ut |-> IF S.cidx /\ ~T.uidx THEN {<<newr[i].u, i>> : i \in EverIds(newr) \ LiveIds(newr)}
             ELSE IF S.cidx THEN ((T.ut \cup gone \cup dead) \ back) ELSE T.ut,
      uidx |-> T.uidx \/ S.cidx,
      clash |-> T.clash \/ (\E k \in S.autoids : Ever(T.rows[k]))]

\* property-level necessity of a failed COMMIT: committing would break a declared constraint
CHRows(rows) ==
  /\ \A i \in LiveIds(rows) : rows[i].u \in UVals /\ rows[i].v \in VVals
MustFail(T, S) ==
  LET R == ApplyTx(T, S)
  IN R.clash \/ (R.uidx /\ \E i, j \in LiveIds(R.rows) : i # j /\ R.rows[i].u = R.rows[j].u)
MayFail(S) == S.stale # {} \/ S.catstale

-----------------------------------------------------------------------------
Obs(s, m, out, r, T2, st2, must, may) ==
  [s |-> s, k |-> m.k, id |-> m.id, u |-> m.u, v |-> m.v, out |-> out, res |-> r.res, cnt |-> r.cnt, pk |-> r.pk,
   tbl |-> TableSeq(T2.rows), st |-> st2, must |-> must, may |-> may, tags |-> r.tags]
NoRes == Res(TRUE, 0, 0, 0, <<>>, {})

\* writes of a committed transaction become visible: every other open transaction's later validation sees them
MarkStale(SS, s, W, ddl) ==
  [t \in Sessions |-> IF t # s /\ SS[t].st = "tx"
                      THEN [SS[t] EXCEPT !.stale = @ \cup W, !.catstale = @ \/ ddl] ELSE SS[t]]

\* the whole transition of one client step; returns the new session map, table and observation
Transition(Q, T, SS, s, m) ==
  LET S == SS[s]
      n1 == S.n + 1
      idle == IdleSession(n1, "idle")
  IN
  CASE m.k = "begin" ->
         [sess |-> [SS EXCEPT ![s] = BeginSession(Q, T, n1)], tbl |-> T, obs |-> Obs(s, m, "ok", NoRes, T, "tx", FALSE, FALSE)]
    [] m.k = "commit" ->
         IF Conflict(Q, T, S)
         THEN [sess |-> [SS EXCEPT ![s] = idle], tbl |-> T, obs |-> Obs(s, m, "conflict", NoRes, T, "idle", MustFail(T, S), MayFail(S))]
         ELSE LET T2 == IF S.wrote # {} \/ S.ddl THEN ApplyTx(T, S) ELSE T
              IN [sess |-> [MarkStale(SS, s, S.wrote, S.ddl) EXCEPT ![s] = idle], tbl |-> T2,
                  obs |-> Obs(s, m, "ok", NoRes, T2, "idle", MustFail(T, S), MayFail(S))]
    [] m.k = "rollback" -> [sess |-> [SS EXCEPT ![s] = idle], tbl |-> T, obs |-> Obs(s, m, "ok", NoRes, T, "idle", FALSE, FALSE)]
    [] m.k = "close" -> [sess |-> [SS EXCEPT ![s] = IdleSession(MaxStmts, "closed")], tbl |-> T,
                         obs |-> Obs(s, m, "ok", NoRes, T, "closed", FALSE, FALSE)]
    [] m.k = "sp" ->
         LET sp == [on |-> TRUE, view |-> S.view, wrote |-> S.wrote, autoids |-> S.autoids, ulive |-> S.ulive,
                    loglen |-> Len(S.log), seq |-> S.spseq + 1, zombie |-> FALSE, cidx |-> S.cidx]
         IN [sess |-> [SS EXCEPT ![s] = [S EXCEPT !.n = n1, !.sps[m.u] = sp, !.spseq = @ + 1]], tbl |-> T,
             obs |-> Obs(s, m, "ok", NoRes, T, "tx", FALSE, FALSE)]
    [] m.k = "rbto" ->
         LET sp == S.sps[m.u] IN
         IF ~sp.on THEN [sess |-> [SS EXCEPT ![s] = idle], tbl |-> T, obs |-> Obs(s, m, "err", NoRes, T, "idle", FALSE, FALSE)]
         ELSE LET keep == "sp_keeps_writes" \in Q
                  undo == S.view # sp.view \/ S.wrote # sp.wrote \/ S.cidx # sp.cidx
                  sps2 == [x \in SpNames |-> IF x = m.u THEN NoSp
                                             ELSE IF S.sps[x].on /\ S.sps[x].seq > sp.seq THEN [S.sps[x] EXCEPT !.zombie = TRUE]
                                             ELSE S.sps[x]]
                  S2 == [S EXCEPT !.n = n1, !.sps = sps2, !.log = SubSeq(@, 1, sp.loglen),
                                  !.view = IF keep THEN @ ELSE sp.view, !.wrote = IF keep THEN @ ELSE sp.wrote,
                                  !.autoids = IF keep THEN @ ELSE sp.autoids, !.ulive = IF keep THEN @ ELSE sp.ulive,
                                  !.cidx = IF keep THEN @ ELSE sp.cidx, !.ddl = IF keep THEN @ ELSE (@ /\ sp.cidx # S.snap.uidx)]
              IN [sess |-> [SS EXCEPT ![s] = S2], tbl |-> T,
                  obs |-> Obs(s, m, "ok", [NoRes EXCEPT !.tags = IF keep /\ undo THEN {"sp_keeps_writes"} ELSE {}], T, "tx", FALSE, FALSE)]
    [] m.k = "rel" ->
         IF ~S.sps[m.u].on THEN [sess |-> [SS EXCEPT ![s] = idle], tbl |-> T, obs |-> Obs(s, m, "err", NoRes, T, "idle", FALSE, FALSE)]
         ELSE [sess |-> [SS EXCEPT ![s] = [S EXCEPT !.n = n1, !.sps[m.u] = NoSp]], tbl |-> T,
               obs |-> Obs(s, m, "ok", NoRes, T, "tx", FALSE, FALSE)]
    [] OTHER ->
         IF S.st = "tx"
         THEN LET r == Exec(Q, T, S, m) IN
              IF r.ok
              THEN [sess |-> [SS EXCEPT ![s] = [r.S EXCEPT !.n = n1, !.log = IF m.k \in DmlKinds THEN Append(@, IF m.k = "insA" THEN [m EXCEPT !.id = r.pk] ELSE m) ELSE @]],
                    tbl |-> T, obs |-> Obs(s, m, "ok", r, T, "tx", FALSE, FALSE)]
              ELSE [sess |-> [SS EXCEPT ![s] = idle], tbl |-> T, obs |-> Obs(s, m, "err", r, T, "idle", FALSE, FALSE)]   \* a failed statement aborts the transaction
         ELSE LET r == Exec(Q, T, BeginSession(Q, T, 0), m) IN       \* autocommit: NewTx; statement; Commit
              IF r.ok
              THEN LET T2 == IF r.S.wrote # {} \/ r.S.ddl THEN ApplyTx(T, r.S) ELSE T
                   IN [sess |-> [MarkStale(SS, s, r.S.wrote, r.S.ddl) EXCEPT ![s] = idle], tbl |-> T2, obs |-> Obs(s, m, "ok", r, T2, "idle", FALSE, FALSE)]
              ELSE [sess |-> [SS EXCEPT ![s] = idle], tbl |-> T, obs |-> Obs(s, m, "err", r, T, "idle", FALSE, FALSE)]

-----------------------------------------------------------------------------
\* statements a session may issue now
NextAuto(s) == IF sess[s].st = "tx" THEN sess[s].maxpk + 1 ELSE Max(EverIds(tbl.rows)) + 1
Offered(s) ==
  LET S == sess[s]
      intx == S.st = "tx"
      dml == {St("insA", 0, u, v) : u \in UVals, v \in VVals}
             \cup (IF "insAbad" \in Kinds THEN {St("insA", 0, u, v) : u \in BadU, v \in {Min1(VVals)}} \cup {St("insA", 0, u, v) : u \in {Min1(UVals)}, v \in BadV} ELSE {})
             \cup {St(k, i, u, v) : k \in {"insE", "insN", "ups"}, i \in ExplIds, u \in UVals, v \in VVals}
             \cup {St("updU", i, u, "") : i \in ExplIds, u \in UVals}
             \cup {St("updV", i, "", v) : i \in ExplIds, v \in VVals \cup (IF "insAbad" \in Kinds THEN {"x"} ELSE {})}
             \cup {St("updAllV", 0, "", v) : v \in VVals}
             \cup {St("del", i, "", "") : i \in ExplIds} \cup {St("delAll", 0, "", "")}
             \cup {St("selAll", 0, "", "")} \cup {St("selPk", i, "", "") : i \in ExplIds} \cup {St("selU", 0, u, "") : u \in UVals}
             \cup (IF ~intx /\ ~tbl.uidx THEN {St("crIdx", 0, "", "")} ELSE {})      \* DDL only as an autocommit statement
      ctl == IF intx
             THEN {St("commit", 0, "", ""), St("rollback", 0, "", ""), St("close", 0, "", "")}
                  \cup {St("sp", 0, x, "") : x \in SpNames}
                  \* ROLLBACK TO / RELEASE of an existing savepoint; of a missing one only while none exists (error path).
                  \* Not offered: ROLLBACK TO a savepoint created after one that was rolled back to meanwhile (the
                  \* property does not say what that means; PostgreSQL destroys it, the engine keeps it)
                  \cup {St(k, 0, x, "") : k \in {"rbto", "rel"},
                                         x \in {y \in SpNames : (S.sps[y].on /\ ~S.sps[y].zombie) \/ (\A z \in SpNames : ~S.sps[z].on)}}
             ELSE IF s \in TxSessions THEN {St("begin", 0, "", "")} ELSE {}
  IN {m \in dml \cup ctl : m.k \in Kinds /\ (m.k = "insA" => NextAuto(s) <= MaxId)}

Init == /\ tbl = EmptyTable
        /\ sess = [s \in Sessions |-> IdleSession(0, "idle")]
        /\ last = Obs(0, St("init", 0, "", ""), "ok", NoRes, EmptyTable, "idle", FALSE, FALSE)
        /\ hist = <<>>
        /\ fired = {}

Step(s, m) ==
  /\ sess[s].st # "closed" /\ sess[s].n < MaxStmts
  /\ LET t == Transition(Quirks, tbl, sess, s, m)
     IN /\ sess' = t.sess /\ tbl' = t.tbl /\ last' = t.obs
        /\ hist' = IF EmitDepth > 0 THEN Append(hist, t.obs) ELSE hist
        /\ fired' = fired \cup t.obs.tags

\* the client operations by name (Next below is their union: it quantifies over Offered(s) once, which is much
\* cheaper for TLC than eight disjuncts each rebuilding the set; the trace specification calls Transition directly)
Begin(s) == Step(s, St("begin", 0, "", ""))
Commit(s) == sess[s].st = "tx" /\ Step(s, St("commit", 0, "", ""))
Rollback(s) == sess[s].st = "tx" /\ Step(s, St("rollback", 0, "", ""))
CloseSession(s) == sess[s].st = "tx" /\ Step(s, St("close", 0, "", ""))
Savepoint(s) == \E m \in {x \in Offered(s) : x.k = "sp"} : Step(s, m)
RollbackTo(s) == \E m \in {x \in Offered(s) : x.k = "rbto"} : Step(s, m)
Release(s) == \E m \in {x \in Offered(s) : x.k = "rel"} : Step(s, m)
Stmt(s) == \E m \in {x \in Offered(s) : x.k \in DmlKinds \cup QryKinds} : Step(s, m)
\* end marker of a complete behaviour (simulation only): its unique successor prints the history once
Finish == /\ EmitDepth > 0 /\ last.k # "end"
          /\ \A s \in Sessions : sess[s].n >= MaxStmts
          /\ last' = [last EXCEPT !.k = "end"]
          /\ UNCHANGED <<tbl, sess, hist, fired>>
Next == (\E s \in Sessions : \E m \in Offered(s) : Step(s, m)) \/ Finish
Spec == Init /\ [][Next]_vars

\* random behaviours (tlc -simulate): one successor per state, chosen with weights per statement kind so that
\* transactions are opened, use savepoints and commit often enough; reproducible with -seed
Weight(k) == CASE k \in {"commit"} -> 5 [] k \in {"begin"} -> 4 [] k \in {"sp", "rbto"} -> 3 [] k \in {"insA", "ups", "updU", "del"} -> 3
               [] k \in {"rollback", "close", "rel", "selPk", "delAll", "updAllV"} -> 1 [] OTHER -> 2
RNext ==
  \/ LET live == {s \in Sessions : sess[s].st # "closed" /\ sess[s].n < MaxStmts} IN
     /\ live # {}
     /\ \E s \in {RandomElement(live)} :
          \E wk \in {RandomElement({<<i, m.k>> : i \in 1..5, m \in Offered(s)} \cap {<<i, k>> : k \in Kinds, i \in 1..5}
                                     \cap UNION {{<<i, k>> : i \in 1..Weight(k)} : k \in Kinds})} :
            LET cand == {x \in Offered(s) : x.k = wk[2]}
                pref == {x \in cand : (x.u \in BadU \/ x.v \in BadV) <=> (wk[1] = 1)}      \* one third of the inserts carry an illegal value
            IN \E m \in {RandomElement(IF wk[2] = "insA" /\ pref # {} THEN pref ELSE cand)} : Step(s, m)
  \/ Finish
RSpec == Init /\ [][RNext]_vars

-----------------------------------------------------------------------------
\* C12: committed rows satisfy the declared constraints in every reachable state
ConstraintsHold ==
  /\ CHRows(tbl.rows)                                                                  \* NOT NULL, CHECK, length
  /\ tbl.uidx => \A i, j \in LiveIds(tbl.rows) : i # j => tbl.rows[i].u # tbl.rows[j].u   \* unique index
  /\ ~tbl.clash                                                                       \* generated keys never collide
\* (primary keys are unique by construction: rows is a function of id; a collision is a lost row = clash)

InTx(s) == sess[s].st = "tx"
\* C13: every statement sees the transaction's own earlier changes on top of its snapshot and nothing else:
\* the view is what the reference interpreter computes from (snapshot, effective statements)
OwnWritesVisible == \A s \in Sessions : InTx(s) => LET R == Replay(sess[s]) IN sess[s].view = R.view /\ sess[s].wrote = R.wrote
\* the snapshot is fixed: one committed state for all access paths, and rows the transaction did not write
\* show exactly the snapshot (nothing uncommitted of anybody else)
NoDirtyReads == \A s \in Sessions : InTx(s) =>
                  /\ sess[s].utaken => (sess[s].usnap.rows = sess[s].snap.rows /\ sess[s].usnap.ut = sess[s].snap.ut)
                  /\ \A i \in Ids \ sess[s].wrote : sess[s].view[i] = sess[s].snap.rows[i]
\* what a query through the unique index returns is the same set of rows the primary index shows
IndexViewConsistent == \A s \in Sessions : (InTx(s) /\ sess[s].cidx /\ sess[s].utaken) =>
                         \A x \in UVals : ULive(Quirks, sess[s], x) = {i \in LiveIds(sess[s].view) : sess[s].view[i].u = x}
\* ROLLBACK TO SAVEPOINT undoes exactly the statements executed after the savepoint
RollbackToStep ==
  (last'.k = "rbto" /\ last'.out = "ok") =>
     LET S == sess'[last'.s]
         R == Replay(S)
     IN S.view = R.view /\ S.wrote = R.wrote

\* action properties
SnapshotFixed == \A s \in Sessions : (sess'[s].st = "tx") =>
                   \/ (sess[s].st = "tx" /\ sess'[s].snap = sess[s].snap)
                   \/ (sess[s].st # "tx" /\ sess'[s].snap = tbl)
FailedStatementNoEffectStep ==
  last'.out \in {"err", "conflict"} =>
     /\ tbl' = tbl /\ sess'[last'.s].st = "idle"
     /\ \A t \in Sessions \ {last'.s} : sess'[t] = sess[t]
AllOrNothingStep ==
  \/ tbl' = tbl
  \/ /\ last'.out = "ok"
     /\ LET s == last'.s IN
        IF sess[s].st = "tx"
        THEN /\ last'.k = "commit"
             /\ LET R == Replay(sess[s]) IN
                tbl'.rows = [i \in Ids |-> IF i \in R.wrote THEN R.view[i] ELSE tbl.rows[i]]
        ELSE LET r == Exec({}, tbl, BeginSession({}, tbl, 0), St(last'.k, IF last'.k = "insA" THEN last'.pk ELSE last'.id, last'.u, last'.v)) IN
             r.ok /\ tbl'.rows = [i \in Ids |-> IF i \in r.S.wrote THEN r.S.view[i] ELSE tbl.rows[i]]
CountsMatchAppliedStep ==
  (last'.k \in DmlKinds /\ last'.out = "ok") =>
     LET s == last'.s
         S0 == IF sess[s].st = "tx" THEN Replay(sess[s]) ELSE BeginSession({}, tbl, 0)
         r == Exec({}, S0.snap, S0, St(last'.k, IF last'.k = "insA" THEN last'.pk ELSE last'.id, last'.u, last'.v))
     IN r.ok /\ last'.cnt = r.cnt /\ (last'.k = "insA" => last'.pk = r.pk /\ ~Ever(S0.view[last'.pk]))
        /\ last'.cnt = Cardinality(r.S.wrote \ S0.wrote) + Cardinality({i \in S0.wrote : r.S.view[i] # S0.view[i]})
                        + Cardinality({i \in S0.wrote \cap LiveIds(S0.view) : r.S.view[i] = S0.view[i]
                                         /\ (last'.k \in {"updAllV"} \/ (last'.k \in {"ups", "updU", "updV"} /\ i = last'.id))})
RollbackToUndoesExactlySuffix == [][RollbackToStep]_vars
\* a statement succeeds or fails, and a query answers, exactly as the design does on (snapshot + own earlier statements)
StatementsSeeOwnWritesStep ==
  (last'.k \in DmlKinds \cup QryKinds) =>
     LET s == last'.s
         S0 == IF sess[s].st = "tx" THEN Replay(sess[s]) ELSE BeginSession({}, tbl, 0)
         r == Exec({}, S0.snap, S0, St(last'.k, IF last'.k = "insA" /\ last'.out = "ok" THEN last'.pk ELSE last'.id, last'.u, last'.v))
     IN (last'.out = "ok") = r.ok /\ (r.ok => last'.res = r.res)
StatementsSeeOwnWrites == [][StatementsSeeOwnWritesStep]_vars
NoDirtyReadsAct == [][SnapshotFixed]_vars
FailedStatementNoEffect == [][FailedStatementNoEffectStep]_vars
AllOrNothing == [][AllOrNothingStep]_vars
CountsMatchApplied == [][CountsMatchAppliedStep]_vars

\* with Quirks = {} nothing may ever be blamed
NoQuirkFired == (Quirks = {}) => fired = {}

\* behaviours for replay on the real engine: printed when every session has used its steps
Emit == (EmitDepth > 0 /\ last.k = "end") => PrintT(<<"JSON:", ToJson([steps |-> hist, fired |-> fired])>>)
\* exhaustive runs: the explored state is (tbl, sess); observations are hidden
View == <<tbl, sess>>
=============================================================================
