--------------------------- MODULE ReplicationDB ---------------------------
(***************************************************************************)
(* Replication at the database level (property C07): the decisions that    *)
(* pkg/database and pkg/replication take on top of the stores, and primary *)
(* switches (failover).  Replication.tla relates one fixed primary to its  *)
(* replicas at the store level; here every node is a database that can be  *)
(* primary or replica, a replica follows a node, and the steps of the real *)
(* replication round are explicit actions:                                 *)
(*   Report     a replica reads the state it advertises (CurrentState:     *)
(*              committed id/alh and DURABLY precommitted id/alh)          *)
(*   Arrive     the export request carrying that state reaches the         *)
(*              followed node (ExportTxByID entered); a state that is a    *)
(*              prefix of the primary's history is COUNTED as an ack       *)
(*   PAllow     the primary raises its own commit allowance                *)
(*              (mayUpdateReplicaState -> store.AllowCommitUpto)           *)
(*   AnswerTx / AnswerState / AnswerDiverged   what ExportTxByID returns   *)
(*   RAllow     the replica accepts the allowance returned by the primary  *)
(*              (db.AllowCommitUpto)                                       *)
(*   Precommit / Durable / Committed / Discard / Reopened  store facts     *)
(*   Switch / Connected / Promote   a node changes the node it follows /   *)
(*              its role                                                   *)
(* Every action is split in  <A>S (structural enabling: what makes the     *)
(* event meaningful at all),  <A>G (the SAFETY GUARD: the content of the   *)
(* property) and <A>E (effect).  <A> == S /\ G /\ E.  The model-checking   *)
(* module takes the transcribed decisions of the code and the trace module *)
(* the real events; both evaluate the guards and collect the ones that are *)
(* false.                                                                  *)
(*                                                                         *)
(* Accumulated hashes are opaque values (naturals; 0 stands for "no        *)
(* transaction"); equality of alh under an id means equality of the whole  *)
(* prefix because every holder validated the chain when it accepted it.    *)
(***************************************************************************)
EXTENDS Naturals, Sequences, FiniteSets, TLC

CONSTANTS Nodes
None == "none"

VARIABLES pre,      \* pre[n]: alh of the txs node n holds (in memory) under ids 1..Len, committed prefix included
          dur,      \* dur[n]: n holds txs up to this id durably
          com,      \* com[n]: committed frontier of n
          role,     \* "primary" | "replica"
          follows,  \* the node a replica follows (None otherwise)
          syncOn,   \* synchronous replication enabled on n
          need,     \* acks a primary with synchronous replication requires
          everDur,  \* history variable: alh values n has durably held at some time
          created,  \* history variable: [id, alh, prev] of the txs primaries created, and [by, id, alh]: who created them
          rep,      \* rep[r]: the state replica r read last (what its next request carries)
          acked,    \* acked[p][r]: highest id of a state of r that reached p and was a prefix of p's history
          pend,     \* pend[p][r]: the state of r's latest request that reached p (it may become a prefix of p's history while
                    \* ExportTxByID runs: p commits / precommits concurrently; being a prefix is monotone in p's progress)
          allowBy,  \* allowBy[r]: the node whose allowance is in force on replica r (None: none)
          srcs      \* history variable: nodes r has followed
vars == <<pre, dur, com, role, follows, syncOn, need, everDur, created, rep, acked, pend, allowBy, srcs>>

Min(a, b) == IF a < b THEN a ELSE b
Max(a, b) == IF a > b THEN a ELSE b
Range(s) == {s[i] : i \in 1..Len(s)}
AlhAt(s, k) == IF k = 0 THEN 0 ELSE s[k]
St(cid, calh, pid, palh) == [cid |-> cid, calh |-> calh, pid |-> pid, palh |-> palh]
NoSt == St(0, 0, 0, 0)
TxRec(id, alh, prev) == [id |-> id, alh |-> alh, prev |-> prev]
Own(n, id, alh) == [by |-> n, id |-> id, alh |-> alh]

\* cf: node -> [role, follows, sync, need]
Init(cf) ==
  /\ pre = [n \in Nodes |-> <<>>] /\ dur = [n \in Nodes |-> 0] /\ com = [n \in Nodes |-> 0]
  /\ role = [n \in Nodes |-> cf[n].role] /\ follows = [n \in Nodes |-> cf[n].follows]
  /\ syncOn = [n \in Nodes |-> cf[n].sync] /\ need = [n \in Nodes |-> cf[n].need]
  /\ everDur = [n \in Nodes |-> {}] /\ created = {}
  /\ rep = [n \in Nodes |-> NoSt] /\ acked = [p \in Nodes |-> [r \in Nodes |-> 0]] /\ pend = [p \in Nodes |-> [r \in Nodes |-> NoSt]]
  /\ allowBy = [n \in Nodes |-> None] /\ srcs = [n \in Nodes |-> IF cf[n].follows = None THEN {} ELSE {cf[n].follows}]

-----------------------------------------------------------------------------
(* predicates the guards are made of *)
HeldBy(n, id, alh) == id = 0 \/ (id <= Len(pre[n]) /\ pre[n][id] = alh)
\* the state is a prefix of p's history: the committed part of p's committed history, the precommitted part of what p holds
CommitPartOk(p, st) == st.cid = 0 \/ (st.cid <= com[p] /\ pre[p][st.cid] = st.calh)
PrecommitPartOk(p, st) == st.pid = 0 \/ (st.pid <= Len(pre[p]) /\ pre[p][st.pid] = st.palh)
StatePrefix(p, st) == CommitPartOk(p, st) /\ PrecommitPartOk(p, st)
\* replicas whose durable possession of p's tx `id` reached p as a report
Ackers(p, id) == {r \in Nodes \ {p} : acked[p][r] >= id \/ (pend[p][r].pid >= id /\ StatePrefix(p, pend[p][r]))}
\* the acknowledgements p has received, the pending requests folded in
Folded(p) == [r \in Nodes |-> IF StatePrefix(p, pend[p][r]) THEN Max(acked[p][r], pend[p][r].pid) ELSE acked[p][r]]
DurableAckers(p, id) == {r \in Ackers(p, id) : pre[p][id] \in everDur[r]}
\* the nodes whose committed history authorises a commit on replica r: the node it follows at that moment, and the node
\* whose allowance is in force (asynchronous replication: the nodes it fetched committed transactions from)
Auth(r) == ((IF syncOn[r] THEN {allowBy[r]} ELSE srcs[r]) \cup {follows[r]}) \ {None}
PrefixOfCommitted(r, upto, p) == upto <= com[p] /\ upto <= Len(pre[r]) /\ \A k \in 1..upto : pre[r][k] = pre[p][k]

-----------------------------------------------------------------------------
(* store facts *)
PrecommitS(n, id, alh, prev) == id = Len(pre[n]) + 1 /\ prev = AlhAt(pre[n], id - 1)
\* a replica precommits only transactions a primary created (unaltered), chained to what it holds
PrecommitG(n, id, alh, prev) == role[n] = "replica" => TxRec(id, alh, prev) \in created
PrecommitE(n, id, alh, prev) ==
  /\ pre' = [pre EXCEPT ![n] = Append(@, alh)]
  /\ created' = IF role[n] = "primary" THEN created \cup {TxRec(id, alh, prev), Own(n, id, alh)} ELSE created
  /\ UNCHANGED <<dur, com, role, follows, syncOn, need, everDur, rep, acked, pend, allowBy, srcs>>
Precommit(n, id, alh, prev) == PrecommitS(n, id, alh, prev) /\ PrecommitG(n, id, alh, prev) /\ PrecommitE(n, id, alh, prev)

DurableS(n, upto) == upto = Len(pre[n])
DurableE(n, upto) ==
  /\ dur' = [dur EXCEPT ![n] = upto]
  /\ everDur' = [everDur EXCEPT ![n] = @ \cup Range(SubSeq(pre[n], 1, upto))]
  /\ UNCHANGED <<pre, com, role, follows, syncOn, need, created, rep, acked, pend, allowBy, srcs>>
Durable(n, upto) == DurableS(n, upto) /\ DurableE(n, upto)

CommittedS(n, upto, alh) == upto > com[n] /\ upto <= Len(pre[n]) /\ pre[n][upto] = alh
\* with synchronous replication a primary commits a tx only after the required number of replicas durably hold it
\* (and told so); a replica commits only what the primary that authorised the commit has committed, as a prefix of it
PCommittedG(p, upto) == (syncOn[p] /\ need[p] > 0) => \A id \in (com[p] + 1)..upto : Cardinality(DurableAckers(p, id)) >= need[p]
\* (asynchronous replication: a store commits what it holds as soon as it is durable; a former primary may so commit
\* transactions it created itself before it was demoted)
RCommittedG(r, upto) == IF syncOn[r] THEN \E p \in Auth(r) : PrefixOfCommitted(r, upto, p)
                        ELSE \A k \in (com[r] + 1)..upto : Own(r, k, pre[r][k]) \in created \/ \E p \in Auth(r) : PrefixOfCommitted(r, k, p)
CommittedG(n, upto, alh) == IF role[n] = "primary" THEN PCommittedG(n, upto) ELSE RCommittedG(n, upto)
CommittedE(n, upto, alh) ==
  /\ com' = [com EXCEPT ![n] = upto]
  /\ UNCHANGED <<pre, dur, role, follows, syncOn, need, everDur, created, rep, acked, pend, allowBy, srcs>>
Committed(n, upto, alh) == CommittedS(n, upto, alh) /\ CommittedG(n, upto, alh) /\ CommittedE(n, upto, alh)

DiscardS(n, since) == since > com[n] /\ since <= Len(pre[n])
DiscardE(n, since) ==
  /\ pre' = [pre EXCEPT ![n] = SubSeq(@, 1, since - 1)]
  /\ dur' = [dur EXCEPT ![n] = Min(@, since - 1)]
  /\ UNCHANGED <<com, role, follows, syncOn, need, everDur, created, rep, acked, pend, allowBy, srcs>>
Discard(n, since) == DiscardS(n, since) /\ DiscardE(n, since)

\* clean restart: what the tx log holds is reloaded (precommitted txs that were discarded may come back); allowances are gone
ReopenedS(n, c, alhs) == c = com[n] /\ Len(alhs) >= c /\ \A k \in 1..c : alhs[k] = pre[n][k]
ReopenedE(n, c, alhs) ==
  /\ pre' = [pre EXCEPT ![n] = alhs]
  /\ dur' = [dur EXCEPT ![n] = Len(alhs)]
  /\ everDur' = [everDur EXCEPT ![n] = @ \cup Range(alhs)]
  /\ allowBy' = [allowBy EXCEPT ![n] = None]
  /\ rep' = [rep EXCEPT ![n] = NoSt]
  /\ UNCHANGED <<com, role, follows, syncOn, need, created, acked, pend, srcs>>
Reopened(n, c, alhs) == ReopenedS(n, c, alhs) /\ ReopenedE(n, c, alhs)

-----------------------------------------------------------------------------
(* the replication round *)
\* the replica advertises only what it holds: the committed part is committed on it, the precommitted part is DURABLE on it
ReportCommitG(r, st) == st.cid <= com[r] /\ HeldBy(r, st.cid, st.calh)
ReportHeldG(r, st) == HeldBy(r, st.pid, st.palh)
ReportDurableG(r, st) == st.pid <= dur[r]
ReportG(r, st) == ReportCommitG(r, st) /\ ReportHeldG(r, st) /\ ReportDurableG(r, st)
ReportE(r, st) ==
  /\ rep' = [rep EXCEPT ![r] = st]
  /\ UNCHANGED <<pre, dur, com, role, follows, syncOn, need, everDur, created, acked, pend, allowBy, srcs>>
Report(r, st) == ReportG(r, st) /\ ReportE(r, st)

\* the request carries the state the replicator read
ArriveG(p, r, has, st) == has => st = rep[r]
\* track: the validation of the state is not atomic with its arrival (real executions), the raw state is remembered
ArriveE(p, r, has, st, track) ==
  /\ acked' = IF has /\ StatePrefix(p, st) THEN [acked EXCEPT ![p][r] = Max(@, st.pid)] ELSE acked
  /\ pend' = IF track THEN [pend EXCEPT ![p][r] = IF has THEN st ELSE NoSt] ELSE pend
  /\ UNCHANGED <<pre, dur, com, role, follows, syncOn, need, everDur, created, rep, allowBy, srcs>>
Arrive(p, r, has, st) == ArriveG(p, r, has, st) /\ ArriveE(p, r, has, st, TRUE)

\* the primary allows itself to commit up to `upto` only when enough replicas acknowledged every tx up to it
PAllowG(p, upto) == (syncOn[p] /\ need[p] > 0) => \A id \in (com[p] + 1)..Min(upto, Len(pre[p])) : Cardinality(Ackers(p, id)) >= need[p]
PAllowE(p) ==
  /\ acked' = [acked EXCEPT ![p] = Folded(p)]
  /\ UNCHANGED <<pre, dur, com, role, follows, syncOn, need, everDur, created, rep, pend, allowBy, srcs>>
PAllow(p, upto) == PAllowG(p, upto) /\ PAllowE(p)

\* the primary answers with a transaction / its commit state only to a replica whose state is a prefix of its own history
ExportTxG(p, n, txalh, allowPre) == n >= 1 /\ n <= Len(pre[p]) /\ pre[p][n] = txalh /\ (~allowPre => n <= com[p])
MayG(p, st, may, mayalh) == may <= com[p] /\ may <= st.pid /\ (may > 0 => pre[p][may] = mayalh)
AnswerStateG(p, r, has, st, may, mayalh) == has => (StatePrefix(p, st) /\ MayG(p, st, may, mayalh))
AnswerTxG(p, r, has, st, n, txalh, allowPre, may, mayalh) == AnswerStateG(p, r, has, st, may, mayalh) /\ ExportTxG(p, n, txalh, allowPre)
\* ... and reports divergence only when the state is not a prefix of its history
AnswerDivergedG(p, r, st) == ~StatePrefix(p, st)

\* the replica accepts an allowance only for a tx it holds with that alh, which the node it follows has committed
RAllowG(r, upto, alh) == follows[r] # None /\ upto >= 1 /\ HeldBy(r, upto, alh) /\ upto <= com[follows[r]] /\ pre[follows[r]][upto] = alh
RAllowE(r, upto, alh) ==
  /\ allowBy' = [allowBy EXCEPT ![r] = follows[r]]
  /\ UNCHANGED <<pre, dur, com, role, follows, syncOn, need, everDur, created, rep, acked, pend, srcs>>
RAllow(r, upto, alh) == RAllowG(r, upto, alh) /\ RAllowE(r, upto, alh)

-----------------------------------------------------------------------------
(* roles *)
\* reconfiguration (server.UpdateDatabase: stop replicator, AsReplica, start replicator): allowances are revoked
Switch(r, p, sy) ==
  /\ role' = [role EXCEPT ![r] = "replica"] /\ follows' = [follows EXCEPT ![r] = p]
  /\ syncOn' = [syncOn EXCEPT ![r] = sy] /\ need' = [need EXCEPT ![r] = 0]
  /\ allowBy' = [allowBy EXCEPT ![r] = None] /\ rep' = [rep EXCEPT ![r] = NoSt]
  /\ srcs' = [srcs EXCEPT ![r] = @ \cup {p}]
  /\ UNCHANGED <<pre, dur, com, everDur, created, acked, pend>>
\* the address of the primary reaches another node: only the followed node changes
Connected(r, p) ==
  /\ follows' = [follows EXCEPT ![r] = p] /\ srcs' = [srcs EXCEPT ![r] = @ \cup {p}]
  /\ UNCHANGED <<pre, dur, com, role, syncOn, need, everDur, created, rep, acked, pend, allowBy>>
Promote(n, sy, k) ==
  /\ role' = [role EXCEPT ![n] = "primary"] /\ follows' = [follows EXCEPT ![n] = None]
  /\ syncOn' = [syncOn EXCEPT ![n] = sy] /\ need' = [need EXCEPT ![n] = k]
  /\ acked' = [acked EXCEPT ![n] = [r \in Nodes |-> 0]] /\ pend' = [pend EXCEPT ![n] = [r \in Nodes |-> NoSt]]
  /\ allowBy' = [allowBy EXCEPT ![n] = None] /\ rep' = [rep EXCEPT ![n] = NoSt]
  /\ UNCHANGED <<pre, dur, com, everDur, created, srcs>>

-----------------------------------------------------------------------------
TypeOK == /\ \A n \in Nodes : com[n] <= dur[n] /\ dur[n] <= Len(pre[n])
=============================================================================
