------------------------------- MODULE Store -------------------------------
(***************************************************************************)
(* Commit pipeline of embedded/store.ImmuStore (no crash; crash/recovery   *)
(* is StoreCrash.tla).  One action per critical section of immustore.go:   *)
(*                                                                         *)
(*   Precommit        performPrecommit (under commitStateRWMutex)          *)
(*   VLogsSynced      sync(): value logs flushed+fsynced                   *)
(*   TxLogSynced      sync(): tx log flushed+fsynced, durable precommit    *)
(*   CLogFlushed      sync()/mayCommit(): commit entries written+flushed   *)
(*   CLogSynced       sync(): commit log fsynced                           *)
(*   Committed        committedTxID/committedAlh advanced                  *)
(*   Discard, Allow   DiscardPrecommittedTxsSince, AllowCommitUpto         *)
(*   Close, Opened    clean close / open (precommitted txs are reloaded)   *)
(*   Ack, Observed    driver level: a commit call returned; a committed tx *)
(*                    was re-read through the public read API              *)
(*                                                                         *)
(* Guards are the weakest conditions under which the invariants hold (they *)
(* are the safety content); every action takes the values the code decided *)
(* (ids, hashes, frontiers) as parameters, so the same actions serve the   *)
(* model-checking configuration (MCStore.tla: parameters are chosen) and   *)
(* trace validation (TraceStore.tla: parameters come from the log).        *)
(* Hashes are opaque values; Genesis is the Alh "before tx 1".             *)
(***************************************************************************)
EXTENDS Naturals, Sequences, FiniteSets, TLC

CONSTANTS Genesis, Unavailable

VARIABLES
  synced,     \* store option Synced
  extAllow,   \* external commit allowance in use
  log,        \* currently precommitted txs 1..inmemPre: [alh, prev, bl, vdur, tdur]
  committed,  \* committedTxID
  allowed,    \* commitAllowedUpToTxID
  cflushed,   \* commit-log entries written and flushed up to this id
  cdurable,   \* commit-log entries fsynced up to this id
  hist,       \* committed history as first made visible: sequence of alh (must only ever grow)
  acked,      \* ids whose commit call returned to a caller
  cont,       \* id -> content digest the committer wrote (recorded when its commit call returned)
  seen,       \* <<read path, id>> -> content digest first observed through that read path
  everPre,    \* every <<id, alh>> that was ever precommitted
  cut,        \* values of txs with id < cut may have been discarded by value-log truncation
  open        \* store is open

vars == <<synced, extAllow, log, committed, allowed, cflushed, cdurable, hist, acked, cont, seen, everPre, cut, open>>

InmemPre == Len(log)
AlhAt(n) == IF n = 0 THEN Genesis ELSE log[n].alh
AllowedUpto == IF extAllow THEN allowed ELSE InmemPre
Min(a, b) == IF a < b THEN a ELSE b

StoreInit(s, e) ==
  /\ synced = s /\ extAllow = e /\ log = <<>> /\ committed = 0 /\ allowed = 0
  /\ cflushed = 0 /\ cdurable = 0 /\ hist = <<>> /\ acked = {} /\ cont = <<>> /\ seen = <<>> /\ everPre = {} /\ cut = 0 /\ open = TRUE

\* performPrecommit: tx `id` gets its header; blOk = the embedded BlRoot is the root of the hash tree over
\* the accumulated hashes of txs 1..bl; ahtSize = size of the hash tree afterwards
Precommit(id, alh, prev, bl, blOk, ahtSize, maxActive) ==
  /\ open
  /\ id = InmemPre + 1                      \* dense ids, never reassigned while precommitted
  /\ id > committed
  /\ prev = AlhAt(id - 1)                   \* chains to its predecessor
  /\ bl < id /\ blOk                        \* embeds the root over earlier accumulated hashes
  /\ ahtSize = id
  /\ (synced => InmemPre < committed + maxActive)
  /\ log' = Append(log, [alh |-> alh, prev |-> prev, bl |-> bl, vdur |-> FALSE, tdur |-> FALSE])
  /\ everPre' = everPre \cup {<<id, alh>>}
  /\ UNCHANGED <<synced, extAllow, committed, allowed, cflushed, cdurable, hist, acked, cont, seen, cut, open>>

VLogsSynced ==
  /\ open
  /\ log' = [n \in 1..Len(log) |-> [log[n] EXCEPT !.vdur = TRUE]]
  /\ UNCHANGED <<synced, extAllow, committed, allowed, cflushed, cdurable, hist, acked, cont, seen, everPre, cut, open>>

TxLogSynced(upto) ==
  /\ open /\ upto = InmemPre
  /\ log' = [n \in 1..Len(log) |-> [log[n] EXCEPT !.tdur = TRUE]]
  /\ UNCHANGED <<synced, extAllow, committed, allowed, cflushed, cdurable, hist, acked, cont, seen, everPre, cut, open>>

\* commit entries for from+1..to written at offset `from` of the commit log
CLogFlushed(from, to) ==
  /\ open /\ from = committed /\ to > from /\ to <= InmemPre
  /\ to <= AllowedUpto
  \* with synchronous durability an entry may reach the commit log only when the tx record and its
  \* values are already durable
  /\ (synced => \A n \in (from + 1)..to : log[n].vdur /\ log[n].tdur)
  /\ cflushed' = to
  /\ cdurable' = Min(cdurable, from)        \* entries past `from` are being rewritten
  /\ UNCHANGED <<synced, extAllow, log, committed, allowed, hist, acked, cont, seen, everPre, cut, open>>

CLogSynced(upto) ==
  /\ open /\ upto = cflushed
  /\ cdurable' = cflushed
  /\ UNCHANGED <<synced, extAllow, log, committed, allowed, cflushed, hist, acked, cont, seen, everPre, cut, open>>

Committed(upto, alh) ==
  /\ open /\ upto > committed /\ upto <= InmemPre
  /\ upto <= cflushed /\ (synced => upto <= cdurable)
  /\ upto <= AllowedUpto
  /\ alh = AlhAt(upto)                      \* the reported state is the hash of the last committed tx
  /\ committed' = upto
  /\ hist' = hist \o [k \in 1..(upto - committed) |-> log[committed + k].alh]
  /\ UNCHANGED <<synced, extAllow, log, allowed, cflushed, cdurable, acked, cont, seen, everPre, cut, open>>

Discard(since, n) ==
  /\ open /\ since > committed /\ since <= InmemPre     \* committed txs are never discarded
  /\ n = InmemPre + 1 - since
  /\ log' = SubSeq(log, 1, since - 1)
  /\ allowed' = Min(allowed, since - 1)     \* an allowance granted for the discarded transactions is withdrawn (5dff58a; before, the code kept it)
  /\ cflushed' = Min(cflushed, committed) /\ cdurable' = Min(cdurable, committed)
  /\ UNCHANGED <<synced, extAllow, committed, hist, acked, cont, seen, everPre, cut, open>>

Allow(upto) ==
  /\ open /\ extAllow /\ upto <= InmemPre     \* (the code may also lower the allowance after a discard: harmless)
  /\ allowed' = upto
  /\ UNCHANGED <<synced, extAllow, log, committed, cflushed, cdurable, hist, acked, cont, seen, everPre, cut, open>>

\* a commit call returned (id, alh) to its caller, who wrote `content`
Ack(id, alh, content) ==
  /\ id >= 1 /\ id <= committed             \* reported committed only after it is committed
  /\ alh = hist[id]
  /\ id \notin acked                        \* an id is handed to one committer only
  /\ (<<"ReadTx", id>> \in DOMAIN seen => seen[<<"ReadTx", id>>] = content)
  /\ acked' = acked \cup {id}
  /\ cont' = (id :> content) @@ cont
  /\ UNCHANGED <<synced, extAllow, log, committed, allowed, cflushed, cdurable, hist, seen, everPre, cut, open>>

\* a committed tx re-read through the public API: header hash `alh`; chainOk = the header's PrevAlh is the
\* Alh of its predecessor as read back and its BlRoot is the reference root over the Alhs read back
\* `content` is a digest of what the read path `via` returned (entries, metadata, values / exported bytes)
Observed(id, alh, chainOk, content, via) ==
  /\ id >= 1 /\ id <= committed
  /\ alh = hist[id]                         \* immutable: what was first committed under this id
  /\ chainOk
  \* Unavailable: the read path reported that the values were discarded by truncation (only below the cut)
  /\ (content = Unavailable => id < cut)
  /\ ((via = "ReadTx" /\ id \in DOMAIN cont /\ content # Unavailable) => content = cont[id])   \* what its committer wrote
  /\ ((<<via, id>> \in DOMAIN seen /\ content # Unavailable) => seen[<<via, id>>] = content)       \* and never anything else later
  /\ seen' = IF content = Unavailable THEN seen ELSE (<<via, id>> :> content) @@ seen
  /\ UNCHANGED <<synced, extAllow, log, committed, allowed, cflushed, cdurable, hist, acked, cont, everPre, cut, open>>

\* TruncateUptoTx(n) returned: values of txs below n may be gone, nothing else changes
Truncated(n) ==
  /\ open /\ n <= committed
  /\ cut' = IF n > cut THEN n ELSE cut
  /\ UNCHANGED <<synced, extAllow, log, committed, allowed, cflushed, cdurable, hist, acked, cont, seen, everPre, open>>

\* an existing database is taken over as it is (a database created by an older release, or the state found after a
\* crash): its committed history is the baseline from now on
Adopt(alhs, reloaded) ==
  LET c == Len(alhs) IN
  /\ committed' = c /\ hist' = alhs
  /\ log' = [n \in 1..c |-> [alh |-> alhs[n], prev |-> IF n = 1 THEN Genesis ELSE alhs[n - 1], bl |-> 0, vdur |-> TRUE, tdur |-> TRUE]]
            \o [k \in 1..Len(reloaded) |-> [alh |-> reloaded[k].alh, prev |-> reloaded[k].prev, bl |-> reloaded[k].bl, vdur |-> TRUE, tdur |-> TRUE]]
  /\ allowed' = c /\ cflushed' = c /\ cdurable' = c
  /\ acked' = {} /\ cont' = <<>> /\ seen' = <<>> /\ cut' = 0 /\ open' = TRUE
  /\ everPre' = {<<k, alhs[k]>> : k \in 1..c} \cup {<<c + k, reloaded[k].alh>> : k \in 1..Len(reloaded)}
  /\ UNCHANGED <<synced, extAllow>>

Close ==
  /\ open /\ open' = FALSE
  /\ UNCHANGED <<synced, extAllow, log, committed, allowed, cflushed, cdurable, hist, acked, cont, seen, everPre, cut>>

\* clean open: the committed frontier is what it was; precommitted-but-uncommitted txs found in the tx log
\* are reloaded (possibly ones that had been discarded: the tx log is not truncated on discard)
Opened(c, reloaded) ==
  /\ ~open /\ open' = TRUE
  /\ c = committed
  /\ \A k \in 1..Len(reloaded) :
        /\ reloaded[k].prev = (IF k = 1 THEN (IF c = 0 THEN Genesis ELSE hist[c]) ELSE reloaded[k - 1].alh)
  /\ log' = [n \in 1..c |-> [alh |-> hist[n], prev |-> IF n = 1 THEN Genesis ELSE hist[n - 1], bl |-> 0, vdur |-> TRUE, tdur |-> TRUE]]
            \o [k \in 1..Len(reloaded) |-> [alh |-> reloaded[k].alh, prev |-> reloaded[k].prev, bl |-> reloaded[k].bl, vdur |-> TRUE, tdur |-> TRUE]]
  /\ allowed' = c /\ cflushed' = c /\ cdurable' = c
  /\ everPre' = everPre \cup {<<c + k, reloaded[k].alh>> : k \in 1..Len(reloaded)}
  /\ UNCHANGED <<synced, extAllow, committed, hist, acked, cont, seen, cut>>

-----------------------------------------------------------------------------
(* Crash durability (C03).  `r` describes what the real recovery code made of a crash image taken at  *)
(* this instant of the execution: r.c recovered committed frontier, r.alhs the recovered accumulated    *)
(* hashes 1..c, and what the driver measured on the recovered store.                                    *)
RecoveredVerdict(r) ==
  [opens     |-> r.openOk,
   \* everything that was made visible as committed (hence every acknowledged commit) is still there, identical
   survives  |-> (~synced) \/ (r.c >= committed /\ \A id \in 1..committed : r.alhs[id] = hist[id] /\ r.contentOk),
   \* the rest is a gap-free chained extension by transactions that were really precommitted
   extension |-> r.chainOk /\ \A id \in 1..r.c : id > committed => <<id, r.alhs[id]>> \in everPre,
   values    |-> r.extraValuesOk,
   proofs    |-> r.proofOk,
   index     |-> r.indexOk,
   accepts   |-> r.commitOk]
VerdictOk(v) == v.opens /\ v.survives /\ v.extension /\ v.values /\ v.proofs /\ v.index /\ v.accepts

-----------------------------------------------------------------------------
(* Invariants (C02): dense immutable history, chained hashes, frontier order *)
FrontierOrder == committed <= InmemPre /\ committed = Len(hist) /\ cdurable <= cflushed
HistIsLogPrefix == open => \A n \in 1..committed : log[n].alh = hist[n]
Chained == \A n \in 1..InmemPre : log[n].prev = AlhAt(n - 1) /\ log[n].bl < n
AckedCommitted == \A id \in acked : id <= committed
DurableWhenCommitted == (synced /\ open) => \A n \in 1..committed : log[n].vdur /\ log[n].tdur
StoreInv == FrontierOrder /\ HistIsLogPrefix /\ Chained /\ AckedCommitted /\ DurableWhenCommitted
\* action property: the committed history only grows
AppendOnly == [][Len(hist') >= Len(hist) /\ SubSeq(hist', 1, Len(hist)) = hist]_vars
=============================================================================
