------------------------------- MODULE Codec -------------------------------
(***************************************************************************)
(* Property C15 - codecs round-trip, key encodings preserve the SQL order. *)
(*                                                                         *)
(* Enumeration module (no behaviours).  It contributes                     *)
(*   - the partition of every SQL value domain into boundary classes,      *)
(*   - the SQL order on the classes (NULL first; members of a sampled      *)
(*     class are ordered by their index k),                                *)
(*   - for strings/blobs the COMPLETE set of strings over a three-symbol   *)
(*     alphabet {NUL, mid, 0xFF} up to the declared length (and the        *)
(*     over-long ones), ordered bytewise by the module itself,             *)
(*   - composite keys (lexicographic by column),                           *)
(*   - every pair (and, for composite keys, every triple) with the         *)
(*     expected relation,                                                  *)
(*   - for the structural codecs every field-presence combination with     *)
(*     the expected outcome (round-trip / encoder must refuse),            *)
(*   - for every length-bounded field the lengths 0, 1, max-1, max, max+1  *)
(*     with the expected outcome (round-trip through every decoder and     *)
(*     through a real store / engine, or refused by the encoder).          *)
(* It is NOT a proof about bit patterns: the Go harness (cmd/c15) maps     *)
(* every abstract value to several concrete values, calls the real         *)
(* encoders/decoders and compares with the relation printed here.          *)
(*                                                                         *)
(* Laws (checked by the harness against the real code, per pair v, w):     *)
(*   RoundTrip :  Decode(Encode(v)) = v                                    *)
(*   Order     :  Rel(v, w) = -1  <=>  Enc(v) <_bytes Enc(w)               *)
(*   Equality  :  Rel(v, w) =  0  <=>  Enc(v) = Enc(w)                     *)
(*   SQLCmp    :  the engine's own Compare(v, w) = Rel(v, w)               *)
(***************************************************************************)
EXTENDS Integers, Sequences, FiniteSets, TLC, Json, SequencesExt

CONSTANTS OutFile,    \* JSON file written by TLC
          MaxLen,     \* declared length of the VARCHAR / BLOB column in abstract symbols
          TripleCap   \* triples are enumerated over the first TripleCap tuples of each composite key

-----------------------------------------------------------------------------
(* Scalar types: a class is <<name, rank, members>>.  rank is the position *)
(* in the SQL order; two classes with the same rank are SQL-equal (only    *)
(* -0 and +0).  members > 1: a sampled class, the harness draws that many  *)
(* members and sorts them; member k is the k-th smallest.                  *)
NullClass == <<"NULL", 0, 1>>

IntClasses == << <<"min", 1, 1>>, <<"min+1", 2, 1>>, <<"neg", 3, 3>>, <<"-2", 4, 1>>, <<"-1", 5, 1>>,
                 <<"0", 6, 1>>, <<"1", 7, 1>>, <<"2", 8, 1>>, <<"pos", 9, 3>>, <<"max-1", 10, 1>>, <<"max", 11, 1>> >>

FloatClasses == << <<"-inf", 1, 1>>, <<"-max", 2, 1>>, <<"neg", 3, 3>>, <<"-1", 4, 1>>, <<"negfrac", 5, 2>>,
                   <<"-minnormal", 6, 1>>, <<"-maxdenormal", 7, 1>>, <<"negdenormal", 8, 2>>, <<"-mindenormal", 9, 1>>,
                   <<"-0", 10, 1>>, <<"+0", 10, 1>>,
                   <<"+mindenormal", 11, 1>>, <<"posdenormal", 12, 2>>, <<"+maxdenormal", 13, 1>>, <<"+minnormal", 14, 1>>,
                   <<"posfrac", 15, 2>>, <<"+1", 16, 1>>, <<"pos", 17, 3>>, <<"+max", 18, 1>>, <<"+inf", 19, 1>> >>

\* SQL timestamps have microsecond precision.  "far" classes lie outside the range of a 64-bit
\* nanosecond counter (years < 1678 or > 2262) but inside the range of the microsecond row encoding.
TsClasses == << <<"farpast", 1, 2>>, <<"minns", 2, 1>>, <<"pre1970", 3, 3>>, <<"epoch-1s", 4, 1>>, <<"epoch-1us", 5, 1>>,
                <<"epoch", 6, 1>>, <<"epoch+1us", 7, 1>>, <<"epoch+1s", 8, 1>>, <<"post1970us", 9, 3>>, <<"maxns", 10, 1>>,
                <<"farfuture", 11, 2>> >>

UuidClasses == << <<"zero", 1, 1>>, <<"one", 2, 1>>, <<"low", 3, 3>>, <<"7fff", 4, 1>>, <<"8000", 5, 1>>,
                  <<"high", 6, 3>>, <<"max-1", 7, 1>>, <<"max", 8, 1>> >>

BoolClasses == << <<"false", 1, 1>>, <<"true", 2, 1>> >>

ScalarTypes == << <<"INTEGER", IntClasses>>, <<"FLOAT", FloatClasses>>, <<"TIMESTAMP", TsClasses>>,
                  <<"UUID", UuidClasses>>, <<"BOOLEAN", BoolClasses>> >>

Expand(cls) == [k \in 1..cls[3] |-> [c |-> cls[1], r |-> cls[2], k |-> k]]
ValuesOf(classes) == FoldLeft(LAMBDA acc, cls : acc \o Expand(cls), Expand(NullClass), classes)

Cmp(x, y) == IF x < y THEN -1 ELSE IF x > y THEN 1 ELSE 0
RelScalar(a, b) == IF a.r # b.r THEN Cmp(a.r, b.r) ELSE Cmp(a.k, b.k)

\* row-major n x n matrix of <<i, j, rel(i, j)>>; rel works on indices so that value lists are looked up in
\* memo tables (zero-arity definitions, which TLC evaluates once) and never recomputed per pair
AllPairs(n, rel(_, _)) ==
  [p \in 1..(n * n) |-> LET i == ((p - 1) \div n) + 1  j == ((p - 1) % n) + 1 IN <<i, j, rel(i, j)>>]

ScalarValsDef == [i \in 1..Len(ScalarTypes) |-> ValuesOf(ScalarTypes[i][2])]
ScalarVals == TLCGet(10)
ScalarOut(i) == [t |-> ScalarTypes[i][1], vals |-> ScalarVals[i],
                 pairs |-> AllPairs(Len(ScalarVals[i]), LAMBDA a, b : RelScalar(ScalarVals[i][a], ScalarVals[i][b]))]

-----------------------------------------------------------------------------
(* Strings / blobs: every sequence over {0, 1, 2} (0 = NUL, 1 = a byte in   *)
(* 0x01..0xFE, 2 = 0xFF) of length <= MaxLen is a valid value; length       *)
(* MaxLen + 1 must be refused by the key encoder.  The order is bytewise    *)
(* lexicographic (a proper prefix is smaller), decided here.                *)
Alphabet == 0..2
RECURSIVE StrsOfLen(_)
StrsOfLen(n) == IF n = 0 THEN {<<>>} ELSE {Append(s, x) : s \in StrsOfLen(n - 1), x \in Alphabet}
RECURSIVE LexCmp(_, _)
LexCmp(s, t) == IF s = <<>> THEN (IF t = <<>> THEN 0 ELSE -1)
                ELSE IF t = <<>> THEN 1
                ELSE IF Head(s) # Head(t) THEN Cmp(Head(s), Head(t))
                ELSE LexCmp(Tail(s), Tail(t))
ValidStrs == UNION {StrsOfLen(n) : n \in 0..MaxLen}
\* the over-long ones: all-NUL, all-0xFF, and a valid maximal string extended by each symbol
TooLong == {[i \in 1..(MaxLen + 1) |-> x] : x \in Alphabet} \cup {Append([i \in 1..MaxLen |-> 1], x) : x \in Alphabet}
StrVals == <<[null |-> TRUE, s |-> <<>>, valid |-> TRUE]>>
           \o SetToSeq({[null |-> FALSE, s |-> s, valid |-> TRUE] : s \in ValidStrs})
           \o SetToSeq({[null |-> FALSE, s |-> s, valid |-> FALSE] : s \in TooLong})
RelStr(a, b) == IF a.null \/ b.null THEN Cmp(IF a.null THEN 0 ELSE 1, IF b.null THEN 0 ELSE 1) ELSE LexCmp(a.s, b.s)
ValidStrValsDef == SelectSeq(StrVals, LAMBDA v : v.valid)
ValidStrVals == TLCGet(11)
\* pairs are over the valid values only (indices into "vals", whose valid ones come first)
StrOut == [maxLen |-> MaxLen, vals |-> ValidStrVals \o SelectSeq(StrVals, LAMBDA v : ~v.valid), nvalid |-> Len(ValidStrVals), pairs |-> AllPairs(Len(ValidStrVals), LAMBDA a, b : RelStr(ValidStrVals[a], ValidStrVals[b]))]

-----------------------------------------------------------------------------
(* Composite keys: tuples over reduced per-column value lists, ordered      *)
(* lexicographically by column; all pairs; triples over the first TripleCap *)
(* tuples with the three pairwise relations (transitivity is then a fact    *)
(* about the printed relation, asserted below).                             *)
Pick(vals, names) == SelectSeq(vals, LAMBDA v : <<v.c, v.k>> \in names)
IntCol == Pick(ValuesOf(IntClasses), {<<"NULL", 1>>, <<"min", 1>>, <<"-1", 1>>, <<"0", 1>>, <<"1", 1>>, <<"max", 1>>})
FloatCol == Pick(ValuesOf(FloatClasses), {<<"NULL", 1>>, <<"-inf", 1>>, <<"-1", 1>>, <<"-mindenormal", 1>>, <<"+0", 1>>, <<"+1", 1>>, <<"+inf", 1>>})
BoolCol == ValuesOf(BoolClasses)
StrCol == SelectSeq(ValidStrVals, LAMBDA v : v.null \/ v.s \in {<<>>, <<0>>, <<1>>, <<1, 0>>, <<1, 1>>, <<2>>, [i \in 1..MaxLen |-> 2]})

\* (a zero-arity definition: TLC evaluates it once, so it works as a memo table)
ColValsTabDef == [t \in {"INTEGER", "FLOAT", "BOOLEAN", "VARCHAR", "BLOB"} |->
                 CASE t = "INTEGER" -> IntCol [] t = "FLOAT" -> FloatCol [] t = "BOOLEAN" -> BoolCol [] t = "VARCHAR" -> StrCol [] t = "BLOB" -> StrCol]
ColValsTab == TLCGet(12)
ColVals(t) == ColValsTab[t]
ColRel(t, a, b) == IF t \in {"VARCHAR", "BLOB"} THEN RelStr(a, b) ELSE RelScalar(a, b)

CompositeKeys == << <<"INTEGER", "VARCHAR">>, <<"VARCHAR", "INTEGER">>, <<"VARCHAR", "BLOB">>, <<"BOOLEAN", "FLOAT">>,
                    <<"VARCHAR", "BOOLEAN", "INTEGER">> >>

RECURSIVE TupleIdx(_, _)
\* all index tuples <<i1, .., in>> with ij in 1..Len(ColVals(cols[j])), as a sequence
TupleIdx(cols, j) == IF j > Len(cols) THEN <<<<>>>>
                     ELSE LET rest == TupleIdx(cols, j + 1)
                              n == Len(ColVals(cols[j]))
                          IN [p \in 1..(n * Len(rest)) |-> <<((p - 1) \div Len(rest)) + 1>> \o rest[((p - 1) % Len(rest)) + 1]]
RECURSIVE RelTuple(_, _, _, _)
RelTuple(cols, a, b, j) == IF j > Len(cols) THEN 0
                           ELSE LET r == ColRel(cols[j], ColVals(cols[j])[a[j]], ColVals(cols[j])[b[j]])
                                IN IF r # 0 THEN r ELSE RelTuple(cols, a, b, j + 1)
TuplesDef == [i \in 1..Len(CompositeKeys) |-> TupleIdx(CompositeKeys[i], 1)]
Tuples == TLCGet(13)
CompositeOut(i) ==
  LET cols == CompositeKeys[i]
      nt == Len(Tuples[i])
      rel(a, b) == RelTuple(cols, Tuples[i][a], Tuples[i][b], 1)
      m == IF nt < TripleCap THEN nt ELSE TripleCap
      \* a spread of m tuples (every stride-th) so that triples see all columns vary
      stride == IF nt \div m < 1 THEN 1 ELSE nt \div m
      tri == [p \in 1..(m * m * m) |->
                LET a == ((((p - 1) \div (m * m))) * stride) + 1
                    b == ((((p - 1) \div m) % m) * stride) + 1
                    c == (((p - 1) % m) * stride) + 1
                IN <<a, b, c, rel(a, b), rel(b, c), rel(a, c)>>]
  IN [cols |-> cols, colvals |-> [j \in 1..Len(cols) |-> ColVals(cols[j])], tuples |-> Tuples[i],
      pairs |-> AllPairs(nt, rel), triples |-> tri]

\* facts about the printed relation itself (decided by TLC over everything enumerated)
\* pairs is the row-major n x n matrix produced by AllPairs: the entry for (j, i) is at (j - 1) * n + i
Antisym(pairs, n) == \A p \in 1..(n * n) : LET q == pairs[(pairs[p][2] - 1) * n + pairs[p][1]]
                                          IN q[1] = pairs[p][2] /\ q[2] = pairs[p][1] /\ q[3] = 0 - pairs[p][3]
Transitive(tri) == \A t \in Range(tri) : (t[4] <= 0 /\ t[5] <= 0) => (t[6] <= 0 /\ ((t[4] < 0 \/ t[5] < 0) => t[6] < 0))

-----------------------------------------------------------------------------
(* Structural codecs: every field-presence combination.                     *)
(*   expect = "roundtrip"    : Bytes() then ReadFrom() gives an equal value *)
(*   expect = "encode-error" : the encoder must refuse (v0 header + metadata)*)
TruncClasses == {"absent", "one", "mid", "max"}       \* TxMetadata.truncatedTxID (0 is not a tx id)
ExtraClasses == {"absent", "len1", "mid", "len255", "len256"}   \* TxMetadata.extra: 1..256 bytes (maxExtraLen = 256)
TxMd == {[trunc |-> t, extra |-> e] : t \in TruncClasses, e \in ExtraClasses}
TxMdEmpty(m) == m.trunc = "absent" /\ m.extra = "absent"

ExpClasses == {"absent", "before1970", "epoch", "mid", "far"}   \* KVMetadata.expiresAt, whole seconds
KvMd == {[deleted |-> d, expires |-> x, nonIndexable |-> n] : d \in BOOLEAN, x \in ExpClasses, n \in BOOLEAN}
KvMdEmpty(m) == ~m.deleted /\ m.expires = "absent" /\ ~m.nonIndexable

\* TxHeader: version x metadata x number of entries x id / blTxID / ts classes
NEntClasses(ver) == IF ver = 0 THEN {"1", "2", "65535"} ELSE {"1", "2", "65535", "65536", "maxint32"}
Hdr == {[ver |-> v, md |-> m, nentries |-> n, id |-> i, bl |-> b, ts |-> t] :
          v \in {0, 1}, m \in TxMd \cup {[trunc |-> "nil", extra |-> "nil"]}, n \in NEntClasses(1),
          i \in {"1", "mid", "max"}, b \in {"0", "id-1"}, t \in {"0", "negative", "now"}}
HdrInDomain(h) == h.nentries \in NEntClasses(h.ver)
HdrExpect(h) == IF h.ver = 0 /\ h.md.trunc # "nil" /\ ~TxMdEmpty(h.md) THEN "encode-error" ELSE "roundtrip"
Hdrs == {[h |-> h, expect |-> HdrExpect(h)] : h \in {x \in Hdr : HdrInDomain(x)}}

\* exported transaction (store.ExportTx -> store.ReplicateTx on a second store -> ReadTx):
\* entry lists of 1..3 entries, each with key length class, value length class and entry metadata;
\* tx metadata; with all values present or all truncated away.
ValClasses == {"empty", "one", "mid"}
ExpEntry == {[klen |-> kl, vlen |-> vl, md |-> m] : kl \in {"1", "mid"}, vl \in ValClasses,
               m \in {[deleted |-> FALSE, expires |-> "absent", nonIndexable |-> FALSE],
                      [deleted |-> TRUE, expires |-> "absent", nonIndexable |-> FALSE],
                      [deleted |-> FALSE, expires |-> "far", nonIndexable |-> TRUE],
                      [deleted |-> TRUE, expires |-> "far", nonIndexable |-> TRUE]}}
ExpEntrySeq == {<<e>> : e \in ExpEntry}
               \cup {<<e, f>> : e \in {x \in ExpEntry : x.klen = "1"}, f \in {x \in ExpEntry : x.vlen = "mid"}}
               \cup {<<e, e, e>> : e \in {x \in ExpEntry : x.vlen = "one" /\ x.klen = "mid"}}
Exports == {[entries |-> es, extra |-> x, truncated |-> FALSE] : es \in ExpEntrySeq, x \in {"absent", "len1", "len256"}}
           \cup {[entries |-> es, extra |-> "absent", truncated |-> TRUE] : es \in {s \in ExpEntrySeq : \A q \in 1..Len(s) : s[q].vlen # "empty"}}

\* Length-bounded fields: every field whose length is limited (by a constant of the format, a store option or a
\* declared column length) is taken through the lengths 0, 1, max-1, max and max+1.  max+1 must be refused by the
\* encoder / constructor / commit; an empty key and a transaction without entries must be refused as well; every other
\* length must round-trip - through Bytes/ReadFrom where the codec is a pure function AND through a real store:
\* commit, ReadTxHeader, ReadTx, ReadValue, index read, ExportTx -> ReplicateTx (SQL / document values: insert, read
\* back by primary key and through the index).  What an encoder accepted, every decoder must read.
\*   "txmd.extra+truncatedTxID" is the metadata record of maximal length (both attributes present).
LenClasses == {"0", "1", "max-1", "max", "max+1"}
BoundedFields == {"txmd.extra", "txmd.extra+truncatedTxID", "store.key", "store.value", "store.entries",
                  "sql.varchar", "sql.blob", "sql.varchar.indexed", "sql.blob.indexed", "doc.string.indexed"}
BoundExpect(f, c) == IF c = "max+1" THEN "refuse"
                     ELSE IF c = "0" /\ f \in {"store.key", "store.entries"} THEN "refuse"
                     ELSE "roundtrip"
Bounds == {[field |-> f, len |-> c, expect |-> BoundExpect(f, c)] : f \in BoundedFields, c \in LenClasses}

\* SQL rows: one column per type, every NULL / NOT NULL presence pattern; the non-NULL value is one
\* of two representatives of the type ("lo" = smallest class, "hi" = largest class / longest string).
RowTypes == <<"INTEGER", "FLOAT", "TIMESTAMP", "UUID", "BOOLEAN", "VARCHAR", "BLOB">>
Rows == {[cols |-> p] : p \in [1..Len(RowTypes) -> {"NULL", "lo", "hi"}]}
\* (the nullable single-value codec used by the sort spill files is run on every scalar and string value above)
-----------------------------------------------------------------------------
\* The big tables are computed once and parked in TLC registers (operator arguments are evaluated by name,
\* so referring to the defining expressions again would recompute them for every pair).
ScalarsDef == [i \in 1..Len(ScalarTypes) |-> ScalarOut(i)]
CompositesDef == [i \in 1..Len(CompositeKeys) |-> CompositeOut(i)]
Scalars == TLCGet(1)
Strs == TLCGet(2)
Composites == TLCGet(3)

Facts ==
  /\ PrintT(<<"ScalarAntisym", \A i \in 1..Len(Scalars) : Antisym(Scalars[i].pairs, Len(Scalars[i].vals))>>)
  /\ PrintT(<<"StrAntisym", Antisym(Strs.pairs, Strs.nvalid)>>)
  /\ PrintT(<<"StrPrefixSmaller", \A s \in ValidStrs : \A x \in Alphabet : Len(s) < MaxLen => LexCmp(s, Append(s, x)) = -1>>)
  /\ PrintT(<<"CompositeAntisym", \A i \in 1..Len(Composites) : Antisym(Composites[i].pairs, Len(Composites[i].tuples))>>)
  /\ PrintT(<<"CompositeTransitive", \A i \in 1..Len(Composites) : Transitive(Composites[i].triples)>>)
  /\ PrintT(<<"counts", "scalar-values", [i \in 1..Len(Scalars) |-> Len(Scalars[i].vals)],
              "scalar-pairs", [i \in 1..Len(Scalars) |-> Len(Scalars[i].pairs)],
              "string-values", Len(StrVals), "string-pairs", Len(Strs.pairs),
              "composite-tuples", [i \in 1..Len(Composites) |-> Len(Composites[i].tuples)],
              "composite-pairs", [i \in 1..Len(Composites) |-> Len(Composites[i].pairs)],
              "composite-triples", [i \in 1..Len(Composites) |-> Len(Composites[i].triples)],
              "txmd", Cardinality(TxMd), "kvmd", Cardinality(KvMd), "hdr", Cardinality(Hdrs),
              "hdr-encode-error", Cardinality({h \in Hdrs : h.expect = "encode-error"}),
              "exports", Cardinality(Exports), "rows", Cardinality(Rows), "bounds", Cardinality(Bounds),
              "bounds-refuse", Cardinality({b \in Bounds : b.expect = "refuse"})>>)

ASSUME /\ TLCSet(10, ScalarValsDef) /\ TLCSet(11, ValidStrValsDef) /\ TLCSet(12, ColValsTabDef) /\ TLCSet(13, TuplesDef)
       /\ TLCSet(1, ScalarsDef) /\ TLCSet(2, StrOut) /\ TLCSet(3, CompositesDef)
       /\ Facts
       /\ JsonSerialize(OutFile,
            [maxLen |-> MaxLen, scalars |-> Scalars, strings |-> Strs, composites |-> Composites,
             txmd |-> SetToSeq(TxMd), kvmd |-> SetToSeq(KvMd), hdrs |-> SetToSeq(Hdrs),
             exports |-> SetToSeq(Exports), rowTypes |-> RowTypes, rows |-> SetToSeq(Rows), bounds |-> SetToSeq(Bounds)])

VARIABLE x
Init == x = 0
Next == x < 1 /\ x' = x + 1
=============================================================================
